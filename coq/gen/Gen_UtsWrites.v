(* regenerated on every run by harness/cmd/translate (utswrites) from core/task
   updateTaskStatus, case TASK_RUNNING: (field written, write guarded by "the update carries that id");
   fields: 1 status, 2 agentId, 3 executorId, 4 parent, 5 state, 9 other *)
From Coq Require Import List NArith.
Import ListNotations.
Open Scope N_scope.

Definition uts_running_writes : list (N * bool) := [(1, false); (2, true); (3, true)].
