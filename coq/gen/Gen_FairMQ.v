(* regenerated on every run by harness/cmd/translate (fairmq) from
   the string constants of package executor/executorcmd/transitioner/fairmq (go/types),
   the O2 <-> FairMQ state tables as built by NewFairMQTransitioner and applied by the running
   code (h16 -statemap; inverse table checked to be the converse of this one) and
   executor/protos/occ.pb.go (StateChangeTrigger).  Do not edit. *)
From Verif Require Import Common.
Open Scope N_scope.
(* package fairmq: state names *)
Definition fmq_OK : str := [79;75]. (* "OK" *)
Definition fmq_ERROR : str := [69;82;82;79;82]. (* "ERROR" *)
Definition fmq_IDLE : str := [73;68;76;69]. (* "IDLE" *)
Definition fmq_INITIALIZING_DEVICE : str := [73;78;73;84;73;65;76;73;90;73;78;71;32;68;69;86;73;67;69]. (* "INITIALIZING DEVICE" *)
Definition fmq_INITIALIZED : str := [73;78;73;84;73;65;76;73;90;69;68]. (* "INITIALIZED" *)
Definition fmq_BOUND : str := [66;79;85;78;68]. (* "BOUND" *)
Definition fmq_DEVICE_READY : str := [68;69;86;73;67;69;32;82;69;65;68;89]. (* "DEVICE READY" *)
Definition fmq_READY : str := [82;69;65;68;89]. (* "READY" *)
Definition fmq_RUNNING : str := [82;85;78;78;73;78;71]. (* "RUNNING" *)
Definition fmq_EXITING : str := [69;88;73;84;73;78;71]. (* "EXITING" *)
(* package fairmq: transition names *)
Definition evt_AUTO : str := [65;117;116;111]. (* "Auto" *)
Definition evt_INIT_DEVICE : str := [73;78;73;84;32;68;69;86;73;67;69]. (* "INIT DEVICE" *)
Definition evt_COMPLETE_INIT : str := [67;79;77;80;76;69;84;69;32;73;78;73;84]. (* "COMPLETE INIT" *)
Definition evt_BIND : str := [66;73;78;68]. (* "BIND" *)
Definition evt_CONNECT : str := [67;79;78;78;69;67;84]. (* "CONNECT" *)
Definition evt_INIT_TASK : str := [73;78;73;84;32;84;65;83;75]. (* "INIT TASK" *)
Definition evt_RUN : str := [82;85;78]. (* "RUN" *)
Definition evt_STOP : str := [83;84;79;80]. (* "STOP" *)
Definition evt_RESET_TASK : str := [82;69;83;69;84;32;84;65;83;75]. (* "RESET TASK" *)
Definition evt_RESET_DEVICE : str := [82;69;83;69;84;32;68;69;86;73;67;69]. (* "RESET DEVICE" *)
Definition evt_END : str := [69;78;68]. (* "END" *)
(* O2 state -> FairMQ state, sorted by key *)
Definition state_map : list (str * str) := [
  ([67;79;78;70;73;71;85;82;69;68], fmq_READY); (* "CONFIGURED": fairmq.READY *)
  ([68;79;78;69], fmq_EXITING); (* "DONE": fairmq.EXITING *)
  ([69;82;82;79;82], fmq_ERROR); (* "ERROR": fairmq.ERROR *)
  ([82;85;78;78;73;78;71], fmq_RUNNING); (* "RUNNING": fairmq.RUNNING *)
  ([83;84;65;78;68;66;89], fmq_IDLE) (* "STANDBY": fairmq.IDLE *)
].
(* occ.pb.go *)
Definition trigger_EXECUTOR : N := 0.
Definition trigger_DEVICE_INTENTIONAL : N := 1.
Definition trigger_DEVICE_ERROR : N := 2.
