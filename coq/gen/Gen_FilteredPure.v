(* regenerated on every run by harness/cmd/h02 -gen: Tasks.Filtered (core/task/tasks.go) probed on every
   slice of 0..5 distinct tasks with every subset as the filter.  filtered_probe_cases: calls made;
   filtered_receiver_changed: calls after which the receiver was no longer what it was;
   filtered_wrong_result: calls whose result was not the matching tasks in order;
   filtered_aliases_receiver: calls whose result shares the receiver's backing array (appending to
   the result writes the receiver).  The roster's filters pass the roster's own slice. *)
From Verif Require Import Common.
Open Scope N_scope.
Definition filtered_probe_cases : N := 63.
Definition filtered_receiver_changed : N := 0.
Definition filtered_wrong_result : N := 0.
Definition filtered_aliases_receiver : N := 0.
