(* regenerated on every run by `h14 -gen` from the running code of
   configuration/template/fields.go (Sequence.Execute / VarStack.consolidated):
   for every executed stage, which of the sources
   [own defaults; own vars; own user vars; parent defaults; parent vars; parent user vars; locals]
   a field of that stage can see *)
From Verif Require Import Common.
Open Scope N_scope.
Definition stage_rows : list (N * list bool) := [
  (0, [false; false; false; true; true; true; true]);
  (1, [false; false; false; true; true; true; true]);
  (2, [true; false; false; true; true; true; true]);
  (3, [true; true; false; true; true; true; true]);
  (4, [true; true; true; true; true; true; true]);
  (5, [true; true; true; true; true; true; true])
].
Definition stage_count : N := 6.
