(* regenerated on every run by harness/cmd/translate (pendreg) from core/environment Environment.handleHooks:
   a fresh per-trigger map of pending calls is stored only when the trigger has none (or an empty one) *)
Definition reg_fresh_only_when_empty : bool := true.
