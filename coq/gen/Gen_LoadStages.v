(* regenerated on every run by harness/cmd/translate (loadstages) from the template.Sequence
   literals of core/workflow/{taskrole,callrole,aggregatorrole}.go:ProcessTemplates, the stage
   constants of configuration/template/fields.go and roleutils.go:MakeDisabledRoleCallback.
   Role kinds: 0 task, 1 call, 2 aggregator; per kind: (stage, fields processed in it). *)
From Verif Require Import Common.
Open Scope N_scope.
Definition load_stage_table : list (N * list (N * list str)) := [
  (0, [
    (0, [[69;110;97;98;108;101;100]]); (* Enabled *)
    (1, [[68;101;102;97;117;108;116;115]]); (* Defaults *)
    (2, [[86;97;114;115]]); (* Vars *)
    (3, [[85;115;101;114;86;97;114;115]]); (* UserVars *)
    (4, [[78;97;109;101]; [76;111;97;100;84;97;115;107;67;108;97;115;115]; [84;105;109;101;111;117;116]; [84;114;105;103;103;101;114]; [65;119;97;105;116]]); (* Name LoadTaskClass Timeout Trigger Await *)
    (5, [[67;111;110;115;116;114;97;105;110;116;115]; [66;105;110;100;67;111;110;110;101;99;116]]) (* Constraints BindConnect *)
  ]);
  (1, [
    (0, [[69;110;97;98;108;101;100]]); (* Enabled *)
    (1, [[68;101;102;97;117;108;116;115]]); (* Defaults *)
    (2, [[86;97;114;115]]); (* Vars *)
    (3, [[85;115;101;114;86;97;114;115]]); (* UserVars *)
    (4, [[78;97;109;101]; [70;117;110;99;67;97;108;108]; [82;101;116;117;114;110;86;97;114]; [84;105;109;101;111;117;116]; [84;114;105;103;103;101;114]; [65;119;97;105;116]]); (* Name FuncCall ReturnVar Timeout Trigger Await *)
    (5, [[67;111;110;115;116;114;97;105;110;116;115]; [66;105;110;100;67;111;110;110;101;99;116]; [69;110;97;98;108;101;100]]) (* Constraints BindConnect Enabled *)
  ]);
  (2, [
    (0, [[69;110;97;98;108;101;100]]); (* Enabled *)
    (1, [[68;101;102;97;117;108;116;115]]); (* Defaults *)
    (2, [[86;97;114;115]]); (* Vars *)
    (3, [[85;115;101;114;86;97;114;115]]); (* UserVars *)
    (4, [[78;97;109;101]]); (* Name *)
    (5, [[67;111;110;115;116;114;97;105;110;116;115]; [66;105;110;100;67;111;110;110;101;99;116]]) (* Constraints BindConnect *)
  ])
].
Definition load_stage_count : N := 6.
Definition load_disabled_check_stage : N := 0.
