(* regenerated on every run by harness/cmd/translate (cfgbackends) from
   configuration/cfgbackend/consulsource.go: Consul KV calls made by ConsulSource.Exists: Get *)
From Verif Require Import Common.
Open Scope N_scope.
(* Exists asks Consul for the key itself (KV.Get), not for a listing (prefix semantics) *)
Definition consul_exists_by_get : bool := true.
