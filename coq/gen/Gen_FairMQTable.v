(* regenerated on every run by `h16 -gen`: exhaustive enumeration, on the running Go code
   (executor.handleMessageEvent -> ControllableTask.UnmarshalTransition/Transition ->
   ExecutorCommand_Transition.Commit ->
   transitioner.Commit -> RpcClient.doTransition against the simulated device; observed: the
   state/error of the MESSAGE payload sent to the core), of every (mode, event, source state, strictness) and, as a prefix tree, every outcome
   script: one outcome per request that is actually issued.  Do not edit. *)
From Verif Require Import Common FairMQ.
Open Scope N_scope.
Definition p0 : str := [83;84;65;82;84]. (* "START" *)
Definition p1 : str := [83;84;65;78;68;66;89]. (* "STANDBY" *)
Definition p2 : str := [82;85;78;78;73;78;71]. (* "RUNNING" *)
Definition p3 : str := [73;68;76;69]. (* "IDLE" *)
Definition p4 : str := [82;85;78]. (* "RUN" *)
Definition p5 : str := [67;79;78;70;73;71;85;82;69;68]. (* "CONFIGURED" *)
Definition p6 : str := [82;69;65;68;89]. (* "READY" *)
Definition p7 : str := [69;82;82;79;82]. (* "ERROR" *)
Definition p8 : str := [68;79;78;69]. (* "DONE" *)
Definition p9 : str := [69;88;73;84;73;78;71]. (* "EXITING" *)
Definition p10 : str := [83;84;79;80]. (* "STOP" *)
Definition p11 : str := [67;79;78;70;73;71;85;82;69]. (* "CONFIGURE" *)
Definition p12 : str := [73;78;73;84;32;68;69;86;73;67;69]. (* "INIT DEVICE" *)
Definition p13 : str := [73;78;73;84;73;65;76;73;90;73;78;71;32;68;69;86;73;67;69]. (* "INITIALIZING DEVICE" *)
Definition p14 : str := [67;79;77;80;76;69;84;69;32;73;78;73;84]. (* "COMPLETE INIT" *)
Definition p15 : str := [73;78;73;84;73;65;76;73;90;69;68]. (* "INITIALIZED" *)
Definition p16 : str := [66;73;78;68]. (* "BIND" *)
Definition p17 : str := [66;79;85;78;68]. (* "BOUND" *)
Definition p18 : str := [67;79;78;78;69;67;84]. (* "CONNECT" *)
Definition p19 : str := [68;69;86;73;67;69;32;82;69;65;68;89]. (* "DEVICE READY" *)
Definition p20 : str := [73;78;73;84;32;84;65;83;75]. (* "INIT TASK" *)
Definition p21 : str := [82;69;83;69;84;32;68;69;86;73;67;69]. (* "RESET DEVICE" *)
Definition p22 : str := [82;69;83;69;84]. (* "RESET" *)
Definition p23 : str := [82;69;83;69;84;32;84;65;83;75]. (* "RESET TASK" *)
Definition p24 : str := [69;88;73;84]. (* "EXIT" *)
Definition p25 : str := [69;78;68]. (* "END" *)
Definition p26 : str := [82;69;67;79;86;69;82]. (* "RECOVER" *)
Definition p27 : str := [71;79;95;69;82;82;79;82]. (* "GO_ERROR" *)
Definition p28 : str := [66;79;71;85;83]. (* "BOGUS" *)
(* 160 roots, 930 tree nodes, 776 leaves (complete executions) *)
Definition fmq_table : list (root * otree) := [
  ((Root 1 false p0 p1 p2 1 p3),
   Node (EI p4 p3 p2 1) p3 [(p3, false, Leaf p1 true p3); (p3, false, Leaf p1 true p3); (p3, false, Leaf p1 true p3); (p3, true, Leaf [] true p3); (p3, false, Leaf p1 true p3)]);
  ((Root 1 true p0 p1 p2 1 p3),
   Node (EI p4 p3 p2 1) p3 [(p3, false, Leaf p1 true p3); (p3, false, Leaf p1 true p3); (p3, false, Leaf p1 true p3); (p3, true, Leaf [] true p3); (p3, false, Leaf p1 true p3)]);
  ((Root 1 false p0 p5 p2 1 p6),
   Node (EI p4 p6 p2 1) p6 [(p2, false, Leaf p2 false p2); (p6, false, Leaf p5 true p6); (p7, false, Leaf p7 true p7); (p6, true, Leaf [] true p6); (p2, true, Leaf [] true p2)]);
  ((Root 1 true p0 p5 p2 1 p6),
   Node (EI p4 p6 p2 1) p6 [(p2, false, Leaf p2 false p2); (p6, false, Leaf p5 true p6); (p7, false, Leaf p7 true p7); (p6, true, Leaf [] true p6); (p2, true, Leaf [] true p2)]);
  ((Root 1 false p0 p2 p2 1 p2),
   Node (EI p4 p2 p2 1) p2 [(p2, false, Leaf p2 false p2); (p2, false, Leaf p2 false p2); (p2, false, Leaf p2 false p2); (p2, true, Leaf [] true p2); (p2, false, Leaf p2 false p2)]);
  ((Root 1 true p0 p2 p2 1 p2),
   Node (EI p4 p2 p2 1) p2 [(p2, false, Leaf p2 false p2); (p2, false, Leaf p2 false p2); (p2, false, Leaf p2 false p2); (p2, true, Leaf [] true p2); (p2, false, Leaf p2 false p2)]);
  ((Root 1 false p0 p7 p2 1 p7),
   Node (EI p4 p7 p2 1) p7 [(p7, false, Leaf p7 true p7); (p7, false, Leaf p7 true p7); (p7, false, Leaf p7 true p7); (p7, true, Leaf [] true p7); (p7, false, Leaf p7 true p7)]);
  ((Root 1 true p0 p7 p2 1 p7),
   Node (EI p4 p7 p2 1) p7 [(p7, false, Leaf p7 true p7); (p7, false, Leaf p7 true p7); (p7, false, Leaf p7 true p7); (p7, true, Leaf [] true p7); (p7, false, Leaf p7 true p7)]);
  ((Root 1 false p0 p8 p2 1 p9),
   Node (EI p4 p9 p2 1) p9 [(p9, false, Leaf p8 true p9); (p9, false, Leaf p8 true p9); (p9, false, Leaf p8 true p9); (p9, true, Leaf [] true p9); (p9, false, Leaf p8 true p9)]);
  ((Root 1 true p0 p8 p2 1 p9),
   Node (EI p4 p9 p2 1) p9 [(p9, false, Leaf p8 true p9); (p9, false, Leaf p8 true p9); (p9, false, Leaf p8 true p9); (p9, true, Leaf [] true p9); (p9, false, Leaf p8 true p9)]);
  ((Root 1 false p10 p1 p5 1 p3),
   Node (EI p10 p3 p6 1) p3 [(p3, false, Leaf p1 true p3); (p3, false, Leaf p1 true p3); (p3, false, Leaf p1 true p3); (p3, true, Leaf [] true p3); (p3, false, Leaf p1 true p3)]);
  ((Root 1 true p10 p1 p5 1 p3),
   Node (EI p10 p3 p6 1) p3 [(p3, false, Leaf p1 true p3); (p3, false, Leaf p1 true p3); (p3, false, Leaf p1 true p3); (p3, true, Leaf [] true p3); (p3, false, Leaf p1 true p3)]);
  ((Root 1 false p10 p5 p5 1 p6),
   Node (EI p10 p6 p6 1) p6 [(p6, false, Leaf p5 false p6); (p6, false, Leaf p5 false p6); (p6, false, Leaf p5 false p6); (p6, true, Leaf [] true p6); (p6, false, Leaf p5 false p6)]);
  ((Root 1 true p10 p5 p5 1 p6),
   Node (EI p10 p6 p6 1) p6 [(p6, false, Leaf p5 false p6); (p6, false, Leaf p5 false p6); (p6, false, Leaf p5 false p6); (p6, true, Leaf [] true p6); (p6, false, Leaf p5 false p6)]);
  ((Root 1 false p10 p2 p5 1 p2),
   Node (EI p10 p2 p6 1) p2 [(p6, false, Leaf p5 false p6); (p2, false, Leaf p2 true p2); (p7, false, Leaf p7 true p7); (p2, true, Leaf [] true p2); (p6, true, Leaf [] true p6)]);
  ((Root 1 true p10 p2 p5 1 p2),
   Node (EI p10 p2 p6 1) p2 [(p6, false, Leaf p5 false p6); (p2, false, Leaf p2 true p2); (p7, false, Leaf p7 true p7); (p2, true, Leaf [] true p2); (p6, true, Leaf [] true p6)]);
  ((Root 1 false p10 p7 p5 1 p7),
   Node (EI p10 p7 p6 1) p7 [(p7, false, Leaf p7 true p7); (p7, false, Leaf p7 true p7); (p7, false, Leaf p7 true p7); (p7, true, Leaf [] true p7); (p7, false, Leaf p7 true p7)]);
  ((Root 1 true p10 p7 p5 1 p7),
   Node (EI p10 p7 p6 1) p7 [(p7, false, Leaf p7 true p7); (p7, false, Leaf p7 true p7); (p7, false, Leaf p7 true p7); (p7, true, Leaf [] true p7); (p7, false, Leaf p7 true p7)]);
  ((Root 1 false p10 p8 p5 1 p9),
   Node (EI p10 p9 p6 1) p9 [(p9, false, Leaf p8 true p9); (p9, false, Leaf p8 true p9); (p9, false, Leaf p8 true p9); (p9, true, Leaf [] true p9); (p9, false, Leaf p8 true p9)]);
  ((Root 1 true p10 p8 p5 1 p9),
   Node (EI p10 p9 p6 1) p9 [(p9, false, Leaf p8 true p9); (p9, false, Leaf p8 true p9); (p9, false, Leaf p8 true p9); (p9, true, Leaf [] true p9); (p9, false, Leaf p8 true p9)]);
  ((Root 1 false p11 p1 p5 1 p3),
   Node (EI p12 p3 p13 1) p3 [(p13, false, Node (EI p14 p13 p15 0) p13 [(p15, false, Node (EI p16 p15 p17 0) p15 [(p17, false, Node (EI p18 p17 p19 0) p17 [(p19, false, Node (EI p20 p19 p6 0) p19 [(p6, false, Leaf p5 false p6); (p19, false, Node (EI p21 p19 p3 0) p19 [(p3, false, Leaf p1 true p3); (p19, false, Leaf [] true p19); (p7, false, Leaf p7 true p7); (p19, true, Leaf [] true p19); (p3, true, Leaf [] true p3)]); (p7, false, Leaf p7 true p7); (p19, true, Leaf [] true p19); (p6, true, Leaf [] true p6)]); (p17, false, Node (EI p21 p17 p3 0) p17 [(p3, false, Leaf p1 true p3); (p17, false, Leaf [] true p17); (p7, false, Leaf p7 true p7); (p17, true, Leaf [] true p17); (p3, true, Leaf [] true p3)]); (p7, false, Leaf p7 true p7); (p17, true, Leaf [] true p17); (p19, true, Leaf [] true p19)]); (p15, false, Node (EI p21 p15 p3 0) p15 [(p3, false, Leaf p1 true p3); (p15, false, Leaf [] true p15); (p7, false, Leaf p7 true p7); (p15, true, Leaf [] true p15); (p3, true, Leaf [] true p3)]); (p7, false, Leaf p7 true p7); (p15, true, Leaf [] true p15); (p17, true, Leaf [] true p17)]); (p13, false, Leaf [] true p13); (p7, false, Leaf p7 true p7); (p13, true, Leaf [] true p13); (p15, true, Leaf [] true p15)]); (p3, false, Leaf p1 true p3); (p7, false, Leaf p7 true p7); (p3, true, Leaf [] true p3); (p13, true, Leaf [] true p13)]);
  ((Root 1 true p11 p1 p5 1 p3),
   Node (EI p12 p3 p13 1) p3 [(p13, false, Node (EI p14 p13 p15 0) p13 [(p15, false, Node (EI p16 p15 p17 0) p15 [(p17, false, Node (EI p18 p17 p19 0) p17 [(p19, false, Node (EI p20 p19 p6 0) p19 [(p6, false, Leaf p5 false p6); (p19, false, Node (EI p21 p19 p3 0) p19 [(p3, false, Leaf p1 true p3); (p19, false, Leaf [] true p19); (p7, false, Leaf p7 true p7); (p19, true, Leaf [] true p19); (p3, true, Leaf [] true p3)]); (p7, false, Leaf p7 true p7); (p19, true, Leaf [] true p19); (p6, true, Leaf [] true p6)]); (p17, false, Node (EI p21 p17 p3 0) p17 [(p3, false, Leaf p1 true p3); (p17, false, Leaf [] true p17); (p7, false, Leaf p7 true p7); (p17, true, Leaf [] true p17); (p3, true, Leaf [] true p3)]); (p7, false, Leaf p7 true p7); (p17, true, Leaf [] true p17); (p19, true, Leaf [] true p19)]); (p15, false, Node (EI p21 p15 p3 0) p15 [(p3, false, Leaf p1 true p3); (p15, false, Leaf [] true p15); (p7, false, Leaf p7 true p7); (p15, true, Leaf [] true p15); (p3, true, Leaf [] true p3)]); (p7, false, Leaf p7 true p7); (p15, true, Leaf [] true p15); (p17, true, Leaf [] true p17)]); (p13, false, Leaf [] true p13); (p7, false, Leaf p7 true p7); (p13, true, Leaf [] true p13); (p15, true, Leaf [] true p15)]); (p3, false, Leaf p1 true p3); (p7, false, Leaf p7 true p7); (p3, true, Leaf [] true p3); (p13, true, Leaf [] true p13)]);
  ((Root 1 false p11 p5 p5 1 p6),
   Node (EI p12 p6 p13 1) p6 [(p6, false, Leaf p5 true p6); (p6, false, Leaf p5 true p6); (p6, false, Leaf p5 true p6); (p6, true, Leaf [] true p6); (p6, false, Leaf p5 true p6)]);
  ((Root 1 true p11 p5 p5 1 p6),
   Node (EI p12 p6 p13 1) p6 [(p6, false, Leaf p5 true p6); (p6, false, Leaf p5 true p6); (p6, false, Leaf p5 true p6); (p6, true, Leaf [] true p6); (p6, false, Leaf p5 true p6)]);
  ((Root 1 false p11 p2 p5 1 p2),
   Node (EI p12 p2 p13 1) p2 [(p2, false, Leaf p2 true p2); (p2, false, Leaf p2 true p2); (p2, false, Leaf p2 true p2); (p2, true, Leaf [] true p2); (p2, false, Leaf p2 true p2)]);
  ((Root 1 true p11 p2 p5 1 p2),
   Node (EI p12 p2 p13 1) p2 [(p2, false, Leaf p2 true p2); (p2, false, Leaf p2 true p2); (p2, false, Leaf p2 true p2); (p2, true, Leaf [] true p2); (p2, false, Leaf p2 true p2)]);
  ((Root 1 false p11 p7 p5 1 p7),
   Node (EI p12 p7 p13 1) p7 [(p7, false, Leaf p7 true p7); (p7, false, Leaf p7 true p7); (p7, false, Leaf p7 true p7); (p7, true, Leaf [] true p7); (p7, false, Leaf p7 true p7)]);
  ((Root 1 true p11 p7 p5 1 p7),
   Node (EI p12 p7 p13 1) p7 [(p7, false, Leaf p7 true p7); (p7, false, Leaf p7 true p7); (p7, false, Leaf p7 true p7); (p7, true, Leaf [] true p7); (p7, false, Leaf p7 true p7)]);
  ((Root 1 false p11 p8 p5 1 p9),
   Node (EI p12 p9 p13 1) p9 [(p9, false, Leaf p8 true p9); (p9, false, Leaf p8 true p9); (p9, false, Leaf p8 true p9); (p9, true, Leaf [] true p9); (p9, false, Leaf p8 true p9)]);
  ((Root 1 true p11 p8 p5 1 p9),
   Node (EI p12 p9 p13 1) p9 [(p9, false, Leaf p8 true p9); (p9, false, Leaf p8 true p9); (p9, false, Leaf p8 true p9); (p9, true, Leaf [] true p9); (p9, false, Leaf p8 true p9)]);
  ((Root 1 false p22 p1 p1 1 p3),
   Node (EI p23 p3 p19 0) p3 [(p3, false, Leaf p1 true p3); (p3, false, Leaf p1 true p3); (p3, false, Leaf p1 true p3); (p3, true, Leaf [] true p3); (p3, false, Leaf p1 true p3)]);
  ((Root 1 true p22 p1 p1 1 p3),
   Node (EI p23 p3 p19 0) p3 [(p3, false, Leaf p1 true p3); (p3, false, Leaf p1 true p3); (p3, false, Leaf p1 true p3); (p3, true, Leaf [] true p3); (p3, false, Leaf p1 true p3)]);
  ((Root 1 false p22 p5 p1 1 p6),
   Node (EI p23 p6 p19 0) p6 [(p19, false, Node (EI p21 p19 p3 1) p19 [(p3, false, Leaf p1 false p3); (p19, false, Node (EI p20 p19 p6 0) p19 [(p6, false, Leaf p5 true p6); (p19, false, Leaf [] true p19); (p7, false, Leaf p7 true p7); (p19, true, Leaf [] true p19); (p6, true, Leaf [] true p6)]); (p7, false, Leaf p7 true p7); (p19, true, Leaf [] true p19); (p3, true, Leaf [] true p3)]); (p6, false, Leaf p5 true p6); (p7, false, Leaf p7 true p7); (p6, true, Leaf [] true p6); (p19, true, Leaf [] true p19)]);
  ((Root 1 true p22 p5 p1 1 p6),
   Node (EI p23 p6 p19 0) p6 [(p19, false, Node (EI p21 p19 p3 1) p19 [(p3, false, Leaf p1 false p3); (p19, false, Node (EI p20 p19 p6 0) p19 [(p6, false, Leaf p5 true p6); (p19, false, Leaf [] true p19); (p7, false, Leaf p7 true p7); (p19, true, Leaf [] true p19); (p6, true, Leaf [] true p6)]); (p7, false, Leaf p7 true p7); (p19, true, Leaf [] true p19); (p3, true, Leaf [] true p3)]); (p6, false, Leaf p5 true p6); (p7, false, Leaf p7 true p7); (p6, true, Leaf [] true p6); (p19, true, Leaf [] true p19)]);
  ((Root 1 false p22 p2 p1 1 p2),
   Node (EI p23 p2 p19 0) p2 [(p2, false, Leaf p2 true p2); (p2, false, Leaf p2 true p2); (p2, false, Leaf p2 true p2); (p2, true, Leaf [] true p2); (p2, false, Leaf p2 true p2)]);
  ((Root 1 true p22 p2 p1 1 p2),
   Node (EI p23 p2 p19 0) p2 [(p2, false, Leaf p2 true p2); (p2, false, Leaf p2 true p2); (p2, false, Leaf p2 true p2); (p2, true, Leaf [] true p2); (p2, false, Leaf p2 true p2)]);
  ((Root 1 false p22 p7 p1 1 p7),
   Node (EI p23 p7 p19 0) p7 [(p7, false, Leaf p7 true p7); (p7, false, Leaf p7 true p7); (p7, false, Leaf p7 true p7); (p7, true, Leaf [] true p7); (p7, false, Leaf p7 true p7)]);
  ((Root 1 true p22 p7 p1 1 p7),
   Node (EI p23 p7 p19 0) p7 [(p7, false, Leaf p7 true p7); (p7, false, Leaf p7 true p7); (p7, false, Leaf p7 true p7); (p7, true, Leaf [] true p7); (p7, false, Leaf p7 true p7)]);
  ((Root 1 false p22 p8 p1 1 p9),
   Node (EI p23 p9 p19 0) p9 [(p9, false, Leaf p8 true p9); (p9, false, Leaf p8 true p9); (p9, false, Leaf p8 true p9); (p9, true, Leaf [] true p9); (p9, false, Leaf p8 true p9)]);
  ((Root 1 true p22 p8 p1 1 p9),
   Node (EI p23 p9 p19 0) p9 [(p9, false, Leaf p8 true p9); (p9, false, Leaf p8 true p9); (p9, false, Leaf p8 true p9); (p9, true, Leaf [] true p9); (p9, false, Leaf p8 true p9)]);
  ((Root 1 false p24 p1 p8 1 p3),
   Node (EI p25 p3 p9 1) p3 [(p9, false, Leaf p8 false p9); (p3, false, Leaf p1 true p3); (p7, false, Leaf p7 true p7); (p3, true, Leaf [] true p3); (p9, true, Leaf [] true p9)]);
  ((Root 1 true p24 p1 p8 1 p3),
   Node (EI p25 p3 p9 1) p3 [(p9, false, Leaf p8 false p9); (p3, false, Leaf p1 true p3); (p7, false, Leaf p7 true p7); (p3, true, Leaf [] true p3); (p9, true, Leaf [] true p9)]);
  ((Root 1 false p24 p5 p8 1 p6),
   Node (EI p23 p6 p19 0) p6 [(p19, false, Node (EI p21 p19 p3 1) p19 [(p3, false, Node (EI p25 p3 p9 1) p3 [(p9, false, Leaf p8 false p9); (p3, false, Leaf p1 true p3); (p7, false, Leaf p7 true p7); (p3, true, Leaf [] true p3); (p9, true, Leaf [] true p9)]); (p19, false, Node (EI p20 p19 p6 0) p19 [(p6, false, Leaf p5 true p6); (p19, false, Leaf [] true p19); (p7, false, Leaf p7 true p7); (p19, true, Leaf [] true p19); (p6, true, Leaf [] true p6)]); (p7, false, Leaf p7 true p7); (p19, true, Leaf [] true p19); (p3, true, Leaf [] true p3)]); (p6, false, Leaf p5 true p6); (p7, false, Leaf p7 true p7); (p6, true, Leaf [] true p6); (p19, true, Leaf [] true p19)]);
  ((Root 1 true p24 p5 p8 1 p6),
   Node (EI p23 p6 p19 0) p6 [(p19, false, Node (EI p21 p19 p3 1) p19 [(p3, false, Node (EI p25 p3 p9 1) p3 [(p9, false, Leaf p8 false p9); (p3, false, Leaf p1 true p3); (p7, false, Leaf p7 true p7); (p3, true, Leaf [] true p3); (p9, true, Leaf [] true p9)]); (p19, false, Node (EI p20 p19 p6 0) p19 [(p6, false, Leaf p5 true p6); (p19, false, Leaf [] true p19); (p7, false, Leaf p7 true p7); (p19, true, Leaf [] true p19); (p6, true, Leaf [] true p6)]); (p7, false, Leaf p7 true p7); (p19, true, Leaf [] true p19); (p3, true, Leaf [] true p3)]); (p6, false, Leaf p5 true p6); (p7, false, Leaf p7 true p7); (p6, true, Leaf [] true p6); (p19, true, Leaf [] true p19)]);
  ((Root 1 false p24 p2 p8 1 p2),
   Node (EI p25 p2 p9 1) p2 [(p2, false, Leaf p2 true p2); (p2, false, Leaf p2 true p2); (p2, false, Leaf p2 true p2); (p2, true, Leaf [] true p2); (p2, false, Leaf p2 true p2)]);
  ((Root 1 true p24 p2 p8 1 p2),
   Node (EI p25 p2 p9 1) p2 [(p2, false, Leaf p2 true p2); (p2, false, Leaf p2 true p2); (p2, false, Leaf p2 true p2); (p2, true, Leaf [] true p2); (p2, false, Leaf p2 true p2)]);
  ((Root 1 false p24 p7 p8 1 p7),
   Node (EI p25 p7 p9 1) p7 [(p7, false, Leaf p7 true p7); (p7, false, Leaf p7 true p7); (p7, false, Leaf p7 true p7); (p7, true, Leaf [] true p7); (p7, false, Leaf p7 true p7)]);
  ((Root 1 true p24 p7 p8 1 p7),
   Node (EI p25 p7 p9 1) p7 [(p7, false, Leaf p7 true p7); (p7, false, Leaf p7 true p7); (p7, false, Leaf p7 true p7); (p7, true, Leaf [] true p7); (p7, false, Leaf p7 true p7)]);
  ((Root 1 false p24 p8 p8 1 p9),
   Node (EI p25 p9 p9 1) p9 [(p9, false, Leaf p8 false p9); (p9, false, Leaf p8 false p9); (p9, false, Leaf p8 false p9); (p9, true, Leaf [] true p9); (p9, false, Leaf p8 false p9)]);
  ((Root 1 true p24 p8 p8 1 p9),
   Node (EI p25 p9 p9 1) p9 [(p9, false, Leaf p8 false p9); (p9, false, Leaf p8 false p9); (p9, false, Leaf p8 false p9); (p9, true, Leaf [] true p9); (p9, false, Leaf p8 false p9)]);
  ((Root 1 false p26 p1 p1 1 p3),
   Leaf p1 true p3);
  ((Root 1 true p26 p1 p1 1 p3),
   Leaf p1 true p3);
  ((Root 1 false p26 p5 p1 1 p6),
   Leaf p5 true p6);
  ((Root 1 true p26 p5 p1 1 p6),
   Leaf p5 true p6);
  ((Root 1 false p26 p2 p1 1 p2),
   Leaf p2 true p2);
  ((Root 1 true p26 p2 p1 1 p2),
   Leaf p2 true p2);
  ((Root 1 false p26 p7 p1 1 p7),
   Leaf p7 true p7);
  ((Root 1 true p26 p7 p1 1 p7),
   Leaf p7 true p7);
  ((Root 1 false p26 p8 p1 1 p9),
   Leaf p8 true p9);
  ((Root 1 true p26 p8 p1 1 p9),
   Leaf p8 true p9);
  ((Root 1 false p27 p1 p7 1 p3),
   Leaf p1 true p3);
  ((Root 1 true p27 p1 p7 1 p3),
   Leaf p1 true p3);
  ((Root 1 false p27 p5 p7 1 p6),
   Leaf p5 true p6);
  ((Root 1 true p27 p5 p7 1 p6),
   Leaf p5 true p6);
  ((Root 1 false p27 p2 p7 1 p2),
   Leaf p2 true p2);
  ((Root 1 true p27 p2 p7 1 p2),
   Leaf p2 true p2);
  ((Root 1 false p27 p7 p7 1 p7),
   Leaf p7 true p7);
  ((Root 1 true p27 p7 p7 1 p7),
   Leaf p7 true p7);
  ((Root 1 false p27 p8 p7 1 p9),
   Leaf p8 true p9);
  ((Root 1 true p27 p8 p7 1 p9),
   Leaf p8 true p9);
  ((Root 1 false p28 p1 p1 1 p3),
   Leaf [] false p3);
  ((Root 1 true p28 p1 p1 1 p3),
   Leaf [] false p3);
  ((Root 1 false p28 p5 p1 1 p6),
   Leaf [] false p6);
  ((Root 1 true p28 p5 p1 1 p6),
   Leaf [] false p6);
  ((Root 1 false p28 p2 p1 1 p2),
   Leaf [] false p2);
  ((Root 1 true p28 p2 p1 1 p2),
   Leaf [] false p2);
  ((Root 1 false p28 p7 p1 1 p7),
   Leaf [] false p7);
  ((Root 1 true p28 p7 p1 1 p7),
   Leaf [] false p7);
  ((Root 1 false p28 p8 p1 1 p9),
   Leaf [] false p9);
  ((Root 1 true p28 p8 p1 1 p9),
   Leaf [] false p9);
  ((Root 0 false p0 p1 p2 1 p1),
   Node (EI p0 p1 p2 1) p1 [(p1, false, Leaf p1 true p1); (p1, false, Leaf p1 true p1); (p1, false, Leaf p1 true p1); (p1, true, Leaf [] true p1); (p1, false, Leaf p1 true p1)]);
  ((Root 0 true p0 p1 p2 1 p1),
   Node (EI p0 p1 p2 1) p1 [(p1, false, Leaf p1 true p1); (p1, false, Leaf p1 true p1); (p1, false, Leaf p1 true p1); (p1, true, Leaf [] true p1); (p1, false, Leaf p1 true p1)]);
  ((Root 0 false p0 p5 p2 1 p5),
   Node (EI p0 p5 p2 1) p5 [(p2, false, Leaf p2 false p2); (p5, false, Leaf p5 true p5); (p7, false, Leaf p7 true p7); (p5, true, Leaf [] true p5); (p2, true, Leaf [] true p2)]);
  ((Root 0 true p0 p5 p2 1 p5),
   Node (EI p0 p5 p2 1) p5 [(p2, false, Leaf p2 false p2); (p5, false, Leaf p5 true p5); (p7, false, Leaf p7 true p7); (p5, true, Leaf [] true p5); (p2, true, Leaf [] true p2)]);
  ((Root 0 false p0 p2 p2 1 p2),
   Node (EI p0 p2 p2 1) p2 [(p2, false, Leaf p2 false p2); (p2, false, Leaf p2 false p2); (p2, false, Leaf p2 false p2); (p2, true, Leaf [] true p2); (p2, false, Leaf p2 false p2)]);
  ((Root 0 true p0 p2 p2 1 p2),
   Node (EI p0 p2 p2 1) p2 [(p2, false, Leaf p2 false p2); (p2, false, Leaf p2 false p2); (p2, false, Leaf p2 false p2); (p2, true, Leaf [] true p2); (p2, false, Leaf p2 false p2)]);
  ((Root 0 false p0 p7 p2 1 p7),
   Node (EI p0 p7 p2 1) p7 [(p7, false, Leaf p7 true p7); (p7, false, Leaf p7 true p7); (p7, false, Leaf p7 true p7); (p7, true, Leaf [] true p7); (p7, false, Leaf p7 true p7)]);
  ((Root 0 true p0 p7 p2 1 p7),
   Node (EI p0 p7 p2 1) p7 [(p7, false, Leaf p7 true p7); (p7, false, Leaf p7 true p7); (p7, false, Leaf p7 true p7); (p7, true, Leaf [] true p7); (p7, false, Leaf p7 true p7)]);
  ((Root 0 false p0 p8 p2 1 p8),
   Node (EI p0 p8 p2 1) p8 [(p8, false, Leaf p8 true p8); (p8, false, Leaf p8 true p8); (p8, false, Leaf p8 true p8); (p8, true, Leaf [] true p8); (p8, false, Leaf p8 true p8)]);
  ((Root 0 true p0 p8 p2 1 p8),
   Node (EI p0 p8 p2 1) p8 [(p8, false, Leaf p8 true p8); (p8, false, Leaf p8 true p8); (p8, false, Leaf p8 true p8); (p8, true, Leaf [] true p8); (p8, false, Leaf p8 true p8)]);
  ((Root 0 false p10 p1 p5 1 p1),
   Node (EI p10 p1 p5 1) p1 [(p1, false, Leaf p1 true p1); (p1, false, Leaf p1 true p1); (p1, false, Leaf p1 true p1); (p1, true, Leaf [] true p1); (p1, false, Leaf p1 true p1)]);
  ((Root 0 true p10 p1 p5 1 p1),
   Node (EI p10 p1 p5 1) p1 [(p1, false, Leaf p1 true p1); (p1, false, Leaf p1 true p1); (p1, false, Leaf p1 true p1); (p1, true, Leaf [] true p1); (p1, false, Leaf p1 true p1)]);
  ((Root 0 false p10 p5 p5 1 p5),
   Node (EI p10 p5 p5 1) p5 [(p5, false, Leaf p5 false p5); (p5, false, Leaf p5 false p5); (p5, false, Leaf p5 false p5); (p5, true, Leaf [] true p5); (p5, false, Leaf p5 false p5)]);
  ((Root 0 true p10 p5 p5 1 p5),
   Node (EI p10 p5 p5 1) p5 [(p5, false, Leaf p5 false p5); (p5, false, Leaf p5 false p5); (p5, false, Leaf p5 false p5); (p5, true, Leaf [] true p5); (p5, false, Leaf p5 false p5)]);
  ((Root 0 false p10 p2 p5 1 p2),
   Node (EI p10 p2 p5 1) p2 [(p5, false, Leaf p5 false p5); (p2, false, Leaf p2 true p2); (p7, false, Leaf p7 true p7); (p2, true, Leaf [] true p2); (p5, true, Leaf [] true p5)]);
  ((Root 0 true p10 p2 p5 1 p2),
   Node (EI p10 p2 p5 1) p2 [(p5, false, Leaf p5 false p5); (p2, false, Leaf p2 true p2); (p7, false, Leaf p7 true p7); (p2, true, Leaf [] true p2); (p5, true, Leaf [] true p5)]);
  ((Root 0 false p10 p7 p5 1 p7),
   Node (EI p10 p7 p5 1) p7 [(p7, false, Leaf p7 true p7); (p7, false, Leaf p7 true p7); (p7, false, Leaf p7 true p7); (p7, true, Leaf [] true p7); (p7, false, Leaf p7 true p7)]);
  ((Root 0 true p10 p7 p5 1 p7),
   Node (EI p10 p7 p5 1) p7 [(p7, false, Leaf p7 true p7); (p7, false, Leaf p7 true p7); (p7, false, Leaf p7 true p7); (p7, true, Leaf [] true p7); (p7, false, Leaf p7 true p7)]);
  ((Root 0 false p10 p8 p5 1 p8),
   Node (EI p10 p8 p5 1) p8 [(p8, false, Leaf p8 true p8); (p8, false, Leaf p8 true p8); (p8, false, Leaf p8 true p8); (p8, true, Leaf [] true p8); (p8, false, Leaf p8 true p8)]);
  ((Root 0 true p10 p8 p5 1 p8),
   Node (EI p10 p8 p5 1) p8 [(p8, false, Leaf p8 true p8); (p8, false, Leaf p8 true p8); (p8, false, Leaf p8 true p8); (p8, true, Leaf [] true p8); (p8, false, Leaf p8 true p8)]);
  ((Root 0 false p11 p1 p5 1 p1),
   Node (EI p11 p1 p5 1) p1 [(p5, false, Leaf p5 false p5); (p1, false, Leaf p1 true p1); (p7, false, Leaf p7 true p7); (p1, true, Leaf [] true p1); (p5, true, Leaf [] true p5)]);
  ((Root 0 true p11 p1 p5 1 p1),
   Node (EI p11 p1 p5 1) p1 [(p5, false, Leaf p5 false p5); (p1, false, Leaf p1 true p1); (p7, false, Leaf p7 true p7); (p1, true, Leaf [] true p1); (p5, true, Leaf [] true p5)]);
  ((Root 0 false p11 p5 p5 1 p5),
   Node (EI p11 p5 p5 1) p5 [(p5, false, Leaf p5 false p5); (p5, false, Leaf p5 false p5); (p5, false, Leaf p5 false p5); (p5, true, Leaf [] true p5); (p5, false, Leaf p5 false p5)]);
  ((Root 0 true p11 p5 p5 1 p5),
   Node (EI p11 p5 p5 1) p5 [(p5, false, Leaf p5 false p5); (p5, false, Leaf p5 false p5); (p5, false, Leaf p5 false p5); (p5, true, Leaf [] true p5); (p5, false, Leaf p5 false p5)]);
  ((Root 0 false p11 p2 p5 1 p2),
   Node (EI p11 p2 p5 1) p2 [(p2, false, Leaf p2 true p2); (p2, false, Leaf p2 true p2); (p2, false, Leaf p2 true p2); (p2, true, Leaf [] true p2); (p2, false, Leaf p2 true p2)]);
  ((Root 0 true p11 p2 p5 1 p2),
   Node (EI p11 p2 p5 1) p2 [(p2, false, Leaf p2 true p2); (p2, false, Leaf p2 true p2); (p2, false, Leaf p2 true p2); (p2, true, Leaf [] true p2); (p2, false, Leaf p2 true p2)]);
  ((Root 0 false p11 p7 p5 1 p7),
   Node (EI p11 p7 p5 1) p7 [(p7, false, Leaf p7 true p7); (p7, false, Leaf p7 true p7); (p7, false, Leaf p7 true p7); (p7, true, Leaf [] true p7); (p7, false, Leaf p7 true p7)]);
  ((Root 0 true p11 p7 p5 1 p7),
   Node (EI p11 p7 p5 1) p7 [(p7, false, Leaf p7 true p7); (p7, false, Leaf p7 true p7); (p7, false, Leaf p7 true p7); (p7, true, Leaf [] true p7); (p7, false, Leaf p7 true p7)]);
  ((Root 0 false p11 p8 p5 1 p8),
   Node (EI p11 p8 p5 1) p8 [(p8, false, Leaf p8 true p8); (p8, false, Leaf p8 true p8); (p8, false, Leaf p8 true p8); (p8, true, Leaf [] true p8); (p8, false, Leaf p8 true p8)]);
  ((Root 0 true p11 p8 p5 1 p8),
   Node (EI p11 p8 p5 1) p8 [(p8, false, Leaf p8 true p8); (p8, false, Leaf p8 true p8); (p8, false, Leaf p8 true p8); (p8, true, Leaf [] true p8); (p8, false, Leaf p8 true p8)]);
  ((Root 0 false p22 p1 p1 1 p1),
   Node (EI p22 p1 p1 1) p1 [(p1, false, Leaf p1 false p1); (p1, false, Leaf p1 false p1); (p1, false, Leaf p1 false p1); (p1, true, Leaf [] true p1); (p1, false, Leaf p1 false p1)]);
  ((Root 0 true p22 p1 p1 1 p1),
   Node (EI p22 p1 p1 1) p1 [(p1, false, Leaf p1 false p1); (p1, false, Leaf p1 false p1); (p1, false, Leaf p1 false p1); (p1, true, Leaf [] true p1); (p1, false, Leaf p1 false p1)]);
  ((Root 0 false p22 p5 p1 1 p5),
   Node (EI p22 p5 p1 1) p5 [(p1, false, Leaf p1 false p1); (p5, false, Leaf p5 true p5); (p7, false, Leaf p7 true p7); (p5, true, Leaf [] true p5); (p1, true, Leaf [] true p1)]);
  ((Root 0 true p22 p5 p1 1 p5),
   Node (EI p22 p5 p1 1) p5 [(p1, false, Leaf p1 false p1); (p5, false, Leaf p5 true p5); (p7, false, Leaf p7 true p7); (p5, true, Leaf [] true p5); (p1, true, Leaf [] true p1)]);
  ((Root 0 false p22 p2 p1 1 p2),
   Node (EI p22 p2 p1 1) p2 [(p2, false, Leaf p2 true p2); (p2, false, Leaf p2 true p2); (p2, false, Leaf p2 true p2); (p2, true, Leaf [] true p2); (p2, false, Leaf p2 true p2)]);
  ((Root 0 true p22 p2 p1 1 p2),
   Node (EI p22 p2 p1 1) p2 [(p2, false, Leaf p2 true p2); (p2, false, Leaf p2 true p2); (p2, false, Leaf p2 true p2); (p2, true, Leaf [] true p2); (p2, false, Leaf p2 true p2)]);
  ((Root 0 false p22 p7 p1 1 p7),
   Node (EI p22 p7 p1 1) p7 [(p7, false, Leaf p7 true p7); (p7, false, Leaf p7 true p7); (p7, false, Leaf p7 true p7); (p7, true, Leaf [] true p7); (p7, false, Leaf p7 true p7)]);
  ((Root 0 true p22 p7 p1 1 p7),
   Node (EI p22 p7 p1 1) p7 [(p7, false, Leaf p7 true p7); (p7, false, Leaf p7 true p7); (p7, false, Leaf p7 true p7); (p7, true, Leaf [] true p7); (p7, false, Leaf p7 true p7)]);
  ((Root 0 false p22 p8 p1 1 p8),
   Node (EI p22 p8 p1 1) p8 [(p8, false, Leaf p8 true p8); (p8, false, Leaf p8 true p8); (p8, false, Leaf p8 true p8); (p8, true, Leaf [] true p8); (p8, false, Leaf p8 true p8)]);
  ((Root 0 true p22 p8 p1 1 p8),
   Node (EI p22 p8 p1 1) p8 [(p8, false, Leaf p8 true p8); (p8, false, Leaf p8 true p8); (p8, false, Leaf p8 true p8); (p8, true, Leaf [] true p8); (p8, false, Leaf p8 true p8)]);
  ((Root 0 false p24 p1 p8 1 p1),
   Node (EI p24 p1 p8 1) p1 [(p8, false, Leaf p8 false p8); (p1, false, Leaf p1 true p1); (p7, false, Leaf p7 true p7); (p1, true, Leaf [] true p1); (p8, true, Leaf [] true p8)]);
  ((Root 0 true p24 p1 p8 1 p1),
   Node (EI p24 p1 p8 1) p1 [(p8, false, Leaf p8 false p8); (p1, false, Leaf p1 true p1); (p7, false, Leaf p7 true p7); (p1, true, Leaf [] true p1); (p8, true, Leaf [] true p8)]);
  ((Root 0 false p24 p5 p8 1 p5),
   Node (EI p24 p5 p8 1) p5 [(p8, false, Leaf p8 false p8); (p5, false, Leaf p5 true p5); (p7, false, Leaf p7 true p7); (p5, true, Leaf [] true p5); (p8, true, Leaf [] true p8)]);
  ((Root 0 true p24 p5 p8 1 p5),
   Node (EI p24 p5 p8 1) p5 [(p8, false, Leaf p8 false p8); (p5, false, Leaf p5 true p5); (p7, false, Leaf p7 true p7); (p5, true, Leaf [] true p5); (p8, true, Leaf [] true p8)]);
  ((Root 0 false p24 p2 p8 1 p2),
   Node (EI p24 p2 p8 1) p2 [(p2, false, Leaf p2 true p2); (p2, false, Leaf p2 true p2); (p2, false, Leaf p2 true p2); (p2, true, Leaf [] true p2); (p2, false, Leaf p2 true p2)]);
  ((Root 0 true p24 p2 p8 1 p2),
   Node (EI p24 p2 p8 1) p2 [(p2, false, Leaf p2 true p2); (p2, false, Leaf p2 true p2); (p2, false, Leaf p2 true p2); (p2, true, Leaf [] true p2); (p2, false, Leaf p2 true p2)]);
  ((Root 0 false p24 p7 p8 1 p7),
   Node (EI p24 p7 p8 1) p7 [(p8, false, Leaf p8 false p8); (p7, false, Leaf p7 true p7); (p7, false, Leaf p7 true p7); (p7, true, Leaf [] true p7); (p8, true, Leaf [] true p8)]);
  ((Root 0 true p24 p7 p8 1 p7),
   Node (EI p24 p7 p8 1) p7 [(p8, false, Leaf p8 false p8); (p7, false, Leaf p7 true p7); (p7, false, Leaf p7 true p7); (p7, true, Leaf [] true p7); (p8, true, Leaf [] true p8)]);
  ((Root 0 false p24 p8 p8 1 p8),
   Node (EI p24 p8 p8 1) p8 [(p8, false, Leaf p8 false p8); (p8, false, Leaf p8 false p8); (p8, false, Leaf p8 false p8); (p8, true, Leaf [] true p8); (p8, false, Leaf p8 false p8)]);
  ((Root 0 true p24 p8 p8 1 p8),
   Node (EI p24 p8 p8 1) p8 [(p8, false, Leaf p8 false p8); (p8, false, Leaf p8 false p8); (p8, false, Leaf p8 false p8); (p8, true, Leaf [] true p8); (p8, false, Leaf p8 false p8)]);
  ((Root 0 false p26 p1 p1 1 p1),
   Node (EI p26 p1 p1 1) p1 [(p1, false, Leaf p1 false p1); (p1, false, Leaf p1 false p1); (p1, false, Leaf p1 false p1); (p1, true, Leaf [] true p1); (p1, false, Leaf p1 false p1)]);
  ((Root 0 true p26 p1 p1 1 p1),
   Node (EI p26 p1 p1 1) p1 [(p1, false, Leaf p1 false p1); (p1, false, Leaf p1 false p1); (p1, false, Leaf p1 false p1); (p1, true, Leaf [] true p1); (p1, false, Leaf p1 false p1)]);
  ((Root 0 false p26 p5 p1 1 p5),
   Node (EI p26 p5 p1 1) p5 [(p5, false, Leaf p5 true p5); (p5, false, Leaf p5 true p5); (p5, false, Leaf p5 true p5); (p5, true, Leaf [] true p5); (p5, false, Leaf p5 true p5)]);
  ((Root 0 true p26 p5 p1 1 p5),
   Node (EI p26 p5 p1 1) p5 [(p5, false, Leaf p5 true p5); (p5, false, Leaf p5 true p5); (p5, false, Leaf p5 true p5); (p5, true, Leaf [] true p5); (p5, false, Leaf p5 true p5)]);
  ((Root 0 false p26 p2 p1 1 p2),
   Node (EI p26 p2 p1 1) p2 [(p2, false, Leaf p2 true p2); (p2, false, Leaf p2 true p2); (p2, false, Leaf p2 true p2); (p2, true, Leaf [] true p2); (p2, false, Leaf p2 true p2)]);
  ((Root 0 true p26 p2 p1 1 p2),
   Node (EI p26 p2 p1 1) p2 [(p2, false, Leaf p2 true p2); (p2, false, Leaf p2 true p2); (p2, false, Leaf p2 true p2); (p2, true, Leaf [] true p2); (p2, false, Leaf p2 true p2)]);
  ((Root 0 false p26 p7 p1 1 p7),
   Node (EI p26 p7 p1 1) p7 [(p1, false, Leaf p1 false p1); (p7, false, Leaf p7 true p7); (p7, false, Leaf p7 true p7); (p7, true, Leaf [] true p7); (p1, true, Leaf [] true p1)]);
  ((Root 0 true p26 p7 p1 1 p7),
   Node (EI p26 p7 p1 1) p7 [(p1, false, Leaf p1 false p1); (p7, false, Leaf p7 true p7); (p7, false, Leaf p7 true p7); (p7, true, Leaf [] true p7); (p1, true, Leaf [] true p1)]);
  ((Root 0 false p26 p8 p1 1 p8),
   Node (EI p26 p8 p1 1) p8 [(p8, false, Leaf p8 true p8); (p8, false, Leaf p8 true p8); (p8, false, Leaf p8 true p8); (p8, true, Leaf [] true p8); (p8, false, Leaf p8 true p8)]);
  ((Root 0 true p26 p8 p1 1 p8),
   Node (EI p26 p8 p1 1) p8 [(p8, false, Leaf p8 true p8); (p8, false, Leaf p8 true p8); (p8, false, Leaf p8 true p8); (p8, true, Leaf [] true p8); (p8, false, Leaf p8 true p8)]);
  ((Root 0 false p27 p1 p7 1 p1),
   Node (EI p27 p1 p7 1) p1 [(p1, false, Leaf p1 true p1); (p1, false, Leaf p1 true p1); (p1, false, Leaf p1 true p1); (p1, true, Leaf [] true p1); (p1, false, Leaf p1 true p1)]);
  ((Root 0 true p27 p1 p7 1 p1),
   Node (EI p27 p1 p7 1) p1 [(p1, false, Leaf p1 true p1); (p1, false, Leaf p1 true p1); (p1, false, Leaf p1 true p1); (p1, true, Leaf [] true p1); (p1, false, Leaf p1 true p1)]);
  ((Root 0 false p27 p5 p7 1 p5),
   Node (EI p27 p5 p7 1) p5 [(p5, false, Leaf p5 true p5); (p5, false, Leaf p5 true p5); (p5, false, Leaf p5 true p5); (p5, true, Leaf [] true p5); (p5, false, Leaf p5 true p5)]);
  ((Root 0 true p27 p5 p7 1 p5),
   Node (EI p27 p5 p7 1) p5 [(p5, false, Leaf p5 true p5); (p5, false, Leaf p5 true p5); (p5, false, Leaf p5 true p5); (p5, true, Leaf [] true p5); (p5, false, Leaf p5 true p5)]);
  ((Root 0 false p27 p2 p7 1 p2),
   Node (EI p27 p2 p7 1) p2 [(p2, false, Leaf p2 true p2); (p2, false, Leaf p2 true p2); (p2, false, Leaf p2 true p2); (p2, true, Leaf [] true p2); (p2, false, Leaf p2 true p2)]);
  ((Root 0 true p27 p2 p7 1 p2),
   Node (EI p27 p2 p7 1) p2 [(p2, false, Leaf p2 true p2); (p2, false, Leaf p2 true p2); (p2, false, Leaf p2 true p2); (p2, true, Leaf [] true p2); (p2, false, Leaf p2 true p2)]);
  ((Root 0 false p27 p7 p7 1 p7),
   Node (EI p27 p7 p7 1) p7 [(p7, false, Leaf p7 true p7); (p7, false, Leaf p7 true p7); (p7, false, Leaf p7 true p7); (p7, true, Leaf [] true p7); (p7, false, Leaf p7 true p7)]);
  ((Root 0 true p27 p7 p7 1 p7),
   Node (EI p27 p7 p7 1) p7 [(p7, false, Leaf p7 true p7); (p7, false, Leaf p7 true p7); (p7, false, Leaf p7 true p7); (p7, true, Leaf [] true p7); (p7, false, Leaf p7 true p7)]);
  ((Root 0 false p27 p8 p7 1 p8),
   Node (EI p27 p8 p7 1) p8 [(p8, false, Leaf p8 true p8); (p8, false, Leaf p8 true p8); (p8, false, Leaf p8 true p8); (p8, true, Leaf [] true p8); (p8, false, Leaf p8 true p8)]);
  ((Root 0 true p27 p8 p7 1 p8),
   Node (EI p27 p8 p7 1) p8 [(p8, false, Leaf p8 true p8); (p8, false, Leaf p8 true p8); (p8, false, Leaf p8 true p8); (p8, true, Leaf [] true p8); (p8, false, Leaf p8 true p8)]);
  ((Root 0 false p28 p1 p1 1 p1),
   Node (EI p28 p1 p1 1) p1 [(p1, false, Leaf p1 true p1); (p1, false, Leaf p1 true p1); (p1, false, Leaf p1 true p1); (p1, true, Leaf [] true p1); (p1, false, Leaf p1 true p1)]);
  ((Root 0 true p28 p1 p1 1 p1),
   Node (EI p28 p1 p1 1) p1 [(p1, false, Leaf p1 true p1); (p1, false, Leaf p1 true p1); (p1, false, Leaf p1 true p1); (p1, true, Leaf [] true p1); (p1, false, Leaf p1 true p1)]);
  ((Root 0 false p28 p5 p1 1 p5),
   Node (EI p28 p5 p1 1) p5 [(p5, false, Leaf p5 true p5); (p5, false, Leaf p5 true p5); (p5, false, Leaf p5 true p5); (p5, true, Leaf [] true p5); (p5, false, Leaf p5 true p5)]);
  ((Root 0 true p28 p5 p1 1 p5),
   Node (EI p28 p5 p1 1) p5 [(p5, false, Leaf p5 true p5); (p5, false, Leaf p5 true p5); (p5, false, Leaf p5 true p5); (p5, true, Leaf [] true p5); (p5, false, Leaf p5 true p5)]);
  ((Root 0 false p28 p2 p1 1 p2),
   Node (EI p28 p2 p1 1) p2 [(p2, false, Leaf p2 true p2); (p2, false, Leaf p2 true p2); (p2, false, Leaf p2 true p2); (p2, true, Leaf [] true p2); (p2, false, Leaf p2 true p2)]);
  ((Root 0 true p28 p2 p1 1 p2),
   Node (EI p28 p2 p1 1) p2 [(p2, false, Leaf p2 true p2); (p2, false, Leaf p2 true p2); (p2, false, Leaf p2 true p2); (p2, true, Leaf [] true p2); (p2, false, Leaf p2 true p2)]);
  ((Root 0 false p28 p7 p1 1 p7),
   Node (EI p28 p7 p1 1) p7 [(p7, false, Leaf p7 true p7); (p7, false, Leaf p7 true p7); (p7, false, Leaf p7 true p7); (p7, true, Leaf [] true p7); (p7, false, Leaf p7 true p7)]);
  ((Root 0 true p28 p7 p1 1 p7),
   Node (EI p28 p7 p1 1) p7 [(p7, false, Leaf p7 true p7); (p7, false, Leaf p7 true p7); (p7, false, Leaf p7 true p7); (p7, true, Leaf [] true p7); (p7, false, Leaf p7 true p7)]);
  ((Root 0 false p28 p8 p1 1 p8),
   Node (EI p28 p8 p1 1) p8 [(p8, false, Leaf p8 true p8); (p8, false, Leaf p8 true p8); (p8, false, Leaf p8 true p8); (p8, true, Leaf [] true p8); (p8, false, Leaf p8 true p8)]);
  ((Root 0 true p28 p8 p1 1 p8),
   Node (EI p28 p8 p1 1) p8 [(p8, false, Leaf p8 true p8); (p8, false, Leaf p8 true p8); (p8, false, Leaf p8 true p8); (p8, true, Leaf [] true p8); (p8, false, Leaf p8 true p8)])
].
