(* regenerated on every run by harness/cmd/translate (exectask) from
   executor/executable/{controllabletask,basictaskcommon,task}.go *)
From Verif Require Import Common.
Open Scope N_scope.
Definition et_done_ms : N := 1000.            (* DONE_TIMEOUT *)
Definition et_sigterm_ms : N := 2000.         (* SIGTERM_TIMEOUT *)
Definition et_sigint_ms : N := 3000.          (* SIGINT_TIMEOUT *)
Definition et_kill_transition_ms : N := 5000. (* KILL_TRANSITION_TIMEOUT *)
Definition et_startup_poll_ms : N := 500.     (* startupPollingInterval *)
Definition et_startup_timeout_ms : N := 30000. (* startupTimeout *)
Definition et_running_delay_ms : N := 200.    (* time.AfterFunc delay of TASK_RUNNING in doLaunch *)
Definition et_pending_cap : N := 1.           (* cap(pendingFinalTaskStateCh) *)
Definition et_stop_guards_nil : bool := true. (* ensureBasicTaskKilled tests ProcessState != nil before Exited() *)
Definition et_transition_checks_dst : bool := true. (* executorcmd doTransition: success only if reply.GetState() == destination *)
