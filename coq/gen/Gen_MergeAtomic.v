(* regenerated on every run by harness/cmd/translate (mergeatomic) from core/workflow/safestate.go,
   safestatus.go and the other files of the package: what the methods of SafeState / SafeStatus do
   with the role's mutex, counted along every branch of their bodies.
   lf_entry: first statement 0 other / 1 Lock / 2 RLock; lf_deferred: a deferred Unlock/RUnlock;
   lf_locks / lf_unlocks: lock and explicit unlock calls; lf_leaks: ways out with the lock held and
   nothing deferred; lf_agg / lf_agg_out: calls of aggregateState|aggregateStatus, and those not
   under the write lock; lf_writes / lf_writes_out, lf_reads / lf_reads_out: accesses of the cached
   value, and those outside the (write / any) lock; lf_spawns: go statements and closures;
   lf_unlock_free: unlock calls while the lock is not held. *)
From Verif Require Import Common.
Open Scope N_scope.
Record lock_facts := mkLF {
  lf_entry : N; lf_deferred : bool; lf_locks : N; lf_unlocks : N; lf_leaks : N;
  lf_agg : N; lf_agg_out : N; lf_writes : N; lf_writes_out : N; lf_reads : N; lf_reads_out : N;
  lf_spawns : N; lf_unlock_free : N }.
Definition state_merge_facts : lock_facts := mkLF 1 true 1 0 0 1 0 4 0 2 0 0 0.
Definition state_get_facts : lock_facts := mkLF 2 true 1 0 0 0 0 0 0 1 0 0 0.
Definition state_other_methods : list lock_facts := [].
Definition status_merge_facts : lock_facts := mkLF 1 true 1 0 0 1 0 3 0 1 0 0 0.
Definition status_get_facts : lock_facts := mkLF 2 true 1 0 0 0 0 0 0 1 0 0 0.
Definition status_other_methods : list lock_facts := [].
(* accesses of a role's cached value or mutex that go round merge/get: while the role is being
   built (UnmarshalYAML), and anywhere else *)
Definition direct_accesses_construction : N := 1.
Definition direct_accesses_runtime : N := 0.
