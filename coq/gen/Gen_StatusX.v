(* regenerated on every run by `h11 -gen` : task.Status constants and task.Status.X evaluated by
   the running code on all 5x5 pairs (core/task/status.go) *)
From Verif Require Import Common.
Open Scope N_scope.
Definition go_status_UNDEFINED : N := 0.
Definition go_status_INACTIVE : N := 1.
Definition go_status_PARTIAL : N := 2.
Definition go_status_ACTIVE : N := 3.
Definition go_status_UNDEPLOYABLE : N := 4.
Definition statusX_enum : list (N * N * N) := [
  (0, 0, 0); (0, 1, 0); (0, 2, 0); (0, 3, 0); (0, 4, 0);
  (1, 0, 0); (1, 1, 1); (1, 2, 2); (1, 3, 2); (1, 4, 4);
  (2, 0, 0); (2, 1, 2); (2, 2, 2); (2, 3, 2); (2, 4, 4);
  (3, 0, 0); (3, 1, 2); (3, 2, 2); (3, 3, 3); (3, 4, 4);
  (4, 0, 0); (4, 1, 4); (4, 2, 4); (4, 3, 4); (4, 4, 4)
].
