(* regenerated on every run by harness/cmd/translate (cleanupatomic) from core/task Manager.Cleanup:
   no lock acquisition / channel operation / sleep between computing the list of unlocked tasks and killing it *)
Definition cleanup_no_block : bool := true.
