(* regenerated on every run by harness/cmd/translate (tplstate) from configuration/template:
   package-level variables (loggers apart) mentioned on the evaluation path, and whether every
   program given to expr.Run comes from an unconditional expr.Compile of the same evaluation.
   evaluation path: Error Execute Execute Get Get Get MakeConfigAccessFuncs MakeConfigAccessFuncsMultiVar MakeConfigAccessObject MakeConfigAndRepoAccessFuncs MakePluginObjectStack MakeUtilFuncMap Set Set WrapPointer consolidated copyMap cruCardsForHost detectorForHost detectorsForHosts endpointsForCruCard extractConfigURIs generateDplSubworkflow generateDplSubworkflowFromUri getConfig getConfigLegacy getRuntimeConfig jitDplGenerate resolveConfig resolveConfigPath setRuntimeConfig
*)
From Verif Require Import Common.
Open Scope N_scope.
Definition tpl_eval_globals : list str := []. (*  *)
Definition tpl_run_sites : N := 1.
Definition tpl_run_sites_fresh : N := 1.
