(* regenerated on every run by harness/cmd/translate (tplcache) from apricot/local/*.go:
   where the variables of a GetAndProcessComponentConfiguration request flow.
   function map built from the request's variables: service.go (GetAndProcessComponentConfiguration)
   template executed with the request's variables: service.go (GetAndProcessComponentConfiguration)
*)
From Verif Require Import Common.
Open Scope N_scope.
(* something computed from the variables of a request is stored in state that outlives it *)
Definition tplcache_request_data_cached : bool := false.
(* every utility function map is built from the variables of the request and reaches Execute *)
Definition tplcache_funcmap_from_request : bool := true.
(* configuration/template/loader.go: the template loader reports a failed fetch as an error, it
   never hands invented content to pongo2 with a nil error *)
Definition tplcache_failed_fetch_is_error : bool := true.
