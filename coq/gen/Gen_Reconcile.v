(* regenerated on every run by harness/cmd/translate (reconcile) from
   core/task/manager.go (handleMessage, NewManager, doKillTasks, updateTaskStatus) and core/task/scheduler.go *)
From Verif Require Import Common.
Open Scope N_scope.
(* Mesos task states (numeric values of mesos.TaskState) for which a status update with reason
   REASON_RECONCILIATION makes handleMessage send KILL *)
Definition recon_kill_states : list N := [
  0; (* TASK_STARTING *)
  1; (* TASK_RUNNING *)
  6; (* TASK_STAGING *)
  8; (* TASK_KILLING *)
  13 (* TASK_UNKNOWN *)
].
(* does that test also look the task up in the roster of the current life? *)
Definition recon_guarded : bool := true.
(* reconciliationCall (installed in the SUBSCRIBED chain): is the implicit RECONCILE sent on every
   SUBSCRIBED event, unconditionally? *)
Definition reconcile_every_subscribed : bool := true.
(* updateTaskStatus: is the refresh of the agent id / executor id of the roster task done only when
   the status carries the field (a reconciliation answer need not)? *)
Definition status_refresh_guarded : bool := true.
(* doKillTasks: is a whole task list written to the roster (updateTasks) after the KILL calls have
   started (lost update against a concurrent append)? *)
Definition dokill_writes_back_snapshot : bool := false.
(* KillTasks(ids): does a roster write of KillTasks itself involve roster tasks that are not in its
   kill list? *)
Definition killtasks_removes_unlisted : bool := false.
(* doKillTasks (KillTasks, Cleanup): do the tasks of the set that are not ACTIVE get a KILL call too? *)
Definition kill_inactive : bool := true.
(* the states in which Mesos considers a task alive (mesos.proto: non-terminal, reachable) *)
Definition mesos_live_states : list N := [6; 0; 1; 8]. (* STAGING STARTING RUNNING KILLING *)
Definition mesos_running : N := 1.
Definition mesos_staging : N := 6.
Definition mesos_starting : N := 0.
Definition mesos_lost : N := 5.
Definition mesos_failed : N := 3.
(* updateTaskStatus: the Mesos states of a status update that make a roster task ACTIVE / INACTIVE *)
Definition status_activating : list N := [1].
Definition status_deactivating : list N := [2; 3; 4; 5; 7; 9].
