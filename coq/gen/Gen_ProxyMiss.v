(* regenerated on every run by harness/cmd/translate (proxymiss) from a run of apricot/cacheproxy.Service over an
   inventory that grows after the proxy's snapshot (h04 -proxyprobe): on a cache miss 0 the whole host list goes to
   the backend, 1 the backend's answer for that host is used, 2 some answer is not the backend's *)
Definition proxy_miss : nat := 0.
