(* regenerated on every run by harness/cmd/translate (proxymiss) from apricot/cacheproxy Service.GetDetectorsForHosts:
   on a cache miss 0 the whole host list goes to the backend, 1 the backend's answer for that host is used,
   2 the backend's answer for that host does not reach the result *)
Definition proxy_miss : nat := 0.
