(* regenerated on every run by `h11 -gen` : sm.State constants and sm.State.X evaluated by the
   running code on all 8x8 pairs (core/task/sm/state.go) *)
From Verif Require Import Common.
Open Scope N_scope.
Definition go_state_UNKNOWN : N := 0.
Definition go_state_STANDBY : N := 1.
Definition go_state_CONFIGURED : N := 2.
Definition go_state_RUNNING : N := 3.
Definition go_state_ERROR : N := 4.
Definition go_state_DONE : N := 5.
Definition go_state_MIXED : N := 6.
Definition go_state_INVARIANT : N := 7.
Definition stateX_enum : list (N * N * N) := [
  (0, 0, 0); (0, 1, 6); (0, 2, 6); (0, 3, 6); (0, 4, 4); (0, 5, 6); (0, 6, 6); (0, 7, 0);
  (1, 0, 6); (1, 1, 1); (1, 2, 6); (1, 3, 6); (1, 4, 4); (1, 5, 6); (1, 6, 6); (1, 7, 1);
  (2, 0, 6); (2, 1, 6); (2, 2, 2); (2, 3, 6); (2, 4, 4); (2, 5, 6); (2, 6, 6); (2, 7, 2);
  (3, 0, 6); (3, 1, 6); (3, 2, 6); (3, 3, 3); (3, 4, 4); (3, 5, 6); (3, 6, 6); (3, 7, 3);
  (4, 0, 4); (4, 1, 4); (4, 2, 4); (4, 3, 4); (4, 4, 4); (4, 5, 4); (4, 6, 4); (4, 7, 4);
  (5, 0, 6); (5, 1, 6); (5, 2, 6); (5, 3, 6); (5, 4, 4); (5, 5, 5); (5, 6, 6); (5, 7, 5);
  (6, 0, 6); (6, 1, 6); (6, 2, 6); (6, 3, 6); (6, 4, 4); (6, 5, 6); (6, 6, 6); (6, 7, 6);
  (7, 0, 0); (7, 1, 1); (7, 2, 2); (7, 3, 3); (7, 4, 4); (7, 5, 5); (7, 6, 6); (7, 7, 7)
].
