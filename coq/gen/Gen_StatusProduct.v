(* regenerated on every run by harness/cmd/translate (statusproduct) from the map literal
   STATUS_PRODUCT and the Status constant block of core/task/status.go *)
From Verif Require Import Common.
Open Scope N_scope.
Definition src_status_UNDEFINED : N := 0.
Definition src_status_INACTIVE : N := 1.
Definition src_status_PARTIAL : N := 2.
Definition src_status_ACTIVE : N := 3.
Definition src_status_UNDEPLOYABLE : N := 4.
Definition status_product_src : list (N * list (N * N)) := [
  (0, [(0, 0); (1, 0); (2, 0); (3, 0); (4, 0)]);
  (1, [(0, 0); (1, 1); (2, 2); (3, 2); (4, 4)]);
  (2, [(0, 0); (1, 2); (2, 2); (3, 2); (4, 4)]);
  (3, [(0, 0); (1, 2); (2, 2); (3, 3); (4, 4)]);
  (4, [(0, 0); (1, 4); (2, 4); (3, 4); (4, 4)])
].
