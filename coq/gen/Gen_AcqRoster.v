(* regenerated on every run by harness/cmd/translate (acqroster) from core/task Manager.acquireTasks:
   the newly launched tasks are written to the roster whether or not the deployment succeeded *)
Definition acq_roster_unconditional : bool := true.
(* ... and so are, inside the loop over the deployment attempts, the tasks of an attempt that is retried *)
Definition acq_roster_retry : bool := true.
