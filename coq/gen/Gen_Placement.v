(* regenerated on every run by harness/cmd/translate (placement) from
   makeTaskForMesosResources in core/task/scheduler.go *)
From Verif Require Import Common.
Open Scope N_scope.
(* ports 0..data_port_floor are removed before a dynamic (inbound TCP channel) port is picked *)
Definition data_port_floor : N := 8999.
(* ports 0..control_port_floor are removed before the control port is picked *)
Definition control_port_floor : N := 29999.
