(* regenerated on every run by harness/cmd/translate (envfsm) from
   core/environment/environment.go, manager.go, transition*.go, core/server.go *)
From Verif Require Import Common EnvFsmTypes.
Open Scope N_scope.

Definition env_initial : estate := sSTANDBY.

(* fsm.Events of newEnvironment: (name, sources, destination), in source order *)
Definition env_events : list (eevent * list estate * estate) := [
  (eDEPLOY, [sSTANDBY], sDEPLOYED);
  (eCONFIGURE, [sDEPLOYED], sCONFIGURED);
  (eRESET, [sCONFIGURED], sDEPLOYED);
  (eSTART_ACTIVITY, [sCONFIGURED], sRUNNING);
  (eSTOP_ACTIVITY, [sRUNNING], sCONFIGURED);
  (eEXIT, [sCONFIGURED; sDEPLOYED; sSTANDBY], sDONE);
  (eGO_ERROR, [sSTANDBY; sCONFIGURED; sDEPLOYED; sRUNNING], sERROR);
  (eRECOVER, [sERROR], sDEPLOYED)
].

(* MakeTransition: optype -> event name of the returned transition (None = nil) *)
Definition env_optype_map : list (optype * option eevent) := [
  (oCONFIGURE, Some eCONFIGURE);
  (oDEPLOY, Some eDEPLOY);
  (oGO_ERROR, None);
  (oNOOP, None);
  (oRESET, Some eRESET);
  (oSTART_ACTIVITY, Some eSTART_ACTIVITY);
  (oSTOP_ACTIVITY, Some eSTOP_ACTIVITY);
  (oOTHER, None)
].

(* every event name a Transition value of the package can carry (baseTransition literals) *)
Definition env_transition_names : list eevent := [eCONFIGURE; eDEPLOY; eGO_ERROR; eRESET; eSTART_ACTIVITY; eSTOP_ACTIVITY].

(* literal arguments of setState / Sm.SetState in core/ (call sites, sorted) *)
Definition env_forced_literals : list estate := [sDONE; sERROR].
Definition env_forced_nonliteral_sites : N := 0.

(* RpcServer.DestroyEnvironment *)
Definition env_states_for_destroy : list estate := [sCONFIGURED; sDEPLOYED; sSTANDBY].

(* reads of the FSM state (CurrentState / Sm.Current / Sm.Is / Sm.Can) that precede the first
   transitionMutex.Lock / TryLock in TryTransition, ForceError and TeardownEnvironment *)
Definition env_prelock_state_reads : N := 0.

(* RpcServer.ControlEnvironment: ways out of the function (return, goto, panic) between the
   requested TryTransition and the fallback to ERROR; uses of the caller's context after the
   requested TryTransition *)
Definition env_control_exits_before_fallback : N := 0.
Definition env_control_ctx_uses_after_transition : N := 0.

(* callbacks (of the four) in which the error of the negative-weight hook pass is overwritten or
   dropped before it reaches e.Cancel *)
Definition env_hook_errors_lost : N := 0.
