(* regenerated on every run by harness/cmd/translate (tdorder) from core/environment/manager.go
   TeardownEnvironment: its steps in source order; 1 leave_<state> hooks, 2 first release message,
   3 DESTROY hook loop, 4 cancelCallsPendingAwait, 5 second release message, 6 setState DONE,
   7 delete from the map *)
From Coq Require Import List NArith.
Import ListNotations.
Open Scope N_scope.

Definition td_steps : list N := [1; 2; 3; 4; 5; 6; 7].
(* the after_DESTROY hooks of a weight are appended to the DESTROY hooks of that weight (true) or replace them (false) *)
Definition td_after_extends : bool := true.
