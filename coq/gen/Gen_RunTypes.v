(* regenerated on every run by harness/cmd/translate (runtypes) from
   apricot/protos/apricot.pb.go and configuration/componentcfg/query.go *)
From Verif Require Import Common.
Open Scope N_scope.
Definition runtype_table : list (N * str) := [
  (0, [78;85;76;76]); (* NULL *)
  (1, [80;72;89;83;73;67;83]); (* PHYSICS *)
  (2, [84;69;67;72;78;73;67;65;76]); (* TECHNICAL *)
  (3, [80;69;68;69;83;84;65;76]); (* PEDESTAL *)
  (4, [80;85;76;83;69;82]); (* PULSER *)
  (5, [76;65;83;69;82]); (* LASER *)
  (6, [67;65;76;73;66;82;65;84;73;79;78;95;73;84;72;82;95;84;85;78;73;78;71]); (* CALIBRATION_ITHR_TUNING *)
  (7, [67;65;76;73;66;82;65;84;73;79;78;95;86;67;65;83;78;95;84;85;78;73;78;71]); (* CALIBRATION_VCASN_TUNING *)
  (8, [67;65;76;73;66;82;65;84;73;79;78;95;84;72;82;95;83;67;65;78]); (* CALIBRATION_THR_SCAN *)
  (9, [67;65;76;73;66;82;65;84;73;79;78;95;68;73;71;73;84;65;76;95;83;67;65;78]); (* CALIBRATION_DIGITAL_SCAN *)
  (10, [67;65;76;73;66;82;65;84;73;79;78;95;65;78;65;76;79;71;95;83;67;65;78]); (* CALIBRATION_ANALOG_SCAN *)
  (11, [67;65;76;73;66;82;65;84;73;79;78;95;70;72;82]); (* CALIBRATION_FHR *)
  (12, [67;65;76;73;66;82;65;84;73;79;78;95;65;76;80;73;68;69;95;83;67;65;78]); (* CALIBRATION_ALPIDE_SCAN *)
  (13, [67;65;76;73;66;82;65;84;73;79;78]); (* CALIBRATION *)
  (14, [67;79;83;77;73;67;83]); (* COSMICS *)
  (15, [83;89;78;84;72;69;84;73;67]); (* SYNTHETIC *)
  (16, [78;79;73;83;69]); (* NOISE *)
  (17, [67;65;76;73;66;82;65;84;73;79;78;95;80;85;76;83;69;95;76;69;78;71;84;72]); (* CALIBRATION_PULSE_LENGTH *)
  (18, [67;65;76;73;66;82;65;84;73;79;78;95;86;82;69;83;69;84;68]); (* CALIBRATION_VRESETD *)
  (300, [65;78;89]) (* ANY *)
].
Definition runtype_any : N := 300.
Definition components_prefix : str := [111;50;47;99;111;109;112;111;110;101;110;116;115;47]. (* o2/components/ *)
