(* regenerated on every run by harness/cmd/translate (claimable) from core/task IsClaimable:
   ((locked, status is ACTIVE), state (0 STANDBY 1 CONFIGURED 2 RUNNING 3 ERROR 9 other), claimable) *)
From Coq Require Import List NArith.
Import ListNotations.
Open Scope N_scope.

Definition claimable_table : list ((bool * bool) * N * bool) :=
  [((false, false), 0, false);
   ((false, false), 1, false);
   ((false, false), 2, false);
   ((false, false), 3, false);
   ((false, false), 9, false);
   ((false, true), 0, true);
   ((false, true), 1, false);
   ((false, true), 2, false);
   ((false, true), 3, false);
   ((false, true), 9, false);
   ((true, false), 0, false);
   ((true, false), 1, false);
   ((true, false), 2, false);
   ((true, false), 3, false);
   ((true, false), 9, false);
   ((true, true), 0, false);
   ((true, true), 1, false);
   ((true, true), 2, false);
   ((true, true), 3, false);
   ((true, true), 9, false)].
