(* regenerated on every run by `h01 -gen`: FSM.Can and the outcome of firing every event in every
   state (all hooks and the body succeeding) on the FSM of a real Environment *)
From Verif Require Import Common EnvFsmTypes.
Open Scope N_scope.

Definition env_can_table : list (estate * eevent * bool) := [
  (sSTANDBY, eDEPLOY, true);
  (sSTANDBY, eCONFIGURE, false);
  (sSTANDBY, eRESET, false);
  (sSTANDBY, eSTART_ACTIVITY, false);
  (sSTANDBY, eSTOP_ACTIVITY, false);
  (sSTANDBY, eEXIT, true);
  (sSTANDBY, eGO_ERROR, true);
  (sSTANDBY, eRECOVER, false);
  (sDEPLOYED, eDEPLOY, false);
  (sDEPLOYED, eCONFIGURE, true);
  (sDEPLOYED, eRESET, false);
  (sDEPLOYED, eSTART_ACTIVITY, false);
  (sDEPLOYED, eSTOP_ACTIVITY, false);
  (sDEPLOYED, eEXIT, true);
  (sDEPLOYED, eGO_ERROR, true);
  (sDEPLOYED, eRECOVER, false);
  (sCONFIGURED, eDEPLOY, false);
  (sCONFIGURED, eCONFIGURE, false);
  (sCONFIGURED, eRESET, true);
  (sCONFIGURED, eSTART_ACTIVITY, true);
  (sCONFIGURED, eSTOP_ACTIVITY, false);
  (sCONFIGURED, eEXIT, true);
  (sCONFIGURED, eGO_ERROR, true);
  (sCONFIGURED, eRECOVER, false);
  (sRUNNING, eDEPLOY, false);
  (sRUNNING, eCONFIGURE, false);
  (sRUNNING, eRESET, false);
  (sRUNNING, eSTART_ACTIVITY, false);
  (sRUNNING, eSTOP_ACTIVITY, true);
  (sRUNNING, eEXIT, false);
  (sRUNNING, eGO_ERROR, true);
  (sRUNNING, eRECOVER, false);
  (sERROR, eDEPLOY, false);
  (sERROR, eCONFIGURE, false);
  (sERROR, eRESET, false);
  (sERROR, eSTART_ACTIVITY, false);
  (sERROR, eSTOP_ACTIVITY, false);
  (sERROR, eEXIT, false);
  (sERROR, eGO_ERROR, false);
  (sERROR, eRECOVER, true);
  (sDONE, eDEPLOY, false);
  (sDONE, eCONFIGURE, false);
  (sDONE, eRESET, false);
  (sDONE, eSTART_ACTIVITY, false);
  (sDONE, eSTOP_ACTIVITY, false);
  (sDONE, eEXIT, false);
  (sDONE, eGO_ERROR, false);
  (sDONE, eRECOVER, false)
].

(* (state, event, state afterwards, TryTransition returned an error) *)
Definition env_fire_table : list (estate * eevent * estate * bool) := [
  (sSTANDBY, eDEPLOY, sDEPLOYED, false);
  (sSTANDBY, eCONFIGURE, sSTANDBY, true);
  (sSTANDBY, eRESET, sSTANDBY, true);
  (sSTANDBY, eSTART_ACTIVITY, sSTANDBY, true);
  (sSTANDBY, eSTOP_ACTIVITY, sSTANDBY, true);
  (sSTANDBY, eEXIT, sDONE, false);
  (sSTANDBY, eGO_ERROR, sERROR, false);
  (sSTANDBY, eRECOVER, sSTANDBY, true);
  (sDEPLOYED, eDEPLOY, sDEPLOYED, true);
  (sDEPLOYED, eCONFIGURE, sCONFIGURED, false);
  (sDEPLOYED, eRESET, sDEPLOYED, true);
  (sDEPLOYED, eSTART_ACTIVITY, sDEPLOYED, true);
  (sDEPLOYED, eSTOP_ACTIVITY, sDEPLOYED, true);
  (sDEPLOYED, eEXIT, sDONE, false);
  (sDEPLOYED, eGO_ERROR, sERROR, false);
  (sDEPLOYED, eRECOVER, sDEPLOYED, true);
  (sCONFIGURED, eDEPLOY, sCONFIGURED, true);
  (sCONFIGURED, eCONFIGURE, sCONFIGURED, true);
  (sCONFIGURED, eRESET, sDEPLOYED, false);
  (sCONFIGURED, eSTART_ACTIVITY, sRUNNING, false);
  (sCONFIGURED, eSTOP_ACTIVITY, sCONFIGURED, true);
  (sCONFIGURED, eEXIT, sDONE, false);
  (sCONFIGURED, eGO_ERROR, sERROR, false);
  (sCONFIGURED, eRECOVER, sCONFIGURED, true);
  (sRUNNING, eDEPLOY, sRUNNING, true);
  (sRUNNING, eCONFIGURE, sRUNNING, true);
  (sRUNNING, eRESET, sRUNNING, true);
  (sRUNNING, eSTART_ACTIVITY, sRUNNING, true);
  (sRUNNING, eSTOP_ACTIVITY, sCONFIGURED, false);
  (sRUNNING, eEXIT, sRUNNING, true);
  (sRUNNING, eGO_ERROR, sERROR, false);
  (sRUNNING, eRECOVER, sRUNNING, true);
  (sERROR, eDEPLOY, sERROR, true);
  (sERROR, eCONFIGURE, sERROR, true);
  (sERROR, eRESET, sERROR, true);
  (sERROR, eSTART_ACTIVITY, sERROR, true);
  (sERROR, eSTOP_ACTIVITY, sERROR, true);
  (sERROR, eEXIT, sERROR, true);
  (sERROR, eGO_ERROR, sERROR, true);
  (sERROR, eRECOVER, sDEPLOYED, false);
  (sDONE, eDEPLOY, sDONE, true);
  (sDONE, eCONFIGURE, sDONE, true);
  (sDONE, eRESET, sDONE, true);
  (sDONE, eSTART_ACTIVITY, sDONE, true);
  (sDONE, eSTOP_ACTIVITY, sDONE, true);
  (sDONE, eEXIT, sDONE, true);
  (sDONE, eGO_ERROR, sDONE, true);
  (sDONE, eRECOVER, sDONE, true)
].

Definition env_ctor_names : list eevent := [eDEPLOY; eCONFIGURE; eRESET; eSTART_ACTIVITY; eSTOP_ACTIVITY; eGO_ERROR].
Definition env_make_table : list (optype * option eevent) := [(oNOOP, None); (oSTART_ACTIVITY, Some eSTART_ACTIVITY); (oSTOP_ACTIVITY, Some eSTOP_ACTIVITY); (oCONFIGURE, Some eCONFIGURE); (oRESET, Some eRESET); (oGO_ERROR, None); (oDEPLOY, Some eDEPLOY); (oOTHER, None)].
