(* regenerated on every run by harness/cmd/translate (dokill) from core/task (the kill routine of KillTasks / Cleanup):
   a task whose KILL call failed is put back into the roster; the loop then carries on with the other tasks *)
Definition dokill_puts_back : bool := true.
Definition dokill_carries_on : bool := true.
