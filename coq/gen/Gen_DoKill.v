(* regenerated on every run by harness/cmd/translate (dokill) from core/task (the kill routine of KillTasks / Cleanup):
   a task whose KILL call failed is put back into the roster; the loop then carries on with the other tasks *)
Definition dokill_puts_back : bool := true.
Definition dokill_carries_on : bool := true.
(* from its first KILL call on, the kill routine never stores a whole roster it did not read at that moment
   (a list kept in a local across the KILL calls would erase what other requests wrote meanwhile) *)
Definition dokill_writes_fresh : bool := true.
