(* regenerated on every run by harness/cmd/h02 -gen: the executor's message handler
   (executor/handlers.go, handleMessageEvent) driven with the MesosCommand_Transition payload of the
   core for CONFIGURE, START, STOP, RESET against an executor in which the addressed task is alive and
   performs the transition / alive and refuses it / gone (other tasks alive, none alive, an entry
   without a task).  executor_probe_cases: calls made; executor_ack_without_transition: answers
   without error text although the addressed task's Transition was not executed;
   executor_ack_lost: acknowledgements of a live task not delivered exactly once;
   executor_refusal_without_error: refusals of a live task that arrived without error text;
   executor_wrong_task_ran: Transitions executed on another task than the addressed one. *)
From Verif Require Import Common.
Open Scope N_scope.
Definition executor_probe_cases : N := 20.
Definition executor_ack_without_transition : N := 0.
Definition executor_ack_lost : N := 0.
Definition executor_refusal_without_error : N := 0.
Definition executor_wrong_task_ran : N := 0.
