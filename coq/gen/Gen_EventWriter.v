(* regenerated on every run by harness/cmd/translate (eventwriter) from
   common/event/writer.go and common/event/fifobuffer.go *)
From Verif Require Import Common.
Open Scope N_scope.
Definition ew_chan_cap : N := 10000.          (* cap(toBatchMessagesChan) *)
Definition ew_done_cap : N := 1.          (* cap(batchingLoopDoneCh) *)
Definition ew_batch_max : N := 100.         (* PopMultiple argument, default branch *)
Definition ew_drain_on_done : bool := true.  (* done branch drains the buffer before returning *)
Definition ew_drain_batch_max : N := 100.   (* PopMultiple argument, drain loop *)
Definition ew_release_sticky : bool := true. (* ReleaseGoroutines sets a flag, before Broadcast, on which PopMultiple returns instead of waiting *)
(* producer side, WriteEvent / WriteEventWithTimestamp: the hand-over to the batching loop *)
Definition ew_pub_single_send : bool := true.   (* exactly one send statement on toBatchMessagesChan in writer.go, and it is in WriteEventWithTimestamp *)
Definition ew_pub_plain_send : bool := true.    (* every such send is a plain statement: not a select case, not under go / defer, not in a loop, not in a stored closure *)
Definition ew_pub_no_select : bool := true.     (* no select statement in WriteEvent / WriteEventWithTimestamp *)
Definition ew_pub_no_go : bool := true.         (* no go statement in WriteEvent / WriteEventWithTimestamp; WriteEvent calls WriteEventWithTimestamp synchronously *)
Definition ew_pub_convert_first : bool := true. (* the value sent is the local assigned, before the send, from the conversion internalEventToKafkaEvent ; kafkaEventToKafkaMessage *)
(* key source per case of the type switch in internalEventToKafkaEvent:
   0 = no key, 1 = e.Taskid, 2 = extractAndConvertEnvID(e).  Kinds: 0=Ev_MetaEvent_CoreStart 1=Ev_MetaEvent_MesosHeartbeat 2=Ev_MetaEvent_FrameworkEvent 3=Ev_TaskEvent 4=Ev_RoleEvent 5=Ev_EnvironmentEvent 6=Ev_CallEvent 7=Ev_IntegratedServiceEvent 8=Ev_RunEvent *)
Definition ew_key_table : list (N * N) := [(0, 0); (1, 0); (2, 0); (3, 1); (4, 2); (5, 2); (6, 2); (7, 2); (8, 2)].
