(* C01 - placeholder while the proofs are being written *)
From Verif Require Import Common EnvFsm.
Open Scope N_scope.
Theorem C01_placeholder : doc_edge sSTANDBY sDEPLOYED = true.
Proof. reflexivity. Qed.
Print Assumptions C01_placeholder.
