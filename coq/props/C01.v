(* C01 - an environment's state changes only along the documented graph, one transition at a time.
   Property theorems only; the model is model/EnvFsm.v (+ the tables regenerated from /repo's source
   on every run: gen/Gen_EnvEvents.v by the translator, gen/Gen_EnvCan.v by enumeration of a real
   Environment's FSM), the lemmas are proofs/EnvFsm_proofs.v and proofs/EnvFsmConc_proofs.v.

   Vocabulary (definitions in the model unless said otherwise):
     doc_edge a b      the documented graph, written by hand from the property text
     doc_op ot s       the documented effect of the five requestable operations
     req / prog_of     the callers of the state machine as programs over the actions ALookup (manager
                       map), ATry ev (TryTransition, takes the transition mutex), ATeardown (takes it
                       too), AForce s (Environment.ForceError: takes it too, refused on DONE; before
                       the repair of C01-a/b/c this was an unlocked Sm.SetState), ARead (CurrentState)
     oracle            which hooks / task commands / task releases fail (arbitrary)
     run_seq           sequential histories;  trace_edges: every state write of the trace as (old, new)
     runs sched c      concurrent semantics: the scheduler picks a thread per step; a locked section
                       takes three steps (lock + hooks before the state write; the state write;
                       remaining hooks + unlock); unlocked actions take one step at any time
     c_edges           every state change of a concurrent run
     api_req q         q goes through the manager's map (ControlEnvironment, DestroyEnvironment,
                       TeardownEnvironment, ODC / END_OF_STREAM callers)   [proofs/EnvFsm_proofs.v]
     req_ok q          a bare TryTransition uses an event name some Transition constructor carries
     J w               DONE implies unlisted (established by teardown, kept by every action) *)
From Verif Require Import Common EnvFsmTypes Gen_EnvEvents Gen_EnvCan EnvFsm EnvFsm_proofs EnvFsmConc_proofs.
Open Scope N_scope.

(* ---- the tables of the source, as translated on this run ---- *)

(* every edge that an event carried by a constructible Transition can take is documented *)
Theorem C01_event_table_within_documented_graph :
  forall ev st d, mem_event ev env_transition_names = true ->
                  lookup_dst env_events ev st = Some d -> doc_edge st d = true.
Proof. exact api_edge_documented. Qed.
Print Assumptions C01_event_table_within_documented_graph.

(* for the five requestable operations the table is exactly the documented effect; MakeTransition
   hands exactly these five to the state machine (NOOP, GO_ERROR, out-of-enum: nil) *)
Theorem C01_requestable_ops_are_documented :
  (forall ot, make_transition ot = doc_op_event ot) /\
  (forall ot ev st, doc_op_event ot = Some ev -> lookup_dst env_events ev st = doc_op ot st).
Proof. exact (conj make_transition_documented table_is_documented_ops). Qed.
Print Assumptions C01_requestable_ops_are_documented.

(* complete tie to the running code: FSM.Can of a real Environment, the outcome of firing every
   event in every state, MakeTransition and the constructors' event names, on the whole finite domain *)
Theorem C01_tables_are_the_running_fsm :
  (forall s e, In (s, e, can env_events s e) env_can_table) /\
  (forall s e, In (s, e, sec_final s (fsm_section env_events all_bodyful no_faults s e),
                   sec_err (fsm_section env_events all_bodyful no_faults s e)) env_fire_table) /\
  (forall ot, assoc_op ot env_make_table = make_transition ot) /\
  (forall e, In e env_ctor_names <-> In e env_transition_names).
Proof. exact (conj can_table_agrees (conj fire_table_agrees (conj make_table_agrees ctor_names_agree))). Qed.
Print Assumptions C01_tables_are_the_running_fsm.

(* EXIT and RECOVER are in the table (RECOVER's edge ERROR -> DEPLOYED is not documented) but no
   Transition value carries their name, every caller fires only constructible events and forces
   only ERROR, and the literal arguments of setState / SetState in core/ are ERROR or DONE *)
Theorem C01_exit_recover_unreachable :
  mem_event eEXIT env_transition_names = false /\ mem_event eRECOVER env_transition_names = false /\
  (lookup_dst env_events eRECOVER sERROR = Some sDEPLOYED /\ doc_edge sERROR sDEPLOYED = false) /\
  (forall q, req_ok q -> prog_ok (prog_of q)) /\
  (forall s, In s env_forced_literals -> s = sERROR \/ s = sDONE).
Proof.
  exact (conj (proj1 exit_recover_not_constructible) (conj (proj2 exit_recover_not_constructible)
        (conj recover_edge_undocumented (conj prog_of_ok forced_literals_error_or_done)))).
Qed.
Print Assumptions C01_exit_recover_unreachable.

(* ---- sequential histories ---- *)

(* every state write of every history of requests of every kind of caller (API, watcher, auto-stop
   timer, bare TryTransition, also through a stale handle), with every combination of failing hooks,
   task commands and releases, is an edge of the documented graph (or rewrites the same state) *)
Theorem C01_graph_seq :
  forall (l : list (req * oracle)),
    Forall (fun qo => req_ok (fst qo)) l -> forall w : world, J w ->
    edges_ok (trace_edges (w_st w) (snd (run_seq l w))) = true /\
    trace_final (w_st w) (snd (run_seq l w)) = w_st (fst (run_seq l w)) /\
    J (fst (run_seq l w)).
Proof. exact run_seq_graph. Qed.
Print Assumptions C01_graph_seq.

(* DONE is terminal: whatever is requested of a DONE environment, by whatever caller, no hook runs,
   no task command is sent and the state stays DONE *)
Theorem C01_done_terminal_seq :
  forall (l : list (req * oracle)),
    Forall (fun qo => req_ok (fst qo)) l -> forall w : world, w_st w = sDONE ->
    w_st (fst (run_seq l w)) = sDONE /\ snd (run_seq l w) = [].
Proof. exact run_seq_done. Qed.
Print Assumptions C01_done_terminal_seq.

(* a request that is not legal in the current state runs none of its hooks, sends no task command
   at all (only the hooks of the GO_ERROR fallback run), and leaves the environment in ERROR,
   which is the state reported; the caller gets an error (Aborted) *)
Theorem C01_illegal_inert :
  forall o ot ev w,
    J w -> w_listed w = true -> make_transition ot = Some ev -> doc_op ot (w_st w) = None ->
    (forall x, In x (snd (run_req o (QControl ot) w)) -> own_item ev x = false) /\
    (forall e, ~ In (Body e) (snd (run_req o (QControl ot) w))) /\
    fst (fst (run_req o (QControl ot) w)) = mkWorld sERROR true /\
    snd (snd (fst (run_req o (QControl ot) w))) = Some sERROR /\
    fst (snd (fst (run_req o (QControl ot) w))) = 3.
Proof. exact control_illegal_inert. Qed.
Print Assumptions C01_illegal_inert.

(* any ControlEnvironment whose TryTransition returns an error (cancelled by a hook, failed task
   command, failing enter / after hook, event not enabled) ends in ERROR, reported as such, and is
   answered Aborted *)
Theorem C01_failed_is_error :
  forall o ot ev w,
    J w -> w_listed w = true -> make_transition ot = Some ev ->
    sec_err (fsm_section env_events api_bodyful o (w_st w) ev) = true ->
    fst (fst (run_req o (QControl ot) w)) = mkWorld sERROR true /\
    snd (snd (fst (run_req o (QControl ot) w))) = Some sERROR /\
    fst (snd (fst (run_req o (QControl ot) w))) = 3.
Proof. exact control_failed_is_error. Qed.
Print Assumptions C01_failed_is_error.

(* the model's ControlEnvironment (p_control) goes from the requested transition straight to the
   fallback; in the source of this run no return / goto / panic lies between the two and the
   caller's context is not looked at after the transition, so C01_failed_is_error and
   C01_illegal_inert hold for callers that cancel, disconnect or time out as well *)
Theorem C01_control_fallback_unconditional :
  env_control_exits_before_fallback = 0 /\ env_control_ctx_uses_after_transition = 0.
Proof. exact control_fallback_unconditional. Qed.
Print Assumptions C01_control_fallback_unconditional.

(* the model has one failing-hook flag per moment; the callbacks run two weight passes per moment:
   in the source of this run the error of the negative-weight pass is never overwritten or dropped
   before it reaches e.Cancel, so C01_failed_is_error covers a critical hook failing in either pass *)
Theorem C01_hook_errors_not_lost : env_hook_errors_lost = 0.
Proof. exact hook_errors_not_lost. Qed.
Print Assumptions C01_hook_errors_not_lost.

(* ... and one that returns no error ends in the documented destination, reported as such *)
Theorem C01_success_is_documented :
  forall o ot ev w,
    J w -> w_listed w = true -> make_transition ot = Some ev ->
    sec_err (fsm_section env_events api_bodyful o (w_st w) ev) = false ->
    exists d, doc_op ot (w_st w) = Some d /\ fst (run_req o (QControl ot) w) = (mkWorld d true, (0, Some d)).
Proof. exact control_success_documented. Qed.
Print Assumptions C01_success_is_documented.

(* requests MakeTransition refuses and requests for an unknown environment change nothing *)
Theorem C01_refused_inert :
  forall o ot w,
    w_listed w = false \/ make_transition ot = None ->
    fst (fst (run_req o (QControl ot) w)) = w /\ snd (run_req o (QControl ot) w) = [] /\
    (fst (snd (fst (run_req o (QControl ot) w))) = 1 \/ fst (snd (fst (run_req o (QControl ot) w))) = 2).
Proof. exact control_refused. Qed.
Print Assumptions C01_refused_inert.

(* ---- concurrent callers, every schedule ---- *)

(* at most one transition, teardown or forced state is in progress at any instant (every prefix of
   every schedule is a schedule), and the transition mutex is held exactly while one is *)
Theorem C01_one_at_a_time :
  forall sched w (ths : list (prog * oracle)),
    (busy_count (runs sched (init_c w ths)) <= 1)%nat /\
    (c_lock (runs sched (init_c w ths)) = true <-> busy_count (runs sched (init_c w ths)) = 1%nat).
Proof. exact mutual_exclusion. Qed.
Print Assumptions C01_one_at_a_time.

(* the full statements over concurrent API requests.  Both were refuted by the faithful model of the
   code as it was (C01-b: ERROR forced without the transition mutex was overwritten by a running
   transition; C01-a: a stale handle forced DONE -> ERROR); with the forced state taken under the
   mutex and refused on DONE (Environment.ForceError) they are theorems *)
Definition C01_graph_sched_statement : Prop := graph_sched_statement.
Definition C01_done_terminal_statement : Prop := done_terminal_statement.

Theorem C01_graph_sched : C01_graph_sched_statement.
Proof. exact graph_sched_holds. Qed.
Print Assumptions C01_graph_sched.

Theorem C01_done_terminal_sched : C01_done_terminal_statement.
Proof. exact done_terminal_holds. Qed.
Print Assumptions C01_done_terminal_sched.

(* the same for every schedule of every set of requests of every kind of caller: every state change
   is a documented edge, the changes are chained from the initial to the current state, none leaves
   DONE, DONE implies unlisted *)
Theorem C01_graph_sched_all_callers :
  forall sched (reqs : list (req * oracle)) w,
    Forall (fun qo => req_ok (fst qo)) reqs -> J w ->
    edges_ok (c_edges (runs sched (init_c w (req_threads reqs)))) = true /\
    chained (w_st w) (c_edges (runs sched (init_c w (req_threads reqs))))
            (w_st (c_w (runs sched (init_c w (req_threads reqs))))) /\
    (forall e, In e (c_edges (runs sched (init_c w (req_threads reqs)))) -> fst e <> sDONE) /\
    J (c_w (runs sched (init_c w (req_threads reqs)))).
Proof. exact graph_sched_reqs. Qed.
Print Assumptions C01_graph_sched_all_callers.

(* "each one seeing the state left by the previous one": a locked section (transition, teardown,
   forced state) acts on the state it finds once it has the mutex - its leave hooks are those of
   that state, in DONE nothing runs and nothing is written, a teardown without force commits from
   STANDBY / DEPLOYED only; by C01_serial_refines_seq that state is the one left by the previous
   section.  In the source of this run no read of the FSM state in TryTransition, ForceError or
   TeardownEnvironment precedes the acquisition of the transition mutex (translator) *)
Theorem C01_section_sees_current_state :
  (forall o a st s, In (Hook (MLeave s)) (sec_trace (act_section env_events api_bodyful o a st)) -> s = st) /\
  (forall o a, act_ok a -> sec_commit (act_section env_events api_bodyful o a sDONE) = None /\
                           sec_trace (act_section env_events api_bodyful o a sDONE) = []) /\
  (forall o st d u, sec_commit (act_section env_events api_bodyful o (ATeardown false) st) = Some (d, u) ->
                    st = sSTANDBY \/ st = sDEPLOYED).
Proof. exact (conj act_section_leave (conj act_section_done teardown_unforced_commit)). Qed.
Print Assumptions C01_section_sees_current_state.

Theorem C01_state_read_under_mutex : env_prelock_state_reads = 0.
Proof. exact state_read_under_mutex. Qed.
Print Assumptions C01_state_read_under_mutex.

(* serialisation: every schedule is an atomic execution (one whole action - a locked section is one
   action - at a time, each seeing the world left by the previous one) of the same threads, in the
   order in which the sections commit *)
Theorem C01_serial_refines_seq :
  forall sched (reqs : list (req * oracle)) w,
    exists order, subseq order sched /\
      abs (runs sched (init_c w (req_threads reqs))) = run_atomic order (w, req_threads reqs).
Proof. exact serial_refinement_reqs. Qed.
Print Assumptions C01_serial_refines_seq.

(* ... and the atomic execution of one request alone is the sequential semantics of C01_graph_seq *)
Theorem C01_atomic_single_is_sequential :
  forall o p w, exists n c s,
    run_atomic (repeat 0%nat n) (w, [(p, o)]) = (fst (fst (run_prog env_events api_bodyful o p w)), [(Ret c s, o)]) /\
    snd (fst (run_prog env_events api_bodyful o p w)) = (c, s).
Proof. exact atomic_single. Qed.
Print Assumptions C01_atomic_single_is_sequential.

(* the hypotheses are satisfiable by non-trivial runs: a history with a failing task command, an
   illegal request and a teardown; a concurrent run in which a caller waits *)
Example C01_nonvacuous :
  let l := [(QControl oDEPLOY, no_faults); (QControl oCONFIGURE, mkOracle [] [eCONFIGURE] false false);
            (QControl oSTART_ACTIVITY, no_faults); (QDestroy false false false, no_faults);
            (QControl oDEPLOY, no_faults)] in
  let w := mkWorld sSTANDBY true in
  Forall (fun qo => api_req (fst qo)) l /\ J w /\
  trace_edges (w_st w) (snd (run_seq l w)) = [(sSTANDBY, sDEPLOYED); (sDEPLOYED, sERROR); (sERROR, sDONE)] /\
  let c := runs [0; 1; 0; 0; 1; 0; 0; 1; 1; 1; 1; 1; 1; 1; 1]%nat
                (init_c w (req_threads [(QControl oDEPLOY, no_faults); (QControl oCONFIGURE, no_faults)])) in
  c_edges c = [(sDEPLOYED, sCONFIGURED); (sSTANDBY, sDEPLOYED)] /\
  forallb th_done (c_threads c) = true.
Proof.
  cbv zeta. split; [repeat constructor|]. split; [intro E; discriminate E|].
  split; [vm_compute; reflexivity|]. vm_compute. repeat split; reflexivity.
Qed.

(* the schedules that refuted the two statements before the repair, as regression examples: the
   stale handle now leaves DONE alone (Aborted / DONE), the forced ERROR now waits for the running
   CONFIGURE and follows it (DEPLOYED -> CONFIGURED -> ERROR) *)
Example C01_old_witnesses :
  (c_edges wit_stale = [(sCONFIGURED, sDONE)] /\ w_st (c_w wit_stale) = sDONE) /\
  (c_edges wit_force_race = [(sCONFIGURED, sERROR); (sDEPLOYED, sCONFIGURED)] /\ w_st (c_w wit_force_race) = sERROR).
Proof. vm_compute. repeat split; reflexivity. Qed.
