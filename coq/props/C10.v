(* C10 — run number and run timestamps bracket every run exactly once.
   Property theorems only; lemmas in proofs/EnvHooksRun_proofs.v, model in model/EnvHooks.v
   (built-in work of before_event / leave_state / after_event, manager.go teardown stamps).
   Quantification: arbitrary hook sets and oracles (which hooks fail, task transition failing),
   arbitrary states / histories. *)
From Verif Require Import Common EnvHooks EnvHooks_proofs EnvHooksFail_proofs EnvHooksRun_proofs.
From Coq Require Import ZArith List Bool.
Import ListNotations.
Open Scope N_scope.

(* Window, START_ACTIVITY.  In every START_ACTIVITY transition (whatever fails in it) a call of
   negative weight at before_START_ACTIVITY sees the run variables exactly as they were before;
   every other call of the transition — non-negative weights of before_START_ACTIVITY, leave_,
   enter_, after_ at any weight — sees the new run number (counter + 1, in the field and in the
   variables) and the new start stamp. *)
Theorem C10_window_start : forall hooks orc b s s' t r,
  transition hooks orc START_ACTIVITY b s = (s', t, r) -> Forall (start_sees s) t.
Proof. exact transition_sees_start. Qed.
Print Assumptions C10_window_start.

(* Window, every other transition.  For P := "run number n, start stamp c" (or anything else
   that the writes of the three later stamps cannot break): every call of a transition other
   than START_ACTIVITY sees P if P held before, at every moment and weight, including the
   non-negative weights of after_STOP_ACTIVITY; and P still holds afterwards unless the
   transition is STOP_ACTIVITY (which drops the number after its last hook). *)
Theorem C10_window_other : forall P hooks orc e b s s' t r,
  transition hooks orc e b s = (s', t, r) -> stable P -> e <> START_ACTIVITY -> P (e_rv s) ->
  sees P t /\ (e <> STOP_ACTIVITY -> P (e_rv s')).
Proof. exact transition_sees_other. Qed.
Print Assumptions C10_window_other.

(* "the same run number and start stamp" is such a P *)
Theorem C10_same_run_stable : forall r0, stable (same_run r0).
Proof. exact same_run_stable. Qed.
Print Assumptions C10_same_run_stable.

(* Window over a history: through any sequence of operations that neither start nor stop a run
   (failing transitions, GO_ERROR, the watcher's forced ERROR, unknown events) every call sees P
   and P holds at the end. *)
Theorem C10_window_history : forall P hooks, stable P -> forall ops i s s' l,
  run_ops hooks i ops s = (s', l) -> Forall mid_run_op ops -> P (e_rv s) ->
  sees P (full_trace l) /\ P (e_rv s').
Proof. exact run_ops_sees. Qed.
Print Assumptions C10_window_history.

(* "... and are gone afterwards": once STOP_ACTIVITY has taken the environment out of RUNNING the
   number is gone from the field and from the variables. *)
Theorem C10_gone_after_stop : forall hooks orc b s s' t r d,
  transition hooks orc STOP_ACTIVITY b s = (s', t, r) -> dst_of STOP_ACTIVITY (e_st s) = Some d ->
  r <> RCrash -> e_st s' <> e_st s ->
  rv_rn (e_rv s') = 0 /\ rv_var (e_rv s') = None.
Proof. exact stop_drops. Qed.
Print Assumptions C10_gone_after_stop.

(* ... but a START_ACTIVITY that does not reach RUNNING leaves the number visible (finding C10-b) *)
Definition C10_failed_start_statement : Prop :=
  forall hooks orc b s s' t r,
    transition hooks orc START_ACTIVITY b s = (s', t, r) -> r <> RCrash -> e_st s' <> RUNNING ->
    rv_var (e_rv s) = None -> rv_var (e_rv s') = None.
Theorem C10_failed_start_refuted : ~ C10_failed_start_statement.
Proof. exact failed_start_refuted. Qed.
Print Assumptions C10_failed_start_refuted.

(* End stamps "however the run ends": any operation that takes the environment out of RUNNING -
   STOP_ACTIVITY, GO_ERROR, the forced ERROR after a GO_ERROR that was cancelled (watcher sequence
   and ControlEnvironment fallback; former finding C10-a, repaired: ForceError closes the open
   run), teardown - leaves both end stamps set; each stamp is judged on its own, whatever mixture
   earlier failed operations left. *)
Theorem C10_end_stamps : forall hooks i o s s' t r,
  run_op hooks i o s = (s', t, r) -> r <> RCrash -> e_st s = RUNNING -> e_st s' <> RUNNING ->
  rv_soeor (e_rv s) <> SAbsent -> rv_eoeor (e_rv s) <> SAbsent ->
  is_set (rv_soeor (e_rv s')) /\ is_set (rv_eoeor (e_rv s')).
Proof. exact end_stamps_however. Qed.
Print Assumptions C10_end_stamps.

(* the former witness: START_ACTIVITY, then the watcher sequence with a failing critical
   before_GO_ERROR-1 hook: the run is closed when the state is forced *)
Theorem C10_forced_error_closes_run :
  let s := fst (run_ops wit_forced_hooks 0 wit_forced_ops (est0 CONFIGURED)) in
  e_st s = ERROR /\ rv_soeor (e_rv s) = SSet 3 /\ rv_eoeor (e_rv s) = SSet 4.
Proof. exact wit_forced_closed. Qed.
Print Assumptions C10_forced_error_closes_run.

(* the same for a single transition, without looking at the state it started from *)
Theorem C10_end_stamps_transition : forall hooks orc e b s s' t r d,
  ending e -> transition hooks orc e b s = (s', t, r) -> dst_of e (e_st s) = Some d ->
  r <> RCrash -> e_st s' <> e_st s ->
  rv_soeor (e_rv s) <> SAbsent -> rv_eoeor (e_rv s) <> SAbsent ->
  is_set (rv_soeor (e_rv s')) /\ is_set (rv_eoeor (e_rv s')).
Proof. exact end_stamps_set. Qed.
Print Assumptions C10_end_stamps_transition.

(* ... and for a run ended by tearing the environment down while RUNNING. *)
Theorem C10_end_stamps_teardown : forall hooks i o s s' t r,
  o_kind o = OTeardown -> run_op hooks i o s = (s', t, r) -> r <> RCrash -> e_st s = RUNNING ->
  rv_soeor (e_rv s) <> SAbsent -> rv_eoeor (e_rv s) <> SAbsent ->
  is_set (rv_soeor (e_rv s')) /\ is_set (rv_eoeor (e_rv s')) /\ e_st s' = DONE.
Proof. exact teardown_end_stamps. Qed.
Print Assumptions C10_end_stamps_teardown.

(* Order.  Over every history (any hooks, any failures, any operations, from any initial state)
   the four run timestamps, where set, satisfy start <= start-completion <= end <=
   end-completion, in the final state and in every state the history went through.  ([ordered]
   is the six pairwise comparisons; the logical clock ticks at every stamp written, so a stamp
   written later is larger: the stamps are written in that order.) *)
Theorem C10_stamps_ordered : forall hooks ops init s l,
  run_ops hooks 0 ops (est0 init) = (s, l) ->
  ordered (e_rv s) /\ Forall (fun x => ordered (e_rv (snd x))) l.
Proof. exact stamps_ordered. Qed.
Print Assumptions C10_stamps_ordered.

(* At most once per run.  In every state a history can reach, every operation (transition,
   failing or not, watcher sequence, teardown) leaves every stamp that is set exactly as it is
   ([keep]) - unless it is a START_ACTIVITY that draws a new run number, i.e. begins a new run
   ([new_run]).  So within one run each of the four stamps is written at most once. *)
Theorem C10_stamps_once : forall hooks ops init s l i o s' t r,
  run_ops hooks 0 ops (est0 init) = (s, l) -> run_op hooks i o s = (s', t, r) ->
  keep (proj s) (proj s') \/ new_run o s s'.
Proof. exact stamps_once. Qed.
Print Assumptions C10_stamps_once.

(* What the tasks are told.  The argument map that a START_ACTIVITY reaching RUNNING pushes to the
   tasks carries the new run number, the new start stamp and the CLEARED end stamp (present and
   empty, so that a task does not keep the end stamp of the previous run), and no completion
   stamp - whatever the variables held before.  Which variables are in the map is re-observed on the
   real StartActivityTransition / StopActivityTransition objects on every run (h08 -gen startargs
   writes gen/Gen_StartArgs.v). *)
Theorem C10_start_push_fresh : forall hooks orc b s s' t r d,
  transition hooks orc START_ACTIVITY b s = (s', t, r) -> dst_of START_ACTIVITY (e_st s) = Some d ->
  e_st s' <> e_st s ->
  push_of START_ACTIVITY (e_rv s') =
  Some (mkPush (Some (Some (N.succ (e_ctr s)))) (Some (SSet (e_clock s))) None (Some SEmpty) None).
Proof. exact start_push_fresh. Qed.
Print Assumptions C10_start_push_fresh.

(* ... and a STOP_ACTIVITY reaching CONFIGURED has pushed the end stamp of this run. *)
Theorem C10_stop_push_end : forall hooks orc b s s' t r d,
  transition hooks orc STOP_ACTIVITY b s = (s', t, r) -> dst_of STOP_ACTIVITY (e_st s) = Some d ->
  e_st s' <> e_st s -> rv_soeor (e_rv s) <> SAbsent ->
  exists a, push_of STOP_ACTIVITY (e_rv s') = Some (mkPush None None None (Some (SSet a)) None).
Proof. exact stop_push_end. Qed.
Print Assumptions C10_stop_push_end.

(* Non-vacuity: START, STOP, START again with probes at before_START -1 / 0 and after_STOP +1:
   run numbers 1 and 2; the -1 probe of the second START sees no number and the stamps of run 1,
   the 0 probe sees number 2 and fresh (empty) end stamps; the after_STOP+1 probe still sees the
   number; after STOP it is gone and the four stamps are ordered. *)
Definition ex10_hooks : list hook :=
  [ mkHook 1 HCall (MBefore START_ACTIVITY, (-1)%Z) (MBefore START_ACTIVITY, (-1)%Z) false;
    mkHook 2 HCall (MBefore START_ACTIVITY, 0%Z) (MBefore START_ACTIVITY, 0%Z) false;
    mkHook 3 HCall (MAfter STOP_ACTIVITY, 1%Z) (MAfter STOP_ACTIVITY, 1%Z) false ].
Definition ex10_ops : list op :=
  [ mkOp (OEvent START_ACTIVITY) BOk [] [] []; mkOp (OEvent STOP_ACTIVITY) BOk [] [] [];
    mkOp (OEvent START_ACTIVITY) BOk [] [] [] ].
Definition snaps_of (t : list tev) : list (N * option N * sv * sv) :=
  flat_map (fun x => match x with TStart i _ sn => [(i_hook i, rv_var sn, rv_sosor sn, rv_eoeor sn)] | _ => [] end) t.

Example C10_nonvacuous :
  exists s l, run_ops ex10_hooks 0 ex10_ops (est0 CONFIGURED) = (s, l) /\
    e_st s = RUNNING /\ rv_rn (e_rv s) = 2 /\
    snaps_of (full_trace l) =
      [ (1, None, SAbsent, SAbsent); (2, Some 1, SSet 1, SEmpty); (3, Some 1, SSet 1, SSet 4);
        (1, None, SSet 1, SSet 4); (2, Some 2, SSet 5, SEmpty) ].
Proof.
  destruct (run_ops ex10_hooks 0 ex10_ops (est0 CONFIGURED)) as [s l] eqn:E.
  vm_compute in E. inversion E; subst. eexists; eexists. split; [reflexivity|].
  repeat split; vm_compute; reflexivity.
Qed.
