(* C06 — destroying or failing to create an environment leaves nothing behind.
   Property theorems only; each closed by [exact] of a lemma from proofs/OwnThm_proofs.v.
   Model: model/Teardown.v (TeardownEnvironment, the failure tail of CreateEnvironment,
   DestroyEnvironment / doTeardownAndCleanup, as coded AFTER the repairs of C06-a and C06-b) over
   model/Ownership.v.  [reachable s]: any well-formed history (model/OwnSpec.v), so: destroy requested
   in every state, with every combination of force / allow-in-running / keep-tasks, after any creations,
   transitions, failed transitions, task deaths and executor / agent failures (tasks that are not locked
   any more but still have their parent role); creation failing at any stage (oracle field c_fail,
   launch and CONFIGURE outcomes per role); DESTROY / after_DESTROY hooks (calls and tasks) at any
   weights.  "Owned" in the conclusions is the parent link (GetEnvironmentId), not the locked flag. *)
From Verif Require Import Gen_DoKill Gen_PendReg Common Ownership Teardown OwnSpec OwnInv_proofs OwnThm_proofs PendReg PendReg_proofs.
Open Scope N_scope.

(* --- destroy, full statement: a destroy that returned success leaves the environment unlisted and no
       roster task with this environment as its parent — whatever the DESTROY hooks and their weights,
       dead or failed-executor tasks included. *)
Theorem C06_destroy_leaves_nothing : destroy_leaves_nothing.
Proof. exact destroy_leaves_nothing_holds. Qed.
Print Assumptions C06_destroy_leaves_nothing.

(* --- the same with everything the property lists: the listing is the old one minus this entry (so
       its detectors are free again), no pending call is left uncancelled and, unless the caller asked
       to keep tasks, every task it still owned has been sent KILL.  (A destroy whose KILL call the master
       refuses for some task returns an error, so it is not among the successes; [t_kill t <> 2] excludes
       a task for which KillTasks still holds the acknowledgement registration of an earlier refused
       attempt - such a task was unlocked then, and owned tasks are never unlocked and active.) *)
Theorem C06_destroy_nothing_behind : forall s e force allow keep tfail s' u x,
  reachable s -> find_env e (s_envs s) = Some x ->
  step s (ODestroy e force allow keep tfail) = (s', u) -> o_rc u = 0 ->
  nothing_left e s' /\ s_envs s' = remove_env e (s_envs s) /\ o_pend u = 0 /\
  (keep = false -> forall t, In t (s_roster s) -> t_owner t = Some e -> t_kill t <> 2 -> In (t_id t) (o_kills u)).
Proof. exact destroy_nothing_behind. Qed.
Print Assumptions C06_destroy_nothing_behind.

(* --- failed creation, full statement: a creation that returned an error - at whatever stage: template
       missing / in error, host without detector, detector busy, undeployable role, PARTIAL deployment
       failure retried three times, launch failure, deployment timeout, CONFIGURE refused by a critical
       task - leaves the environment unlisted, no task with it as parent, and every task launched for it
       either sent KILL or - never having become owned - still in the roster, unowned, for the next
       cleanup (next theorem but one).  For the retried deployment this rests on gen/Gen_AcqRoster.v
       (regenerated from acquireTasks on every run): the tasks of every attempt are written to the roster. *)
Theorem C06_failed_creation_leaves_nothing : failed_creation_leaves_nothing.
Proof. exact failed_creation_leaves_nothing_holds. Qed.
Print Assumptions C06_failed_creation_leaves_nothing.

(* --- the same for the second half of an overlapped creation, where no deployment retry is involved:
       every launched task (running, still staging or dead) is sent KILL or - its KILL call refused by the
       master - still in the roster, unowned; no call is left pending. *)
Theorem C06_failed_overlapped_creation_leaves_nothing : forall s e c s' u,
  reachable s -> assocN e (s_snaps s) <> None -> c_fail c <> 6 ->
  step s (OFinish e c) = (s', u) -> o_rc u = 1 ->
  (nothing_left e s' /\ launched_handled s' u) /\ o_pend u = 0.
Proof. exact finish_nothing_behind. Qed.
Print Assumptions C06_failed_overlapped_creation_leaves_nothing.

(* --- "its pending hook calls have been cancelled", failure tail of a creation: no call of the
       environment is left pending and uncancelled - also those started by the leave_<state> hooks that
       TeardownEnvironment itself runs.  Like the o_pend clause of C06_destroy_nothing_behind this rests
       on gen/Gen_TdOrder.v (the source order of TeardownEnvironment's steps, regenerated on every run):
       cancelCallsPendingAwait comes after the last point where a pending call can be started. *)
Theorem C06_failed_creation_cancels_calls : forall s e c s' u,
  reachable s -> wf_op s (OCreate e c) = true -> step s (OCreate e c) = (s', u) -> o_rc u = 1 -> o_pend u = 0.
Proof. exact failed_creation_cancels_calls. Qed.
Print Assumptions C06_failed_creation_cancels_calls.

(* --- "tasks that never became owned stay unowned and fall to the next cleanup": whatever unlocked task
       is in the roster, the next Cleanup sends it KILL.  *)
Theorem C06_unowned_falls_to_next_cleanup : forall s t,
  In t (s_roster s) -> is_locked t = false -> kill_refused t = false ->
  In (t_id t) (o_kills (snd (step s OCleanup))).
Proof. exact unowned_falls_to_cleanup. Qed.
Print Assumptions C06_unowned_falls_to_next_cleanup.

(* --- kill outcomes: a KILL call that fails for ONE task does not change what happens to the OTHER tasks of
       the request, and a task that was not killed stays in the roster (with its owner).  The first two
       conjuncts are the shape of doKillTasks read from the source on every run (gen/Gen_DoKill.v): the
       failure branch puts the task back into the roster and does not leave the loop. *)
Theorem C06_kill_failure_is_local :
  dokill_puts_back = true /\ dokill_carries_on = true /\
  (forall ids r t, In t r ->
     In (t_id t) (snd (kill_tasks ids r)) \/
     exists t', In t' (fst (kill_tasks ids r)) /\ t_id t' = t_id t /\ t_owner t' = t_owner t) /\
  (forall ids r t, In t r -> mem_tid (t_id t) ids = true -> is_locked t = false ->
     kill_refused t = false -> t_kill t <> 2 -> In (t_id t) (snd (kill_tasks ids r))) /\
  (forall r t, In t r -> In (t_id t) (snd (cleanup r)) \/ In t (fst (cleanup r))) /\
  (forall r t, In t r -> is_locked t = false -> kill_refused t = false -> In (t_id t) (snd (cleanup r))).
Proof. exact kill_failure_is_local. Qed.
Print Assumptions C06_kill_failure_is_local.


(* --- "its pending hook calls have been cancelled" rests on the registry of pending calls (await trigger ->
       weight -> calls) that the teardown walks: whatever calls were started, under whatever await triggers
       and weights, in whatever order, every one of them is in the registry the teardown walks.  How
       handleHooks registers a call is read off the source (gen/Gen_PendReg.v). *)
Theorem C06_teardown_reaches_every_started_call : forall l r x,
  In x (map snd l) -> In x (all_calls (register_all l r)).
Proof. exact teardown_reaches_every_started_call. Qed.
Print Assumptions C06_teardown_reaches_every_started_call.

(* --- a registration that stores a fresh per-trigger map whenever the (trigger, weight) slot is empty loses
       the call pending under another weight (seeded change C06-6; replayed on the implementation as corpus
       case pending-two-await-weights). *)
Theorem C06_careless_registration_refuted :
  all_calls (register_mode false 0 10%Z 2 (register_mode false 0 0%Z 1 [])) = [2].
Proof. exact careless_registration_refuted. Qed.
Print Assumptions C06_careless_registration_refuted.

(* --- "DESTROY hooks run only after the other tasks were released": in every consistent state (every
       reachable state is one — next theorem — and so is every intermediate state inside a request,
       lemma good_inv) the roster handed to the DESTROY hooks contains no task owned by the
       environment other than its DESTROY hook tasks. *)
Theorem C06_destroy_order : forall force e s x r1,
  inv s -> find_env e (s_envs s) = Some x -> td_hookr (teardown force e s) = Some r1 ->
  forall t, In t r1 -> owner_is e t = true -> In (t_id t) (destroy_hook_tids x).
Proof. exact destroy_order. Qed.
Print Assumptions C06_destroy_order.

Theorem C06_reachable_consistent : forall s, reachable s -> inv s.
Proof. exact reachable_inv. Qed.
Print Assumptions C06_reachable_consistent.

(* --- the two together, as the property reads: after ANY history of requests, when a teardown comes to
       its DESTROY hooks the only tasks the environment still owns are the DESTROY hook tasks. *)
Theorem C06_destroy_order_after_any_history : forall force e s x r1,
  reachable s -> find_env e (s_envs s) = Some x -> td_hookr (teardown force e s) = Some r1 ->
  forall t, In t r1 -> owner_is e t = true -> In (t_id t) (destroy_hook_tids x).
Proof. exact destroy_order_reachable. Qed.
Print Assumptions C06_destroy_order_after_any_history.

(* --- "a destroy request that cannot be honoured returns an error rather than success": whenever
       DestroyEnvironment answers success the environment is no longer listed (in any state at all,
       whatever the flags and the transition outcomes). *)
Theorem C06_error_not_success : forall s e force allow keep tfail s' u,
  step s (ODestroy e force allow keep tfail) = (s', u) -> o_rc u = 0 -> find_env e (s_envs s') = None.
Proof. exact destroy_rc0. Qed.
Print Assumptions C06_error_not_success.

(* --- regression examples: the witnesses that refuted the full statements before the repairs
       (C06-a: DESTROY hook tasks at two weights; C06-b: a task still staging when the creation fails)
       and the executor-failure history of seeded change C06-1 now end with nothing left. *)
Example C06_multiweight_regression :
  let '(s', u) := step (run st0 mw_ops) (ODestroy 0 false false false false) in
  o_rc u = 0 /\ s_roster s' = [] /\ length (o_kills u) = 3%nat.
Proof. vm_compute. repeat split; reflexivity. Qed.

Example C06_staging_regression :
  let '(s', u) := step st0 (OCreate 0 stg_spec) in
  o_rc u = 1 /\ mem_tid (0, 2) (o_kills u) = true /\ s_roster s' = [].
Proof. vm_compute. repeat split; reflexivity. Qed.

Example C06_partial_deployment_regression :
  let '(s', u) := step st0 (OCreate 0 pd_spec) in
  o_rc u = 1 /\ length (o_launch u) = 6%nat /\ o_kills u = [] /\
  map t_id (s_roster s') = [(0, 0); (0, 1); (0, 2); (0, 3); (0, 4); (0, 5)] /\
  forallb (fun t => negb (is_locked t)) (s_roster s') = true /\
  length (o_kills (snd (step s' OCleanup))) = 6%nat.
Proof. vm_compute. repeat split; reflexivity. Qed.

Example C06_failed_executor_regression :
  let s := run st0 [OCreate 0 xf_spec; OFail [(0, 1)]] in
  existsb (fun t => owner_is 0 t && negb (is_locked t)) (s_roster s) = true /\
  let '(s', u) := step s (ODestroy 0 true false true false) in
  o_rc u = 0 /\ owns_some 0 (s_roster s') = false /\ length (s_roster s') = 2%nat.
Proof. vm_compute. repeat split; reflexivity. Qed.

(* --- non-vacuity: a RUNNING environment with DESTROY hooks at two weights (calls and tasks), a pending
       call and a task whose executor failed is reachable, and its destroy (allow-in-running) succeeds. *)
Example C06_nonvacuous :
  let c := mkSpec [0; 1] 0 [mkRole RPlain true 0 false 0; mkRole (RHookTask false 3%Z) false 0 false 0;
                            mkRole (RHookCall false 3%Z) false 0 false 0; mkRole (RHookTask true (-2)%Z) true 0 false 0;
                            mkRole RPend false 0 false 0; mkRole RPlain false 0 false 0; mkRole (RLeave 3) false 0 false 0;
                            mkRole (RLeave 2) false 0 false 0] [] false in
  let ops := [OCreate 0 c; OControl 0 2 false; OFail [(0, 5)]] in
  let s := run st0 ops in
  valid_hist st0 ops = true /\
  (exists x, find_env 0 (s_envs s) = Some x /\ e_state x = ES_RUNNING /\ length (merged x) = 2%nat /\
             e_pend x = 2 /\ leave_cnt x ES_RUNNING = 1) /\
  o_rc (snd (step s (ODestroy 0 false true false false))) = 0 /\
  length (o_kills (snd (step s (ODestroy 0 false true false false)))) = 4%nat.
Proof. vm_compute. split; [reflexivity|]. split; [|split; reflexivity]. eexists. repeat split; reflexivity. Qed.
