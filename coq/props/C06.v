(* C06 — destroying or failing to create an environment leaves nothing behind.
   Property theorems only; each closed by [exact] of a lemma from proofs/OwnThm_proofs.v.
   Model: model/Teardown.v (TeardownEnvironment, the failure tail of CreateEnvironment,
   DestroyEnvironment / doTeardownAndCleanup, as coded) over model/Ownership.v.
   [reachable s]: any well-formed history (model/OwnSpec.v), so: destroy requested in every state,
   with every combination of force / allow-in-running / keep-tasks, after any creations, transitions,
   failed transitions and task deaths; creation failing at any stage (oracle field c_fail, launch and
   CONFIGURE outcomes per role); DESTROY / after_DESTROY hooks (calls and tasks) at any weights. *)
From Verif Require Import Common Ownership Teardown OwnSpec OwnInv_proofs OwnThm_proofs.
Open Scope N_scope.

(* --- the full statement for destroy is FALSE for the unchanged code: TeardownEnvironment builds one
       release message per hook weight and sends only the last one, so DESTROY hook tasks of every
       other weight (and dead ones of the last) keep the deleted environment as their owner; locked,
       they are skipped by KillTasks and by every later Cleanup (finding C06-a; witness replayed on
       the implementation as corpus case destroy-hooks-two-weights). *)
Theorem C06_multiweight_destroy_hooks_refuted : ~ destroy_leaves_nothing.
Proof. exact destroy_leaves_nothing_refuted. Qed.
Print Assumptions C06_multiweight_destroy_hooks_refuted.

(* --- what holds instead: under the exact extra hypothesis [hooks_releasable] (DESTROY hook tasks at
       the last weight only, their roles still ACTIVE — in particular: no hook tasks at all) a destroy
       that returned success leaves the environment unlisted (so its detectors are free: the listing
       is the old one minus this entry), no task owned by it, no pending call uncancelled, and —
       unless the caller asked to keep tasks — every running task it owned has been sent KILL. *)
Theorem C06_destroy_nothing_behind_partial : forall s e force allow keep tfail s' u x,
  reachable s -> find_env e (s_envs s) = Some x -> hooks_releasable x (s_roster s) ->
  step s (ODestroy e force allow keep tfail) = (s', u) -> o_rc u = 0 ->
  nothing_left e s' /\ s_envs s' = remove_env e (s_envs s) /\ o_pend u = 0 /\
  (keep = false -> forall t, In t (s_roster s) -> t_owner t = Some e -> t_active t = true ->
                   In (t_id t) (o_kills u)).
Proof. exact destroy_nothing_behind. Qed.
Print Assumptions C06_destroy_nothing_behind_partial.

(* --- the full statement for a failed creation is FALSE for the unchanged code: doKillTasks drops
       tasks whose status is not yet ACTIVE (still staging) from the roster without a KILL; they keep
       running, unknown to the core (finding C06-b; corpus case staging-dropped). *)
Theorem C06_failed_creation_staging_refuted : ~ failed_creation_leaves_nothing.
Proof. exact failed_creation_leaves_nothing_refuted. Qed.
Print Assumptions C06_failed_creation_staging_refuted.

(* --- what holds instead, for a creation nothing overlaps and for the second half of an overlapped
       one: if every launched task either reports running or has failed (none still staging) and the
       workflow has no DESTROY hook tasks, a creation that returned an error — at whatever stage:
       template missing / in error, host without detector, detector busy, undeployable role, launch
       failure, deployment timeout, CONFIGURE refused by a critical task — leaves the environment
       unlisted, no task owned by it, and every launched task that had not already terminated KILLed. *)
Theorem C06_failed_creation_partial : forall s e c s' u,
  reachable s -> wf_op s (OCreate e c) = true -> no_hook_tasks c = true -> none_staging c = true ->
  step s (OCreate e c) = (s', u) -> o_rc u = 1 ->
  nothing_left e s' /\ launched_killed e c u.
Proof. exact create_nothing_behind. Qed.
Print Assumptions C06_failed_creation_partial.

Theorem C06_failed_overlapped_creation_partial : forall s e c s' u,
  reachable s -> assocN e (s_snaps s) <> None -> no_hook_tasks c = true -> none_staging c = true ->
  step s (OFinish e c) = (s', u) -> o_rc u = 1 ->
  nothing_left e s' /\ launched_killed e c u.
Proof. exact finish_nothing_behind. Qed.
Print Assumptions C06_failed_overlapped_creation_partial.

(* --- "DESTROY hooks run only after the other tasks were released": in every consistent state (every
       reachable state is one — next theorem — and so is every intermediate state inside a request,
       lemma good_inv) the roster handed to the DESTROY hooks contains no task owned by the
       environment other than its DESTROY hook tasks. *)
Theorem C06_destroy_order : forall force e s x r1,
  inv s -> find_env e (s_envs s) = Some x -> td_hookr (teardown force e s) = Some r1 ->
  forall t, In t r1 -> owner_is e t = true -> In (t_id t) (destroy_hook_tids x).
Proof. exact destroy_order. Qed.
Print Assumptions C06_destroy_order.

Theorem C06_reachable_consistent : forall s, reachable s -> inv s.
Proof. exact reachable_inv. Qed.
Print Assumptions C06_reachable_consistent.

(* --- "a destroy request that cannot be honoured returns an error rather than success": whenever
       DestroyEnvironment answers success the environment is no longer listed (in any state at all,
       whatever the flags and the transition outcomes). *)
Theorem C06_error_not_success : forall s e force allow keep tfail s' u,
  step s (ODestroy e force allow keep tfail) = (s', u) -> o_rc u = 0 -> find_env e (s_envs s') = None.
Proof. exact destroy_rc0. Qed.
Print Assumptions C06_error_not_success.

(* --- non-vacuity: a RUNNING environment with DESTROY hooks (two calls, two tasks at the one weight 3)
       meets the hypotheses of the partial theorem, and its destroy (allow-in-running) succeeds. *)
Example C06_nonvacuous :
  let c := mkSpec [0; 1] 0 [mkRole RPlain true 0 false; mkRole (RHookTask false 3%Z) false 0 false;
                            mkRole (RHookCall false 3%Z) false 0 false; mkRole (RHookTask true 3%Z) true 0 false;
                            mkRole RPend false 0 false] in
  let ops := [OCreate 0 c; OControl 0 2 false] in
  let s := run st0 ops in
  valid_hist st0 ops = true /\
  (exists x, find_env 0 (s_envs s) = Some x /\ e_state x = ES_RUNNING /\ length (merged x) = 1%nat /\
             forallb (active_in (s_roster s)) (destroy_hook_tids x) = true /\ e_pend x = 1) /\
  o_rc (snd (step s (ODestroy 0 false true false false))) = 0 /\
  length (o_kills (snd (step s (ODestroy 0 false true false false)))) = 3%nat.
Proof. vm_compute. split; [reflexivity|]. split; [|split; reflexivity]. eexists. repeat split; reflexivity. Qed.
