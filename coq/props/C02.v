(* C02 — a transition succeeds iff every critical task acknowledged it.
   Property theorems only; each closed by [exact] of a lemma from proofs/TaskCmd_proofs.v
   (the one remaining refutation: by a computed witness).  The model is coq/model/TaskCmd.v; outcomes of tasks are
   oracle arguments ([oc], [ls]); nothing is bounded: task lists, outcome lists and histories are
   arbitrary. *)
From Verif Require Import Common RoleTree TaskCmd TaskCmd_proofs.
From Coq Require Import Lia.
Open Scope N_scope.

(* ---- the command decision (configureTasks / transitionTasks) ---- *)

(* Full statement: the command goes through iff every critical commanded task acknowledged — for
   every task list: no target (succeeds at once), one target (classified by its critical trait,
   repair C02-b), several. *)
Theorem C02_cmd_iff : forall ts oc, res_ok (cmd_result ts oc) = true <-> crit_acked ts oc.
Proof. exact cmd_iff. Qed.
Print Assumptions C02_cmd_iff.

(* That statement, and every statement about requests below, rests on the roster being intact: the
   multi-response branch finds the critical trait of an answering task through the task manager's
   roster, and the roster's filters hand the roster's own slice to Tasks.Filtered.  It is an
   explicit hypothesis here, ... *)
Theorem C02_cmd_iff_given_intact_roster : forall ts oc, roster_intact = true ->
  (res_ok (cmd_result ts oc) = true <-> crit_acked ts oc).
Proof. exact cmd_iff_intact. Qed.
Print Assumptions C02_cmd_iff_given_intact_roster.

(* ... discharged from the running code: the probe of Tasks.Filtered that h02 -gen makes on every
   run (gen/Gen_FilteredPure.v: receiver unchanged, result right, no shared backing array) ... *)
Theorem C02_roster_filters_pure_in_source : roster_intact = true.
Proof. exact roster_intact_in_source. Qed.
Print Assumptions C02_roster_filters_pure_in_source.

(* ... and without it nothing is promised: a command to two tasks or more goes through whatever
   the critical ones answer. *)
(* The same for the property's own assumption about the executors - "an executor acknowledges a
   command only for a task that performed it": the core judges an answer by its error text alone, so
   the statement holds given that the executor's message handler is faithful, ... *)
Theorem C02_cmd_iff_given_faithful_executor : forall ts oc, executor_faithful = true ->
  (res_ok (cmd_result ts oc) = true <-> crit_acked ts oc).
Proof. exact cmd_iff_faithful. Qed.
Print Assumptions C02_cmd_iff_given_faithful_executor.

(* ... which is discharged from the running code: the probe of executor/handlers.go
   handleMessageEvent that h02 -gen makes on every run (gen/Gen_ExecutorReplies.v: no answer without
   error text unless the addressed task's Transition was executed; acknowledgements and refusals of a
   live task delivered as they are) ... *)
Theorem C02_executor_replies_faithful_in_source : executor_faithful = true.
Proof. exact executor_faithful_in_source. Qed.
Print Assumptions C02_executor_replies_faithful_in_source.

(* ... and without it nothing is promised: every command goes through. *)
Theorem C02_cmd_needs_faithful_executor : forall ts oc,
  executor_faithful = false -> res_ok (cmd_result ts oc) = true.
Proof. exact cmd_unfaithful. Qed.
Print Assumptions C02_cmd_needs_faithful_executor.

Theorem C02_cmd_needs_intact_roster : forall ts oc,
  roster_intact = false -> (2 <= length (targets ts))%nat -> res_ok (cmd_result ts oc) = true.
Proof. exact cmd_not_intact. Qed.
Print Assumptions C02_cmd_needs_intact_roster.

(* A critical commanded task that does not acknowledge (error reply in either state, send
   failure, silence, death) fails the command — for every task list and every behaviour of the
   other tasks. *)
Theorem C02_cmd_critical_failure_fails : forall ts oc i t,
  In (i, t) (targets ts) -> r_crit t = true -> oc_at oc i <> Ack ->
  res_ok (cmd_result ts oc) = false.
Proof. exact cmd_critical_failure_fails. Qed.
Print Assumptions C02_cmd_critical_failure_fails.

(* Failures confined to non-critical tasks never change the decision. *)
Theorem C02_noncritical_inert : forall ts oc oc',
  (forall i t, In (i, t) (targets ts) -> r_crit t = true -> oc_at oc i = oc_at oc' i) ->
  res_ok (cmd_result ts oc) = res_ok (cmd_result ts oc').
Proof. exact cmd_noncritical_inert. Qed.
Print Assumptions C02_noncritical_inert.

(* Only tasks whose role is ACTIVE are commanded; control mode and host play no part. *)
Theorem C02_targets_are_active_tasks : forall ts i t,
  In (i, t) (targets ts) <-> nth_error ts i = Some t /\ active t = true.
Proof. exact targets_In. Qed.
Print Assumptions C02_targets_are_active_tasks.

Theorem C02_mode_and_host_irrelevant : forall f ts oc,
  cmd_result (map (retag f) ts) oc = cmd_result ts oc.
Proof. exact cmd_mode_host_irrelevant. Qed.
Print Assumptions C02_mode_and_host_irrelevant.

(* ---- a request through the API (START_ACTIVITY, STOP_ACTIVITY, RESET, CONFIGURE) ---- *)

(* Full statement: a request made in the state that allows it returns the destination state
   without an error iff every critical commanded task acknowledged. *)
Theorem C02_request_iff : forall e oc s, s_env s = ev_src e ->
  (reached e (snd (api_control e oc s)) <-> crit_acked (s_ts s) oc).
Proof. exact api_iff. Qed.
Print Assumptions C02_request_iff.

(* "a transition with nothing to command succeeds at once" (repairs C02-a, C02-a2): the
   destination is reached and no task is commanded. *)
Theorem C02_nothing_to_command : forall e oc s,
  s_env s = ev_src e -> targets (s_ts s) = [] ->
  reached e (snd (api_control e oc s)) /\ o_cmded (snd (api_control e oc s)) = [].
Proof. exact api_nothing_to_command. Qed.
Print Assumptions C02_nothing_to_command.

(* every request returns, whatever the state it is made in *)
Theorem C02_request_returns : forall e oc s, o_hang (snd (api_control e oc s)) = false.
Proof. exact api_never_hangs. Qed.
Print Assumptions C02_request_returns.

(* "failures confined to non-critical tasks never make a transition fail" (repair C02-b: also
   when a single task is commanded). *)
Theorem C02_noncritical_never_fails : forall e oc s,
  s_env s = ev_src e -> crit_acked (s_ts s) oc -> reached e (snd (api_control e oc s)).
Proof. exact api_noncritical_never_fails. Qed.
Print Assumptions C02_noncritical_never_fails.

(* A critical failure: the request returns an error, the environment ends in ERROR, the
   destination state is never published. Unconditional. *)
Theorem C02_critical_failure_ends_in_error : forall e oc s i t,
  s_env s = ev_src e -> In (i, t) (targets (s_ts s)) -> r_crit t = true -> oc_at oc i <> Ack ->
  let (s', ob) := api_control e oc s in
  s_env s' = E_ERROR /\ o_state ob = 5 /\ o_hang ob = false /\
  ~ In (N_of_estate (ev_dst e)) (o_reported ob) /\ o_err ob = true.
Proof. exact api_critical_failure. Qed.
Print Assumptions C02_critical_failure_ends_in_error.

(* "the request returns an error" (repair C02-d): every failed command transition is answered
   with an error and the state ERROR ... *)
Theorem C02_failure_returns_error : forall e oc s,
  s_env s = ev_src e -> res_ok (cmd_result (s_ts s) oc) = false ->
  o_err (snd (api_control e oc s)) = true /\ o_state (snd (api_control e oc s)) = 5.
Proof. exact api_failure_returned. Qed.
Print Assumptions C02_failure_returns_error.

(* ... and, in whatever state the request is made, a reply without an error carries the
   destination state: there is no OK reply with state ERROR. *)
Theorem C02_ok_reply_is_destination : forall e oc s,
  o_err (snd (api_control e oc s)) = false -> o_state (snd (api_control e oc s)) = N_of_estate (ev_dst e).
Proof. exact api_ok_reply_is_dst. Qed.
Print Assumptions C02_ok_reply_is_destination.

(* ---- creation: DEPLOY and CONFIGURE through CreateEnvironment ---- *)

(* DEPLOY waits for the workflow status ACTIVE (the fold of RoleTree.v over all task and call
   roles): that is, the workflow has a role and every task — critical or not — became active. *)
Theorem C02_deploy_ok_iff : forall ds nc ls,
  deploy_ok (launch_all ds ls) nc = true <-> (ds <> [] \/ nc <> 0) /\ all_launch_ok ds ls = true.
Proof. exact deploy_ok_iff. Qed.
Print Assumptions C02_deploy_ok_iff.

(* That statement, and every statement about creation below, rests on the status aggregation being
   linearizable: each SafeStatus.merge re-aggregates the children and stores the result inside one
   critical section, so that concurrent status updates (one goroutine per Mesos update) cannot lose
   one.  It is an explicit hypothesis here, ... *)
Theorem C02_deploy_ok_iff_given_atomic_aggregation : forall ds nc ls,
  status_merge_atomic = true ->
  (deploy_ok (launch_all ds ls) nc = true <-> (ds <> [] \/ nc <> 0) /\ all_launch_ok ds ls = true).
Proof. exact deploy_ok_iff_atomic. Qed.
Print Assumptions C02_deploy_ok_iff_given_atomic_aggregation.

(* ... discharged from the source: the lock discipline the translator mergeatomic reads off
   core/workflow/safestatus.go on every run (gen/Gen_MergeAtomic.v) ... *)
Theorem C02_status_aggregation_atomic_in_source : status_merge_atomic = true.
Proof. exact status_merge_atomic_in_source. Qed.
Print Assumptions C02_status_aggregation_atomic_in_source.

(* ... and without it nothing is promised: DEPLOY may never see ACTIVE although every task is. *)
Theorem C02_deploy_needs_atomic_aggregation : forall ts nc,
  status_merge_atomic = false -> deploy_ok ts nc = false.
Proof. exact deploy_needs_atomic. Qed.
Print Assumptions C02_deploy_needs_atomic_aggregation.

(* creation, exactly (every workflow, launch script, CONFIGURE script): the workflow has a role,
   every task launched, every critical task acknowledged CONFIGURE *)
Theorem C02_create_exact : forall ds nc ls oc,
  created ds nc ls oc = true <->
  (ds <> [] \/ nc <> 0) /\ all_launch_ok ds ls = true /\ crit_cfg_ok_from 0 ds oc = true.
Proof. exact create_exact. Qed.
Print Assumptions C02_create_exact.

(* The property's statement for creation: it still fails in DEPLOY (findings C02-c, C02-a3,
   design-level, recorded); the CONFIGURE part is repaired. *)
Definition C02_create_iff_statement : Prop :=
  forall ds nc ls oc,
    created ds nc ls oc = true <-> crit_launch_ok ds ls = true /\ crit_cfg_ok_from 0 ds oc = true.

(* only-if holds for every workflow *)
Theorem C02_created_only_if_critical_ok : forall ds nc ls oc,
  created ds nc ls oc = true -> crit_launch_ok ds ls = true /\ crit_cfg_ok_from 0 ds oc = true.
Proof. exact created_sound. Qed.
Print Assumptions C02_created_only_if_critical_ok.

(* iff holds exactly when the workflow has a role and every non-critical task launched too ... *)
Theorem C02_create_iff_partial : forall ds nc ls oc,
  noncrit_launch_ok ds ls = true ->
  ds <> [] \/ nc <> 0 ->
  (created ds nc ls oc = true <-> crit_launch_ok ds ls = true /\ crit_cfg_ok_from 0 ds oc = true).
Proof. exact create_iff_partial. Qed.
Print Assumptions C02_create_iff_partial.

(* ... and both hypotheses are necessary *)
Theorem C02_create_iff_partial_exact : forall ds nc ls oc,
  (noncrit_launch_ok ds ls = false \/ (ds = [] /\ nc = 0)) -> created ds nc ls oc = false.
Proof.
  intros ds nc ls oc [H|[-> ->]]; [exact (create_needs_noncrit ds nc ls oc H)|exact (create_needs_role ls oc)].
Qed.
Print Assumptions C02_create_iff_partial_exact.

(* a non-critical task that fails to launch makes DEPLOY fail although every critical task is up *)
Theorem C02_deploy_noncritical_refuted : ~ C02_create_iff_statement.
Proof.
  intro H.
  specialize (H [mkT true Direct 1; mkT false Basic 2] 0 [LRun; LFail] [Ack; Ack]).
  vm_compute in H. destruct H as [_ H]. specialize (H (conj eq_refl eq_refl)). discriminate.
Qed.
Print Assumptions C02_deploy_noncritical_refuted.

(* a failed creation returns, with an error, publishes ERROR, never CONFIGURED, and never DEPLOYED
   when it was DEPLOY that failed *)
Theorem C02_failed_creation : forall ds nc ls oc,
  fst (create ds nc ls oc) = None ->
  let ob := snd (create ds nc ls oc) in
  o_err ob = true /\ o_hang ob = false /\ In 5 (o_reported ob) /\ ~ In 3 (o_reported ob) /\
  (deploy_ok (launch_all ds ls) nc = false -> ~ In 2 (o_reported ob)).
Proof. exact create_failed_obs. Qed.
Print Assumptions C02_failed_creation.

Theorem C02_successful_creation : forall ds nc ls oc, created ds nc ls oc = true ->
  let ob := snd (create ds nc ls oc) in
  o_state ob = 3 /\ o_err ob = false /\ o_hang ob = false /\ In 3 (o_reported ob).
Proof. exact created_obs. Qed.
Print Assumptions C02_successful_creation.

(* ---- histories ---- *)

(* in every history a request that does not return or that leaves ERROR is the last one: after a
   failure no destination state is ever reported again *)
Theorem C02_failure_is_final : forall ops s pre ob post,
  run_ops ops s = pre ++ ob :: post -> post <> [] -> o_hang ob = false /\ o_state ob <> 5.
Proof. exact run_ops_stops. Qed.
Print Assumptions C02_failure_is_final.

(* Bridge: on every history of the model (every workflow, launch script, outcome script, request
   sequence) the monitor — the property as evaluated on the implementation — reports nothing
   but the recorded DEPLOY classes 6 and 7.  Any other class seen on the implementation (among
   them 3, 4, 5, 8: the repaired defects) therefore means the implementation left the model. *)
Theorem C02_monitor_on_model : forall i, In (mon02 (mkCase i (run_model i))) [0; 6; 7].
Proof. exact mon_model_allowed. Qed.
Print Assumptions C02_monitor_on_model.

(* non-vacuity: a concrete workflow (two critical tasks, one non-critical) in CONFIGURED: it starts
   when the non-critical task fails and goes to ERROR, with an error, when a critical one does;
   creation of it succeeds and fails accordingly; the repaired corner cases: one non-critical
   task that fails START, no ACTIVE task at all, a workflow with a call role only *)
Example C02_nonvacuous :
  let ds := [mkT true Direct 1; mkT false Fairmq 2; mkT true Basic 3] in
  let s := mkSys E_CONFIGURED (map (fun d => mkR d ACTIVE CONFIGURED) ds) 1 in
  let one := mkSys E_CONFIGURED [mkR (mkT false Direct 1) ACTIVE CONFIGURED] 0 in
  let none := mkSys E_CONFIGURED [mkR (mkT false Direct 1) INACTIVE ERROR] 0 in
  s_env s = ev_src START /\
  o_state (snd (api_control START [Ack; ErrErr; Ack] s)) = 4 /\
  o_state (snd (api_control START [Ack; Ack; SendFail] s)) = 5 /\
  o_err (snd (api_control START [Ack; Ack; SendFail] s)) = true /\
  o_state (snd (api_control START [ErrSrc] one)) = 4 /\
  o_state (snd (api_control START [ErrSrc] none)) = 4 /\
  o_cmded (snd (api_control START [ErrSrc] none)) = [] /\
  created ds 1 [LRun; LRun; LRun] [Ack; Dies; Ack] = true /\
  created ds 1 [LRun; LRun; LFail] [Ack; Ack; Ack] = false /\
  noncrit_launch_ok ds [LRun; LRun; LFail] = true /\
  created [] 1 [] [] = true /\
  map o_state (run_model (mkIn ds 1 [LRun; LRun; LRun] [Ack; Ack; Ack]
        [OCmd START [Ack; Ack; Ack]; OKill 1; OCmd STOP [Ack; Silent; Ack]; OCmd RESET [ErrSrc; Ack; Ack];
         OCmd CONFIGURE []])) = [3; 4; 4; 3; 5].
Proof. vm_compute. repeat split; reflexivity. Qed.
