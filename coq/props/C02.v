(* C02 — a transition succeeds iff every critical task acknowledged it.
   Property theorems only; each closed by [exact] of a lemma from proofs/TaskCmd_proofs.v
   (refutations: by a computed witness).  The model is coq/model/TaskCmd.v; outcomes of tasks are
   oracle arguments ([oc], [ls]); nothing is bounded: task lists, outcome lists and histories are
   arbitrary. *)
From Verif Require Import Common RoleTree TaskCmd TaskCmd_proofs.
From Coq Require Import Lia.
Open Scope N_scope.

(* ---- the command decision (configureTasks / transitionTasks) ---- *)

(* Full statement: the command goes through iff every critical commanded task acknowledged. *)
Definition C02_cmd_iff_statement : Prop :=
  forall ts oc, res_ok (cmd_result ts oc) = true <-> crit_acked ts oc.

(* It holds exactly for the task lists in which a critical task is commanded or at least two
   tasks are commanded ... *)
Theorem C02_cmd_iff_partial : forall ts oc,
  has_crit_target ts = true \/ (2 <= length (targets ts))%nat ->
  (res_ok (cmd_result ts oc) = true <-> crit_acked ts oc).
Proof. exact cmd_iff_partial. Qed.
Print Assumptions C02_cmd_iff_partial.

(* ... and for no other: the hypothesis is necessary. *)
Theorem C02_cmd_iff_partial_exact : forall ts,
  (forall oc, res_ok (cmd_result ts oc) = true <-> crit_acked ts oc) ->
  has_crit_target ts = true \/ (2 <= length (targets ts))%nat.
Proof. exact cmd_shape_exact. Qed.
Print Assumptions C02_cmd_iff_partial_exact.

Theorem C02_cmd_iff_refuted : ~ C02_cmd_iff_statement.
Proof.
  intro H. specialize (H [] []). cbn in H.
  assert (X : false = true); [|discriminate]. apply H. intros i t [].
Qed.
Print Assumptions C02_cmd_iff_refuted.

(* A critical commanded task that does not acknowledge (error reply in either state, send
   failure, silence, death) fails the command — for every task list and every behaviour of the
   other tasks. *)
Theorem C02_cmd_critical_failure_fails : forall ts oc i t,
  In (i, t) (targets ts) -> r_crit t = true -> oc_at oc i <> Ack ->
  res_ok (cmd_result ts oc) = false.
Proof. exact cmd_critical_failure_fails. Qed.
Print Assumptions C02_cmd_critical_failure_fails.

(* Failures confined to non-critical tasks never change the decision — with two targets or more. *)
Theorem C02_noncritical_inert_partial : forall ts oc oc',
  (2 <= length (targets ts))%nat ->
  (forall i t, In (i, t) (targets ts) -> r_crit t = true -> oc_at oc i = oc_at oc' i) ->
  res_ok (cmd_result ts oc) = res_ok (cmd_result ts oc').
Proof. exact cmd_noncritical_inert. Qed.
Print Assumptions C02_noncritical_inert_partial.

(* Only tasks whose role is ACTIVE are commanded; control mode and host play no part. *)
Theorem C02_targets_are_active_tasks : forall ts i t,
  In (i, t) (targets ts) <-> nth_error ts i = Some t /\ active t = true.
Proof. exact targets_In. Qed.
Print Assumptions C02_targets_are_active_tasks.

Theorem C02_mode_and_host_irrelevant : forall f ts oc,
  cmd_result (map (retag f) ts) oc = cmd_result ts oc.
Proof. exact cmd_mode_host_irrelevant. Qed.
Print Assumptions C02_mode_and_host_irrelevant.

(* ---- a request through the API (START_ACTIVITY, STOP_ACTIVITY, RESET, CONFIGURE) ---- *)

Definition C02_request_iff_statement : Prop :=
  forall e oc s, s_env s = ev_src e ->
    (reached e (snd (api_control e oc s)) <-> crit_acked (s_ts s) oc).

Theorem C02_request_iff_partial : forall e oc s,
  s_env s = ev_src e ->
  has_crit_target (s_ts s) = true \/ (2 <= length (targets (s_ts s)))%nat ->
  (reached e (snd (api_control e oc s)) <-> crit_acked (s_ts s) oc).
Proof. exact api_iff_partial. Qed.
Print Assumptions C02_request_iff_partial.

(* "a transition with nothing to command succeeds at once": never, in the code as it is —
   START/STOP/RESET fail on the nil response, CONFIGURE does not return. *)
Definition C02_nothing_to_command_statement : Prop :=
  forall e oc s, s_env s = ev_src e -> targets (s_ts s) = [] -> reached e (snd (api_control e oc s)).

Theorem C02_zero_tasks_refuted : forall e oc s,
  s_env s = ev_src e -> targets (s_ts s) = [] -> ~ reached e (snd (api_control e oc s)).
Proof. exact api_nothing_to_command. Qed.
Print Assumptions C02_zero_tasks_refuted.

Theorem C02_configure_nothing_hangs : forall oc s,
  s_env s = E_DEPLOYED -> targets (s_ts s) = [] -> o_hang (snd (api_control CONFIGURE oc s)) = true.
Proof. exact api_configure_nothing_hangs. Qed.
Print Assumptions C02_configure_nothing_hangs.

(* "failures confined to non-critical tasks never make a transition fail": refuted by one
   non-critical task that answers START with an error. *)
Definition C02_noncritical_never_fails_statement : Prop :=
  forall e oc s, s_env s = ev_src e -> targets (s_ts s) <> [] -> crit_acked (s_ts s) oc ->
    reached e (snd (api_control e oc s)).

Theorem C02_single_noncritical_refuted : ~ C02_noncritical_never_fails_statement.
Proof.
  intro H.
  specialize (H START [ErrSrc] (mkSys E_CONFIGURED [mkR (mkT false Direct 1) ACTIVE CONFIGURED] 0) eq_refl).
  assert (Hr : reached START (snd (api_control START [ErrSrc]
             (mkSys E_CONFIGURED [mkR (mkT false Direct 1) ACTIVE CONFIGURED] 0)))).
  { apply H; [discriminate|]. intros i t [E|[]] Hc. inversion E; subst. discriminate. }
  destruct Hr as [Hst _]. vm_compute in Hst. discriminate.
Qed.
Print Assumptions C02_single_noncritical_refuted.

(* A critical failure: the environment ends in ERROR, the destination state is never published,
   the request returns. Unconditional. *)
Theorem C02_critical_failure_ends_in_error : forall e oc s i t,
  s_env s = ev_src e -> In (i, t) (targets (s_ts s)) -> r_crit t = true -> oc_at oc i <> Ack ->
  let (s', ob) := api_control e oc s in
  s_env s' = E_ERROR /\ o_state ob = 5 /\ o_hang ob = false /\
  ~ In (N_of_estate (ev_dst e)) (o_reported ob) /\ o_err ob = false.
Proof. exact api_critical_failure. Qed.
Print Assumptions C02_critical_failure_ends_in_error.

(* "the request returns an error": refuted — ControlEnvironment answers every failed command
   transition with state ERROR and *no* error (the error variable is overwritten by the result
   of the GO_ERROR transition). *)
Definition C02_failure_returns_error_statement : Prop :=
  forall e oc s, s_env s = ev_src e -> is_configure e && no_targets (s_ts s) = false ->
    res_ok (cmd_result (s_ts s) oc) = false -> o_err (snd (api_control e oc s)) = true.

Theorem C02_failure_returns_error_refuted : forall e oc s,
  s_env s = ev_src e -> is_configure e && no_targets (s_ts s) = false ->
  res_ok (cmd_result (s_ts s) oc) = false ->
  o_err (snd (api_control e oc s)) = false /\ o_state (snd (api_control e oc s)) = 5.
Proof. exact api_failure_not_returned. Qed.
Print Assumptions C02_failure_returns_error_refuted.

(* ---- creation: DEPLOY and CONFIGURE through CreateEnvironment ---- *)

(* DEPLOY waits for the workflow status ACTIVE (the fold of RoleTree.v over all task and call
   roles): that is, the workflow has a role and every task — critical or not — became active. *)
Theorem C02_deploy_ok_iff : forall ds nc ls,
  deploy_ok (launch_all ds ls) nc = true <-> (ds <> [] \/ nc <> 0) /\ all_launch_ok ds ls = true.
Proof. exact deploy_ok_iff. Qed.
Print Assumptions C02_deploy_ok_iff.

Definition C02_create_iff_statement : Prop :=
  forall ds nc ls oc,
    created ds nc ls oc = true <-> crit_launch_ok ds ls = true /\ crit_cfg_ok_from 0 ds oc = true.

(* only-if holds for every workflow *)
Theorem C02_created_only_if_critical_ok : forall ds nc ls oc,
  created ds nc ls oc = true -> crit_launch_ok ds ls = true /\ crit_cfg_ok_from 0 ds oc = true.
Proof. exact created_sound. Qed.
Print Assumptions C02_created_only_if_critical_ok.

Theorem C02_create_iff_partial : forall ds nc ls oc,
  noncrit_launch_ok ds ls = true ->
  existsb t_crit ds = true \/ (2 <= length ds)%nat ->
  (created ds nc ls oc = true <-> crit_launch_ok ds ls = true /\ crit_cfg_ok_from 0 ds oc = true).
Proof. exact create_iff_partial. Qed.
Print Assumptions C02_create_iff_partial.

(* a non-critical task that fails to launch makes DEPLOY fail although every critical task is up *)
Theorem C02_deploy_noncritical_refuted : ~ C02_create_iff_statement.
Proof.
  intro H.
  specialize (H [mkT true Direct 1; mkT false Basic 2] 0 [LRun; LFail] [Ack; Ack]).
  vm_compute in H. destruct H as [_ H]. specialize (H (conj eq_refl eq_refl)). discriminate.
Qed.
Print Assumptions C02_deploy_noncritical_refuted.

(* a failed creation returns an error, publishes ERROR, never CONFIGURED, and never DEPLOYED
   when it was DEPLOY that failed *)
Theorem C02_failed_creation : forall ds nc ls oc,
  fst (create ds nc ls oc) = None -> o_hang (snd (create ds nc ls oc)) = false ->
  let ob := snd (create ds nc ls oc) in
  o_err ob = true /\ In 5 (o_reported ob) /\ ~ In 3 (o_reported ob) /\
  (deploy_ok (launch_all ds ls) nc = false -> ~ In 2 (o_reported ob)).
Proof. exact create_failed_obs. Qed.
Print Assumptions C02_failed_creation.

Theorem C02_successful_creation : forall ds nc ls oc, created ds nc ls oc = true ->
  let ob := snd (create ds nc ls oc) in
  o_state ob = 3 /\ o_err ob = false /\ o_hang ob = false /\ In 3 (o_reported ob).
Proof. exact created_obs. Qed.
Print Assumptions C02_successful_creation.

(* ---- histories ---- *)

(* in every history a request that does not return or that leaves ERROR is the last one: after a
   failure no destination state is ever reported again *)
Theorem C02_failure_is_final : forall ops s pre ob post,
  run_ops ops s = pre ++ ob :: post -> post <> [] -> o_hang ob = false /\ o_state ob <> 5.
Proof. exact run_ops_stops. Qed.
Print Assumptions C02_failure_is_final.

(* Bridge: on every history of the model (every workflow, launch script, outcome script, request
   sequence) the monitor — the property as evaluated on the implementation — reports nothing
   but the recorded classes 3..8.  Any other class seen on the implementation therefore means
   the implementation left the model. *)
Theorem C02_monitor_on_model : forall i, In (mon02 (mkCase i (run_model i))) [0; 3; 4; 5; 6; 7; 8].
Proof. exact mon_model_allowed. Qed.
Print Assumptions C02_monitor_on_model.

(* non-vacuity: a concrete workflow (two critical tasks, one non-critical) in CONFIGURED meets the
   hypotheses of the partial theorems; it starts when the non-critical task fails and goes to
   ERROR when a critical one does; creation of it succeeds and fails accordingly *)
Example C02_nonvacuous :
  let ds := [mkT true Direct 1; mkT false Fairmq 2; mkT true Basic 3] in
  let s := mkSys E_CONFIGURED (map (fun d => mkR d ACTIVE CONFIGURED) ds) 1 in
  s_env s = ev_src START /\
  (has_crit_target (s_ts s) = true /\ (2 <= length (targets (s_ts s)))%nat) /\
  o_state (snd (api_control START [Ack; ErrErr; Ack] s)) = 4 /\
  o_state (snd (api_control START [Ack; Ack; SendFail] s)) = 5 /\
  created ds 1 [LRun; LRun; LRun] [Ack; Dies; Ack] = true /\
  created ds 1 [LRun; LRun; LFail] [Ack; Ack; Ack] = false /\
  noncrit_launch_ok ds [LRun; LRun; LFail] = true /\
  map o_state (run_model (mkIn ds 1 [LRun; LRun; LRun] [Ack; Ack; Ack]
        [OCmd START [Ack; Ack; Ack]; OKill 1; OCmd STOP [Ack; Silent; Ack]; OCmd RESET [ErrSrc; Ack; Ack];
         OCmd CONFIGURE []])) = [3; 4; 4; 3; 5].
Proof. vm_compute. repeat split; try reflexivity; lia. Qed.
