(* C04 — a task or detector belongs to at most one environment.
   Property theorems only; each closed by [exact] of a lemma from proofs/OwnThm_proofs.v.
   Model: model/Ownership.v (roster, lock discipline) + model/Teardown.v (requests as atomic steps; a
   creation is the two steps OSnap / OFinish so that anything can run in between).  [reachable s] =
   s is the result of ANY well-formed history (model/OwnSpec.v): any number of environments, any
   interleaving of create (serialised or overlapped) / control / destroy / cleanup / kill requests
   and task deaths, any oracle values (launch outcomes, refusals, failing stage of a creation), executor / agent failures
   (OFail: the affected tasks keep their parent role but are not locked any more). *)
From Verif Require Import Gen_CleanupAtomic Gen_DoKill Gen_ProxyMiss Common Ownership Teardown OwnSpec OwnInv_proofs OwnThm_proofs CacheProxy CacheProxy_proofs.
Open Scope N_scope.

(* --- "control, release and kill operations issued for one environment never affect tasks owned by
       another": whatever request runs in whatever reachable state, a task owned (= locked: parent role
       set and agent / executor ids intact, task.go:isLocked) by ANOTHER environment is in the roster
       afterwards exactly as it was (same owner, status, state) ... *)
Theorem C04_frame_tasks : forall s s' o u,
  reachable s -> wf_op s o = true -> is_request o = true -> step s o = (s', u) ->
  forall t e', In t (s_roster s) -> t_owner t = Some e' -> t_idok t = true -> op_env o <> Some e' ->
               In t (s_roster s').
Proof. exact frame_tasks. Qed.
Print Assumptions C04_frame_tasks.

(* ... every KILL call goes to a task that no other environment owned when the request arrived ... *)
Theorem C04_frame_kills : forall s s' o u,
  reachable s -> wf_op s o = true -> is_request o = true -> step s o = (s', u) ->
  forall k, In k (o_kills u) ->
  forall t e', In t (s_roster s) -> t_id t = k -> t_owner t = Some e' -> t_idok t = true ->
               op_env o = Some e'.
Proof. exact frame_kills. Qed.
Print Assumptions C04_frame_kills.

(* ... and so does every transition command ... *)
Theorem C04_frame_commands : forall s s' o u,
  reachable s -> wf_op s o = true -> is_request o = true -> step s o = (s', u) ->
  forall k, In k (o_cmds u) ->
  forall t e', In t (s_roster s) -> t_id t = k -> t_owner t = Some e' -> t_idok t = true ->
               op_env o = Some e'.
Proof. exact frame_cmds. Qed.
Print Assumptions C04_frame_commands.

(* ... and the listing entry (state, detectors, roles, pending calls) of every other environment stays. *)
Theorem C04_frame_envs : forall s s' o u,
  reachable s -> wf_op s o = true -> is_request o = true -> step s o = (s', u) ->
  forall x, In x (s_envs s) -> op_env o <> Some (e_id x) -> In x (s_envs s').
Proof. exact frame_envs. Qed.
Print Assumptions C04_frame_envs.

(* --- "cleanup of unowned tasks never touches owned ones": CleanupTasks with or without a task list
       keeps every owned task verbatim, KILLs only unowned tasks, commands nothing, lists the same
       environments. *)
Theorem C04_cleanup_safe : forall s o s' u,
  reachable s -> (o = OCleanup \/ exists ids, o = OKill ids) -> step s o = (s', u) ->
  (forall t, In t (s_roster s) -> is_locked t = true -> In t (s_roster s')) /\
  (forall k, In k (o_kills u) -> forall t, In t (s_roster s) -> t_id t = k -> is_locked t = false) /\
  s_envs s' = s_envs s /\ o_cmds u = [].
Proof. exact cleanup_safe. Qed.
Print Assumptions C04_cleanup_safe.

(* --- no stale reads in the cleanup path: Manager.Cleanup computes its list of unlocked tasks and kills it
       with no lock acquisition / channel operation / sleep in between (first conjunct: read from the source
       on every run, gen/Gen_CleanupAtomic.v), so a Cleanup that acts on a list computed earlier - other
       requests, claims, re-locking status updates having run in between - still keeps every task that is
       locked at the moment of the kill and KILLs only tasks that are unlocked then. *)
Theorem C04_cleanup_never_stale :
  cleanup_no_block = true /\
  forall ids r,
    (forall t, In t r -> is_locked t = true -> In t (fst (stale_cleanup ids r))) /\
    (forall k, In k (snd (stale_cleanup ids r)) -> exists t, In t r /\ t_id t = k /\ is_locked t = false).
Proof. exact cleanup_never_stale. Qed.
Print Assumptions C04_cleanup_never_stale.

(* --- "every deployed task is owned by at most one environment at a time": in every reachable state
       a task has one roster entry, its owner (if any) is the environment it was launched for, an
       environment has one listing entry, the tasks a listed environment owns are in its workflow's
       task list, and the task lists of two listed environments never share a task. *)
Theorem C04_claim_exclusive : forall s,
  reachable s ->
  NoDup (map t_id (s_roster s)) /\
  (forall t e, In t (s_roster s) -> t_owner t = Some e -> fst (t_id t) = e) /\
  NoDup (map e_id (s_envs s)) /\
  (forall x t, In x (s_envs s) -> In t (s_roster s) -> t_owner t = Some (e_id x) -> In (t_id t) (bound_tids x)) /\
  (forall x y id, In x (s_envs s) -> In y (s_envs s) -> In id (bound_tids x) -> In id (bound_tids y) -> x = y).
Proof. exact claim_exclusive. Qed.
Print Assumptions C04_claim_exclusive.

(* --- the claim path of reuseUnlockedTasks=true (IsClaimable, the filter of acquireTasks): a creation claims
       only tasks that NO environment holds - not locked, ACTIVE, in STANDBY, of the wanted class on the
       wanted host.  The first theorem is the truth table of IsClaimable read from the source on every run
       (gen/Gen_Claimable.v); the frame theorems above cover creations that claim (what happens to a claimed
       task - the creation gives up on its deploy timeout and KILLs it - happens to a task nobody held). *)
Theorem C04_claimable_only_unowned : forall t,
  claimable t = true -> is_locked t = false /\ t_active t = true /\ t_state t = TS_STANDBY.
Proof. exact claimable_unlocked. Qed.
Print Assumptions C04_claimable_only_unowned.

Theorem C04_claim_exclusive_reuse : forall c r j id,
  In (j, id) (claims c r) ->
  exists t, In t r /\ t_id t = id /\ is_locked t = false /\ t_active t = true /\ t_state t = TS_STANDBY /\
            exists ro, In (j, ro) (iroles (c_roles c)) /\ t_ch t = r_ch ro /\ r_ch ro <> 0.
Proof. exact claims_unowned. Qed.
Print Assumptions C04_claim_exclusive_reuse.

(* --- a status update that originates from the master (the answers to the reconciliation after a
       re-subscription: TASK_RUNNING, agent id, no executor id, for every running task) changes
       nothing at all: in particular no owned task loses its lock.  The proof rests on
       gen/Gen_UtsWrites.v, regenerated from updateTaskStatus on every run: the fields the lock
       predicate reads are written only when the update carries them. *)
Theorem C04_master_update_keeps_locks : forall s, step s ORecon = (s, out_rc 0).
Proof. exact master_update_changes_nothing. Qed.
Print Assumptions C04_master_update_keeps_locks.

(* --- "every detector is part of at most one active environment", creations serialised: the
       detectors of all listed environments, put end to end, contain no detector twice. *)
Theorem C04_detector_seq : forall s, reachable_serial s -> NoDup (active_dets (s_envs s)).
Proof. exact detector_seq. Qed.
Print Assumptions C04_detector_seq.

(* --- "creating an environment that needs a detector already in use fails without disturbing the
       environment that holds it" (creations serialised): error returned, listing unchanged, nothing
       launched, nothing commanded, every owned task kept verbatim, KILL only for unowned tasks (the
       pre-deployment cleanup). *)
Theorem C04_detector_conflict : forall s e c s' u d,
  reachable_serial s -> wf_op s (OCreate e c) = true ->
  In d (c_dets c) -> In d (active_dets (s_envs s)) ->
  step s (OCreate e c) = (s', u) ->
  o_rc u = 1 /\ s_envs s' = s_envs s /\ o_cmds u = [] /\ o_launch u = [] /\
  (forall t, In t (s_roster s) -> is_locked t = true -> In t (s_roster s')) /\
  (forall k, In k (o_kills u) -> forall t, In t (s_roster s) -> t_id t = k -> is_locked t = false).
Proof. exact detector_conflict. Qed.
Print Assumptions C04_detector_conflict.

(* --- a kill request or a cleanup keeps every locked task in the roster exactly as it is.  In the source the
       request is spread over the (slow) KILL calls to the master while other requests write to the roster;
       from its first KILL call on the kill routine never stores a whole roster it read before (first
       conjunct, read off the source on every run, gen/Gen_DoKill.v; seeded change C04-7 - replayed on the
       implementation as corpus cases create-behind-held-kill / two-creations-behind-held-kill). *)
Theorem C04_kill_keeps_the_roster_of_others :
  dokill_writes_fresh = true /\
  (forall ids r t, In t r -> is_locked t = true -> In t (fst (kill_tasks ids r))) /\
  (forall r t, In t r -> is_locked t = true -> In t (fst (cleanup r))).
Proof. exact kill_keeps_the_roster_of_others. Qed.
Print Assumptions C04_kill_keeps_the_roster_of_others.

(* --- the detectors of an environment are what the configuration glue answers for its hosts: the cache
       proxy between the core and the inventory (apricot/cacheproxy, on by default) gives the answer of the
       backend - for every host list, every start-up snapshot and every inventory the snapshot is a part of
       (hosts added after the core started: cache miss).  What the proxy does on a miss is read off the
       source (gen/Gen_ProxyMiss.v). *)
Theorem C04_proxy_is_backend : forall cache i hosts,
  snapshot_of cache i -> proxy cache i hosts = backend i hosts.
Proof. exact proxy_is_backend. Qed.
Print Assumptions C04_proxy_is_backend.

(* --- a proxy whose per-host look-up on a miss does not reach the result answers the empty name for a host
       added after the snapshot (seeded change C04-6; replayed on the implementation as corpus case
       late-host-first-use). *)
Theorem C04_proxy_drop_refuted :
  proxy_mode 2 [(0, 1)] [(0, 1); (1, 1)] [1] = Some [0] /\ backend [(0, 1); (1, 1)] [1] = Some [1].
Proof. exact proxy_drop_refuted. Qed.
Print Assumptions C04_proxy_drop_refuted.

(* --- the same clause over ALL histories is false for the unchanged code: CreateEnvironment reads the
       active detectors at its entry and inserts the environment only after the workflow was loaded;
       two creations that both read before either inserts end up listed with the same detector
       (finding C04-a; the witness is replayed on the implementation as corpus case detector-race). *)
Theorem C04_detector_race_refuted : ~ detectors_exclusive.
Proof. exact detector_exclusive_refuted. Qed.
Print Assumptions C04_detector_race_refuted.

(* --- the ingredients of the statements above are met by a concrete non-trivial history: two
       environments over different detectors, one of them RUNNING, tasks owned by both. *)
Example C04_nonvacuous :
  let c0 := mkSpec [0] 0 [mkRole RPlain true 0 false 0; mkRole RPlain false 0 false 0] [] false in
  let c1 := mkSpec [1; 2] 0 [mkRole RPlain true 0 false 0; mkRole (RHookTask false 3%Z) false 0 false 0] [] false in
  let ops := [OCreate 0 c0; OCreate 1 c1; OControl 0 2 false; OFail [(0, 1)]] in
  valid_hist st0 ops = true /\ forallb serial_op ops = true /\
  length (s_envs (run st0 ops)) = 2%nat /\ length (s_roster (run st0 ops)) = 4%nat /\
  length (filter is_locked (s_roster (run st0 ops))) = 3%nat /\
  wf_op (run st0 ops) (ODestroy 1 false false false false) = true.
Proof. vm_compute. repeat split; reflexivity. Qed.
