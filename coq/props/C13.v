(* C13 — outbound channels connect to where the matching inbound channel was bound.
   Property theorems only; each closed by [exact] of a lemma from proofs/Channels_proofs.v.

   Vocabulary (model/Channels.v): a deployed [task] has the path of its role, the host it was
   placed on, its merged inbound / outbound declarations and an allocation oracle ([t_alloc t i]
   = the port and IPC path handed to its i-th inbound channel by the scheduler).
   [configure tasks] is configureTasks up to the point where the CONFIGURE command is sent:
   [None] = the configuration fails, [Some ps] = the chans.* properties told to each task.
   [given n pr] = the (address, method, transport) a task is told for its channel [n].
   [conn_addr host c a] = "tcp://host:port" / "ipc://path", [bound_addr c a] = "tcp://*:port" /
   "ipc://path" for the same allocation [a].  All theorems hold for every list of tasks, every
   declaration list and every allocation: no bound on sizes. *)
From Verif Require Import Common Channels Channels_proofs ChannelsPlacement_proofs ChannelsMonitor_proofs.
From Verif Require Gen_Placement Placement Placement_proofs.
Open Scope N_scope.

(* An outbound channel whose target names channel [c] of the task with path [t_path b] is given
   the host of that task, the port / IPC path allocated to [c] and [c]'s transport.  (A channel
   with a target of its own takes no part in matching: in an accepted configuration [c] has none.) *)
Theorem C13_connect_matches_bind : forall tasks ps jt t pr b i c o,
  wf_env tasks -> configure tasks = Some ps ->
  In b tasks -> names_ok b -> nth_error (t_in b) i = Some c ->
  nth_error tasks jt = Some t -> nth_error ps jt = Some pr -> t_chans t = true -> NoDup (names_of t) ->
  In o (t_out t) -> o_target o = t_path b ++ s_colon ++ i_name c -> is_explicit (o_target o) = false ->
  i_target c = [] /\
  given (o_name o) pr = Some (conn_addr (t_host b) c (t_alloc b i), m_connect, i_tr c).
Proof. exact connect_matches_bind_path. Qed.
Print Assumptions C13_connect_matches_bind.

(* The same through a global alias, for the channel [c] of [b] that declares the alias.  If several
   tasks claim the alias and the configuration is accepted, the statement holds for each of them:
   they all stand for one endpoint. *)
Theorem C13_connect_matches_bind_alias : forall tasks ps jt t pr b i c o,
  (forall x, In x tasks -> path_ok (t_path x)) -> (forall x, In x tasks -> host_ok (t_host x)) ->
  configure tasks = Some ps ->
  In b tasks -> (forall c', In c' (t_in b) -> is_alias_key (i_name c') = false) ->
  nth_error (t_in b) i = Some c -> i_global c <> [] -> i_target c = [] ->
  nth_error tasks jt = Some t -> nth_error ps jt = Some pr -> t_chans t = true -> NoDup (names_of t) ->
  In o (t_out t) -> o_target o = alias_key (i_global c) ->
  given (o_name o) pr = Some (conn_addr (t_host b) c (t_alloc b i), m_connect, i_tr c).
Proof. exact connect_matches_bind_alias. Qed.
Print Assumptions C13_connect_matches_bind_alias.

(* The binding side, full statement (refuted before the repairs C13-a / C13-b): whatever the
   inbound declaration looks like, in an accepted configuration the peer is given the endpoint
   the binder is told to bind - the same allocation on both sides. *)
Theorem C13_bind_told_same : forall tasks ps jb b prb i c jt t prt o,
  wf_env tasks -> configure tasks = Some ps ->
  nth_error tasks jb = Some b -> nth_error ps jb = Some prb -> t_chans b = true -> names_ok b ->
  nth_error (t_in b) i = Some c ->
  nth_error tasks jt = Some t -> nth_error ps jt = Some prt -> t_chans t = true -> names_ok t ->
  In o (t_out t) -> o_target o = t_path b ++ s_colon ++ i_name c -> is_explicit (o_target o) = false ->
  given (o_name o) prt = Some (conn_addr (t_host b) c (t_alloc b i), m_connect, i_tr c) /\
  given (i_name c) prb = Some (bound_addr c (t_alloc b i), m_bind, i_tr c).
Proof. exact agreement. Qed.
Print Assumptions C13_bind_told_same.

(* A channel that is told its own static target is not advertised: a peer that names it fails
   the configuration instead of being sent to a port nobody binds (former finding C13-a). *)
Theorem C13_static_inbound_not_matched : forall tasks jt t b c o,
  wf_env tasks -> In b tasks -> names_ok b -> In c (t_in b) -> i_target c <> [] ->
  nth_error tasks jt = Some t -> t_chans t = true -> NoDup (names_of t) ->
  In o (t_out t) -> o_target o = t_path b ++ s_colon ++ i_name c -> is_explicit (o_target o) = false ->
  configure tasks = None.
Proof. exact static_inbound_not_matched. Qed.
Print Assumptions C13_static_inbound_not_matched.

(* An inbound channel whose target is neither empty nor tcp:// / ipc:// fails the configuration
   (former finding C13-b: it used to be skipped silently and still advertised). *)
Theorem C13_invalid_inbound_fails : forall tasks t c,
  In t tasks -> t_chans t = true -> In c (t_in t) ->
  i_target c <> [] -> is_explicit (i_target c) = false -> configure tasks = None.
Proof. exact invalid_inbound_fails. Qed.
Print Assumptions C13_invalid_inbound_fails.

(* the binder alone: told to bind exactly what was allocated to the channel *)
Theorem C13_bind_told_allocation : forall tasks ps jb b pr i c,
  configure tasks = Some ps -> nth_error tasks jb = Some b -> nth_error ps jb = Some pr ->
  t_chans b = true -> names_ok b -> nth_error (t_in b) i = Some c -> i_target c = [] ->
  given (i_name c) pr = Some (bound_addr c (t_alloc b i), m_bind, i_tr c).
Proof. exact bind_told. Qed.
Print Assumptions C13_bind_told_allocation.

(* the two addresses name one endpoint: the same port (on the binder's host) or the same path *)
Theorem C13_same_endpoint : forall h c a,
  (i_ipc c = false -> conn_addr h c a = s_tcp ++ h ++ s_colon ++ dec (fst a) /\
                      bound_addr c a = s_tcp ++ s_star ++ s_colon ++ dec (fst a)) /\
  (i_ipc c = true -> conn_addr h c a = s_ipc ++ snd a /\ bound_addr c a = s_ipc ++ snd a).
Proof. exact conn_bound_same_endpoint. Qed.
Print Assumptions C13_same_endpoint.

(* An explicit tcp:// or ipc:// target is passed through unchanged, with the declared transport. *)
Theorem C13_explicit_unchanged : forall tasks ps jt t pr o,
  configure tasks = Some ps -> nth_error tasks jt = Some t -> nth_error ps jt = Some pr ->
  t_chans t = true -> NoDup (names_of t) -> In o (t_out t) -> is_explicit (o_target o) = true ->
  given (o_name o) pr = Some (o_target o, m_connect, o_tr o).
Proof. exact explicit_outbound. Qed.
Print Assumptions C13_explicit_unchanged.

Theorem C13_explicit_unchanged_inbound : forall tasks ps jt t pr c,
  configure tasks = Some ps -> nth_error tasks jt = Some t -> nth_error ps jt = Some pr ->
  t_chans t = true -> NoDup (names_of t) -> In c (t_in t) -> is_explicit (i_target c) = true ->
  given (i_name c) pr = Some (i_target c, m_bind, i_tr c).
Proof. exact explicit_inbound. Qed.
Print Assumptions C13_explicit_unchanged_inbound.

(* A target that names no channel of any task (neither "path:name" nor "::alias" of a channel
   that takes part in matching) fails the configuration. *)
Theorem C13_unmatched_fails : forall tasks t o,
  In t tasks -> t_chans t = true -> In o (t_out t) -> is_explicit (o_target o) = false ->
  (forall b c, In b tasks -> In c (t_in b) -> ~ names_target b c (o_target o)) ->
  configure tasks = None.
Proof. exact unmatched_fails. Qed.
Print Assumptions C13_unmatched_fails.

(* Two different endpoints claiming one global alias, full statement (refuted before the repair
   C13-c): any two distinct claims of one alias, by channels that take part in matching, whose
   endpoints differ are rejected - in one task or across tasks. *)
Theorem C13_alias_conflict_rejected : forall tasks j1 j2 b1 b2 i1 i2 c1 c2,
  (forall x, In x tasks -> path_ok (t_path x)) -> (forall x, In x tasks -> host_ok (t_host x)) ->
  (forall x c, In x tasks -> In c (t_in x) -> is_alias_key (i_name c) = false) ->
  nth_error tasks j1 = Some b1 -> nth_error tasks j2 = Some b2 ->
  nth_error (t_in b1) i1 = Some c1 -> nth_error (t_in b2) i2 = Some c2 ->
  (j1, i1) <> (j2, i2) -> i_global c1 <> [] -> i_global c2 = i_global c1 ->
  i_target c1 = [] -> i_target c2 = [] ->
  to_target (t_host b1) (mk_ep c1 (t_alloc b1 i1)) <> to_target (t_host b2) (mk_ep c2 (t_alloc b2 i2)) ->
  configure tasks = None.
Proof. exact alias_conflict_rejected. Qed.
Print Assumptions C13_alias_conflict_rejected.

(* within one task the rejection is unconditional: any two declarations with one alias *)
Theorem C13_alias_twice_in_one_task_rejected : forall tasks b i1 i2 c1 c2,
  In b tasks -> nth_error (t_in b) i1 = Some c1 -> nth_error (t_in b) i2 = Some c2 -> i1 <> i2 ->
  i_global c1 <> [] -> i_global c2 = i_global c1 -> configure tasks = None.
Proof. exact alias_same_task_rejected. Qed.
Print Assumptions C13_alias_twice_in_one_task_rejected.

(* across tasks: an alias present in the local maps of two different tasks is rejected unless
   both entries are one and the same IPC endpoint (path and transport) - in particular always
   for TCP *)
Theorem C13_alias_in_two_tasks_rejected : forall tasks j1 j2 b1 b2 k e1 e2,
  (forall x, In x tasks -> path_ok (t_path x)) -> (forall x, In x tasks -> host_ok (t_host x)) ->
  nth_error tasks j1 = Some b1 -> nth_error tasks j2 = Some b2 -> j1 <> j2 ->
  is_alias_key k = true -> In (k, e1) (t_local b1) -> In (k, e2) (t_local b2) ->
  ~ (exists p tr, e1 = Ipc p tr /\ e2 = Ipc p tr) ->
  configure tasks = None.
Proof. exact alias_two_tasks_rejected. Qed.
Print Assumptions C13_alias_in_two_tasks_rejected.

(* Which declaration applies at any tree level: the nearest role on the path that declares the
   name, else the task template's (whose connect targets are dropped when the class is read). *)
Theorem C13_nearest_declaration_inbound : forall w n,
  find_by i_name n (w_in w) =
  match nearest i_name n (w_binds w) with
  | Some c => Some c
  | None => find_by i_name n (w_cbind w)
  end.
Proof. exact w_in_decl. Qed.
Print Assumptions C13_nearest_declaration_inbound.

Theorem C13_nearest_declaration_outbound : forall w n,
  find_by o_name n (w_out w) =
  match nearest o_name n (w_conns w) with
  | Some c => Some c
  | None => option_map clear_target (find_by o_name n (w_cconn w))
  end.
Proof. exact w_out_decl. Qed.
Print Assumptions C13_nearest_declaration_outbound.

(* "The address at which that inbound channel was actually bound": an ipc:// endpoint exists on
   the binder's host only.  A peer on another host that names an IPC-addressed channel fails
   the configuration (former finding C13-d: it used to be handed the path unchanged) ... *)
Theorem C13_ipc_cross_host_rejected : forall tasks b i c t o,
  wf_env tasks -> In b tasks -> names_ok b -> nth_error (t_in b) i = Some c ->
  i_target c = [] -> i_ipc c = true ->
  In t tasks -> t_chans t = true -> In o (t_out t) -> o_target o = t_path b ++ s_colon ++ i_name c ->
  t_host t <> t_host b -> configure tasks = None.
Proof. exact ipc_cross_host_rejected. Qed.
Print Assumptions C13_ipc_cross_host_rejected.

(* ... so in an accepted configuration such a peer runs on the host of the task that binds. *)
Theorem C13_ipc_same_host : forall tasks ps b i c t o,
  wf_env tasks -> configure tasks = Some ps -> In b tasks -> names_ok b -> nth_error (t_in b) i = Some c ->
  i_target c = [] -> i_ipc c = true ->
  In t tasks -> t_chans t = true -> In o (t_out t) -> o_target o = t_path b ++ s_colon ++ i_name c ->
  t_host t = t_host b.
Proof. exact ipc_same_host. Qed.
Print Assumptions C13_ipc_same_host.

(* The configuration is refused ONLY for a reason the property names: some outbound target names
   nothing, some inbound channel has an invalid target, an alias is declared twice in one task,
   an alias is in the local maps of two different tasks, or an outbound target resolves to an
   IPC endpoint recorded for another host. *)
Theorem C13_refused_only_for_cause : forall tasks,
  (forall t, In t tasks -> path_ok (t_path t)) -> configure tasks = None ->
  (exists t o, In t tasks /\ t_chans t = true /\ In o (t_out t) /\ is_explicit (o_target o) = false /\
               forall b c, In b tasks -> In c (t_in b) -> ~ names_target b c (o_target o)) \/
  (exists t c, In t tasks /\ t_chans t = true /\ In c (t_in t) /\
               i_target c <> [] /\ is_explicit (i_target c) = false) \/
  (exists t, In t tasks /\ alias_dup (t_in t) = true) \/
  (exists j1 j2 b1 b2 k e1 e2, (j1 < j2)%nat /\ nth_error tasks j1 = Some b1 /\ nth_error tasks j2 = Some b2 /\
               is_alias_key k = true /\ In (k, e1) (t_local b1) /\ In (k, e2) (t_local b2)) \/
  (exists bm t, env_bindmap tasks = Some bm /\ In t tasks /\ cross_ipc tasks bm t = true).
Proof. exact fails_only_for_cause. Qed.
Print Assumptions C13_refused_only_for_cause.

(* Composition with the placement model of C05 (model/Placement.v, not imported: qualified
   names): when the allocation oracle is what the scheduler's loop over wants.InboundChannels
   produced from the offer's remaining ports [pr], the port a TCP channel is told to bind is a
   member of the offer's ports, above the data-port floor (translated constant), ... *)
Theorem C13_port_from_offer : forall tasks ps jb b prb i c pr pr' dyn,
  configure tasks = Some ps -> nth_error tasks jb = Some b -> nth_error ps jb = Some prb ->
  t_chans b = true -> names_ok b -> nth_error (t_in b) i = Some c -> i_target c = [] -> i_ipc c = false ->
  Placement_proofs.pvalid pr ->
  Placement.alloc_dyn (place_chans (t_in b)) pr = Placement.AOk pr' dyn -> alloc_agrees b dyn ->
  exists p, given (i_name c) prb = Some (s_tcp ++ s_star ++ s_colon ++ dec p, m_bind, i_tr c) /\
            Placement_proofs.pmem p pr = true /\ Gen_Placement.data_port_floor < p.
Proof. exact bind_told_port_from_offer. Qed.
Print Assumptions C13_port_from_offer.

(* ... and two TCP channels of one task never get the same port. *)
Theorem C13_ports_distinct : forall t pr pr' dyn i j c d,
  Placement_proofs.pvalid pr ->
  Placement.alloc_dyn (place_chans (t_in t)) pr = Placement.AOk pr' dyn -> alloc_agrees t dyn ->
  nth_error (t_in t) i = Some c -> i_ipc c = false -> i_target c = [] ->
  nth_error (t_in t) j = Some d -> i_ipc d = false -> i_target d = [] ->
  i <> j -> fst (t_alloc t i) <> fst (t_alloc t j).
Proof. exact ports_distinct. Qed.
Print Assumptions C13_ports_distinct.

Example C13_port_from_offer_nonvacuous :
  exists pr', Placement.alloc_dyn (place_chans (t_in pf_task)) (Some [(9000, 9002)]) =
              Placement.AOk pr' [(0, 9000); (2, 9001)] /\
              Placement_proofs.pvalid (Some [(9000, 9002)]) /\ alloc_agrees pf_task [(0, 9000); (2, 9001)].
Proof. exact pf_nonvacuous. Qed.

(* ---- bridge to the monitor [mon13] (the property as evaluated on what the implementation did).
   (1) On the case the model itself produces - the workflow, the model's local bind maps and
   chans.* properties (or its refusal), the ports of the task's TCP endpoints - the monitor
   reports nothing, for every well-formed workflow ([wf_ws]: [wf_env] on its tasks and IPC
   paths of different tasks different) - and for every pure-layer input.  So a monitor code
   on the implementation means the implementation left the model (or well-formedness).
   (2) Read backwards, each code refutes a clause: the soundness theorems below say what a
   silent monitor entails for the observed run. ---- *)
Theorem C13_monitor_on_model : forall ws, wf_ws ws -> mon13 (model_case ws) = 0.
Proof. exact monitor_silent_on_model. Qed.
Print Assumptions C13_monitor_on_model.

Theorem C13_monitor_on_model_pure :
  (forall i bm, mon13 (CInFmq i bm (inbound_props bm i)) = 0) /\
  (forall o bm, mon13 (COutFmq o bm (outbound_props bm o)) = 0) /\
  (forall hp lp, mon13 (CMergeIn hp lp (merge i_name hp lp)) = 0) /\
  (forall hp lp, mon13 (CMergeOut hp lp (merge o_name hp lp)) = 0) /\
  (forall e host f, mon13 (CEndpoint e host f (ep_address e, to_target host e, to_bound e, ep_eqb e f)) = 0).
Proof. exact monitor_silent_on_model_pure. Qed.
Print Assumptions C13_monitor_on_model_pure.

(* a silent monitor on an accepted configuration: every outbound / inbound check of every task
   with channel configuration passed (codes 1-7, 11, 15), no alias declared twice in a task
   (9) or by matching channels of two tasks (8), no static channel registered (5) *)
Theorem C13_monitor_silent_accepted : forall ws os ports,
  forallb w_clean ws = true -> mon_env ws (Some os) ports = 0 ->
  length ws = length os /\
  let wpp := combine (combine ws (map snd os)) (ports ++ repeat [] (length ws)) in
  let bs := binders_of wpp in
  (forall w pr pt, In (w, pr, pt) wpp -> w_chans w = true ->
     (forall d, In d (eff_out w) -> check_out bs (w_host w) pr d = 0) /\
     (forall e, In e (eff_in w) -> check_in pt pr e = 0)) /\
  (forall w, In w ws -> NoDup (globals_of (eff_in w))) /\
  cross_dup (map free_aliases ws) = false /\
  (forall w loc e, In (w, loc) (combine ws (map fst os)) -> In e (eff_in w) -> i_target e <> [] ->
     assoc (i_name e) loc = None).
Proof. exact monitor_silent_sound. Qed.
Print Assumptions C13_monitor_silent_accepted.

(* a passed outbound check: told method connect; an explicit target unchanged with the declared
   transport; otherwise some channel that the target names (and that takes part in matching)
   agrees with the address and transport told - and binds on the connecting task's own host
   [host] when the address is an ipc:// one (code 16) *)
Theorem C13_monitor_outbound_sound : forall bs host pr d,
  check_out bs host pr d = 0 ->
  exists addr tr, assoc (o_name d) pr = Some (addr, m_connect, tr) /\
    (is_explicit (o_target d) = true -> addr = o_target d /\ tr = o_tr d) /\
    (is_explicit (o_target d) = false ->
     exists pt w prb e, In (pt, w, prb, e) bs /\ target_hits (o_target d) (w_path w) e = true /\
                        good_hit addr tr (pt, w, prb, e) = true /\
                        (has_prefix s_ipc addr = true -> w_host w = host)).
Proof. exact check_out_sound. Qed.
Print Assumptions C13_monitor_outbound_sound.

(* "agrees": the binder was told method bind, the same transport, and an address that names the
   same endpoint - tcp://*:P against tcp://<binder's host>:P, or the same ipc:// path *)
Theorem C13_monitor_agreement_sound : forall addr tr pt w pr e,
  w_chans w = true -> good_hit addr tr (pt, w, pr, e) = true ->
  exists baddr, assoc (i_name e) pr = Some (baddr, m_bind, tr) /\
    ((exists ps, baddr = s_tcp ++ s_star ++ s_colon ++ ps /\ addr = s_tcp ++ w_host w ++ s_colon ++ ps) \/
     (exists path, baddr = s_ipc ++ path /\ addr = baddr)).
Proof. exact good_hit_sound. Qed.
Print Assumptions C13_monitor_agreement_sound.

(* a passed inbound check: told method bind; an explicit target unchanged; otherwise no target
   at all, the declared transport, and an ipc:// path resp. tcp://*:P with P among the ports
   requested for the task *)
Theorem C13_monitor_inbound_sound : forall pt pr e,
  check_in pt pr e = 0 ->
  exists baddr btr, assoc (i_name e) pr = Some (baddr, m_bind, btr) /\
    (is_explicit (i_target e) = true -> baddr = i_target e /\ btr = i_tr e) /\
    (is_explicit (i_target e) = false ->
       i_target e = [] /\ btr = i_tr e /\
       (i_ipc e = true -> exists path, baddr = s_ipc ++ path) /\
       (i_ipc e = false -> exists p, In p pt /\ baddr = s_tcp ++ s_star ++ s_colon ++ dec p)).
Proof. exact check_in_sound. Qed.
Print Assumptions C13_monitor_inbound_sound.

(* a silent monitor on a refused configuration (code 12): one of the causes the property names
   is present in the declarations *)
Theorem C13_monitor_silent_refused : forall ws ports,
  forallb w_clean ws = true -> mon_env ws None ports = 0 ->
  unmatched_in ws = true \/ invalid_in ws = true \/ alias_twice ws = true \/ cross_ipc_in ws = true.
Proof. exact monitor_silent_refused_sound. Qed.
Print Assumptions C13_monitor_silent_refused.

(* the witnesses of the three former findings are refused by the repaired model *)
Example C13_former_witnesses_refused :
  configure wit1_tasks = None /\ configure_wf wit2_ws = None /\ configure_wf wit3_ws = None.
Proof. exact (conj wit1_refused (conj wit2_refused wit3_refused)). Qed.

(* non-vacuity: a concrete two-task workflow on two hosts meets the hypotheses of the theorems
   above, is accepted, and both sides are told port 9000 of host h1 *)
Example C13_nonvacuous :
  let b := mkW [[119];[98]] [[mkIn s_in0 s_default [] s_ga false]; []] [[]; []] true [] [] s_h1 [(9000, [])] in
  let t := mkW [[119];[99]] [[]; []] [[mkOut s_out0 s_default [119;46;98;58;105;110;48];
                                      mkOut s_in1 s_default [58;58;103;97]]; []] true [] [] s_h2 [] in
  wf_env (map task_of [b; t]) /\ wf_ws [b; t] /\ forallb w_clean [b; t] = true /\
  names_ok (task_of b) /\ names_ok (task_of t) /\
  configure_wf [b; t] =
    Some [ [(s_in0, ([116;99;112;58;47;47;42;58;57;48;48;48], m_bind, s_default))];
           [(s_out0, ([116;99;112;58;47;47;104;49;58;57;48;48;48], m_connect, s_default));
            (s_in1, ([116;99;112;58;47;47;104;49;58;57;48;48;48], m_connect, s_default))] ].
Proof.
  cbv zeta.
  match goal with |- ?WF /\ _ => assert (W : WF) end.
  { split.
    + cbn. constructor; [intros [H|[]]; discriminate|]. constructor; [intros []|constructor].
    + intros x [<-|[<-|[]]]; cbn; (split; [discriminate|]); (split; [|split; discriminate]);
        unfold no_colon; cbn; intuition discriminate. }
  split; [exact W|]. split; [|split; [|split; [|split]]].
  - split; [exact W|]. intros j1 j2 w1 w2 i1 i2 c1 c2 H1 H2 Ne N1 N2 _ _.
    assert (E : forall i c, nth_error (w_in (mkW [[119];[99]] [[]; []] [[mkOut s_out0 s_default [119;46;98;58;105;110;48];
                 mkOut s_in1 s_default [58;58;103;97]]; []] true [] [] s_h2 [])) i = Some c -> False)
      by (intros [|i] c X; discriminate X).
    destruct j1 as [|[|j1]], j2 as [|[|j2]]; cbn [nth_error] in H1, H2;
      try (exfalso; apply Ne; reflexivity);
      try (inversion H2; subst w2; exfalso; exact (E _ _ N2));
      try (inversion H1; subst w1; exfalso; exact (E _ _ N1));
      try (destruct j2; discriminate H2); try (destruct j1; discriminate H1).
  - reflexivity.
  - apply wit_names_ok; reflexivity.
  - apply wit_names_ok; reflexivity.
  - vm_compute. reflexivity.
Qed.
