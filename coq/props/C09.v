(* C09 — only critical hook failures affect a transition, exactly as documented.
   Property theorems only; lemmas in proofs/EnvHooksFail_proofs.v, model in model/EnvHooks.v.
   Quantification: arbitrary hook sets, arbitrary oracles (any subset of calls failing, any hook
   task outcome: ok / non-zero exit / involuntary termination / time-out / late termination /
   failed trigger command), any event, any source state. *)
From Verif Require Import Common EnvHooks EnvHooks_proofs EnvHooksFail_proofs.
From Coq Require Import ZArith List Bool.
Import ListNotations.
Open Scope N_scope.

(* Clause 1.  An error naming before_<event> or leave_<state> means the transition was cancelled
   there: source state kept, the failure is the whole error and names at least one failed
   critical hook, nothing but events of before_<event> / leave_<state> happened (no task
   transition, no enter_ / after_ step, no later hook), and the failing step's end marker is the
   last event of the transition. *)
Theorem C09_cancel_early : forall hooks orc e b s s' t l d m f,
  transition hooks orc e b s = (s', t, RHook l) -> dst_of e (e_st s) = Some d ->
  In (PE m f) l -> m = MBefore e \/ m = MLeave (e_st s) ->
  e_st s' = e_st s /\ l = [PE m f] /\ (wf_calls f <> [] \/ wf_tasks f <> []) /\
  Forall (early_only e (e_st s)) t /\
  exists t0, t = t0 ++ [TStep (SMoment m) false true].
Proof. exact cancel_early. Qed.
Print Assumptions C09_cancel_early.

(* Clause 2.  An error naming enter_<state> or after_<event> is only reported: the environment is
   in the destination state, the task transition ran, after_<event> ran from its first to its
   last event (which carries the error flag). *)
Theorem C09_report_late : forall hooks orc e b s s' t l d m f,
  transition hooks orc e b s = (s', t, RHook l) -> dst_of e (e_st s) = Some d ->
  In (PE m f) l -> m = MEnter d \/ m = MAfter e ->
  e_st s' = d /\ In (TBody e) t /\
  exists t0 t1, t = t0 ++ TStep (SMoment (MAfter e)) true false :: t1 ++ [TStep (SMoment (MAfter e)) false true].
Proof. exact report_late. Qed.
Print Assumptions C09_report_late.

(* Clauses 1+2, the other direction: every failing critical call whose result is taken during a
   transition makes the transition return a hook error that names the trigger and that call. *)
Theorem C09_critical_failure_reported : forall hooks orc e b s s' t r d i,
  transition hooks orc e b s = (s', t, r) -> dst_of e (e_st s) = Some d -> r <> RCrash ->
  In i (collects t) -> critfail i = true ->
  exists l m f, r = RHook l /\ In (PE m f) l /\ In i (wf_calls f).
Proof. exact critical_failure_reported. Qed.
Print Assumptions C09_critical_failure_reported.

(* ... read the other way round: a transition that returned success - or just the error of the
   task transition - took the result of no failing critical call, at any moment, whatever else
   failed. *)
Theorem C09_success_means_no_critical_failure : forall hooks orc e b s s' t r d i,
  transition hooks orc e b s = (s', t, r) -> dst_of e (e_st s) = Some d ->
  r = ROk \/ r = RBody -> In i (collects t) -> critfail i = false.
Proof. exact success_no_critical_failure. Qed.
Print Assumptions C09_success_means_no_critical_failure.

(* In particular a critical failure at enter_<state> is in the returned error whether or not
   after_<event> fails too (former finding C09-c, repaired: after_event joins its errors with the
   one enter_state left). *)
Theorem C09_enter_reported : forall hooks orc e b s s' t l d i p,
  transition hooks orc e b s = (s', t, RHook l) -> dst_of e (e_st s) = Some d ->
  In (TCollect i p) t -> critfail i = true -> fst p = MEnter d ->
  exists f, In (PE (MEnter d) f) l /\ In i (wf_calls f).
Proof. exact enter_reported. Qed.
Print Assumptions C09_enter_reported.

(* Clause 3.  Non-critical failures are never transition errors: if no hook task is critical and
   every call whose failing result is taken is non-critical, then — whichever calls fail,
   whatever the hook tasks do — the transition returns exactly what the task transition
   returns. *)
Theorem C09_noncritical_silent : forall hooks orc e b s s' t r d,
  transition hooks orc e b s = (s', t, r) -> dst_of e (e_st s) = Some d ->
  tasks_noncritical hooks -> (forall i, In i (collects t) -> critfail i = false) ->
  r = RCrash \/ (b = BOk /\ r = ROk /\ e_st s' = d) \/ (b <> BOk /\ r = RBody /\ e_st s' = e_st s).
Proof. exact noncritical_silent. Qed.
Print Assumptions C09_noncritical_silent.

(* Which termination reports of a hook TASK are failures: exactly those with a non-zero exit
   code (negative ones - killed by a signal - included) or an involuntary termination, whatever
   the final Mesos state says.  The classification is re-observed on the real runTasksAsHooks on every run
   (h08 -gen hookfail writes gen/Gen_HookFail.v), so this theorem fails when the code changes it. *)
Theorem C09_task_failure_classification : forall c vol,
  term_fails c vol = true <-> (c <> 0%Z \/ vol = false).
Proof. exact term_fails_spec. Qed.
Print Assumptions C09_task_failure_classification.

(* ... and such a report decides the outcome of the hook task (stated for a task alone at its
   weight; several tasks of one weight go through the collector loop of the model) *)
Theorem C09_task_report_decides : forall h c v f,
  run_tasks [h] [(h, TTermX c v f)] = LDone (if term_fails c v then [h] else []).
Proof. exact single_task_report. Qed.
Print Assumptions C09_task_report_decides.

(* Clause 4.  Several critical hooks failing at one point are reported together: the error of a
   handleHooks pass carries all critical calls that failed where the pass stopped, counts them
   (calls and hook tasks), and names every call when there are at most three. *)
Theorem C09_consolidated : forall hooks orc m pred s s' t m' f,
  run_pass hooks orc m pred s = (s', t, PFail m' f) ->
  m' = m /\ wf_calls f = filter critfail (collects t) /\
  oe_count (oerr_of (PE m' f)) = Nlen (wf_calls f) + Nlen (wf_tasks f) /\
  (wfail_count f <= 3 -> oe_ids (oerr_of (PE m' f)) = id_sort (map id_of (filter critfail (collects t)))).
Proof. exact consolidated. Qed.
Print Assumptions C09_consolidated.

(* "... without harming the core": no history crashes the core, whatever fails — any number of
   calls failing at one point, hook tasks exiting non-zero, terminating involuntarily, timing
   out, terminating after their time-out, trigger commands failing (former findings C09-b and
   C09-d, repaired in runTasksAsHooks). *)
Theorem C09_no_crash : forall hooks ops i s,
  model_crashed (snd (run_ops hooks i ops s)) = false.
Proof. exact no_crash. Qed.
Print Assumptions C09_no_crash.

(* the former witnesses, as regression examples: the late termination is ignored and the timed-out
   critical hook cancels CONFIGURE; a failed trigger command leaves nothing behind *)
Theorem C09_late_termination_ignored :
  map (fun x => snd (fst x)) (snd (run_ops wit_late_hooks 0 wit_late_ops (est0 DEPLOYED))) =
  [RHook [PE (MBefore CONFIGURE) (mkWfail [] [1] true)]].
Proof. exact wit_late_cancelled. Qed.
Print Assumptions C09_late_termination_ignored.

Theorem C09_failed_trigger_leaves_nothing :
  map (fun x => snd (fst x)) (snd (run_ops wit_stale_hooks 0 wit_stale_ops (est0 DEPLOYED))) = [ROk; ROk; ROk].
Proof. exact wit_stale_clean. Qed.
Print Assumptions C09_failed_trigger_leaves_nothing.

(* Non-vacuity: 16 calls at one point, 12 critical, all failing (the case that used to kill the
   core): CONFIGURE is cancelled in before_CONFIGURE with one error counting 12; then with only
   the non-critical ones failing CONFIGURE succeeds. *)
Definition ex9_hooks : list hook :=
  map (fun k => mkHook k HCall (MBefore CONFIGURE, 0%Z) (MBefore CONFIGURE, 0%Z) (negb (k mod 4 =? 0)))
      [1;2;3;4;5;6;7;8;9;10;11;12;13;14;15;16].
Example C09_nonvacuous :
  (exists s' t f, transition ex9_hooks (mkOracle 0 [1;2;3;4;5;6;7;8;9;10;11;12;13;14;15;16] [] []) CONFIGURE BOk (est0 DEPLOYED)
                  = (s', t, RHook [PE (MBefore CONFIGURE) f]) /\ wfail_count f = 12 /\ e_st s' = DEPLOYED) /\
  (exists s' t, transition ex9_hooks (mkOracle 0 [4;8;12;16] [] []) CONFIGURE BOk (est0 DEPLOYED) = (s', t, ROk) /\
                e_st s' = CONFIGURED /\ Nlen (filter (fun i => i_fail i) (collects t)) = 4).
Proof.
  split.
  - destruct (transition ex9_hooks (mkOracle 0 [1;2;3;4;5;6;7;8;9;10;11;12;13;14;15;16] [] []) CONFIGURE BOk (est0 DEPLOYED))
      as [[s' t] r] eqn:E. vm_compute in E. inversion E; subst.
    eexists; eexists; eexists. split; [reflexivity|]. split; reflexivity.
  - destruct (transition ex9_hooks (mkOracle 0 [4;8;12;16] [] []) CONFIGURE BOk (est0 DEPLOYED))
      as [[s' t] r] eqn:E. vm_compute in E. inversion E; subst.
    eexists; eexists. split; [reflexivity|]. split; reflexivity.
Qed.
