(* C20 — configuration lookups return the most specific existing entry.
   Property theorems only; each closed by [exact] of a lemma from proofs/CfgQuery_proofs.v. *)
From Verif Require Import Common CfgQuery CfgQuery_proofs.
Open Scope N_scope.

(* The result of a lookup is the first existing candidate in the documented order
   exact, (ANY, role), (run type, any), (ANY, any) — for every existence oracle. *)
Theorem C20_fallback_order : forall ex q r,
  resolve ex q = Some r <->
  exists pre post, candidates q = pre ++ r :: post /\ ex (print_query r) = true /\
                   forall x, In x pre -> ex (print_query x) = false.
Proof. exact resolve_first. Qed.
Print Assumptions C20_fallback_order.

Theorem C20_candidates_documented : forall q,
  candidates q =
  [ mkQuery (q_comp q) (q_rt q) (q_role q) (q_entry q);
    mkQuery (q_comp q) RT_ANY (q_role q) (q_entry q);
    mkQuery (q_comp q) (q_rt q) ROLE_ANY (q_entry q);
    mkQuery (q_comp q) RT_ANY ROLE_ANY (q_entry q) ].
Proof. exact candidates_spec. Qed.
Print Assumptions C20_candidates_documented.

Theorem C20_fails_iff_none_exists : forall ex q,
  resolve ex q = None <-> forall c, In c (candidates q) -> ex (print_query c) = false.
Proof. exact resolve_none. Qed.
Print Assumptions C20_fails_iff_none_exists.

Theorem C20_resolved_exists : forall ex q r,
  resolve ex q = Some r -> ex (print_query r) = true /\ In r (candidates q).
Proof. exact resolve_exists. Qed.
Print Assumptions C20_resolved_exists.

(* Query strings: parse . print = id on well-formed queries; print . parse = trim;
   everything outside the grammar is rejected. *)
Theorem C20_print_parse : forall q, wf_query q = true -> parse_query (print_query q) = Some q.
Proof. exact parse_print_roundtrip. Qed.
Print Assumptions C20_print_parse.

Theorem C20_parse_print : forall s q,
  parse_query s = Some q -> print_query q = trim s /\ wf_query q = true.
Proof. exact parse_sound. Qed.
Print Assumptions C20_parse_print.

Theorem C20_rejects : forall s,
  parse_query s = None <-> ~ exists q, wf_query q = true /\ trim s = print_query q.
Proof. exact parse_rejects. Qed.
Print Assumptions C20_rejects.

Theorem C20_blanks_ignored : forall s, parse_query (trim s) = parse_query s.
Proof. exact parse_trim. Qed.
Print Assumptions C20_blanks_ignored.

(* Payload, on the fragment literal text + {{ name }}: only the supplied variables that the
   entry mentions are consulted; a placeholder is replaced by the (escaped) supplied value or
   by nothing. *)
Theorem C20_template_vars_only : forall vars vars' t,
  (forall n, In (TVar n) t -> assoc n (bindings vars) = assoc n (bindings vars')) ->
  render vars t = render vars' t.
Proof. exact render_only_supplied. Qed.
Print Assumptions C20_template_vars_only.

Theorem C20_template_compositional : forall vars t1 t2,
  render vars (t1 ++ t2) = render vars t1 ++ render vars t2.
Proof. exact render_app. Qed.
Print Assumptions C20_template_compositional.

Theorem C20_template_literal : forall vars s, render vars [TLit s] = s.
Proof. exact render_lit. Qed.
Print Assumptions C20_template_literal.

Theorem C20_template_placeholder : forall vars n,
  render vars [TVar n] =
  match assoc n (bindings vars) with Some v => escape_html v | None => [] end.
Proof. exact render_var. Qed.
Print Assumptions C20_template_placeholder.

(* Query parameters (k=v(&k=v)* with the "process" flag): accepted strings are exactly the
   printed forms of well-formed item lists, and parsing returns exactly what they spell. *)
Theorem C20_params_print_parse : forall kvs,
  wf_kvs kvs = true -> parse_params (print_kvs kvs) = Some (params_of kvs).
Proof. exact parse_params_print. Qed.
Print Assumptions C20_params_print_parse.

Theorem C20_params_parse_print : forall s p,
  parse_params s = Some p ->
  exists kvs, wf_kvs kvs = true /\ trim s = print_kvs kvs /\ p = params_of kvs.
Proof. exact parse_params_sound. Qed.
Print Assumptions C20_params_parse_print.

Theorem C20_params_rejects : forall s,
  parse_params s = None <-> ~ exists kvs, wf_kvs kvs = true /\ trim s = print_kvs kvs.
Proof. exact parse_params_rejects. Qed.
Print Assumptions C20_params_rejects.

(* non-vacuity: a concrete well-formed query and a concrete fallback *)
Example C20_nonvacuous :
  let q := mkQuery [113;99] 1 [114;49] [101;47;102] in
  wf_query q = true /\
  parse_query ([32] ++ print_query q ++ [10]) = Some q /\
  resolve (fun p => str_eqb p (print_query (with_any_role q))) q = Some (with_any_role q) /\
  wf_kvs [([97], [49;44;50]); (k_process, [70])] = true /\
  parse_params ([32] ++ print_kvs [([97], [49;44;50]); (k_process, [70])]) =
    Some (mkParams false [([97], [49;44;50])]).
Proof. vm_compute. repeat split; reflexivity. Qed.
