(* C20 — configuration lookups return the most specific existing entry.
   Property theorems only; each closed by [exact] of a lemma from proofs/CfgQuery_proofs.v. *)
From Verif Require Import Common CfgQuery CfgQuery_proofs.
Open Scope N_scope.

(* The result of a lookup is the first existing candidate in the documented order
   exact, (ANY, role), (run type, any), (ANY, any) — for every existence oracle. *)
Theorem C20_fallback_order : forall ex q r,
  resolve ex q = Some r <->
  exists pre post, candidates q = pre ++ r :: post /\ ex (print_query r) = true /\
                   forall x, In x pre -> ex (print_query x) = false.
Proof. exact resolve_first. Qed.
Print Assumptions C20_fallback_order.

Theorem C20_candidates_documented : forall q,
  candidates q =
  [ mkQuery (q_comp q) (q_rt q) (q_role q) (q_entry q);
    mkQuery (q_comp q) RT_ANY (q_role q) (q_entry q);
    mkQuery (q_comp q) (q_rt q) ROLE_ANY (q_entry q);
    mkQuery (q_comp q) RT_ANY ROLE_ANY (q_entry q) ].
Proof. exact candidates_spec. Qed.
Print Assumptions C20_candidates_documented.

Theorem C20_fails_iff_none_exists : forall ex q,
  resolve ex q = None <-> forall c, In c (candidates q) -> ex (print_query c) = false.
Proof. exact resolve_none. Qed.
Print Assumptions C20_fails_iff_none_exists.

Theorem C20_resolved_exists : forall ex q r,
  resolve ex q = Some r -> ex (print_query r) = true /\ In r (candidates q).
Proof. exact resolve_exists. Qed.
Print Assumptions C20_resolved_exists.

(* The backends.  The resolution depends on the store only through the existence of its four
   candidates ... *)
Theorem C20_resolution_depends_on_candidates_only : forall ex ex' q,
  (forall c, In c (candidates q) -> ex (print_query c) = ex' (print_query c)) ->
  resolve ex q = resolve ex' q.
Proof. exact resolve_ext. Qed.
Print Assumptions C20_resolution_depends_on_candidates_only.

(* ... the Consul backend asks Consul for the key itself (translator cfgbackends over
   configuration/cfgbackend/consulsource.go), so its Exists says yes exactly for the entries ... *)
Theorem C20_consul_exists_by_get_in_source : consul_exists_by_get = true.
Proof. exact consul_exists_by_get_in_source. Qed.
Print Assumptions C20_consul_exists_by_get_in_source.

Theorem C20_consul_exists_is_membership : forall existing p,
  consul_exists consul_exists_by_get existing p = is_entry existing p.
Proof. exact consul_exists_membership. Qed.
Print Assumptions C20_consul_exists_is_membership.

(* ... and the resolution over it is the first candidate that is an ENTRY: it depends only on the
   set of existing entries, and what it returns is one *)
Theorem C20_consul_resolution_first_entry : forall existing q,
  resolve (consul_exists consul_exists_by_get existing) q = first_existing (is_entry existing) (candidates q).
Proof. exact consul_resolution. Qed.
Print Assumptions C20_consul_resolution_first_entry.

Theorem C20_consul_resolved_is_entry : forall existing q r,
  resolve (consul_exists consul_exists_by_get existing) q = Some r ->
  is_entry existing (print_query r) = true /\ In r (candidates q).
Proof. exact consul_resolved_is_entry. Qed.
Print Assumptions C20_consul_resolved_is_entry.

(* The file backend's Exists says yes for folders too: "a resolved path is an entry" is refuted for
   it (finding C20-a, replayed by corpus/C20/03) and holds when no candidate is a folder *)
Theorem C20_file_backend_resolves_entries_refuted : ~ file_resolves_entries_statement.
Proof. exact file_resolves_entries_refuted. Qed.
Print Assumptions C20_file_backend_resolves_entries_refuted.

Theorem C20_file_backend_resolves_entries_partial : forall existing q,
  (forall c, In c (candidates q) -> is_folder existing (print_query c) = false) ->
  resolve (file_exists existing) q = first_existing (is_entry existing) (candidates q).
Proof. exact file_resolves_entries_partial. Qed.
Print Assumptions C20_file_backend_resolves_entries_partial.

(* Query strings: parse . print = id on well-formed queries; print . parse = trim;
   everything outside the grammar is rejected. *)
Theorem C20_print_parse : forall q, wf_query q = true -> parse_query (print_query q) = Some q.
Proof. exact parse_print_roundtrip. Qed.
Print Assumptions C20_print_parse.

Theorem C20_parse_print : forall s q,
  parse_query s = Some q -> print_query q = trim s /\ wf_query q = true.
Proof. exact parse_sound. Qed.
Print Assumptions C20_parse_print.

Theorem C20_rejects : forall s,
  parse_query s = None <-> ~ exists q, wf_query q = true /\ trim s = print_query q.
Proof. exact parse_rejects. Qed.
Print Assumptions C20_rejects.

Theorem C20_blanks_ignored : forall s, parse_query (trim s) = parse_query s.
Proof. exact parse_trim. Qed.
Print Assumptions C20_blanks_ignored.

(* Payload.  Fragment: literal text, {{ name }}, {{ expression }} with string literals, names,
   util.PrefixedOverride / PrefixedOverride (the utility function that reads the variable stack)
   and the string functions ToUpper / ToLower / TrimSpace / TrimQuotes.
   [render vars t] is the pure per-request result; None = the request is refused. *)

(* it depends on the supplied variables only through: whether every (trimmed) key is an
   identifier, the values of the names the entry mentions, and - if the entry calls
   PrefixedOverride - the values under the keys as supplied *)
Theorem C20_template_vars_only : forall vars vars' t,
  keys_ok (bindings vars) = keys_ok (bindings vars') ->
  (forall n, In n (tpl_names t) -> assoc n (bindings vars) = assoc n (bindings vars')) ->
  (tpl_overrides t = true -> forall k, assoc k vars = assoc k vars') ->
  render vars t = render vars' t.
Proof. exact render_only_supplied. Qed.
Print Assumptions C20_template_vars_only.

Theorem C20_template_compositional : forall vars t1 t2,
  render vars (t1 ++ t2) =
  match render vars t1, render vars t2 with Some a, Some b => Some (a ++ b) | _, _ => None end.
Proof. exact render_app. Qed.
Print Assumptions C20_template_compositional.

Theorem C20_template_literal : forall vars s,
  keys_ok (bindings vars) = true -> render vars [TLit s] = Some s.
Proof. exact render_lit. Qed.
Print Assumptions C20_template_literal.

Theorem C20_template_placeholder : forall vars n,
  keys_ok (bindings vars) = true ->
  render vars [TVar n] =
  Some (match assoc n (bindings vars) with Some v => escape_html v | None => [] end).
Proof. exact render_var. Qed.
Print Assumptions C20_template_placeholder.

(* {{ util.PrefixedOverride("n", "p") }} is replaced by the (escaped) value the supplied variables
   give p_n if that is usable (present, not "none", not blank), else by the usable value of n,
   else by nothing; the legacy spelling means the same *)
Theorem C20_template_override : forall vars l n p,
  keys_ok (bindings vars) = true ->
  render vars [TExp (EPO l (ELit n) (ELit p))] = Some (escape_html (prefixed_override vars n p)).
Proof. exact render_override. Qed.
Print Assumptions C20_template_override.

Theorem C20_override_value : forall raw n p,
  let r := prefixed_override raw n p in
  usable raw (p ++ 95 :: n) r \/
  (unusable raw (p ++ 95 :: n) /\ (usable raw n r \/ (unusable raw n /\ r = []))).
Proof. exact prefixed_override_spec. Qed.
Print Assumptions C20_override_value.

(* The Service across requests: one cached template set per directory, entries rewritten in the
   backend, cache invalidations - for every history of operations.
   [step]/[run] carry the switch set from the source (Gen_TplCache). *)

(* no data of a request is kept by the Service and the function map handed to the template is
   built from the variables of the request (translator tplcache over apricot/local) *)
Theorem C20_request_data_not_cached_in_source :
  tplcache_request_data_cached = false /\ tplcache_funcmap_from_request = true /\ fm_shared = false.
Proof. exact request_data_not_cached_in_source. Qed.
Print Assumptions C20_request_data_not_cached_in_source.

(* the payload of a request does not depend on the variables of any earlier request *)
Theorem C20_payload_noninterference : forall st h h' p vars,
  Forall2 op_shape h h' ->
  snd (step (fst (run st h)) (OReq p vars)) = snd (step (fst (run st h')) (OReq p vars)).
Proof. exact noninterference. Qed.
Print Assumptions C20_payload_noninterference.

(* it is the template in effect (compiled at the first request since the last invalidation)
   rendered with exactly the variables of this request *)
Theorem C20_payload_this_request : forall st p vars,
  snd (step st (OReq p vars)) =
  match in_effect st p with Some t => render vars t | None => None end.
Proof. exact step_payload. Qed.
Print Assumptions C20_payload_this_request.

(* as long as no entry is rewritten every request on a Service gets the pure per-request result,
   whatever was asked before; and so again after an invalidation, whatever happened before it *)
Theorem C20_payload_pure : forall be h,
  no_put h = true -> snd (run (fresh be) h) = pure_outs be h.
Proof. exact pure_run_fresh. Qed.
Print Assumptions C20_payload_pure.

Theorem C20_payload_pure_after_invalidation : forall st h1 h2,
  no_put h2 = true ->
  snd (run (fst (run st (h1 ++ [OInv]))) h2) = pure_outs (s_backend (fst (run st h1))) h2.
Proof. exact pure_after_invalidation. Qed.
Print Assumptions C20_payload_pure_after_invalidation.

(* the template loader - which also loads the root template of a processed lookup - reports a
   failed fetch as an error and never hands invented content to pongo2 (translator tplcache over
   configuration/template/loader.go): the reason why, in [step], a lookup of a missing entry fails
   and leaves nothing behind in the template cache *)
Theorem C20_failed_fetch_is_error_in_source : tplcache_failed_fetch_is_error = true.
Proof. exact failed_fetch_is_error_in_source. Qed.
Print Assumptions C20_failed_fetch_is_error_in_source.

(* a processed lookup of a path that has no entry fails, after every history - as the
   unprocessed lookup does *)
Theorem C20_processed_lookup_needs_entry : forall be h p vars,
  assoc p (store_after be h) = None ->
  snd (step (fst (run (fresh be) h)) (OReq p vars)) = None.
Proof. exact needs_entry. Qed.
Print Assumptions C20_processed_lookup_needs_entry.

(* success/failure and payload of a processed lookup are a function of the current content of
   the store (and the request) only: whatever was asked for - also while it was missing -, created
   or invalidated before, provided no entry whose template is compiled was rewritten without an
   invalidation (that one is served from the old template by design) *)
Theorem C20_processed_lookup_history_free : forall be h p vars,
  safe_hist (fresh be) h = true ->
  snd (step (fst (run (fresh be) h)) (OReq p vars)) =
  match assoc p (store_after be h) with Some t => render vars t | None => None end.
Proof. exact history_free. Qed.
Print Assumptions C20_processed_lookup_history_free.

(* Query parameters (k=v(&k=v)* with the "process" flag): accepted strings are exactly the
   printed forms of well-formed item lists, and parsing returns exactly what they spell. *)
Theorem C20_params_print_parse : forall kvs,
  wf_kvs kvs = true -> parse_params (print_kvs kvs) = Some (params_of kvs).
Proof. exact parse_params_print. Qed.
Print Assumptions C20_params_print_parse.

Theorem C20_params_parse_print : forall s p,
  parse_params s = Some p ->
  exists kvs, wf_kvs kvs = true /\ trim s = print_kvs kvs /\ p = params_of kvs.
Proof. exact parse_params_sound. Qed.
Print Assumptions C20_params_parse_print.

Theorem C20_params_rejects : forall s,
  parse_params s = None <-> ~ exists kvs, wf_kvs kvs = true /\ trim s = print_kvs kvs.
Proof. exact parse_params_rejects. Qed.
Print Assumptions C20_params_rejects.

(* non-vacuity: a concrete well-formed query and a concrete fallback *)
Example C20_nonvacuous :
  let q := mkQuery [113;99] 1 [114;49] [101;47;102] in
  wf_query q = true /\
  parse_query ([32] ++ print_query q ++ [10]) = Some q /\
  resolve (fun p => str_eqb p (print_query (with_any_role q))) q = Some (with_any_role q) /\
  wf_kvs [([97], [49;44;50]); (k_process, [70])] = true /\
  parse_params ([32] ++ print_kvs [([97], [49;44;50]); (k_process, [70])]) =
    Some (mkParams false [([97], [49;44;50])]) /\
  (* an override entry asked twice on one Service with different variables *)
  (let p := [100;47;111] in
   let be := [(p, [TLit [119;102;61]; TExp (EPO false (ELit [119]) (EVar [100]))])] in
   let its := [([100], [105]); ([105;95;119], [73]); ([119], [70])] in
   let tpc := [([100], [116]); ([119], [70])] in
   snd (run (fresh be) [OReq p its; OReq p tpc]) = [Some [119;102;61;73]; Some [119;102;61;70]] /\
   no_put [OReq p its; OReq p tpc] = true /\
   (* asked while missing, created, asked again *)
   let late := [100;47;108] in
   let h := [OReq late its; OPut late [TVar [100]]; OReq late its] in
   safe_hist (fresh be) h = true /\
   snd (run (fresh be) h) = [None; None; Some [105]]).
Proof. vm_compute. repeat split; reflexivity. Qed.

(* had the function map been registered with the cached template set (switch on), the payload
   would depend on the variables of an earlier request *)
(* had ConsulSource.Exists asked Consul by key listing (prefix semantics), a candidate that is
   no entry would be accepted *)
Example C20_prefix_listing_differs :
  exists existing q r,
    resolve (consul_exists false existing) q = Some r /\ is_entry existing (print_query r) = false /\
    resolve (consul_exists true existing) q <> Some r.
Proof. exact prefix_listing_differs. Qed.

Example C20_shared_function_map_leaks :
  exists be p v1 v2 v,
    snd (step_g true (fst (run_g true (fresh be) [OReq p v1])) (OReq p v)) <>
    snd (step_g true (fst (run_g true (fresh be) [OReq p v2])) (OReq p v)).
Proof. exact shared_function_map_leaks. Qed.
