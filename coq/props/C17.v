(* C17 — every launched task ends with exactly one terminal status and no survivors.
   Property theorems only; each closed by [exact] of a lemma from proofs/ExecTask_proofs.v.

   [crun b cinit l] / [brun b hook binit l] run a controllable resp. basic / hook task from launch
   along the schedule [l] (any interleaving of requests, timers, the child's death, the reaper, the
   wake-ups of the Kill goroutine) with child behaviour [b]; the second component is everything the
   executor told the agent or did to the child.  All theorems quantify over every behaviour and
   every schedule unless they name a witness. *)
From Verif Require Import Common Gen_ExecTask ExecTask ExecTask_proofs.
Open Scope N_scope.

(* ===== clause 1: at most one terminal status and nothing after it ===== *)

Theorem C17_one_terminal_ctl : forall b l,
  status_ok (statuses (snd (crun b cinit l))) = true.
Proof. intros b l. destruct (crun b cinit l) as [s t] eqn:E. exact (ctl_one_terminal b l s t E). Qed.
Print Assumptions C17_one_terminal_ctl.

Theorem C17_at_most_one_terminal_basic : forall b hook l,
  (count_terminal (statuses (snd (brun b hook binit l))) <= 1)%nat.
Proof.
  intros b hook l. destruct (brun b hook binit l) as [s t] eqn:E.
  exact (proj1 (basic_at_most_one_terminal b hook l s t E)).
Qed.
Print Assumptions C17_at_most_one_terminal_basic.

(* "nothing after it" is false for basic and hook tasks: KILL before the RUNNING timer *)
Definition C17_one_terminal_basic_statement : Prop := forall b hook l,
  status_ok (statuses (snd (brun b hook binit l))) = true.

Theorem C17_one_terminal_basic_refuted : ~ C17_one_terminal_basic_statement.
Proof.
  intro H. specialize (H nbeh false [ALaunch; AKill; ATimer]).
  rewrite basic_status_after_terminal in H. discriminate H.
Qed.
Print Assumptions C17_one_terminal_basic_refuted.

Theorem C17_one_terminal_basic_partial : forall b hook l,
  (forall l1 l2, l = l1 ++ AKill :: l2 -> b_timer (fst (brun b hook binit l1)) = false) ->
  status_ok (statuses (snd (brun b hook binit l))) = true.
Proof. exact basic_one_terminal_partial. Qed.
Print Assumptions C17_one_terminal_basic_partial.

(* the reaper of a basic / hook task reports the device event only: without KILL no terminal status *)
Theorem C17_terminal_only_on_kill_basic : forall b hook l,
  has_akill l = false -> existsb terminal (statuses (snd (brun b hook binit l))) = false.
Proof. intros b hook l. exact (basic_terminal_only_on_kill b hook l binit). Qed.
Print Assumptions C17_terminal_only_on_kill_basic.

(* ===== clause 2: killed on request => KILLED or FINISHED, not FAILED ===== *)

Theorem C17_killed_not_failed_ctl : forall b l1 l2 s1 t1 s2 o s3 t3,
  crun b cinit l1 = (s1, t1) -> c_crashed s1 = false ->
  cstep b s1 AKill = (s2, o) -> has_crash o = false -> count_disc o = 0 ->
  crun b s2 l2 = (s3, t3) ->
  forallb is_fk (statuses (o ++ t3)) = true.
Proof. exact ctl_killed_not_failed. Qed.
Print Assumptions C17_killed_not_failed_ctl.

Theorem C17_never_failed_basic : forall b hook l,
  forallb is_rf (statuses (snd (brun b hook binit l))) = true.
Proof.
  intros b hook l. destruct (brun b hook binit l) as [s t] eqn:E.
  exact (proj2 (basic_at_most_one_terminal b hook l s t E)).
Qed.
Print Assumptions C17_never_failed_basic.

(* ===== clause 3: STOP of a basic task / KILL of any task terminates the whole group, bounded ===== *)

(* controllable: an accepted KILL of a task that is up starts the escalation ... *)
Theorem C17_kill_starts_escalation : forall b l s t s' o,
  crun b cinit l = (s, t) -> c_crashed s = false -> c_phase s = CWait ->
  cstep b s AKill = (s', o) -> has_crash o = false -> count_disc o = 0 ->
  esc_ok s' /\ waited o = 0 /\
  (sigs o = [] /\ c_kpc s' = KDone \/ sigs o = [TERM] /\ c_kpc s' = KInt \/
   sigs o = [] /\ c_kpc s' = KFin).
Proof.
  intros b l s t s' o HR. exact (ckill_starts_escalation b s t s' o (cinv_reach b l s t HR)).
Qed.
Print Assumptions C17_kill_starts_escalation.

(* ... which is over after three wake-ups, DONE+SIGTERM+SIGINT timeouts of sleeping at most, with
   the device process dead and the signals sent in the order TERM, INT, KILL *)
Theorem C17_escalation_bounded : forall b l s s' t,
  esc_ok s -> no_kill l = true -> (3 <= count_killsteps l)%nat ->
  crun b s l = (s', t) ->
  c_crashed s' = false /\ c_kpc s' = KFin /\ is_run (c_proc s') = false /\
  waited t <= et_done_ms + et_sigterm_ms + et_sigint_ms /\
  exists n, sigs t = firstn n (sigs_from (c_kpc s)).
Proof. exact ctl_escalation_bounded. Qed.
Print Assumptions C17_escalation_bounded.

(* the whole group: false — the escalation signals the pid the device reported, not the group *)
Definition C17_ctl_no_survivor_statement : Prop := forall b l,
  c_kpc (fst (crun b cinit l)) = KFin -> c_gc (fst (crun b cinit l)) = false.

Theorem C17_ctl_no_survivor_refuted : ~ C17_ctl_no_survivor_statement.
Proof.
  intro H.
  specialize (H fbeh [ALaunch; ADialOk; APollReady; AKill; AKillStep; AKillStep; AKillStep] eq_refl).
  vm_compute in H. discriminate H.
Qed.
Print Assumptions C17_ctl_no_survivor_refuted.

Theorem C17_ctl_no_survivor_partial : forall b l,
  bh_fork b = false -> c_gc (fst (crun b cinit l)) = false.
Proof. intros b l Hf. exact (ctl_gc_false b l cinit Hf eq_refl). Qed.
Print Assumptions C17_ctl_no_survivor_partial.

(* basic: STOP kills the group at once when the child has not been reaped yet (the repaired
   nil-ProcessState case) ... *)
Theorem C17_stop_kills_group_basic : forall b s i c s' o,
  b_crashed s = false -> b_active s = true -> b_pending s = None ->
  b_cmd s = Some i -> nth_error (b_children s) i = Some c ->
  (ch_st c = PRun \/ exists d, ch_st c = PZombie d) ->
  bstep b false s (AReq RStop) = (s', o) ->
  o = [OSig ToGroup KILL9; OResp RStop true] /\ b_crashed s' = false /\
  b_pending s' = Some KILLED /\ b_blocked s' = b_blocked s /\
  exists c', nth_error (b_children s') i = Some c' /\ child_live c' = false.
Proof. exact basic_stop_kills_group. Qed.
Print Assumptions C17_stop_kills_group_basic.

(* ... but not when the main process had left and was reaped: what it forked lives on *)
Definition C17_stop_no_survivor_basic_statement : Prop := forall b l,
  let '(s, t) := brun b false binit (l ++ [AReq RStop]) in
  b_active s = true -> b_blocked s = O -> existsb child_live (b_children s) = false.

Theorem C17_stop_no_survivor_basic_refuted : ~ C17_stop_no_survivor_basic_statement.
Proof.
  intro H. specialize (H fkbeh [ALaunch; ATimer; AReq RStart; AExit 0; AReap 0]).
  vm_compute in H. specialize (H eq_refl eq_refl). discriminate H.
Qed.
Print Assumptions C17_stop_no_survivor_basic_refuted.

(* KILL of a basic or hook task signals nothing at all *)
Definition C17_kill_no_survivor_basic_statement : Prop := forall b hook l,
  existsb child_live (b_children (fst (brun b hook binit (l ++ [AKill])))) = false.

Theorem C17_kill_no_survivor_basic_refuted : ~ C17_kill_no_survivor_basic_statement.
Proof.
  intro H. specialize (H nbeh false [ALaunch; ATimer; AReq RStart]).
  vm_compute in H. discriminate H.
Qed.
Print Assumptions C17_kill_no_survivor_basic_refuted.

Theorem C17_kill_signals_nothing_basic : forall b hook s s' o,
  bstep b hook s AKill = (s', o) -> b_children s' = b_children s /\ sigs o = [].
Proof. exact basic_kill_leaves_children. Qed.
Print Assumptions C17_kill_signals_nothing_basic.

(* ===== clause 4: no request makes the executor crash or hang ===== *)

Definition C17_no_crash_ctl_statement : Prop := forall b l,
  has_crash (snd (crun b cinit l)) = false.

Theorem C17_no_crash_ctl_refuted : ~ C17_no_crash_ctl_statement.
Proof.
  intro H. specialize (H nbeh [ALaunch; AKill]).
  rewrite ctl_crash_kill_before_dial in H. discriminate H.
Qed.
Print Assumptions C17_no_crash_ctl_refuted.

(* the two other ways: Kill closes the client under the start-up poll; a second KILL during the first *)
Theorem C17_crash_ctl_other_witnesses :
  has_crash (snd (crun nbeh cinit [ALaunch; ADialOk; APollTick; AKill; APollTick])) = true /\
  has_crash (snd (crun nbeh cinit [ALaunch; ADialOk; APollReady; AKill; AKill])) = true.
Proof. exact (conj ctl_crash_kill_during_poll ctl_crash_second_kill). Qed.
Print Assumptions C17_crash_ctl_other_witnesses.

Theorem C17_no_crash_ctl_partial : forall b l,
  (forall l1 l2, l = l1 ++ AKill :: l2 -> kill_safe (fst (crun b cinit l1))) ->
  has_crash (snd (crun b cinit l)) = false /\ c_crashed (fst (crun b cinit l)) = false.
Proof. exact ctl_no_crash_partial. Qed.
Print Assumptions C17_no_crash_ctl_partial.

Definition C17_no_crash_or_hang_basic_statement : Prop := forall b l,
  has_crash (snd (brun b false binit l)) = false /\ b_blocked (fst (brun b false binit l)) = O.

Theorem C17_no_crash_or_hang_basic_refuted :
  ~ C17_no_crash_or_hang_basic_statement /\
  (* the hang: the STOP of the run after a child died by a signal is not answered while the new child lives *)
  (let '(s, t) := brun sbeh false binit stuck_sched in
   b_blocked s = 1%nat /\ b_crashed s = false /\
   nth_error (b_children s) 1 = Some (mkChild PRun false) /\ late_resps t = [true; false; true]) /\
  (* the crash: KILL, then the reaper lets the blocked handler through *)
  has_crash (snd (brun sbeh false binit (stuck_sched ++ [AKill; AExit 1; AReap 1]))) = true.
Proof.
  split; [|exact (conj basic_stop_hangs basic_crash_after_blocked_stop)].
  intro H. destruct (H sbeh stuck_sched) as [_ H2]. vm_compute in H2. discriminate H2.
Qed.
Print Assumptions C17_no_crash_or_hang_basic_refuted.

Theorem C17_no_crash_basic_partial : forall b hook l,
  (forall l1 l2, l = l1 ++ l2 -> b_blocked (fst (brun b hook binit l1)) = O) ->
  has_crash (snd (brun b hook binit l)) = false /\ b_crashed (fst (brun b hook binit l)) = false.
Proof. exact basic_no_crash_partial. Qed.
Print Assumptions C17_no_crash_basic_partial.

Theorem C17_no_crash_or_hang_hook : forall b l,
  b_blocked (fst (brun b true binit l)) = O /\ has_crash (snd (brun b true binit l)) = false.
Proof. intros b l. exact (hook_never_blocks b l binit eq_refl eq_refl). Qed.
Print Assumptions C17_no_crash_or_hang_hook.

(* non-vacuity: the hypotheses of the conditional theorems are met by concrete runs *)
Example C17_nonvacuous :
  (* a controllable task that ignores TERM and INT: up, KILL, full escalation, reaped *)
  (let b := mkBeh (DExit 0) true false false None false in
   let '(s1, t1) := crun b cinit [ALaunch; ADialOk; APollReady] in
   let '(s2, o) := cstep b s1 AKill in
   let '(s3, t3) := crun b s2 [AKillStep; AKillStep; AKillStep; AReap 0] in
   c_crashed s1 = false /\ c_phase s1 = CWait /\ has_crash o = false /\ count_disc o = 0 /\
   esc_ok s2 /\ statuses (t1 ++ o ++ t3) = [RUNNING; KILLED] /\ sigs (o ++ t3) = [TERM; INT; KILL9] /\
   waited t3 = et_sigterm_ms + et_sigint_ms) /\
  (* a basic task: the state in which STOP finds the child running *)
  (let '(s, t) := brun nbeh false binit [ALaunch; ATimer; AReq RStart] in
   b_crashed s = false /\ b_active s = true /\ b_pending s = None /\ b_cmd s = Some 0%nat /\
   nth_error (b_children s) 0 = Some (mkChild PRun false) /\ b_timer s = false /\ b_blocked s = O) /\
  (* its normal life *)
  statuses (snd (brun nbeh false binit
     [ALaunch; ATimer; AReq RConf; AReq RStart; AReq RStop; AReap 0; AReq RReset; AKill])) = [RUNNING; FINISHED].
Proof.
  vm_compute. repeat split; try reflexivity; try (left; reflexivity); try discriminate.
  left. discriminate.
Qed.
