(* C17 — every launched task ends with exactly one terminal status and no survivors.
   Property theorems only; each closed by [exact] of a lemma from proofs/ExecTask_proofs.v.

   [crun b cinit l] / [brun b hook binit l] run a controllable resp. basic / hook task from launch
   along the schedule [l] (any interleaving of requests, timers, the child's death, the reaper, the
   wake-ups of the Kill goroutine) with child behaviour [b]; the second component is everything the
   executor told the agent or did to the child.  All theorems quantify over every behaviour and
   every schedule unless they name a witness. *)
From Verif Require Import Common Gen_ExecTask ExecTask ExecTask_proofs.
Open Scope N_scope.

(* ===== clause 1: at most one terminal status and nothing after it ===== *)

Theorem C17_one_terminal_ctl : forall b l,
  status_ok (statuses (snd (crun b cinit l))) = true.
Proof. intros b l. destruct (crun b cinit l) as [s t] eqn:E. exact (ctl_one_terminal b l s t E). Qed.
Print Assumptions C17_one_terminal_ctl.

(* basic and hook tasks: full statement since KILL stops the RUNNING timer (repair of C17-c) *)
Theorem C17_one_terminal_basic : forall b hook l,
  status_ok (statuses (snd (brun b hook binit l))) = true.
Proof.
  intros b hook l. destruct (brun b hook binit l) as [s t] eqn:E.
  exact (proj1 (basic_one_terminal b hook l s t E)).
Qed.
Print Assumptions C17_one_terminal_basic.

(* the reaper of a basic / hook task reports the device event only: without KILL no terminal status *)
Theorem C17_terminal_only_on_kill_basic : forall b hook l,
  has_akill l = false -> existsb terminal (statuses (snd (brun b hook binit l))) = false.
Proof. intros b hook l. exact (basic_terminal_only_on_kill b hook l binit). Qed.
Print Assumptions C17_terminal_only_on_kill_basic.

(* ===== clause 2: killed on request => KILLED or FINISHED, not FAILED ===== *)

Theorem C17_killed_not_failed_ctl : forall b l1 l2 s1 t1 s2 o s3 t3,
  crun b cinit l1 = (s1, t1) -> c_crashed s1 = false -> c_rpc s1 = true ->
  cstep b s1 AKill = (s2, o) -> has_crash o = false -> count_disc o = 0 ->
  crun b s2 l2 = (s3, t3) ->
  forallb is_fk (statuses (o ++ t3)) = true.
Proof. exact ctl_killed_not_failed. Qed.
Print Assumptions C17_killed_not_failed_ctl.

Theorem C17_never_failed_basic : forall b hook l,
  forallb is_rf (statuses (snd (brun b hook binit l))) = true.
Proof.
  intros b hook l. destruct (brun b hook binit l) as [s t] eqn:E.
  exact (proj2 (basic_one_terminal b hook l s t E)).
Qed.
Print Assumptions C17_never_failed_basic.

(* ===== clause 3: STOP of a basic task / KILL of any task terminates the whole group, bounded ===== *)

(* controllable: an accepted KILL of a task that is up starts the escalation ... *)
Theorem C17_kill_starts_escalation : forall b l s t s' o,
  crun b cinit l = (s, t) -> c_crashed s = false -> c_phase s = CWait -> c_rpc s = true ->
  cstep b s AKill = (s', o) -> has_crash o = false -> count_disc o = 0 ->
  esc_ok s' /\ waited o = 0 /\
  (sigs o = [] /\ c_kpc s' = KDone \/ sigs o = [TERM] /\ c_kpc s' = KInt \/
   sigs o = [] /\ c_kpc s' = KFin).
Proof.
  intros b l s t s' o HR. exact (ckill_starts_escalation b s t s' o (cinv_reach b l s t HR)).
Qed.
Print Assumptions C17_kill_starts_escalation.

(* ... which is over after three wake-ups, DONE+SIGTERM+SIGINT timeouts of sleeping at most, with
   the device process dead and the signals sent in the order TERM, INT, KILL *)
Theorem C17_escalation_bounded : forall b l s s' t,
  esc_ok s -> no_kill l = true -> (3 <= count_killsteps l)%nat ->
  crun b s l = (s', t) ->
  c_crashed s' = false /\ c_kpc s' = KFin /\ is_run (c_proc s') = false /\
  waited t <= et_done_ms + et_sigterm_ms + et_sigint_ms /\
  exists n, sigs t = firstn n (sigs_from (c_kpc s)).
Proof. exact ctl_escalation_bounded. Qed.
Print Assumptions C17_escalation_bounded.

(* the whole group: when Kill returns it has swept the process group (repair of C17-g), so once
   the escalation is over nothing the device forked is left — every behaviour, every schedule *)
Theorem C17_ctl_no_survivor : forall b l,
  c_kpc (fst (crun b cinit l)) = KFin -> c_gc (fst (crun b cinit l)) = false.
Proof. intros b l. exact (proj1 (ctl_no_survivor b l cinit gc_inv_init)). Qed.
Print Assumptions C17_ctl_no_survivor.

(* basic: STOP sends SIGKILL to the group of the current command whatever the state of the child
   (running; exited, not reaped; reaped after an exit or after a signal — repairs of C17-a/d/h),
   answers, does not block ... *)
Theorem C17_stop_kills_group_basic : forall b s i c s' o,
  b_crashed s = false -> b_active s = true ->
  b_cmd s = Some i -> nth_error (b_children s) i = Some c ->
  bstep b false s (AReq RStop) = (s', o) ->
  o = [OSig ToGroup KILL9; OResp RStop true] /\ b_crashed s' = false /\ b_blocked s' = b_blocked s /\
  exists c', nth_error (b_children s') i = Some c' /\ child_live c' = false.
Proof. exact basic_stop_kills_group. Qed.
Print Assumptions C17_stop_kills_group_basic.

(* ... and so does KILL of a basic task (repair of C17-b), which also stops the timer *)
Theorem C17_kill_kills_group_basic : forall b s i c s' o,
  b_crashed s = false -> b_active s = true ->
  b_cmd s = Some i -> nth_error (b_children s) i = Some c ->
  bstep b false s AKill = (s', o) ->
  o = [OSig ToGroup KILL9; OStatus FINISHED] /\ b_crashed s' = false /\
  b_active s' = false /\ b_timer s' = false /\
  exists c', nth_error (b_children s') i = Some c' /\ child_live c' = false.
Proof. exact basic_kill_kills_group. Qed.
Print Assumptions C17_kill_kills_group_basic.

(* a basic task never has two commands at once (repair of C17-l): START is refused while the
   previous command has not been waited for ... *)
Theorem C17_start_refused_while_running : forall b s s' o,
  b_crashed s = false -> b_active s = true -> cmd_unreaped s = true ->
  bstep b false s (AReq RStart) = (s', o) -> s' = s /\ o = [OResp RStart false].
Proof. exact basic_start_refused. Qed.
Print Assumptions C17_start_refused_while_running.

(* ... so that, whatever the history (repeated STARTs and STOPs, children leaving, any schedule),
   every command but the last one has been waited for, and once the task has been killed none of
   the processes started for it is running *)
Theorem C17_killed_basic_leaves_nothing_running : forall b l,
  let s := fst (brun b false binit l) in
  abl (b_children s) = true /\
  (b_launched s = true -> b_active s = false -> forallb not_run (b_children s) = true).
Proof. exact basic_killed_leaves_nothing_running. Qed.
Print Assumptions C17_killed_basic_leaves_nothing_running.

(* hook tasks are left alone by KILL, by design of the executor (a hook may be triggered after
   KILL and is bounded by its own timeout): the clause fails for them (recorded, C17-b) *)
Definition C17_kill_no_survivor_hook_statement : Prop := forall b l,
  existsb child_live (b_children (fst (brun b true binit (l ++ [AKill])))) = false.

Theorem C17_kill_no_survivor_hook_refuted : ~ C17_kill_no_survivor_hook_statement.
Proof.
  intro H. specialize (H nbeh [ALaunch; ATimer; AReq RTrigger]).
  vm_compute in H. discriminate H.
Qed.
Print Assumptions C17_kill_no_survivor_hook_refuted.

Theorem C17_kill_signals_nothing_hook : forall b s s' o,
  bstep b true s AKill = (s', o) -> b_children s' = b_children s /\ sigs o = [].
Proof. exact hook_kill_leaves_children. Qed.
Print Assumptions C17_kill_signals_nothing_hook.

(* ===== clause 4: no request makes the executor crash or hang ===== *)

(* basic and hook tasks: full statement (repairs of C17-a/d/i): no crash, no handler left blocked *)
Theorem C17_no_crash_or_hang_basic : forall b hook l,
  has_crash (snd (brun b hook binit l)) = false /\ b_crashed (fst (brun b hook binit l)) = false /\
  b_blocked (fst (brun b hook binit l)) = O.
Proof. intros b hook l. exact (basic_no_crash_no_hang b hook l binit eq_refl eq_refl). Qed.
Print Assumptions C17_no_crash_or_hang_basic.

(* controllable: a KILL that finds no client (second KILL during the first, repair of C17-f; KILL
   before the dial returned) is refused without touching anything *)
Theorem C17_kill_without_client_harmless : forall b s s' o,
  c_crashed s = false -> c_rpc s = false -> cstep b s AKill = (s', o) ->
  has_crash o = false /\ sigs o = [] /\ statuses o = [] /\ c_crashed s' = false /\
  c_kpc s' = c_kpc s /\ c_pending s' = c_pending s /\ c_proc s' = c_proc s /\ c_gc s' = c_gc s /\
  c_phase s' = c_phase s /\ c_active s' = false.
Proof. exact ctl_second_kill_harmless. Qed.
Print Assumptions C17_kill_without_client_harmless.

(* full statement (repairs of C17-e/f): no step of a controllable task's life crashes the executor *)
Theorem C17_no_crash_ctl : forall b l,
  has_crash (snd (crun b cinit l)) = false /\ c_crashed (fst (crun b cinit l)) = false.
Proof. intros b l. exact (ctl_no_crash b l cinit eq_refl). Qed.
Print Assumptions C17_no_crash_ctl.

(* a device in a wrong state at start-up: TASK_FAILED, device and everything it forked gone (C17-k) *)
Theorem C17_wrong_start_leaves_nothing : forall b s s' o,
  cstep b s APollBad = (s', o) -> statuses o = [FAILED] ->
  c_gc s' = false /\ is_run (c_proc s') = false /\ c_phase s' = CEnd /\ sigs o = [KILL9; KILL9].
Proof. exact ctl_wrong_start_leaves_nothing. Qed.
Print Assumptions C17_wrong_start_leaves_nothing.

(* TASK_FAILED at start-up leaves no process of the group: at once after a wrong start state or the
   start-up timeout (C17-k, C17-m) ... *)
Theorem C17_failed_startup_leaves_nothing : forall b s a s' o,
  a = APollBad \/ a = APollTimeout ->
  cstep b s a = (s', o) -> statuses o = [FAILED] ->
  c_gc s' = false /\ is_run (c_proc s') = false /\ c_phase s' = CEnd /\ c_active s' = false.
Proof. exact ctl_failed_startup_leaves_nothing. Qed.
Print Assumptions C17_failed_startup_leaves_nothing.

(* ... and after a failed dial through the TERM/INT/KILL escalation to the whole group, which
   C17_escalation_bounded bounds and C17_ctl_no_survivor completes *)
Theorem C17_failed_dial_escalates : forall b s s' o,
  cstep b s ADialTimeout = (s', o) -> statuses o = [FAILED] ->
  esc_ok s' /\ c_tgt s' = ToGroup /\ sigs o = [TERM] /\ c_active s' = false.
Proof. exact ctl_failed_dial_escalates. Qed.
Print Assumptions C17_failed_dial_escalates.

(* the soft-teardown loop of Kill (STOP, RESET, EXIT until DONE) ends after at most three requests
   whatever the device answers — refusals, transport errors, time-outs, and answers that
   acknowledge a request without the device having moved: doTransition counts an answer as success
   only if the reported state is the destination (read from the source), so every accepted step is
   a step towards DONE *)
Theorem C17_teardown_walk_terminates : forall st replies fuel,
  (3 <= fuel)%nat -> snd (teardown_walk fuel st replies 0) = true.
Proof. intros st replies fuel H. apply teardown_walk_fin. destruct st; cbn; lia. Qed.
Print Assumptions C17_teardown_walk_terminates.

Theorem C17_teardown_step_is_progress : forall dst r st',
  accept_reply dst r = Some st' -> st' = dst.
Proof. exact accept_reply_dst. Qed.
Print Assumptions C17_teardown_step_is_progress.

(* what remains (recorded, C17-j): a KILL before the dial returned is refused — the task goes on starting *)
Theorem C17_kill_before_dial_refused :
  let '(s, t) := crun nbeh cinit [ALaunch; AKill] in
  t = [] /\ c_crashed s = false /\ c_active s = false /\ is_run (c_proc s) = true.
Proof. exact ctl_kill_before_dial_refused. Qed.
Print Assumptions C17_kill_before_dial_refused.

(* non-vacuity: the hypotheses of the conditional theorems are met by concrete runs *)
Example C17_nonvacuous :
  (* a controllable task that ignores TERM and INT: up, KILL, full escalation, reaped *)
  (let b := mkBeh (DExit 0) true false false None false true in
   let '(s1, t1) := crun b cinit [ALaunch; ADialOk; APollReady] in
   let '(s2, o) := cstep b s1 AKill in
   let '(s3, t3) := crun b s2 [AKillStep; AKillStep; AKillStep; AReap 0] in
   c_crashed s1 = false /\ c_phase s1 = CWait /\ c_rpc s1 = true /\ has_crash o = false /\ count_disc o = 0 /\
   esc_ok s2 /\ statuses (t1 ++ o ++ t3) = [RUNNING; KILLED] /\ sigs (o ++ t3) = [TERM; INT; KILL9] /\
   waited t3 = et_sigterm_ms + et_sigint_ms) /\
  (* a basic task: the state in which STOP finds the child running *)
  (let '(s, t) := brun nbeh false binit [ALaunch; ATimer; AReq RStart] in
   b_crashed s = false /\ b_active s = true /\ b_pending s = None /\ b_cmd s = Some 0%nat /\
   nth_error (b_children s) 0 = Some (mkChild PRun false) /\ b_timer s = false /\ b_blocked s = O) /\
  (* the old witnesses of C17-c, C17-d/i, C17-b, C17-h, C17-g now behave *)
  statuses (snd (brun nbeh false binit [ALaunch; AKill; ATimer])) = [FINISHED] /\
  (let '(s, t) := brun sbeh false binit (stuck_sched ++ [AKill; AExit 1; AReap 1]) in
   has_crash t = false /\ b_blocked s = O /\ late_resps t = [true; true; true; true]) /\
  existsb child_live (b_children (fst (brun fkbeh false binit [ALaunch; ATimer; AReq RStart; AKill]))) = false /\
  existsb child_live (b_children (fst (brun fkbeh false binit
     [ALaunch; ATimer; AReq RStart; AExit 0; AReap 0; AReq RStop]))) = false /\
  c_gc (fst (crun fbeh cinit [ALaunch; ADialOk; APollReady; AKill; AKillStep; AKillStep; AKillStep])) = false /\
  existsb child_live (b_children (fst (brun nbeh false binit
     [ALaunch; ATimer; AReq RStart; AReq RStart; AReq RStop; AKill]))) = false /\
  (let '(s, t) := crun nbeh cinit [ALaunch; ADialOk; APollTick; AKill; APollTick; AReap 0; AKillStep] in
   statuses t = [KILLED] /\ c_kpc s = KFin) /\
  (* its normal life *)
  statuses (snd (brun nbeh false binit
     [ALaunch; ATimer; AReq RConf; AReq RStart; AReq RStop; AReap 0; AReq RReset; AKill])) = [RUNNING; FINISHED].
Proof.
  vm_compute. repeat split; try reflexivity; try (left; reflexivity); try discriminate.
  left. discriminate.
Qed.
