(* C14 — variables resolve by documented precedence at every role.
   Property theorems only; each closed by [exact] of a lemma from proofs/VarStack_proofs.v.
   Conventions: a path is the list of levels seen from a role, the role itself first and the
   environment-wide maps last; [sources p] lists the maps of a path in ranking order
   (user vars nearest..outermost, then vars, then defaults); [assoc k m] is the lookup in a map,
   [Some []] being a definition by the empty string. *)
From Verif Require Import Common VarStack VarStack_proofs.
Open Scope N_scope.

(* ---- the consolidated stack of a role (rolebase.ConsolidatedVarStack) ---- *)

(* The value a role sees is the value of the first source, in ranking order, that defines the
   key: a characterisation, so it also says which sources must not win.  Every depth, every
   distribution of the key. *)
Theorem C14_precedence : forall p k v,
  assoc k (consolidated p) = Some v <->
  exists pre m post, sources p = pre ++ m :: post /\ assoc k m = Some v /\
                     forall x, In x pre -> assoc k x = None.
Proof. exact precedence. Qed.
Print Assumptions C14_precedence.

Theorem C14_undefined_iff_no_source : forall p k,
  assoc k (consolidated p) = None <-> forall m, In m (sources p) -> assoc k m = None.
Proof. exact undefined_iff. Qed.
Print Assumptions C14_undefined_iff_no_source.

(* the ranking itself: user over vars over defaults, within a kind nearest first, the
   environment-wide maps as the outermost ancestor of each kind *)
Theorem C14_ranking_environment_outermost : forall roles env,
  sources (roles ++ [env]) =
  map l_user roles ++ [l_user env] ++ map l_vars roles ++ [l_vars env] ++
  map l_defaults roles ++ [l_defaults env].
Proof. exact sources_ranking. Qed.
Print Assumptions C14_ranking_environment_outermost.

(* an empty value is a definition: it wins over every lower-ranking source *)
Theorem C14_empty_defines : forall p k pre m post,
  sources p = pre ++ m :: post -> assoc k m = Some [] ->
  (forall x, In x pre -> assoc k x = None) ->
  assoc k (consolidated p) = Some [].
Proof. exact empty_defines. Qed.
Print Assumptions C14_empty_defines.

(* ---- one kind along the hierarchy (gera) ---- *)

Theorem C14_get_agrees : forall h k, gera_get k h = assoc k (flattened h).
Proof. exact get_agrees. Qed.
Print Assumptions C14_get_agrees.

Theorem C14_nearest_wins : forall h k v,
  assoc k (flattened h) = Some v <->
  exists pre m post, h = pre ++ m :: post /\ assoc k m = Some v /\
                     forall x, In x pre -> assoc k x = None.
Proof. exact nearest_wins. Qed.
Print Assumptions C14_nearest_wins.

Theorem C14_wrapped_and_flattened : forall k own m,
  assoc k (wrapped_and_flattened own m) = first_hit k (own :: m).
Proof. exact assoc_waf. Qed.
Print Assumptions C14_wrapped_and_flattened.

(* FlattenStack(defaults, vars, userVars) — the view the iterator expansion uses — agrees with
   the consolidated stack *)
Theorem C14_flatten_stack_agrees : forall d v u k,
  assoc k (flatten_stack [d; v; u]) = assoc k (consolidated_of d v u).
Proof. exact flatten_stack_agrees. Qed.
Print Assumptions C14_flatten_stack_agrees.

(* ---- every role of every loaded tree, after any runtime-variable updates ---- *)
(* [w_own w] are the maps the role shows as its own, [w_hid w] the levels hidden right above
   them (none but for a loaded include role: its own defaults / vars, which sit between the
   sub-workflow root's maps and the parent's), [above] the role's ancestors, nearest first *)
Theorem C14_every_role : forall env t ops vs w,
  run_tree env t ops = Some vs -> In w vs ->
  exists above, let roles := w_own w :: w_hid w ++ above in
    (forall k, assoc k (w_stack w) = first_hit k (sources (roles ++ [env]))) /\
    (forall k, assoc k (l_defaults (w_maps w)) = first_hit k (chain l_defaults (roles ++ [env]))) /\
    (forall k, assoc k (l_vars (w_maps w)) = first_hit k (chain l_vars (roles ++ [env]))) /\
    (forall k, assoc k (l_user (w_maps w)) = first_hit k (chain l_user (roles ++ [env]))).
Proof. exact every_role. Qed.
Print Assumptions C14_every_role.

(* ---- include roles (includerole.go) ---- *)

(* an include role is a level of the path of its own: its defaults / vars are resolved like any
   role's ([lvi]; iterator locals go into its vars), the root of the sub-workflow it names is
   resolved under it ([lvs]), and EVERY role of the included subtree - the include role itself
   (roles = []), its children, their descendants at any depth - has the sub-workflow root's
   level and then the include role's own level right above the include role's ancestors *)
Theorem C14_include_levels : forall anc locals nm d v sd sv ch ts,
  load anc locals (RIncl nm d v sd sv ch) = Some ts ->
  exists n lvi sn lvs,
    resolve_level anc locals nm (decode d) (decode v) = Some (n, lvi) /\
    resolve_level (lvi :: anc) [] None (decode sd) (decode sv) = Some (sn, lvs) /\
    forall a n' hid p, In (a, n', hid, p) (forest_nodes anc ts) ->
      exists roles, p = roles ++ lvs :: lvi :: anc.
Proof. exact include_levels. Qed.
Print Assumptions C14_include_levels.

(* so, by the precedence theorem over such paths, the include role's own definitions are the
   nearest ancestor's for the included subtree: a var of the include role (the iterator local
   that generated it, for one) wins over every var and default of the include role's ancestors
   and of the environment ... *)
Theorem C14_include_var_reaches_subtree : forall roles lvs lvi anc k x,
  first_hit k (chain l_user (roles ++ lvs :: lvi :: anc)) = None ->
  first_hit k (chain l_vars (roles ++ [lvs])) = None ->
  assoc k (l_vars lvi) = Some x ->
  assoc k (consolidated (roles ++ lvs :: lvi :: anc)) = Some x.
Proof. exact include_var_reaches_subtree. Qed.
Print Assumptions C14_include_var_reaches_subtree.

(* ... and a default of the include role over every default above it *)
Theorem C14_include_default_reaches_subtree : forall roles lvs lvi anc k x,
  first_hit k (chain l_user (roles ++ lvs :: lvi :: anc)) = None ->
  first_hit k (chain l_vars (roles ++ lvs :: lvi :: anc)) = None ->
  first_hit k (chain l_defaults (roles ++ [lvs])) = None ->
  assoc k (l_defaults lvi) = Some x ->
  assoc k (consolidated (roles ++ lvs :: lvi :: anc)) = Some x.
Proof. exact include_default_reaches_subtree. Qed.
Print Assumptions C14_include_default_reaches_subtree.

(* ---- template stages (fields.go) ---- *)

(* the table measured on the running code is the documented one: own defaults from stage 2,
   own vars from stage 3, own user vars from stage 4, ancestors and locals always *)
Theorem C14_stage_table :
  stage_count = 6 /\
  stage_rows =
  [ (0, [false; false; false; true; true; true; true]);
    (1, [false; false; false; true; true; true; true]);
    (2, [true;  false; false; true; true; true; true]);
    (3, [true;  true;  false; true; true; true; true]);
    (4, [true;  true;  true;  true; true; true; true]);
    (5, [true;  true;  true;  true; true; true; true]) ].
Proof. exact (conj stage_count_is stage_table_documented). Qed.
Print Assumptions C14_stage_table.

(* the same ranking decides what a stage sees: locals, then user / vars / defaults, the own map
   of a kind taking part only from its stage on *)
Theorem C14_stage_visibility : forall s locals own anc k,
  s < stage_count ->
  assoc k (staged s locals (own :: anc)) = first_hit k (stage_sources s locals own anc).
Proof. exact stage_visibility. Qed.
Print Assumptions C14_stage_visibility.

Theorem C14_final_stage_is_consolidated : forall s own anc k,
  4 <= s < stage_count ->
  assoc k (staged s [] (own :: anc)) = assoc k (consolidated (own :: anc)).
Proof. exact final_stage_is_consolidated. Qed.
Print Assumptions C14_final_stage_is_consolidated.

(* template references between levels *)
Theorem C14_reference_in_defaults : forall anc locals nm d v n lv k r,
  resolve_level anc locals nm d v = Some (n, lv) ->
  assoc k d = Some (VRef r) ->
  assoc k (l_defaults lv) =
  first_hit r ([locals] ++ chain l_user anc ++ chain l_vars anc ++ chain l_defaults anc).
Proof. exact reference_in_defaults. Qed.
Print Assumptions C14_reference_in_defaults.

Theorem C14_reference_in_vars : forall anc locals nm d v n lv k r,
  resolve_level anc locals nm d v = Some (n, lv) ->
  assoc k v = Some (VRef r) -> assoc k locals = None ->
  assoc k (l_vars lv) =
  first_hit r ([locals] ++ chain l_user anc ++ chain l_vars anc ++
               [l_defaults lv] ++ chain l_defaults anc).
Proof. exact reference_in_vars. Qed.
Print Assumptions C14_reference_in_vars.

(* iterator locals end up as vars of the generated role *)
Theorem C14_iterator_local : forall anc locals nm d v n lv k x,
  resolve_level anc locals nm d v = Some (n, lv) ->
  assoc k locals = Some x -> assoc k (l_vars lv) = Some x.
Proof. exact iterator_local. Qed.
Print Assumptions C14_iterator_local.

(* ---- defaults: / vars: as written (rolebase.go kvStoreUnmarshalYAMLWithTags) ---- *)

(* every syntax in which a definition can be written is a definition: a plain scalar, the
   annotated form !public {value: ...} - the EMPTY text included in both - and the annotated form
   without a value (the empty string, as coded); nothing else is *)
Theorem C14_written_forms : forall v,
  entry_def (WPlain v) = Some v /\ entry_def (WPublic (Some v)) = Some v /\
  entry_def (WPublic None) = Some (VLit []) /\ entry_def WOther = None.
Proof. intro v. repeat split. Qed.
Print Assumptions C14_written_forms.

Theorem C14_written_definition : forall (w : wmap) k e v,
  assoc k w = Some e -> entry_def e = Some v -> assoc k (decode w) = Some v.
Proof. exact written_definition. Qed.
Print Assumptions C14_written_definition.

Theorem C14_unwritten_undefined : forall (w : wmap) k,
  assoc k w = None -> assoc k (decode w) = None.
Proof. exact unwritten_undefined. Qed.
Print Assumptions C14_unwritten_undefined.

(* a literal written in a role's block in any defining form - the empty text included - is the
   role's own default (var), hence by C14_empty_defines / C14_precedence what every lower-ranking
   source loses against *)
Theorem C14_written_literal_in_defaults : forall anc locals nm d v n lv k e s,
  resolve_level anc locals nm (decode d) (decode v) = Some (n, lv) ->
  assoc k d = Some e -> entry_def e = Some (VLit s) -> assoc k (l_defaults lv) = Some s.
Proof. exact written_literal_in_defaults. Qed.
Print Assumptions C14_written_literal_in_defaults.

Theorem C14_written_literal_in_vars : forall anc locals nm d v n lv k e s,
  resolve_level anc locals nm (decode d) (decode v) = Some (n, lv) ->
  assoc k v = Some e -> entry_def e = Some (VLit s) -> assoc k locals = None ->
  assoc k (l_vars lv) = Some s.
Proof. exact written_literal_in_vars. Qed.
Print Assumptions C14_written_literal_in_vars.

(* ---- iterator ranges (iteratorrole.go expandTemplate, iteratorrange.go) ---- *)

(* every time an iterator is loaded - an iterator inside the template of another iterator is
   loaded once per role the outer one generates, under that role - its range is evaluated
   against the consolidated stack of the role it is loaded under, and exactly one copy of the
   template is loaded per value of that range, with the value as its local *)
Theorem C14_iterator_range : forall anc locals var rng tpl ts,
  load anc locals (RIter var rng tpl) = Some ts ->
  exists vals, eval_range (consolidated anc) rng = Some vals /\
               opt_concat_map (fun x => load anc [(var, x)] tpl) vals = Some ts.
Proof. exact iterator_range. Qed.
Print Assumptions C14_iterator_range.

(* a name in a range or bound resolves by the documented ranking seen from that role *)
Theorem C14_range_reference : forall anc k,
  eval_val (consolidated anc) (VRef k) = first_hit k (sources anc).
Proof. exact range_reference. Qed.
Print Assumptions C14_range_reference.

(* in particular, under a role generated for the value x of an outer iterator variable, a bound
   {{ var }} of an inner iterator is x - that role's value, not a sibling's - unless a user
   variable on the path defines the name *)
Theorem C14_nested_range_sees_own_outer_value : forall anc' locals nm d v n lv anc var x,
  resolve_level anc' locals nm d v = Some (n, lv) -> assoc var locals = Some x ->
  first_hit var (chain l_user (lv :: anc)) = None ->
  eval_val (consolidated (lv :: anc)) (VRef var) = Some x.
Proof. exact nested_range_sees_own_outer_value. Qed.
Print Assumptions C14_nested_range_sees_own_outer_value.

(* ---- the call a role runs (callable.Call.Call) ---- *)
Theorem C14_call_sees_role_stack : forall p sp k,
  assoc k (call_stack p sp) = first_hit k (sp :: sources p).
Proof. exact assoc_call_stack. Qed.
Print Assumptions C14_call_sees_role_stack.

(* ---- task level (task.go) ---- *)

(* whatever the workflow (or the special task values) defines outranks the task template's own
   defaults and vars, for the command line and for the property map *)
Theorem C14_task_workflow_over_class_command : forall wf sp cd cv st k x,
  cmd_stack wf sp cd cv = Some st -> first_hit k [sp; wf] = Some x -> assoc k st = Some x.
Proof. exact workflow_over_class_cmd. Qed.
Print Assumptions C14_task_workflow_over_class_command.

Theorem C14_task_workflow_over_class_properties : forall wf sp cd cv k x,
  first_hit k [sp; wf] = Some x -> assoc k (prop_stack wf sp cd cv) = Some x.
Proof. exact workflow_over_class_prop. Qed.
Print Assumptions C14_task_workflow_over_class_properties.

(* a value of the task template is visible only where the workflow is silent about the key *)
Theorem C14_task_class_lowest_command : forall wf sp cd cv d v st k,
  cmd_resolved wf sp cd cv = Some (d, v) -> cmd_stack wf sp cd cv = Some st ->
  first_hit k [sp; wf] = None -> assoc k st = first_hit k [v; d].
Proof. exact class_visible_iff_cmd. Qed.
Print Assumptions C14_task_class_lowest_command.

(* property map: special > workflow > class vars > class defaults, in full *)
Theorem C14_task_properties_precedence : forall wf sp cd cv k,
  assoc k (prop_stack wf sp cd cv) = first_hit k [sp; wf; raw_map cv; raw_map cd].
Proof. exact assoc_prop_stack. Qed.
Print Assumptions C14_task_properties_precedence.

(* command line: the same order in full — special > workflow > class vars > class defaults, for
   every key and every distribution of it (was refuted before fix C14-a: BuildTaskCommand wrapped
   the stack that already held the class defaults over the class vars) ... *)
Theorem C14_task_command_precedence : forall wf sp cd cv d v st k,
  cmd_resolved wf sp cd cv = Some (d, v) -> cmd_stack wf sp cd cv = Some st ->
  assoc k st = first_hit k [sp; wf; v; d].
Proof. exact cmd_stack_precedence. Qed.
Print Assumptions C14_task_command_precedence.

(* ... where d and v are the class defaults resolved against special > workflow and the class
   vars resolved against special > workflow > resolved class defaults *)
Theorem C14_task_command_class_resolution : forall wf sp cd cv d v,
  cmd_resolved wf sp cd cv = Some (d, v) ->
  eval_map (merge wf sp) cd = Some d /\
  eval_map (wrapped_and_flattened (merge wf sp) [d]) cv = Some v.
Proof. exact cmd_resolved_inv. Qed.
Print Assumptions C14_task_command_class_resolution.

(* ... in particular the case the repair was about: a key the workflow does not define and the
   class vars do gets the class var, whatever the class defaults say *)
Theorem C14_task_command_var_over_default : forall wf sp cd cv d v st k x,
  cmd_resolved wf sp cd cv = Some (d, v) -> cmd_stack wf sp cd cv = Some st ->
  first_hit k [sp; wf] = None -> assoc k v = Some x -> assoc k st = Some x.
Proof. exact class_var_over_class_default. Qed.
Print Assumptions C14_task_command_var_over_default.

(* non-vacuity: a three-level path (role, parent, environment) where key a is an empty user
   value at the environment, a non-empty var at the parent and a default at the role; key b
   only a default of the parent, hidden by an empty default of the role; a loadable role whose
   var references its own default; an iterated include role; a task whose class defines a key both
   ways (the var wins). *)
Example C14_nonvacuous :
  let a := [97] in let b := [98] in let c := [99] in
  let role := mkLevel [(a, [120]); (b, [])] [] [] in
  let parent := mkLevel [(b, [121])] [(a, [122])] [] in
  let env := mkLevel [(c, [49])] [] [(a, [])] in
  let p := [role; parent; env] in
  assoc a (consolidated p) = Some [] /\
  assoc b (consolidated p) = Some [] /\
  assoc c (consolidated p) = Some [49] /\
  assoc [100] (consolidated p) = None /\
  resolve_level [parent; env] [] (Some a) [(c, VRef b)] [(b, VRef c)] =
    Some ([110], mkLevel [(c, [121])] [(b, [121])] []) /\
  (exists vs, run_tree env (RRole None [(a, WPublic (Some (VLit [])))] []
                              [RIter [105] (IList [VLit [48]; VLit [49]]) (RRole (Some [105]) [] [(b, WPlain (VRef [105]))] [])])
                       [([0; 1], MSet a [122])] = Some vs /\ length vs = 3%nat) /\
  (* an iterated include role with a default of its own, under a root and an environment that
     define the same keys: the leaf of the sub-workflow sees the include role's values *)
  (exists vs, run_tree env (RRole None [([100], WPlain (VLit [121]))] [([105], WPublic (Some (VLit [122])))]
                              [RIter [105] (IList [VLit [48]]) (RIncl None [([100], WPublic (Some (VLit [120])))] [] [] []
                                                         [RRole None [] [(b, WPlain (VRef [100]))] []])])
                       [] = Some vs /\
              exists w, nth_error vs 2 = Some w /\ w_addr w = [0; 0; 0] /\
                        assoc [100] (w_stack w) = Some [120] /\ assoc b (w_stack w) = Some [120] /\
                        assoc [105] (w_stack w) = Some [48]) /\
  (* nested iterators, the inner bound being the outer variable: outer values 1 and 3 give 2 and
     4 inner roles, 1 root + 2 outer + 6 inner roles in all *)
  (exists vs, run_tree (mkLevel [] [] [])
                       (RRole None [] []
                          [RIter [105] (IList [VLit [49]; VLit [51]])
                             (RRole None [] []
                                [RIter [106] (IFor (VLit [48]) (VRef [105])) (RRole None [] [] [])])])
                       [] = Some vs /\ length vs = 9%nat) /\
  (exists st, cmd_stack (consolidated p) [] [(b, VLit [120]); ([100], VLit [120])]
                        [([100], VLit [121])] = Some st /\
              assoc [100] st = Some [121] /\ assoc b st = Some []).
Proof.
  vm_compute. repeat split; try reflexivity.
  - eexists. split; reflexivity.
  - eexists. split; [reflexivity|]. eexists. repeat split; reflexivity.
  - eexists. split; reflexivity.
  - eexists. repeat split; reflexivity.
Qed.
