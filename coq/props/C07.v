(* C07 — run numbers are unique and strictly increasing.
   Property theorems only; each closed by [exact] of a lemma from proofs/RunCounter_proofs.v.

   Reading guide.  [run (init s0) sched] executes ANY schedule [sched] (any number of callers,
   any interleaving of their read and compare-and-set requests, requests that fail, replies
   that are lost, callers that die at any point, foreign writes and deletes) from ANY
   well-formed store [s0]; a restarted core is simply a new caller, since a caller holds no
   state of its own.  [handed] are the numbers returned to callers and [consumed] the numbers
   written to the counter (returned or not), both in the order of the writes.
   [env_ok] is the assumption about the rest of the world, evaluated along the run: other
   writers never lower the counter, never store a non-number and delete the key only while it
   stands at 0.  Nothing is assumed about the value of the counter: since the repair of C07-b a
   caller that reads 2^32-1 fails ([next32]) instead of wrapping to 0, so the theorems below hold
   up to and at the end of the uint32 range (before the repair they needed the extra hypothesis
   "the counter has not reached 2^32-1" and C07_wrap_refuted exhibited 4294967295, 0). *)
From Verif Require Import Common RunCounter RunCounter_proofs.
From Verif Require Import Gen_RunNumberSites Gen_FileCounter Gen_RemoteGlue RunNumberSites_proofs.
Open Scope N_scope.

(* Numbers handed out later are larger, and all are larger than the value the counter had at
   the start (that is: than everything handed out in earlier lives of the core). *)
Theorem C07_monotone : forall s0 sched,
  wf_store s0 -> env_ok (init s0) sched ->
  StronglySorted N.lt (cur s0 :: handed (run (init s0) sched)).
Proof. exact handed_sorted. Qed.
Print Assumptions C07_monotone.

Theorem C07_later_is_larger : forall s0 sched t1 i ni t2 j nj t3,
  wf_store s0 -> env_ok (init s0) sched ->
  chron (run (init s0) sched) = t1 ++ EvRet i ni :: t2 ++ EvRet j nj :: t3 ->
  cur s0 < ni /\ ni < nj.
Proof. exact later_is_larger. Qed.
Print Assumptions C07_later_is_larger.

(* real-time order: i's number was written before j's read was even served => j's is larger *)
Theorem C07_returned_before_read : forall s0 sched t1 i ni t2 j t3 nj,
  wf_store s0 -> env_ok (init s0) sched ->
  chron (run (init s0) sched) = t1 ++ EvRet i ni :: t2 ++ EvRead j :: t3 ->
  result (run (init s0) sched) j = Some nj -> ni < nj.
Proof. exact realtime_order. Qed.
Print Assumptions C07_returned_before_read.

(* No number is handed out twice; two callers never hold the same number. *)
Theorem C07_unique : forall s0 sched,
  wf_store s0 -> env_ok (init s0) sched -> NoDup (handed (run (init s0) sched)).
Proof. exact handed_nodup. Qed.
Print Assumptions C07_unique.

Theorem C07_unique_per_caller : forall s0 sched i j ni nj,
  wf_store s0 -> env_ok (init s0) sched -> i <> j ->
  result (run (init s0) sched) i = Some ni ->
  result (run (init s0) sched) j = Some nj -> ni <> nj.
Proof. exact results_distinct. Qed.
Print Assumptions C07_unique_per_caller.

(* A caller returns a number only through its own applied compare-and-set (no hypothesis on the
   schedule or on other writers at all). *)
Theorem C07_number_iff_own_cas : forall s0 sched i n,
  result (run (init s0) sched) i = Some n <-> In (EvRet i n) (chron (run (init s0) sched)).
Proof. exact result_iff_ret. Qed.
Print Assumptions C07_number_iff_own_cas.

Theorem C07_ret_only_by_applied_cas : forall st x i n,
  s_trace (do_step st x) = EvRet i n :: s_trace st ->
  exists idx, x = SServe i /\ get (s_callers st) i = HasRead n idx /\
              cas_applies (s_store st) idx = true /\
              s_store (do_step st x) = write (s_store st) (fmt_u n).
Proof. exact ret_only_by_applied_cas. Qed.
Print Assumptions C07_ret_only_by_applied_cas.

(* If the counter cannot be advanced atomically the call fails: error, nothing written,
   nothing handed out. *)
Theorem C07_fail_not_reuse : forall st i n idx,
  get (s_callers st) i = HasRead n idx -> cas_applies (s_store st) idx = false ->
  s_store (do_step st (SServe i)) = s_store st /\
  s_trace (do_step st (SServe i)) = s_trace st /\
  get (s_callers (do_step st (SServe i))) i = Done None.
Proof. exact cas_refused_fails. Qed.
Print Assumptions C07_fail_not_reuse.

(* Crash points.  A caller that dies (anywhere: before its read, between read and CAS) changes
   neither the store nor what was handed out; since C07_monotone/C07_unique quantify over all
   schedules they hold with SCrash/SFail/SLost steps at every position. *)
Theorem C07_crash_safe : forall st i,
  s_store (do_step st (SCrash i)) = s_store st /\
  s_trace (do_step st (SCrash i)) = s_trace st /\
  forall j, j <> i -> get (s_callers (do_step st (SCrash i))) j = get (s_callers st) j.
Proof. exact crash_changes_nothing. Qed.
Print Assumptions C07_crash_safe.

(* A caller that dies after its CAS was applied (or whose reply is lost) only skips a number:
   every consumed number, returned or not, is strictly larger than the previous one, and the
   lost one is never given to anybody. *)
Theorem C07_crash_after_cas_skips : forall s0 sched,
  wf_store s0 -> env_ok (init s0) sched ->
  StronglySorted N.lt (cur s0 :: consumed (run (init s0) sched)).
Proof. exact consumed_sorted. Qed.
Print Assumptions C07_crash_after_cas_skips.

Theorem C07_lost_number_never_reused : forall s0 sched i n,
  wf_store s0 -> env_ok (init s0) sched ->
  In (EvLost i n) (chron (run (init s0) sched)) -> ~ In n (handed (run (init s0) sched)).
Proof. exact lost_number_skipped. Qed.
Print Assumptions C07_lost_number_never_reused.

(* The exhausted counter: a caller that reads 2^32-1 returns an error, writes nothing and nothing
   is handed out (so C07_monotone needs no bound on the counter). *)
Theorem C07_exhausted_fails : forall st i b idx,
  get (s_callers st) i = Idle -> st_kv (s_store st) = Some (b, idx) ->
  parse_u32 b = Some max_u32 ->
  s_store (do_step st (SServe i)) = s_store st /\
  handed (do_step st (SServe i)) = handed st /\
  get (s_callers (do_step st (SServe i))) i = Done None.
Proof. exact exhausted_fails. Qed.
Print Assumptions C07_exhausted_fails.

(* The hypothesis about other writers is needed: a foreign writer that lowers the counter defeats
   any protocol (not a defect of the code). *)
Definition C07_unique_without_foreign_clause_statement : Prop :=
  forall s0 sched, wf_store s0 -> NoDup (handed (run (init s0) sched)).

Theorem C07_needs_monotone_foreign_writers : ~ C07_unique_without_foreign_clause_statement.
Proof. exact lowering_refutes. Qed.
Print Assumptions C07_needs_monotone_foreign_writers.

(* File backend (the non-Consul branch of NewRunNumber), all goroutines of one process calling one
   Service: Lock, Stat / create (empty, then "0"), ReadFile, WriteFile = truncate THEN write,
   Unlock.  [frun (finit f) sched] executes ANY interleaving [sched] of the steps of any number
   of calls on ANY initial file content (absent, junk, a number, 2^32-1), with the process
   dying at ANY points ([FCrash None]: every call in flight is gone, the file stays as it is -
   empty if a write-back had truncated it - and a restarted process goes on with it) and with
   the file getting ANY content from outside at a restart ([FCrash (Some b)]).  [fenv_ok] only
   asks that such a content does not read as a valid number below what was handed out. *)
Definition C07_file_backend_statement : Prop :=
  forall f sched, fenv_ok (fcur f) (finit f) sched -> NoDup (fhanded (frun (finit f) sched)).

Theorem C07_file_backend_unique : C07_file_backend_statement.
Proof. exact file_nodup. Qed.
Print Assumptions C07_file_backend_unique.

Theorem C07_file_backend_monotone : forall f sched,
  fenv_ok (fcur f) (finit f) sched ->
  StronglySorted N.lt (fcur f :: fhanded (frun (finit f) sched)).
Proof. exact file_sorted. Qed.
Print Assumptions C07_file_backend_monotone.

(* crash points only (no content from outside): no hypothesis at all.  Whatever a dying process
   leaves in the file, the numbers handed out before and after are strictly increasing. *)
Theorem C07_file_backend_crash_safe : forall f sched,
  Forall (fun e => match e with FCrash (Some _) => False | _ => True end) sched ->
  StronglySorted N.lt (fcur f :: fhanded (frun (finit f) sched)).
Proof. exact file_sorted_plain. Qed.
Print Assumptions C07_file_backend_crash_safe.

(* the torn write: a process that dies between the truncate and the write of a write-back leaves
   an empty file, which does not read as a number ... *)
Theorem C07_file_torn_write_is_empty : forall st i n,
  fget (f_callers st) i = FHasRead n ->
  f_file (fdo (fstep st i) (FCrash None)) = Some [] /\
  fval (f_file (fdo (fstep st i) (FCrash None))) = None.
Proof. exact file_torn_is_empty. Qed.
Print Assumptions C07_file_torn_write_is_empty.

(* ... and on a file that does not read as a number (empty, blanks, a trailing newline, digits
   followed by garbage, anything) every later start FAILS, for ever, in every later life of the
   process: nothing is handed out and the file is left alone - the sequence is never restarted *)
Theorem C07_file_torn_fails_forever : forall st c sched,
  fval (f_file (fdo st (FCrash c))) = None ->
  Forall (fun e => match e with FCrash (Some _) => False | _ => True end) sched ->
  f_rets (frun (fdo st (FCrash c)) sched) = f_rets st /\
  f_file (frun (fdo st (FCrash c)) sched) = f_file (fdo st (FCrash c)).
Proof. exact file_torn_fails_forever. Qed.
Print Assumptions C07_file_torn_fails_forever.

(* failing there is what makes it true: a reader that forgives blanks and takes an empty file
   for "0" hands 1 out again after 1, 2 and a torn write; this is what monitor code 11 looks for *)
Theorem C07_file_strict_parse_needed :
  ~ (forall f sched, NoDup (fhanded (frun_lenient (finit f) sched))).
Proof. exact file_lenient_refutes. Qed.
Print Assumptions C07_file_strict_parse_needed.

(* the file model is written from these operations: the file branch of NewRunNumber makes, in this
   order, os.Stat, WriteFile (create), ReadFile, one ParseUint(_, 10, 32) of the bytes read as
   they are, WriteFile (write-back: truncate then write) - table regenerated from the source *)
Theorem C07_file_counter_as_modelled :
  gen_fc_ops = expected_fc_ops /\ gen_fc_parse = expected_fc_parse.
Proof. exact file_counter_as_modelled. Qed.
Print Assumptions C07_file_counter_as_modelled.

(* while the process lives no update is lost: whenever the mutex is free the file stands at its
   first value plus the number of calls that returned *)
Theorem C07_file_backend_dense : forall f sched,
  no_crash sched -> f_lock (frun (finit f) sched) = None ->
  fcur (f_file (frun (finit f) sched)) =
  fcur f + N.of_nat (length (fhanded (frun (finit f) sched))).
Proof. exact file_dense. Qed.
Print Assumptions C07_file_backend_dense.

(* at most one call is between Lock and Unlock *)
Theorem C07_file_backend_mutex : forall f sched i j,
  fenv_ok (fcur f) (finit f) sched ->
  fcritical (frun (finit f) sched) i -> fcritical (frun (finit f) sched) j -> i = j.
Proof. exact file_mutex. Qed.
Print Assumptions C07_file_backend_mutex.

Theorem C07_file_exhausted_fails : forall st i b,
  fget (f_callers st) i = FChecked -> f_file st = Some b -> parse_u32 b = Some max_u32 ->
  f_file (fstep st i) = f_file st /\ f_rets (fstep st i) = f_rets st /\
  fget (f_callers (fstep st i)) i = FDone None.
Proof. exact file_exhausted_fails. Qed.
Print Assumptions C07_file_exhausted_fails.

(* the mutex is what makes it true: the same steps without it (the code before the repair) hand
   6 out twice; this is the behaviour monitor code 6 looks for *)
Theorem C07_file_lock_needed :
  ~ (forall f sched, NoDup (fhanded (frun_nolock (finit f) sched))).
Proof. exact file_nolock_refutes. Qed.
Print Assumptions C07_file_lock_needed.

(* The glue between the core and the counter: the remote apricot client (used for apricot://
   URIs) on top of the gRPC server wrapper on top of the service.  The client hands a number to
   the core only if the server call got through and the service returned that number without
   error; in every other case (server stopped / Unavailable, error reply) the core gets an error
   and the start fails. *)
Theorem C07_remote_client_faithful : forall reply n,
  remote_client reply = Some n -> reply = Some (Some n).
Proof. exact remote_client_faithful. Qed.
Print Assumptions C07_remote_client_faithful.

Theorem C07_remote_client_error : forall reply,
  (reply = None \/ reply = Some None) -> remote_client reply = None.
Proof. exact remote_client_error. Qed.
Print Assumptions C07_remote_client_error.

(* any sequence of calls, server stops and restarts and counter-file changes: a caller only ever
   gets a number that the service returned, without error, during that very call *)
Theorem C07_remote_only_service_numbers : forall ops st up c,
  Forall (fun o => match fst o with Some n => In (Some n) (snd o) | None => True end) (rrun st up c ops).
Proof. exact remote_only_service_numbers. Qed.
Print Assumptions C07_remote_only_service_numbers.

(* [remote_client] is what the two functions do: path analysis of their bodies, from the source *)
Theorem C07_remote_glue_as_modelled :
  gen_glue_client_faithful = true /\ gen_glue_server_faithful = true.
Proof. exact remote_glue_as_modelled. Qed.
Print Assumptions C07_remote_glue_as_modelled.

(* START_ACTIVITY: no number => the transition is cancelled, state and run number untouched,
   an error is returned — whatever the counter run looked like. *)
Theorem C07_start_cancelled : forall s0 sched i e neg_ok rest_ok,
  result (run (init s0) sched) i = None ->
  start_activity e neg_ok (result (run (init s0) sched) i) rest_ok = (e, true).
Proof. exact start_cancelled_run. Qed.
Print Assumptions C07_start_cancelled.

(* a start that succeeds runs under exactly the number the counter handed to it *)
Theorem C07_start_uses_counter_number : forall e neg_ok rn rest_ok e',
  start_activity e neg_ok rn rest_ok = (e', false) ->
  e_state e = E_CONFIGURED /\ exists n, rn = Some n /\ e' = mkEnv E_RUNNING n.
Proof. exact start_number_is_counter_number. Qed.
Print Assumptions C07_start_uses_counter_number.

(* Histories.  [hrun_res (hinit s0 states) 0 ops] executes ANY sequence [ops] of requests (START
   attempts with any outcome of their hooks and transition body, STOP, GO_ERROR, RECOVER,
   CONFIGURE, RESET, ..., done or cancelled) on ANY number of environments in any initial states,
   all sharing the counter; during every START attempt anything may happen at the counter (its
   own requests served / failed / lost, other cores' callers, foreign writers: [heff] is the
   resulting schedule).  [hnums] are the run numbers under which the successive attempts went on
   (the number shown to the hooks of weight >= 0 and kept by the environment), in the order of
   the attempts.  Every attempt draws a fresh number: they are strictly increasing across
   cancelled and repeated starts, runs ended by STOP or by GO_ERROR, and across environments. *)
Theorem C07_attempts_increasing : forall s0 states ops,
  wf_store s0 -> env_ok (init s0) (heff (hinit s0 states) 0 ops) ->
  StronglySorted N.lt (cur s0 :: hnums (hrun_res (hinit s0 states) 0 ops)).
Proof. exact hist_sorted. Qed.
Print Assumptions C07_attempts_increasing.

Theorem C07_attempts_unique : forall s0 states ops,
  wf_store s0 -> env_ok (init s0) (heff (hinit s0 states) 0 ops) ->
  NoDup (hnums (hrun_res (hinit s0 states) 0 ops)).
Proof. exact hist_nodup. Qed.
Print Assumptions C07_attempts_unique.

(* the numbers of the attempts are numbers the counter handed out during the history, in order *)
Theorem C07_attempts_are_counter_numbers : forall s0 states ops,
  sublist (hnums (hrun_res (hinit s0 states) 0 ops))
          (handed (hs_ctr (hrun_st (hinit s0 states) 0 ops))).
Proof. exact hist_sublist. Qed.
Print Assumptions C07_attempts_are_counter_numbers.

(* one attempt (no hypothesis on anybody): it goes on only under a number that its own call,
   idle when the attempt began, obtained through an applied compare-and-set during the attempt *)
Theorem C07_attempt_draws_fresh : forall h k o n,
  link (hs_ctr h) -> get (s_callers (hs_ctr h)) (aid k) = Idle ->
  hr_seen (snd (hstep h k o)) = Some n ->
  ~ In (EvRet (aid k) n) (s_trace (hs_ctr h)) /\
  In (EvRet (aid k) n) (s_trace (hs_ctr (fst (hstep h k o)))).
Proof. exact attempt_draws_fresh. Qed.
Print Assumptions C07_attempt_draws_fresh.

(* the history model is written from these sites: core/environment writes currentRunNumber in
   exactly three places (START attempt: assigned; after STOP_ACTIVITY and failing task start:
   cleared) and calls NewRunNumber in exactly one, under the only condition "the event is
   START_ACTIVITY" (table regenerated from the source on every run) *)
Theorem C07_run_number_sites_as_modelled :
  gen_rn_writes = expected_rn_writes /\ gen_rn_draws = expected_rn_draws.
Proof. exact rn_sites_as_modelled. Qed.
Print Assumptions C07_run_number_sites_as_modelled.

(* what the environment keeps of it *)
Theorem C07_attempt_env : forall h k ei neg_ok rest sched,
  let x := snd (hstep h k (HStart ei neg_ok rest sched)) in
  let e := eget (hs_envs h) ei in
  match hr_seen x with
  | Some n => hr_rn x = (if rest <=? 1 then n else 0) /\ hr_err x = negb (rest =? 0) /\
              eget (hs_envs (fst (hstep h k (HStart ei neg_ok rest sched)))) ei =
              mkEnv (hr_state x) (hr_rn x)
  | None => hr_err x = true /\ hr_state x = e_state e /\ hr_rn x = e_rn e /\
            hs_envs (fst (hstep h k (HStart ei neg_ok rest sched))) = hs_envs h
  end.
Proof. exact attempt_env. Qed.
Print Assumptions C07_attempt_env.

(* non-vacuity of the history theorems: two environments; a start cancelled by a hook after its
   draw, then repeated; a run ended by GO_ERROR, recovered, configured, started again; a start of
   the other environment whose CAS is refused because a foreign writer moved the counter;
   start / stop / start; a start cancelled by failing tasks *)
Example C07_nonvacuous_history :
  let s0 := mkStore None 3 in
  let ops := [HStart 0 true 1 [AOwn 0; AOwn 0];
              HStart 0 true 0 [AOwn 0; AOwn 0];
              HOther 0 6 true; HOther 0 7 true; HOther 0 1 true;
              HStart 1 true 0 [AOwn 0; AOther (SPut [53]); AOwn 0];
              HStart 0 true 0 [AOwn 0; AOwn 0];
              HOther 0 4 true;
              HStart 0 true 2 [AOwn 0; AOwn 0]] in
  wf_store s0 /\ env_ok (init s0) (heff (hinit s0 [2; 2]) 0 ops) /\
  hnums (hrun_res (hinit s0 [2; 2]) 0 ops) = [1; 2; 6; 7] /\
  map hr_rn (hrun_res (hinit s0 [2; 2]) 0 ops) = [1; 2; 2; 2; 2; 0; 6; 0; 0] /\
  map hr_state (hrun_res (hinit s0 [2; 2]) 0 ops) = [2; 3; 5; 1; 2; 2; 3; 2; 2].
Proof.
  vm_compute. repeat split; try reflexivity; try (intros; discriminate).
  exists 5. split; [reflexivity|discriminate].
Qed.

(* non-vacuity: a concrete racy schedule that meets every hypothesis — three callers, the
   key is created with cas=0 by the winner of a race, a foreign writer re-writes an equal
   value between a read and its CAS, one caller dies after its CAS was applied *)
Example C07_nonvacuous :
  let s0 := mkStore None 7 in
  let sched := [SServe 0; SServe 1; SServe 1; SServe 0; SServe 2; SPut [49]; SServe 2;
                SServe 3; SLost 3; SServe 4; SCrash 5; SServe 4] in
  wf_store s0 /\ env_ok (init s0) sched /\
  handed (run (init s0) sched) = [1; 3] /\ consumed (run (init s0) sched) = [1; 2; 3] /\
  map (result (run (init s0) sched)) [0; 1; 2; 3; 4; 5] = [None; Some 1; None; None; Some 3; None].
Proof.
  vm_compute. repeat split; try reflexivity; try (intros; discriminate).
  exists 1. split; [reflexivity|discriminate].
Qed.

(* ... and at the end of the range (the schedule that wrapped before the repair): counter at
   4294967294, two starts: the first gets 4294967295, the second fails, the counter stays *)
Example C07_nonvacuous_boundary :
  let s0 := mkStore (Some (b_4294967294, 1)) 1 in
  let sched := [SServe 0; SServe 0; SServe 1; SServe 1] in
  wf_store s0 /\ env_ok (init s0) sched /\
  handed (run (init s0) sched) = [4294967295] /\
  map (result (run (init s0) sched)) [0; 1] = [Some 4294967295; None] /\
  cur (s_store (run (init s0) sched)) = 4294967295.
Proof. exact boundary_example. Qed.

(* file backend: two overlapping calls on "5" (the second one waits for the mutex), then a third
   call dies between truncate and write, the process restarts: the next call fails, the file
   stays empty, 6 and 7 are never handed out again *)
Example C07_nonvacuous_file :
  let sched := [FS 0; FS 1; FS 0; FS 1; FS 0; FS 0; FS 1; FS 1; FS 1; FS 1;
                FS 2; FS 2; FS 2; FCrash None; FS 3; FS 3; FS 3] in
  fenv_ok 5 (finit (Some [53])) sched /\
  fhanded (frun (finit (Some [53])) sched) = [6; 7] /\
  f_file (frun (finit (Some [53])) sched) = Some [] /\
  fres (frun (finit (Some [53])) sched) 3 = None.
Proof. vm_compute. repeat split; exact I. Qed.
