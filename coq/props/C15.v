(* C15 — loading a workflow is deterministic and prunes disabled roles.
   Property theorems only; each closed by [exact] of a lemma from proofs/Load_proofs.v.
   [load c r] = ProcessTemplates of the root template r under the environment maps c, as coded
   ([proc coded], after the repairs of C15-a, C15-b, C15-d); [proc legacy] = the loader before
   those repairs, kept to show that each repaired clause was violated (the monitor recognises a
   regression of a repair by the legacy switch that reproduces the deviation).
   Schedules: [run coded s w] lets the goroutines of the work tree w act in the order s. *)
From Verif Require Import Common Gen_LoadStages Gen_TplState Load Load_proofs.
Open Scope N_scope.

(* --- same tree whether template processing runs sequentially or concurrently --- *)

(* whatever order the role goroutines act in, a load that finishes returns what the function
   [load] returns: for every schedule, every template, every environment *)
Theorem C15_schedule_independent : forall c r s o,
  run coded s (WTodo c [] r) = WDone o -> o = load c r.
Proof. exact (fun c r s o => schedule_independent coded c [] r s o). Qed.
Print Assumptions C15_schedule_independent.

Theorem C15_deterministic : forall c r s1 s2 o1 o2,
  run coded s1 (WTodo c [] r) = WDone o1 -> run coded s2 (WTodo c [] r) = WDone o2 -> o1 = o2.
Proof. exact (fun c r => schedules_agree coded c [] r). Qed.
Print Assumptions C15_deterministic.

(* the result every unfinished work tree stands for never changes, step by step *)
Theorem C15_step_invariant : forall w p, denote coded (step coded p w) = denote coded w.
Proof. exact (step_denote coded). Qed.
Print Assumptions C15_step_invariant.

(* some schedule (children one after the other, left to right: the sequential loader) finishes
   every load, and an unfinished load can always move *)
Theorem C15_sequential_terminates : forall c r,
  exists s, run coded s (WTodo c [] r) = WDone (load c r).
Proof. exact (fun c r => schedule_complete coded c [] r). Qed.
Print Assumptions C15_sequential_terminates.

Theorem C15_no_deadlock : forall w, is_done w = false -> exists p, step coded p w <> w.
Proof. exact (no_deadlock coded). Qed.
Print Assumptions C15_no_deadlock.

(* --- disabled roles are absent together with their subtree --- *)

Theorem C15_prune_enabled : forall c r t n,
  load c r = Ok t -> In n (desc t) -> node_enabled coded n = true.
Proof. exact (fun c r t n => desc_enabled coded r c [] t n). Qed.
Print Assumptions C15_prune_enabled.

(* a role whose `enabled` evaluates to anything but true yields a childless node that the
   parent's filter drops: nothing of its subtree is processed or kept *)
Theorem C15_prune_subtree : forall k b kids c loc s,
  eval (stack loc c) (r_enabled b) = Some s -> is_true s = false ->
  exists n, proc coded (Role None k b kids) c loc = Ok n /\
            node_enabled coded n = false /\ onode_kids n = [] /\
            forall ns, ~ In n (filter (node_enabled coded) ns).
Proof. exact (disabled_child_dropped coded). Qed.
Print Assumptions C15_prune_subtree.

(* the children of an aggregator are exactly the enabled results of its child templates, in
   template order (or the aggregator disables itself because none is left) *)
Theorem C15_children_in_order : forall b kids c loc s i t,
  eval (stack loc c) (r_enabled b) = Some s -> is_true s = true -> stages c loc b s = Some i ->
  proc coded (Role None KAgg b kids) c loc = Ok t ->
  exists ns, Forall2 (fun kid n => proc coded kid (child_ctx c i) [] = Ok n) kids ns /\
             (t = ONode KAgg i (r_crit b) (filter (node_enabled coded) ns) \/
              (agg_empty coded (filter (node_enabled coded) ns) = true /\
               t = ONode KAgg (set_enabled i s_false) (r_crit b) (filter (node_enabled coded) ns))).
Proof. exact (agg_children coded). Qed.
Print Assumptions C15_children_in_order.

(* --- aggregators left empty disappear --- *)

(* as the rest of the core sees it (GetRoles: iterator containers are transparent): no aggregator
   below the root is left without a visible role — in particular an aggregator whose only
   children are iterators that expand to nothing disappears (full statement; it was refuted
   before the repair of C15-d) *)
Definition C15_no_visibly_empty_statement : Prop := no_visibly_empty_statement.
Theorem C15_no_visibly_empty : forall c r t i crit ks,
  load c r = Ok t -> In (ONode KAgg i crit ks) (desc t) -> flat_map visible ks <> [].
Proof. exact no_visibly_empty_holds. Qed.
Print Assumptions C15_no_visibly_empty.

Theorem C15_no_bare_aggregator : forall c r t i crit ks,
  load c r = Ok t -> In (ONode KAgg i crit ks) (desc t) -> ks <> [].
Proof. exact (fun c r t => coded_no_bare_aggregator r c [] t). Qed.
Print Assumptions C15_no_bare_aggregator.

(* the loader before the repair kept such an aggregator; the witness is pruned now *)
Theorem C15_no_visibly_empty_legacy_refuted :
  (exists t i crit ks, proc legacy wit_empty ctx0 [] = Ok t /\
                       In (ONode KAgg i crit ks) (desc t) /\ flat_map visible ks = []) /\
  (exists t, load ctx0 wit_empty = Ok t /\ length (desc t) = 1%nat).
Proof. exact (conj legacy_visibly_empty wit_empty_pruned). Qed.
Print Assumptions C15_no_visibly_empty_legacy_refuted.

(* --- an iterator yields one child per element of its range, in order, variable bound --- *)

Theorem C15_iterator_exact : forall fs k b kids c loc n,
  proc coded (Role (Some fs) k b kids) c loc = Ok n ->
  exists vals ns,
    range_vals (stack [] c) fs = Some vals /\
    Forall2 (fun v m => proc coded (Role None k b kids) c [(f_var fs, v)] = Ok m) vals ns /\
    n = OIter (show (r_name b)) (show (r_enabled b)) (filter (node_enabled coded) ns).
Proof. exact (iterator_exact coded). Qed.
Print Assumptions C15_iterator_exact.

Theorem C15_iterator_count : forall fs k b kids c loc n,
  proc coded (Role (Some fs) k b kids) c loc = Ok n ->
  exists vals ns,
    range_vals (stack [] c) fs = Some vals /\
    Forall2 (fun v m => proc coded (Role None k b kids) c [(f_var fs, v)] = Ok m) vals ns /\
    ((forall m, In m ns -> node_enabled coded m = true) ->
     onode_kids n = ns /\ length (onode_kids n) = length vals).
Proof. exact (iterator_count coded). Qed.
Print Assumptions C15_iterator_count.

Theorem C15_iterator_binds : forall k b kids c x v n,
  proc coded (Role None k b kids) c [(x, v)] = Ok n ->
  exists k' i crit ks, n = ONode k' i crit ks /\ assoc x (i_vars i) = Some v.
Proof. exact (copy_binds coded). Qed.
Print Assumptions C15_iterator_binds.

(* --- nested iterators: the same, at every depth ---
   [occ c loc r c' loc' r']: the load of r processes the template r' under the parent maps c'
   (through any number of iterator copies and enabled aggregators).  An iterator inside the
   template of another iterator occurs once per copy of the enclosing template, each time under
   that copy's own maps. *)

(* every iterator occurrence of a successful load yields exactly one copy per element of its
   range as evaluated under the maps of that occurrence, in order (disabled copies filtered) *)
Theorem C15_nested_iterator_exact : forall c r t c' loc' fs k b kids,
  load c r = Ok t -> occ c [] r c' loc' (Role (Some fs) k b kids) ->
  exists vals ns,
    range_vals (stack [] c') fs = Some vals /\
    Forall2 (fun v m => proc coded (Role None k b kids) c' [(f_var fs, v)] = Ok m) vals ns /\
    (proc coded (Role (Some fs) k b kids) c' loc' =
     Ok (OIter (show (r_name b)) (show (r_enabled b)) (filter (node_enabled coded) ns))).
Proof. exact (fun c r t => nested_iterator_exact coded c [] r t). Qed.
Print Assumptions C15_nested_iterator_exact.

Theorem C15_nested_iterator_count : forall c r t c' loc' fs k b kids,
  load c r = Ok t -> occ c [] r c' loc' (Role (Some fs) k b kids) ->
  exists vals ns n,
    range_vals (stack [] c') fs = Some vals /\
    Forall2 (fun v m => proc coded (Role None k b kids) c' [(f_var fs, v)] = Ok m) vals ns /\
    proc coded (Role (Some fs) k b kids) c' loc' = Ok n /\
    ((forall m, In m ns -> node_enabled coded m = true) ->
     onode_kids n = ns /\ length (onode_kids n) = length vals).
Proof. exact (fun c r t => nested_iterator_count coded c [] r t). Qed.
Print Assumptions C15_nested_iterator_count.

(* seen from the loaded tree: every iterator container anywhere in it, whatever encloses it, is
   the expansion of one occurrence of an iterator template and holds exactly the enabled copies,
   one per element of the range evaluated under the maps of that occurrence *)
Theorem C15_nested_containers_exact : forall c r t nm en ks,
  load c r = Ok t -> In (OIter nm en ks) (nodes t) ->
  exists c' loc' fs k b kids vals ns,
    occ c [] r c' loc' (Role (Some fs) k b kids) /\
    range_vals (stack [] c') fs = Some vals /\
    Forall2 (fun v m => proc coded (Role None k b kids) c' [(f_var fs, v)] = Ok m) vals ns /\
    nm = show (r_name b) /\ en = show (r_enabled b) /\ ks = filter (node_enabled coded) ns.
Proof. exact (fun c r t nm en ks => containers_sound coded r c [] t nm en ks). Qed.
Print Assumptions C15_nested_containers_exact.

(* the maps under which the roles inside the copy for element v are processed — in particular
   the ranges of the iterators among them — bind the iteration variable to v (unless a user
   variable of that name overrides it), and so do the maps below every further role that does
   not define the name itself: an inner `end: "{{ x }}"` is the element of the enclosing copy *)
Theorem C15_nested_scope : forall c x v b s i,
  stages c [(x, v)] b s = Some i -> assoc x (cU c) = None ->
  assoc x (cV (child_ctx c i)) = Some v /\ assoc x (cU (child_ctx c i)) = None /\
  eval (stack [] (child_ctx c i)) [PVar x] = Some v.
Proof. exact copy_scope. Qed.
Print Assumptions C15_nested_scope.

Theorem C15_nested_scope_inherited : forall c loc x v b s i,
  assoc x (cV c) = Some v -> assoc x (cU c) = None ->
  assoc x loc = None -> assoc x (r_vars b) = None ->
  stages c loc b s = Some i ->
  assoc x (cV (child_ctx c i)) = Some v /\ assoc x (cU (child_ctx c i)) = None /\
  eval (stack [] (child_ctx c i)) [PVar x] = Some v.
Proof. exact scope_inherited. Qed.
Print Assumptions C15_nested_scope_inherited.

(* an iterator is kept by its parent whatever its template's `enabled` text is: the expression
   is evaluated for each copy (full statement; it was refuted before the repair of C15-b) *)
Definition C15_iterator_enabled_statement : Prop := iterator_enabled_statement.
Theorem C15_iterator_enabled : forall c fs k b kids n,
  proc coded (Role (Some fs) k b kids) c [] = Ok n -> onode_kids n <> [] ->
  node_enabled coded n = true.
Proof. exact iterator_enabled_holds. Qed.
Print Assumptions C15_iterator_enabled.

Theorem C15_iterator_kept : forall fs k b kids c loc n,
  proc coded (Role (Some fs) k b kids) c loc = Ok n -> node_enabled coded n = true.
Proof. exact iterator_kept. Qed.
Print Assumptions C15_iterator_kept.

(* the loader before the repair dropped an iterator with a non-literal `enabled` together with
   the copy for which the expression is true; the witness keeps both visible roles now *)
Theorem C15_iterator_enabled_legacy_refuted :
  (exists n, proc legacy wit_iter ctx_xa [] = Ok n /\ onode_kids n <> [] /\
             node_enabled legacy n = false) /\
  (exists t, load ctx_xa wit_iter_root = Ok t /\
             length (flat_map visible (onode_kids t)) = 2%nat /\
             exists t', proc legacy wit_iter_root ctx_xa [] = Ok t' /\
                        length (flat_map visible (onode_kids t')) = 1%nat).
Proof. exact (conj legacy_iterator_dropped iterator_enabled_witness). Qed.
Print Assumptions C15_iterator_enabled_legacy_refuted.

(* --- a template error in any role makes the load fail --- *)

(* [terr true]: some field the loader has to evaluate (a role all of whose ancestors are enabled;
   every element of an iterator; `enabled` itself; a range) fails.  Full statement, and exact: the
   load fails iff there is a live template error (it was refuted before the repair of C15-a: an
   error in `enabled` was reported as "role disabled" and the role dropped) *)
Definition C15_error_fails_statement : Prop := error_fails_statement.
Theorem C15_error_fails : forall c r, terr true c [] r -> load c r = Err.
Proof. exact error_fails_holds. Qed.
Print Assumptions C15_error_fails.

Theorem C15_error_fails_exact : forall c r, load c r = Err <-> terr true c [] r.
Proof. exact load_fails_iff. Qed.
Print Assumptions C15_error_fails_exact.

(* whatever the schedule: a finished load with a live template error is a failure (includes the
   repaired lost-error race of the iterator / aggregator goroutines) *)
Theorem C15_error_fails_every_schedule : forall c r s o,
  terr true c [] r -> run coded s (WTodo c [] r) = WDone o -> o = Err.
Proof. exact error_fails_every_schedule. Qed.
Print Assumptions C15_error_fails_every_schedule.

(* the loader before the repair loaded a template with a live error in `enabled` (it failed
   exactly on the errors outside `enabled`); the witness fails now *)
Theorem C15_error_fails_legacy_refuted :
  (exists c r, terr true c [] r /\ exists t, proc legacy r c [] = Ok t) /\
  (forall c r, proc legacy r c [] = Err <-> terr false c [] r) /\
  load ctx0 wit_masked = Err.
Proof. exact (conj legacy_error_masked (conj legacy_fails_iff wit_masked_fails)). Qed.
Print Assumptions C15_error_fails_legacy_refuted.

(* --- tie to the source: the stage in which each field is processed (table regenerated from the
   template.Sequence literals of /repo on every run) is the one the model implements --- *)
Theorem C15_source_stages :
  load_stage_table = model_stage_table /\ load_stage_count = model_stage_count /\
  load_disabled_check_stage = model_disabled_check_stage.
Proof. exact stages_as_modelled. Qed.
Print Assumptions C15_source_stages.

(* --- the result of a load is a function of template, variables and switches only: it does not
   depend on what the process loaded before --- *)

(* a process that loads the inputs of a history one after the other, each under any schedule of
   its role goroutines, returns for every one of them what [load] returns for it alone *)
Theorem C15_history_independent : forall ss h outs,
  run_history ss h = Some outs -> outs = map (fun cr => load (fst cr) (snd cr)) h.
Proof. exact history_independent. Qed.
Print Assumptions C15_history_independent.

(* two histories that end with the same template and variables: the last load gives the same
   result, whatever was loaded before and under whatever schedules *)
Theorem C15_history_prefix_irrelevant : forall ss1 ss2 h1 h2 c r outs1 outs2,
  run_history ss1 (h1 ++ [(c, r)]) = Some outs1 ->
  run_history ss2 (h2 ++ [(c, r)]) = Some outs2 ->
  last outs1 Err = load c r /\ last outs2 Err = load c r.
Proof. exact history_prefix_irrelevant. Qed.
Print Assumptions C15_history_prefix_irrelevant.

Theorem C15_history_terminates : forall h,
  exists ss, run_history ss h = Some (map (fun cr => load (fst cr) (snd cr)) h).
Proof. exact history_complete. Qed.
Print Assumptions C15_history_terminates.

(* tie to the source (regenerated from configuration/template on every run): the evaluation path
   of the template package mentions no package-level variable (loggers apart) — no cache, memo
   table or counter outlives an evaluation — and every program given to expr.Run comes from an
   unconditional expr.Compile of the same evaluation, which is where a name that is not in the
   environment of the role is rejected.  This is what the history-free model assumes. *)
Theorem C15_source_stateless :
  tpl_eval_globals = [] /\ tpl_run_sites_fresh = tpl_run_sites /\ 1 <= tpl_run_sites.
Proof. split; [reflexivity|split; [reflexivity|]]. vm_compute. intro H; discriminate H. Qed.
Print Assumptions C15_source_stateless.

(* non-vacuity: a template with a nested iterator over two elements, a role disabled by a
   variable of the environment and a variable defined at the root; it loads to a tree with six
   visible roles below the root, under a left-to-right and under a right-to-left schedule; the
   witness of the formerly masked `enabled` error fails to load (and loaded before the repair); an iterator nested in an iterator
   with a range that counts up to the outer iteration variable *)
Example C15_nonvacuous :
  (exists t, load ctx_xa ex_role = Ok t /\ length (desc t) = 6%nat /\
             run coded ex_sched_lr (WTodo ctx_xa [] ex_role) = WDone (Ok t) /\
             run coded ex_sched_rl (WTodo ctx_xa [] ex_role) = WDone (Ok t)) /\
  terr true ctx0 [] wit_masked /\ load ctx0 wit_masked = Err /\
  (exists t, proc legacy wit_masked ctx0 [] = Ok t /\ length (flat_map visible (onode_kids t)) = 1%nat) /\
  (* host{{it}} for it in 1..3 [ worker{{jt}} for jt in 1..{{it}} ]: the three copies hold 1, 2
     and 3 workers *)
  (exists t, load ctx0 ex_nested = Ok t /\ profile t = [3; 1; 2; 3] /\
             length (flat_map visible (onode_kids t)) = 3%nat /\ length (flat t) = 1%nat /\
             vis_count t = 10%nat).
Proof.
  split; [|split; [exact wit_masked_terr|split; [exact wit_masked_fails|split; [exact wit_masked_legacy_loads|exact ex_nested_loads]]]].
  vm_compute. eexists. repeat split; reflexivity.
Qed.
