(* C05 — tasks are placed only where constraints and resources allow.
   Property theorems only; each closed by [exact] of a lemma from proofs/Placement_proofs.v.

   The model (model/Placement.v) is the placement code of /repo as it is: Attributes.Satisfy,
   Constraints.MergeParent, roleBase.getConstraints, BuildDescriptorConstraints,
   RangesFromExpression, the mesos-go Ranges operations, Resources.Satisfy,
   makeTaskForMesosResources and the OFFERS handler's per-offer loops.  [run_round exec offers
   sched descs] is one OFFERS round: [offers] as received, [sched] the order in which the offer
   goroutines obtain descriptorsMu, [descs] the deployment request.  Every theorem about a round
   holds for every schedule [sched] (no bound on the number of offers, descriptors, constraint
   levels, channels, ranges).  [Done acc dec ab still und]: ACCEPT calls (offer, launched tasks),
   the DECLINE set, offers on which a task was abandoned after the offer had been taken out of the
   decline set, descriptors not deployed / undeployable. *)
From Verif Require Import Common Gen_Placement Placement Placement_proofs.
Open Scope N_scope.

(* ------------------------------------------------------------------ constraints *)

(* Attributes.Satisfy (repaired, C05-a): with the only operator a template can spell, the
   answer is yes exactly when every constraint is met by the agent's attributes *)
Theorem C05_satisfy_all_constraints : forall a cts,
  forallb is_equals cts = true ->
  (satisfy a cts = true <-> forall c, In c cts -> sat1 a c = true).
Proof. exact satisfy_iff. Qed.
Print Assumptions C05_satisfy_all_constraints.

(* a task is launched only on an agent whose attributes satisfy every constraint of its merged
   constraint list (task template and all enclosing roles) *)
Theorem C05_constraints : forall exec offers sched descs acc dec ab still und o ts t c,
  run_round exec offers sched descs = Done acc dec ab still und ->
  In (o, ts) acc -> In t ts ->
  In c (d_constraints (t_desc t)) -> is_equals c = true -> sat1 (o_attrs o) c = true.
Proof. exact round_constraints. Qed.
Print Assumptions C05_constraints.

(* MergeParent, for every pair of lists: an attribute reads as the child's own definition (its
   last entry) if there is one, else as the parent's; a duplicate-free parent stays so *)
Theorem C05_merge_parent_override : forall own parent a,
  lookup_c a (merge_parent own parent) =
  match level_def a own with Some v => Some v | None => lookup_c a parent end.
Proof. exact merge_parent_lookup. Qed.
Print Assumptions C05_merge_parent_override.

Theorem C05_merge_parent_no_duplicates : forall own parent,
  NoDup (attrs_of parent) -> NoDup (attrs_of (merge_parent own parent)).
Proof. exact merge_parent_nodup. Qed.
Print Assumptions C05_merge_parent_no_duplicates.

(* the merged list invents nothing: every entry is written at some level *)
Theorem C05_merge_nothing_invented : forall levels k x,
  In x (desc_constraints levels k) -> exists l, In l (all_levels levels k) /\ In x l.
Proof. exact desc_constraints_in. Qed.
Print Assumptions C05_merge_nothing_invented.

(* "a nearer definition of the same attribute overrides a farther one", at every tree depth *)
Definition C05_merge_nearest_statement : Prop :=
  forall levels k a, levels <> [] ->
    lookup_c a (desc_constraints levels k) = nearest a (all_levels levels k).

(* refuted by the unchanged code (finding C05-e): the top-level role names zone twice *)
Theorem C05_merge_nearest_refuted : ~ C05_merge_nearest_statement.
Proof. exact merge_nearest_refuted. Qed.
Print Assumptions C05_merge_nearest_refuted.

(* exact side condition: the top-level role's own list and the class list name no attribute
   twice; then, for every depth and every distribution of an attribute over the levels, the merged
   list names no attribute twice and reads as the nearest definition *)
Theorem C05_merge_nearest_partial : forall levels k,
  levels <> [] ->
  NoDup (attrs_of (last levels [])) ->
  match k with Some kc => NoDup (attrs_of kc) | None => True end ->
  NoDup (attrs_of (desc_constraints levels k)) /\
  forall a, lookup_c a (desc_constraints levels k) = nearest a (all_levels levels k).
Proof. exact desc_constraints_nearest. Qed.
Print Assumptions C05_merge_nearest_partial.

(* the property's first sentence end to end: a launched task's agent satisfies the nearest
   definition of every attribute *)
Definition C05_constraints_nearest_statement : Prop :=
  forall exec offers sched descs acc dec ab still und o ts t k a v,
    run_round exec offers sched descs = Done acc dec ab still und ->
    In (o, ts) acc -> In t ts -> d_class (t_desc t) = Some k ->
    nearest a (d_levels (t_desc t) ++ [k_cts k]) = Some v ->
    sat1 (o_attrs o) (mkC a v 0) = true.

Theorem C05_constraints_nearest_refuted : ~ C05_constraints_nearest_statement.
Proof. exact constraints_nearest_refuted. Qed.
Print Assumptions C05_constraints_nearest_refuted.

Theorem C05_constraints_nearest_partial :
  forall exec offers sched descs acc dec ab still und o ts t k a v,
    run_round exec offers sched descs = Done acc dec ab still und ->
    In (o, ts) acc -> In t ts -> d_class (t_desc t) = Some k ->
    d_levels (t_desc t) <> [] ->
    NoDup (attrs_of (last (d_levels (t_desc t)) [])) ->
    NoDup (attrs_of (k_cts k)) ->
    (forall l, In l (d_levels (t_desc t) ++ [k_cts k]) -> forallb is_equals l = true) ->
    nearest a (d_levels (t_desc t) ++ [k_cts k]) = Some v ->
    sat1 (o_attrs o) (mkC a v 0) = true.
Proof. exact round_constraints_nearest. Qed.
Print Assumptions C05_constraints_nearest_partial.

(* ------------------------------------------------------------------ resources *)

(* a launched task has a known class, and the offer's cpu, memory and (for well-formed ranges)
   ports cover what the template asks for *)
Theorem C05_resources_cover : forall exec offers sched descs acc dec ab still und o ts t k,
  run_round exec offers sched descs = Done acc dec ab still und ->
  In (o, ts) acc -> In t ts -> d_class (t_desc t) = Some k ->
  (exists c, o_cpu o = Some c /\ k_cpu k <= c) /\
  (exists m, o_mem o = Some m /\ k_mem k <= m) /\
  (pvalid (o_ports o) -> Forall rvalid (k_static k) ->
   forall p, inr p (k_static k) = true -> pmem p (o_ports o) = true).
Proof. exact round_resources. Qed.
Print Assumptions C05_resources_cover.

Theorem C05_launched_has_class : forall exec offers sched descs acc dec ab still und o ts t,
  run_round exec offers sched descs = Done acc dec ab still und ->
  In (o, ts) acc -> In t ts -> exists k, d_class (t_desc t) = Some k.
Proof. exact round_class. Qed.
Print Assumptions C05_launched_has_class.

(* Resources.Satisfy says yes only if cpu, memory, the static ranges and the number of channel
   ports are covered by what is left of the offer *)
Theorem C05_resources_satisfy_sound : forall cpu mem pr wc wm static n,
  pvalid pr -> res_satisfy cpu mem pr wc wm static n = true ->
  (exists c, cpu = Some c /\ wc <= c) /\
  (exists m, mem = Some m /\ wm <= m) /\
  (exists av, ports_of pr = Some av /\ n <= rsize av - rsize (canon static)) /\
  (Forall rvalid static -> forall p, inr p static = true -> pmem p pr = true).
Proof. exact res_satisfy_sound. Qed.
Print Assumptions C05_resources_satisfy_sound.

(* ------------------------------------------------------------------ ports *)

(* every dynamic port and the control port come from the offer, dynamic ports lie above the data
   cut-off and the control port above the control cut-off (both read from scheduler.go) *)
Theorem C05_ports_from_offer : forall exec offers sched descs acc dec ab still und o ts t,
  run_round exec offers sched descs = Done acc dec ab still und ->
  In (o, ts) acc -> In t ts -> pvalid (o_ports o) ->
  (forall p, In p (picked t) -> pmem p (o_ports o) = true) /\
  (forall p, In p (map snd (t_dyn t)) -> data_port_floor < p) /\
  control_port_floor < t_ctl t.
Proof. exact round_ports_from_offer. Qed.
Print Assumptions C05_ports_from_offer.

(* one dynamic port per inbound TCP channel (role channels first, a name counts once; IPC
   channels take none), and the control port is handed over exactly to controllable tasks *)
Theorem C05_ports_per_channel : forall exec offers sched descs acc dec ab still und o ts t k,
  run_round exec offers sched descs = Done acc dec ab still und ->
  In (o, ts) acc -> In t ts -> d_class (t_desc t) = Some k ->
  map fst (t_dyn t) = map ch_name (filter ch_tcp (merge_inbound (d_rbind (t_desc t)) (k_bind k))) /\
  t_handed t = (if k_controllable k then Some (t_ctl t) else None).
Proof. exact round_ports_per_channel. Qed.
Print Assumptions C05_ports_per_channel.

(* static ranges exactly as written (repaired, C05-b): whatever ranges a template spells in the
   "a", "a-b", comma-separated notation are what RangesFromExpression returns ... *)
Theorem C05_static_as_written : forall l,
  Forall fits l -> parse_ranges (print_ranges l) = Some l.
Proof. exact parse_print_roundtrip. Qed.
Print Assumptions C05_static_as_written.

(* ... and the TaskInfo asks for exactly these static ranges, the dynamic ports and the control
   port; its cpu / memory are the template's plus the executor's share *)
Theorem C05_request_as_written : forall exec offers sched descs acc dec ab still und o ts t k,
  run_round exec offers sched descs = Done acc dec ab still und ->
  In (o, ts) acc -> In t ts -> d_class (t_desc t) = Some k ->
  t_cpu t = k_cpu k + fst exec /\ t_mem t = k_mem k + snd exec /\
  (Forall rvalid (k_static k) ->
   forall p, inr p (t_req t) = inr p (k_static k) || memN p (picked t)).
Proof. exact round_request. Qed.
Print Assumptions C05_request_as_written.

(* ports handed to tasks are pairwise distinct on an agent *)
Definition C05_ports_distinct_statement : Prop :=
  forall exec offers sched descs acc dec ab still und o ts,
    run_round exec offers sched descs = Done acc dec ab still und ->
    In (o, ts) acc -> pvalid (o_ports o) ->
    NoDup (all_picked ts) /\
    (forall t k p, In t ts -> d_class (t_desc t) = Some k -> inr p (k_static k) = true ->
                   ~ In p (all_picked ts)) /\
    (forall i j ti tj ki kj p, i <> j -> nth_error ts i = Some ti -> nth_error ts j = Some tj ->
        d_class (t_desc ti) = Some ki -> d_class (t_desc tj) = Some kj ->
        inr p (k_static ki) = true -> inr p (k_static kj) = false).

(* refuted by the unchanged code (finding C05-c): static 9000 = first dynamic port *)
Theorem C05_ports_distinct_refuted : ~ C05_ports_distinct_statement.
Proof. exact ports_distinct_refuted. Qed.
Print Assumptions C05_ports_distinct_refuted.

(* what does hold: all dynamic and control ports of all tasks of an offer are pairwise distinct,
   they differ from every static port at or below the data cut-off, and from the picks on any
   other offer whose ports are disjoint (two offers of one agent) *)
Theorem C05_ports_distinct_partial : forall exec offers sched descs acc dec ab still und o ts,
  run_round exec offers sched descs = Done acc dec ab still und ->
  In (o, ts) acc -> pvalid (o_ports o) ->
  NoDup (all_picked ts) /\
  (forall t k p, In t ts -> d_class (t_desc t) = Some k -> inr p (k_static k) = true ->
                 p <= data_port_floor -> ~ In p (all_picked ts)) /\
  (forall o2 ts2, In (o2, ts2) acc -> pvalid (o_ports o2) ->
                  (forall p, pmem p (o_ports o) = true -> pmem p (o_ports o2) = false) ->
                  forall p, In p (all_picked ts) -> ~ In p (all_picked ts2)).
Proof. exact round_ports_distinct. Qed.
Print Assumptions C05_ports_distinct_partial.

(* ------------------------------------------------------------------ sum over one offer *)

Definition C05_request_within_offer_statement : Prop :=
  forall exec offers sched descs acc dec ab still und o ts,
    run_round exec offers sched descs = Done acc dec ab still und ->
    In (o, ts) acc -> ts <> [] ->
    exists c m, o_cpu o = Some c /\ o_mem o = Some m /\
                sumN (map want_cpu ts) <= c /\ sumN (map want_mem ts) <= m.

(* refuted by the unchanged code (finding C05-d): two 0.6-cpu tasks on a 1.0-cpu offer *)
Theorem C05_request_within_offer_refuted : ~ C05_request_within_offer_statement.
Proof. exact request_within_offer_refuted. Qed.
Print Assumptions C05_request_within_offer_refuted.

(* exact side condition: one task on the offer *)
Theorem C05_request_within_offer_partial :
  forall exec offers sched descs acc dec ab still und o t,
    run_round exec offers sched descs = Done acc dec ab still und ->
    In (o, [t]) acc ->
    exists c m, o_cpu o = Some c /\ o_mem o = Some m /\
                sumN (map want_cpu [t]) <= c /\ sumN (map want_mem [t]) <= m.
Proof. exact request_within_offer_single. Qed.
Print Assumptions C05_request_within_offer_partial.

(* even a single TaskInfo may ask for more than the offer holds (finding C05-h: the executor's
   share is added after the comparison); C05_request_as_written gives the exact amount *)
Definition C05_taskinfo_within_offer_statement : Prop :=
  forall exec offers sched descs acc dec ab still und o t,
    run_round exec offers sched descs = Done acc dec ab still und ->
    In (o, [t]) acc ->
    exists c m, o_cpu o = Some c /\ o_mem o = Some m /\ t_cpu t <= c /\ t_mem t <= m.

Theorem C05_taskinfo_within_offer_refuted : ~ C05_taskinfo_within_offer_statement.
Proof. exact taskinfo_within_offer_refuted. Qed.
Print Assumptions C05_taskinfo_within_offer_refuted.

(* ------------------------------------------------------------------ decline *)

Definition C05_unused_declined_statement : Prop :=
  forall exec offers sched descs acc dec ab still und,
    run_round exec offers sched descs = Done acc dec ab still und ->
    (forall o ts, In (o, ts) acc -> ts <> [] -> ~ In (o_id o) dec) /\
    (forall o, In o offers -> ~ In (o_id o) dec ->
       exists o' ts, In (o', ts) acc /\ o_id o' = o_id o /\ ts <> []).

(* refuted by the unchanged code (finding C05-f): the offer is taken out of the decline set,
   then the task is abandoned because the ports resource is used up *)
Theorem C05_unused_declined_refuted : ~ C05_unused_declined_statement.
Proof. exact unused_declined_refuted. Qed.
Print Assumptions C05_unused_declined_refuted.

(* for every schedule: an offer with a launched task is never declined; an offer that is not
   declined carries a launched task or is one of the abandoned ones *)
Theorem C05_unused_declined_partial : forall exec offers sched descs acc dec ab still und,
  run_round exec offers sched descs = Done acc dec ab still und ->
  (forall o ts, In (o, ts) acc -> ts <> [] -> ~ In (o_id o) dec) /\
  (forall o, In o offers -> ~ In (o_id o) dec ->
     (exists o' ts, In (o', ts) acc /\ o_id o' = o_id o /\ ts <> []) \/ In (o_id o) ab).
Proof. exact round_decline. Qed.
Print Assumptions C05_unused_declined_partial.

(* the full statement under the exact side condition "no task was abandoned late" *)
Theorem C05_unused_declined_no_abandon : forall exec offers sched descs acc dec still und,
  run_round exec offers sched descs = Done acc dec [] still und ->
  (forall o ts, In (o, ts) acc -> ts <> [] -> ~ In (o_id o) dec) /\
  (forall o, In o offers -> ~ In (o_id o) dec ->
     exists o' ts, In (o', ts) acc /\ o_id o' = o_id o /\ ts <> []).
Proof. exact unused_declined_no_abandon. Qed.
Print Assumptions C05_unused_declined_no_abandon.

(* ------------------------------------------------------------------ observation: the crash *)

Definition C05_round_completes_statement : Prop :=
  forall exec offers sched descs,
    (forall o, In o offers -> pvalid (o_ports o)) -> run_round exec offers sched descs <> Crash.

(* finding C05-g: an offer without a port above the control cut-off makes Ranges.Min panic *)
Theorem C05_round_crash_witness : ~ C05_round_completes_statement.
Proof. exact round_crash_witness. Qed.
Print Assumptions C05_round_crash_witness.

(* ------------------------------------------------------------------ non-vacuity *)
Definition k_static_of (d : desc) : ranges :=
  match d_class d with Some k => k_static k | None => [] end.
(* a concrete round in which a constrained task with a static range, a TCP channel and a control
   port is launched: the hypotheses of the round theorems are satisfiable *)
Example C05_nonvacuous :
  exists o d t acc dec ab still und,
    run_round w_exec [o] [o] [d] = Done acc dec ab still und /\
    In (o, [t]) acc /\ t_desc t = d /\ pvalid (o_ports o) /\
    d_constraints d <> [] /\ k_static_of d <> [] /\ t_dyn t <> [] /\ t_handed t <> None /\ dec = [].
Proof.
  exists (w_offer [(w_zone, w_z1)] 1000 w_full).
  exists (mkDesc 0 [[mkC w_zone w_z1 0]; [mkC w_zone w_z2 0]] []
                 (Some (w_class 100 [(9050, 9050)] [mkChan 1 true]))).
  do 6 eexists. split; [vm_compute; reflexivity|].
  split; [left; reflexivity|]. split; [reflexivity|]. split; [exact w_full_valid|].
  repeat split; try (vm_compute; discriminate).
Qed.
