(* C05 — tasks are placed only where constraints and resources allow.
   Property theorems only; each closed by [exact] of a lemma from proofs/Placement_proofs.v.

   The model (model/Placement.v) is the placement code of /repo as it is: Attributes.Satisfy,
   Constraints.MergeParent, roleBase.getConstraints, BuildDescriptorConstraints,
   RangesFromExpression, the mesos-go Ranges operations, Resources.Satisfy,
   makeTaskForMesosResources and the OFFERS handler's per-offer loops.  [run_round exec offers
   sched descs] is one OFFERS round: [offers] as received, [sched] the order in which the offer
   goroutines obtain descriptorsMu, [descs] the deployment request.  Every theorem about a round
   holds for every schedule [sched] (no bound on the number of offers, descriptors, constraint
   levels, channels, ranges).  [Done acc dec still und]: ACCEPT calls (offer, launched tasks), the
   DECLINE set, descriptors not deployed / undeployable.  The model describes the code after the
   repairs C05-a..g; the old behaviours are violation classes of the monitor [mon05]. *)
From Verif Require Import Common Gen_Placement Placement Placement_proofs.
Open Scope N_scope.

(* ------------------------------------------------------------------ constraints *)

(* Attributes.Satisfy (repaired, C05-a): with the only operator a template can spell, the
   answer is yes exactly when every constraint is met by the agent's attributes *)
Theorem C05_satisfy_all_constraints : forall a cts,
  forallb is_equals cts = true ->
  (satisfy a cts = true <-> forall c, In c cts -> sat1 a c = true).
Proof. exact satisfy_iff. Qed.
Print Assumptions C05_satisfy_all_constraints.

(* a task is launched only on an agent whose attributes satisfy every constraint of its merged
   constraint list (task template and all enclosing roles) *)
Theorem C05_constraints : forall exec offers sched descs acc dec still und o ts t c,
  run_round exec offers sched descs = Done acc dec still und ->
  In (o, ts) acc -> In t ts ->
  In c (d_constraints (t_desc t)) -> is_equals c = true -> sat1 (o_attrs o) c = true.
Proof. exact round_constraints. Qed.
Print Assumptions C05_constraints.

(* MergeParent, for every pair of lists: an attribute reads as the child's own definition (its
   last entry) if there is one, else as the parent's; a duplicate-free parent stays so *)
Theorem C05_merge_parent_override : forall own parent a,
  lookup_c a (merge_parent own parent) =
  match level_def a own with Some v => Some v | None => lookup_c a parent end.
Proof. exact merge_parent_lookup. Qed.
Print Assumptions C05_merge_parent_override.

Theorem C05_merge_parent_no_duplicates : forall own parent,
  NoDup (attrs_of parent) -> NoDup (attrs_of (merge_parent own parent)).
Proof. exact merge_parent_nodup. Qed.
Print Assumptions C05_merge_parent_no_duplicates.

(* the merged list invents nothing: every entry is written at some level *)
Theorem C05_merge_nothing_invented : forall levels k x,
  In x (desc_constraints levels k) -> exists l, In l (all_levels levels k) /\ In x l.
Proof. exact desc_constraints_in. Qed.
Print Assumptions C05_merge_nothing_invented.

(* "a nearer definition of the same attribute overrides a farther one" (repaired, C05-e): for
   every tree depth and every distribution of an attribute over the levels - duplicates inside
   any role's own list included - the constraints of the roles name no attribute twice and read
   as the nearest definition *)
Theorem C05_role_constraints_nearest : forall levels,
  NoDup (attrs_of (get_constraints levels)) /\
  forall a, lookup_c a (get_constraints levels) = nearest a levels.
Proof. exact get_constraints_nearest. Qed.
Print Assumptions C05_role_constraints_nearest.

(* with the class constraints as the farthest level: the nearest definition of every attribute
   is an entry of the merged list, whatever the lists look like ... *)
Theorem C05_merge_has_nearest : forall levels k a v,
  nearest a (all_levels levels k) = Some v ->
  exists c, In c (desc_constraints levels k) /\ c_attr c = a /\ c_val c = v.
Proof. exact desc_constraints_has_nearest. Qed.
Print Assumptions C05_merge_has_nearest.

(* ... and when the class list names no attribute twice the merged list does not either and
   reads as the nearest definition (a class list with a duplicate keeps both entries: the task
   is then only more constrained) *)
Theorem C05_merge_nearest : forall levels k,
  match k with Some kc => NoDup (attrs_of kc) | None => True end ->
  NoDup (attrs_of (desc_constraints levels k)) /\
  forall a, lookup_c a (desc_constraints levels k) = nearest a (all_levels levels k).
Proof. exact desc_constraints_nearest. Qed.
Print Assumptions C05_merge_nearest.

(* the property's first sentence end to end, for every constraint lists: a launched task's agent
   satisfies the nearest definition of every attribute (Equals is the only operator that exists) *)
Theorem C05_constraints_nearest :
  forall exec offers sched descs acc dec still und o ts t k a v,
    run_round exec offers sched descs = Done acc dec still und ->
    In (o, ts) acc -> In t ts -> d_class (t_desc t) = Some k ->
    (forall l, In l (d_levels (t_desc t) ++ [k_cts k]) -> forallb is_equals l = true) ->
    nearest a (d_levels (t_desc t) ++ [k_cts k]) = Some v ->
    sat1 (o_attrs o) (mkC a v 0) = true.
Proof. exact round_constraints_nearest. Qed.
Print Assumptions C05_constraints_nearest.

(* "the task template" is what was loaded LAST: the class cache between the template files and
   the scheduler (Classes.UpdateClass / GetClass), for every history of loads and reloads of any
   identifiers: GetClass returns the class written last under that identifier ... *)
Theorem C05_class_cache_last_write : forall (ops : list (N * klass)) k,
  cache_get k (cache_run ops) = last_written k ops.
Proof. exact (@cache_last_write_wins klass). Qed.
Print Assumptions C05_class_cache_last_write.

(* ... so a reload under the same identifier always replaces the template, whatever the old and
   the new version have in common (command, wants, ...) *)
Theorem C05_class_cache_reload : forall (ops : list (N * klass)) k v,
  cache_get k (cache_run (ops ++ [(k, v)])) = Some v.
Proof. exact (@cache_reload klass). Qed.
Print Assumptions C05_class_cache_reload.

(* ------------------------------------------------------------------ resources *)

(* a launched task has a known class, and the offer's cpu, memory and (for well-formed ranges)
   ports cover what the template asks for *)
Theorem C05_resources_cover : forall exec offers sched descs acc dec still und o ts t k,
  run_round exec offers sched descs = Done acc dec still und ->
  In (o, ts) acc -> In t ts -> d_class (t_desc t) = Some k ->
  (exists c, o_cpu o = Some c /\ k_cpu k <= c) /\
  (exists m, o_mem o = Some m /\ k_mem k <= m) /\
  (pvalid (o_ports o) -> Forall rvalid (k_static k) ->
   forall p, inr p (k_static k) = true -> pmem p (o_ports o) = true).
Proof. exact round_resources. Qed.
Print Assumptions C05_resources_cover.

Theorem C05_launched_has_class : forall exec offers sched descs acc dec still und o ts t,
  run_round exec offers sched descs = Done acc dec still und ->
  In (o, ts) acc -> In t ts -> exists k, d_class (t_desc t) = Some k.
Proof. exact round_class. Qed.
Print Assumptions C05_launched_has_class.

(* Resources.Satisfy says yes only if cpu, memory, the static ranges and the number of channel
   ports are covered by what is left of the offer *)
Theorem C05_resources_satisfy_sound : forall cpu mem pr wc wm static n,
  pvalid pr -> res_satisfy cpu mem pr wc wm static n = true ->
  (exists c, cpu = Some c /\ wc <= c) /\
  (exists m, mem = Some m /\ wm <= m) /\
  (exists av, ports_of pr = Some av /\ n <= rsize av - rsize (canon static)) /\
  (Forall rvalid static -> forall p, inr p static = true -> pmem p pr = true).
Proof. exact res_satisfy_sound. Qed.
Print Assumptions C05_resources_satisfy_sound.

(* ------------------------------------------------------------------ ports *)

(* every dynamic port and the control port come from the offer, dynamic ports lie above the data
   cut-off and the control port above the control cut-off (both read from scheduler.go) *)
Theorem C05_ports_from_offer : forall exec offers sched descs acc dec still und o ts t,
  run_round exec offers sched descs = Done acc dec still und ->
  In (o, ts) acc -> In t ts -> pvalid (o_ports o) ->
  (forall p, In p (picked t) -> pmem p (o_ports o) = true) /\
  (forall p, In p (map snd (t_dyn t)) -> data_port_floor < p) /\
  control_port_floor < t_ctl t.
Proof. exact round_ports_from_offer. Qed.
Print Assumptions C05_ports_from_offer.

(* one dynamic port per inbound TCP channel (role channels first, a name counts once; IPC
   channels take none), and the control port is handed over exactly to controllable tasks *)
Theorem C05_ports_per_channel : forall exec offers sched descs acc dec still und o ts t k,
  run_round exec offers sched descs = Done acc dec still und ->
  In (o, ts) acc -> In t ts -> d_class (t_desc t) = Some k ->
  map fst (t_dyn t) = map ch_name (filter ch_tcp (merge_inbound (d_rbind (t_desc t)) (k_bind k))) /\
  t_handed t = (if k_controllable k then Some (t_ctl t) else None).
Proof. exact round_ports_per_channel. Qed.
Print Assumptions C05_ports_per_channel.

(* static ranges exactly as written (repaired, C05-b): whatever ranges a template spells in the
   "a", "a-b", comma-separated notation are what RangesFromExpression returns ... *)
Theorem C05_static_as_written : forall l,
  Forall fits l -> parse_ranges (print_ranges l) = Some l.
Proof. exact parse_print_roundtrip. Qed.
Print Assumptions C05_static_as_written.

(* ... and the TaskInfo asks for exactly these static ranges, the dynamic ports and the control
   port; its cpu / memory are the template's plus the executor's share *)
Theorem C05_request_as_written : forall exec offers sched descs acc dec still und o ts t k,
  run_round exec offers sched descs = Done acc dec still und ->
  In (o, ts) acc -> In t ts -> d_class (t_desc t) = Some k ->
  t_cpu t = k_cpu k + fst exec /\ t_mem t = k_mem k + snd exec /\
  (Forall rvalid (k_static k) ->
   forall p, inr p (t_req t) = inr p (k_static k) || memN p (picked t)).
Proof. exact round_request. Qed.
Print Assumptions C05_request_as_written.

(* ports handed to tasks are pairwise distinct on an agent (repaired, C05-c: the static ranges
   are claimed before any port is picked, and everything a task holds is taken out of what is left
   for the next one).  [claimed p t]: p is a dynamic port, the control port or - the task's static
   ranges being well formed - a static port of t.  No port is held by two tasks of an offer;
   within a task the dynamic and control ports differ from each other and from its static ports;
   tasks on offers with disjoint ports (two offers of one agent) never share a port. *)
Theorem C05_ports_distinct : forall exec offers sched descs acc dec still und o ts,
  run_round exec offers sched descs = Done acc dec still und ->
  In (o, ts) acc -> pvalid (o_ports o) ->
  ForallOrdPairs disjoint_claims ts /\
  NoDup (all_picked ts) /\
  (forall t, In t ts -> NoDup (picked t) /\
     (Forall rvalid (static_of_task t) -> forall p, In p (picked t) -> inr p (static_of_task t) = false)) /\
  (forall o2 ts2 t t2, In (o2, ts2) acc -> pvalid (o_ports o2) ->
     (forall p, pmem p (o_ports o) = true -> pmem p (o_ports o2) = false) ->
     In t ts -> In t2 ts2 -> disjoint_claims t t2).
Proof. exact round_ports_distinct. Qed.
Print Assumptions C05_ports_distinct.

(* ------------------------------------------------------------------ sum over one offer *)

(* what is requested for all tasks launched on one offer does not exceed that offer (repaired,
   C05-d: every complete request is subtracted from what is left): the template wants of all
   tasks of an offer add up to at most the offered cpu / memory, and the TaskInfo totals exceed
   the offer by at most one executor share *)
Theorem C05_request_within_offer : forall exec offers sched descs acc dec still und o ts,
  run_round exec offers sched descs = Done acc dec still und ->
  In (o, ts) acc -> ts <> [] ->
  exists c m, o_cpu o = Some c /\ o_mem o = Some m /\
              sumN (map want_cpu ts) <= c /\ sumN (map want_mem ts) <= m /\
              used_cpu ts <= c + fst exec /\ used_mem ts <= m + snd exec.
Proof. exact round_request_within_offer. Qed.
Print Assumptions C05_request_within_offer.

(* that one executor share is real (finding C05-h, kept: the executor's resources are added to
   the request after Resources.Satisfy compared the wants alone) *)
Definition C05_taskinfo_within_offer_statement : Prop :=
  forall exec offers sched descs acc dec still und o t,
    run_round exec offers sched descs = Done acc dec still und ->
    In (o, [t]) acc ->
    exists c m, o_cpu o = Some c /\ o_mem o = Some m /\ t_cpu t <= c /\ t_mem t <= m.

Theorem C05_taskinfo_within_offer_refuted : ~ C05_taskinfo_within_offer_statement.
Proof. exact taskinfo_within_offer_refuted. Qed.
Print Assumptions C05_taskinfo_within_offer_refuted.

(* ------------------------------------------------------------------ decline *)

(* offers that are not used are declined (repaired, C05-f: an offer leaves the decline set only
   when a task is complete) - for every schedule: an offer with a launched task is never declined,
   and an offer that is not declined carries a launched task *)
Theorem C05_unused_declined : forall exec offers sched descs acc dec still und,
  run_round exec offers sched descs = Done acc dec still und ->
  (forall o ts, In (o, ts) acc -> ts <> [] -> ~ In (o_id o) dec) /\
  (forall o, In o offers -> ~ In (o_id o) dec ->
     exists o' ts, In (o', ts) acc /\ o_id o' = o_id o /\ ts <> []).
Proof. exact round_decline. Qed.
Print Assumptions C05_unused_declined.

(* ------------------------------------------------------------------ the handler finishes *)

(* repaired, C05-g: a port is only picked from a non-empty set, otherwise the task does not fit;
   every round ends with an outcome (the model has no crash outcome any more; a crash observed
   on the implementation is monitor class 20/21) *)
Theorem C05_round_completes : forall exec offers sched descs,
  exists acc dec still und, run_round exec offers sched descs = Done acc dec still und.
Proof. exact run_round_completes. Qed.
Print Assumptions C05_round_completes.

(* ------------------------------------------------------------------ non-vacuity *)
Definition k_static_of (d : desc) : ranges :=
  match d_class d with Some k => k_static k | None => [] end.
(* a concrete round in which a constrained task with a static range, a TCP channel and a control
   port is launched next to a second task: the hypotheses of the round theorems are satisfiable *)
Example C05_nonvacuous :
  exists o d d2 t t2 acc dec still und,
    run_round w_exec [o] [o] [d; d2] = Done acc dec still und /\
    In (o, [t2; t]) acc /\ t_desc t = d /\ pvalid (o_ports o) /\
    d_constraints d <> [] /\ k_static_of d <> [] /\ t_dyn t <> [] /\ t_handed t <> None /\ dec = [].
Proof.
  exists (w_offer [(w_zone, w_z1)] 1000 w_full).
  exists (mkDesc 0 [[mkC w_zone w_z1 0]; [mkC w_zone w_z2 0]] []
                 (Some (w_class 100 [(9050, 9050)] [mkChan 1 true]))).
  exists (mkDesc 1 [[]] [] (Some (w_class 100 [(9000, 9000)] [mkChan 2 true]))).
  do 6 eexists. split; [vm_compute; reflexivity|].
  split; [left; reflexivity|]. split; [reflexivity|]. split; [exact w_full_valid|].
  repeat split; try (vm_compute; discriminate).
Qed.
