(* C08 — hooks run at their declared moment, in weight order, awaited where declared.
   Property theorems only; the lemmas are in proofs/EnvHooks_proofs.v, the model in
   model/EnvHooks.v (handleHooks, the four looplab callbacks, Calls.StartAll/AwaitAll,
   callsPendingAwait, teardown cancellation, ParseTriggerExpression).
   All statements are for arbitrary hook sets (any number of hooks, any integer weights, any
   trigger / await points), arbitrary oracles (which calls fail, hook task outcomes) and, where a
   history is involved, arbitrary sequences of operations from an arbitrary initial state. *)
From Verif Require Import Common EnvHooks EnvHooks_proofs.
From Coq Require Import ZArith List Bool Sorting.Sorted.
Import ListNotations.
Open Scope N_scope.

(* Order.  [tkey] maps every event of a transition's trace to
     (5 * phase + segment, 3 * weight + (0 call started | 1 call collected | 2 hook tasks run))
   with phase 0 before_<event>, 1 leave_<state>, 2 task transition, 3 enter_<state>, 4 after_<event>
   and segment 0 step begins, 1 negative weights, 2 built-in work, 3 non-negative weights, 4 step
   ends.  The trace of every transition is sorted by that key: moments in the documented order,
   inside a moment ascending weight, at one weight all calls are started before any is awaited
   and before the hook tasks of that weight run. *)
Theorem C08_order : forall hooks orc e b s s' t r d,
  transition hooks orc e b s = (s', t, r) -> dst_of e (e_st s) = Some d ->
  StronglySorted kle (map (tkey e (e_st s) d) t).
Proof. exact transition_sorted. Qed.
Print Assumptions C08_order.

(* the weights one handleHooks pass visits are strictly ascending (no weight twice) *)
Theorem C08_pass_weights_ascending : forall hooks m pred s,
  StronglySorted Z.lt (pass_weights hooks m pred s).
Proof. exact pass_weights_sorted. Qed.
Print Assumptions C08_pass_weights_ascending.

(* Built-in work of before_<event> (run number, start / end stamps; marked by the STARTED run
   event) lies after every call of negative weight and before every call of non-negative weight *)
Theorem C08_builtin_split_before : forall hooks orc e b s s' t r d t1 tr rn t2,
  transition hooks orc e b s = (s', t, r) -> dst_of e (e_st s) = Some d ->
  t = t1 ++ TRun tr 0 rn :: t2 ->
  (forall i h snap, In (TStart i h snap) t1 ->
     fst (h_trig h) = MBefore e /\ wneg (snd (h_trig h)) = true) /\
  (forall i h snap, In (TStart i h snap) t2 -> fst (h_trig h) = MBefore e ->
     wnonneg (snd (h_trig h)) = true).
Proof. exact builtin_split_before. Qed.
Print Assumptions C08_builtin_split_before.

Theorem C08_builtin_split_after : forall hooks orc e b s s' t r d t1 tr st rn t2,
  transition hooks orc e b s = (s', t, r) -> dst_of e (e_st s) = Some d ->
  t = t1 ++ TRun tr st rn :: t2 -> st <> 0 ->
  (forall i h snap, In (TStart i h snap) t1 -> fst (h_trig h) = MAfter e ->
     wneg (snd (h_trig h)) = true) /\
  (forall i h snap, In (TStart i h snap) t2 -> fst (h_trig h) = MAfter e ->
     wnonneg (snd (h_trig h)) = true).
Proof. exact builtin_split_after. Qed.
Print Assumptions C08_builtin_split_after.

(* Never before the trigger point: walking the trace of a transition with the currently open
   transition step, every call is started while the step of its own trigger moment is open
   ([ne_walk] returns None otherwise).  Together with C08_order (which places the start after
   everything of a smaller weight of that moment) this is "not before its trigger point". *)
Theorem C08_not_early : forall hooks orc e b s s' t r,
  transition hooks orc e b s = (s', t, r) -> exists o, ne_walk None t = Some o.
Proof. exact transition_not_early. Qed.
Print Assumptions C08_not_early.

(* Await: when handleHooks has gone through the weights of a moment without a critical failure,
   whatever is still pending at a point of that pass was started after the point had been passed
   (so the state machine never moves past the await point of a call that is running).  This used
   to be false for an await point at a later weight where no hook is triggered (former finding
   C08-a, repaired: the weight list of a pass now contains the await weights of its calls). *)
Theorem C08_await_blocks : forall hooks orc m pred s s' t,
  run_pass hooks orc m pred s = (s', t, POk) ->
  forall w i, In ((m, w), i) (e_pend s') -> pred w = true ->
    exists h snap, In (TStart i h snap) t /\ h_await h = (m, w) /\ (w < snd (h_trig h))%Z.
Proof. exact run_pass_await. Qed.
Print Assumptions C08_await_blocks.

(* The await step waits for all: one weight step of handleHooks collects every call awaited at
   that point (already pending there, or just started with its await at this very point),
   independently of which of them fail and of what the hook tasks of the weight do, and leaves
   nothing awaited at that point in the pending set.  (Calls.AwaitAll returns only when every call
   of the slice has returned; an early return on the first error / first result breaks this.) *)
Theorem C08_await_all : forall hooks orc m w s s' t f c i,
  do_weight hooks orc m w s = (s', t, f, c) ->
  (In ((m, w), i) (e_pend s) \/
   exists h, In h hooks /\ is_call h = true /\ h_trig h = (m, w) /\ h_await h = (m, w) /\ i = new_inst orc h) ->
  In (TCollect i (m, w)) t /\ ~ In ((m, w), i) (e_pend s') /\
  (forall q j, In (q, j) (e_pend s') -> q <> (m, w)).
Proof. exact do_weight_await_all. Qed.
Print Assumptions C08_await_all.

(* callsPendingAwait is exact: over any history, for every set [g] of call instances, the
   instances started so far are the ones collected so far plus the ones pending (counted with
   multiplicity, so nothing is collected twice and nothing is lost) *)
Theorem C08_pending_exact : forall hooks ops init s l (g : inst -> bool),
  run_ops hooks 0 ops (est0 init) = (s, l) ->
  nf g (starts (full_trace l)) = (nf g (collects (full_trace l)) + pn g s)%nat.
Proof. exact pending_exact. Qed.
Print Assumptions C08_pending_exact.

(* ... hence no result is ever taken twice or of a call that was never started, and nothing is
   pending that was not started (for every set [g] of instances, over any history) *)
Theorem C08_collected_within_started : forall hooks ops init s l (g : inst -> bool),
  run_ops hooks 0 ops (est0 init) = (s, l) ->
  (nf g (collects (full_trace l)) <= nf g (starts (full_trace l)))%nat /\
  (pn g s <= nf g (starts (full_trace l)))%nat.
Proof. exact collected_within_started. Qed.
Print Assumptions C08_collected_within_started.

(* Collected exactly once, or cancelled at teardown: after any history followed by a cancelling
   operation (teardown) that did not crash, every started instance has been collected or
   cancelled, each exactly once (multiset equality, stated for every set [g] of instances) *)
Theorem C08_collect_once : forall hooks ops init s l i fin s' t r (g : inst -> bool),
  run_ops hooks 0 ops (est0 init) = (s, l) ->
  is_cancel_op fin = true -> run_op hooks i fin s = (s', t, r) -> r <> RCrash ->
  nf g (starts (full_trace l ++ t)) =
  (nf g (collects (full_trace l ++ t)) + nf g (cancels t))%nat.
Proof. exact collect_once. Qed.
Print Assumptions C08_collect_once.

(* Teardown: every call hook declared at DESTROY or after_DESTROY is called and collected on the
   spot, whatever other hooks share its weight (former finding C08-b, repaired: the after_DESTROY
   hooks of a weight used to replace its DESTROY hooks). *)
Theorem C08_destroy_hooks_all_run : forall hooks orc s h,
  In h hooks -> is_call h = true -> fst (h_trig h) = MDestroy \/ fst (h_trig h) = MAfterDestroy ->
  In (TStart (new_inst orc h) h (e_rv s)) (destroy_trace hooks orc s) /\
  In (TCollect (new_inst orc h) (h_trig h)) (destroy_trace hooks orc s).
Proof. exact destroy_all_run. Qed.
Print Assumptions C08_destroy_hooks_all_run.

(* Trigger expression = name +/- weight: no sign character means weight +0 ... *)
Theorem C08_parse_plain : forall s, no_sign s -> parse_trigger s = (s, 0%Z).
Proof. exact parse_trigger_plain. Qed.
Print Assumptions C08_parse_plain.

(* ... otherwise the split is at the last sign character, whatever the name contains, and a
   weight that is not a decimal number in int64 range counts as 0 *)
Theorem C08_parse_signed : forall name c ds, is_sign c = true -> no_sign ds ->
  parse_trigger (name ++ c :: ds) =
  (name, match atoi_signed (c :: ds) with Some v => v | None => 0%Z end).
Proof. exact parse_trigger_signed. Qed.
Print Assumptions C08_parse_signed.

(* Non-vacuity: three calls at weights -50, 0, +50 of before_CONFIGURE (the case of
   hooks_test.go), one call triggered at leave_DEPLOYED and awaited at after_CONFIGURE, and a
   call never awaited; CONFIGURE succeeds, its trace has 5 starts and 4 collects, the teardown
   cancels the fifth. *)
Definition ex_hooks : list hook :=
  [ mkHook 1 HCall (MBefore CONFIGURE, 50%Z) (MBefore CONFIGURE, 50%Z) true;
    mkHook 2 HCall (MBefore CONFIGURE, 0%Z) (MBefore CONFIGURE, 0%Z) true;
    mkHook 3 HCall (MBefore CONFIGURE, (-50)%Z) (MBefore CONFIGURE, (-50)%Z) true;
    mkHook 4 HCall (MLeave DEPLOYED, 0%Z) (MAfter CONFIGURE, 1%Z) false;
    mkHook 5 HCall (MEnter CONFIGURED, 0%Z) (MOther 0, 0%Z) false ].
Definition ex_ops : list op := [mkOp (OEvent CONFIGURE) BOk [] [] []].

Example C08_nonvacuous :
  exists s l, run_ops ex_hooks 0 ex_ops (est0 DEPLOYED) = (s, l) /\
    e_st s = CONFIGURED /\
    map i_hook (starts (full_trace l)) = [3; 2; 1; 4; 5] /\
    map i_hook (collects (full_trace l)) = [3; 2; 1; 4] /\
    map (fun x => i_hook (snd x)) (e_pend s) = [5] /\
    exists s' t, run_op ex_hooks 1 (mkOp OLeaveCancel BOk [] [] []) s = (s', t, ROk) /\
                 map i_hook (cancels t) = [5].
Proof.
  destruct (run_ops ex_hooks 0 ex_ops (est0 DEPLOYED)) as [s l] eqn:E.
  vm_compute in E. inversion E; subst. eexists; eexists. split; [reflexivity|].
  repeat (split; [vm_compute; reflexivity|]).
  eexists; eexists. split; vm_compute; reflexivity.
Qed.
