(* C18 — a restarted core kills what it no longer owns, and only that.
   Property theorems only; each closed by [exact] of a lemma from proofs/Reconcile_proofs.v.

   Vocabulary (model/Reconcile.v): a history is a list of operations on the world "Mesos master +
   persisted framework id + one core life"; [OCrash p k] is a crash while a new environment of k
   tasks stands at point p (idle / before the launch / after the launch / mid-CONFIGURE), crashes
   of RUNNING environments and of half-done teardowns are [OCrash PIdle] after [OStart] /
   [ODestroyStuck] / [ODestroy _ true]; [OReconnect] is a dropped and re-established master
   connection; [OAnswer] processes ONE reconciliation answer, so a history also fixes how the
   answers interleave with everything else.  [OCreateHeld k s] is an environment creation stopped
   in the launch window (tasks accepted and in the roster, first TASK_RUNNING not delivered),
   [ORun t] the (first) TASK_RUNNING of a task, [OLost t] a TASK_LOST for a task the master keeps.
   [OLoseAnswers] loses the reconciliation answers in flight; [OCrashLost p k] / [OReconnectLost]
   are a restart / reconnection whose answers are lost, followed by the automatic re-subscription.  [boot true] is the world after the very first
   SUBSCRIBE with failover enabled; [no_tamper] = nobody but the core writes the stored id.
   The KILL rule (states, tasks of the roster skipped or not) is regenerated from
   core/task/manager.go on every run (gen/Gen_Reconcile.v). *)
From Verif Require Import Common Gen_Reconcile Reconcile Reconcile_proofs.
Open Scope N_scope.

(* --- same framework identity ------------------------------------------------------------- *)

(* At every crash point and every reconnection point, for every history: each SUBSCRIBE after
   the first carries the id the first one was given (1), every task is launched under it, it is
   what the store and the running life hold, and every task at the master belongs to it. *)
Theorem C18_same_identity : forall ops,
  no_tamper ops = true ->
  let w := after (boot true) ops in
  (forall c i, In (CSubscribe c i) (calls_of (boot true) ops) -> c = true /\ i = 1) /\
  (forall t f, In (CLaunch t f) (calls_of (boot true) ops) -> f = 1) /\
  w_mem w = 1 /\ w_store w = Some 1 /\ (forall t, In t (w_master w) -> mt_fw t = 1).
Proof. exact same_identity. Qed.
Print Assumptions C18_same_identity.

(* Whatever the failover setting: a task is only ever launched under a non-empty framework id
   that is already in the store. *)
Theorem C18_id_stored_before_launch : forall fo ops o t f,
  no_tamper ops = true ->
  In (CLaunch t f) (snd (step (after (boot fo) ops) o)) ->
  w_store (after (boot fo) ops) = Some f /\ f <> 0.
Proof. exact stored_before_launch. Qed.
Print Assumptions C18_id_stored_before_launch.

(* --- a restart kills what the new life does not own ---------------------------------------- *)

(* Every state in which Mesos reports a task alive is in the regenerated KILL rule. *)
Theorem C18_live_states_all_killed :
  forallb (fun s => memN s recon_kill_states) mesos_live_states = true.
Proof. exact live_states_killed. Qed.
Print Assumptions C18_live_states_all_killed.

(* After a restart at any crash point of any history, whatever the new life then does (create,
   transition, destroy, clean up, tasks dying) and however the reconciliation answers interleave
   with it: once the answers are processed, everything alive at the master is in the roster of
   the new life. *)
Theorem C18_restart_kills_orphans : forall ops p k ops',
  no_tamper ops = true -> forallb tame ops' = true ->
  let w1 := fst (step (after (boot true) ops) (OCrash p k)) in
  let w2 := after w1 ops' in
  w_pending w2 = [] ->
  forall t, In t (w_master w2) -> mt_alive t = true -> in_roster (mt_id t) (w_roster w2) = true.
Proof. exact restart_kills_orphans. Qed.
Print Assumptions C18_restart_kills_orphans.

(* At the quiescent point right after the restart nothing is alive at the master, and the new
   instance lists no task and no environment. *)
Theorem C18_restart_leaves_nothing_alive : forall ops p k,
  no_tamper ops = true ->
  let w2 := fst (hstep (after (boot true) ops) (OCrash p k)) in
  (forall t, In t (w_master w2) -> mt_alive t = false) /\ w_roster w2 = [] /\ w_envs w2 = [].
Proof. exact restart_quiescent. Qed.
Print Assumptions C18_restart_leaves_nothing_alive.

(* Every task alive at the master when the core dies receives a KILL call. *)
Theorem C18_restart_kill_calls : forall ops p k x,
  no_tamper ops = true ->
  let w := after (boot true) ops in
  In x (w_master w) -> mt_alive x = true ->
  In (CKill (mt_id x)) (snd (hstep w (OCrash p k))).
Proof. exact restart_kill_calls. Qed.
Print Assumptions C18_restart_kill_calls.

(* --- a lost reconciliation is repeated by the next subscription ----------------------------- *)

(* EVERY (re)subscription is followed by the implicit reconciliation (reconcile_every_subscribed =
   true is what the translator reads off the handler reconciliationCall installs in the SUBSCRIBED
   chain: the RECONCILE call is under no condition - no latch, no counter).  So whatever happened
   before - in particular the answers of earlier reconciliations LOST at any point ([OLoseAnswers]:
   the connection dropped before they were delivered, or the RECONCILE call failed) - after any
   (re)subscription [o] (restart, reconnection, or either of them with its own answers lost and
   the automatic re-subscription: [OCrashLost], [OReconnectLost]) and whatever the life then does,
   once the answers are processed everything alive at the master is in the roster: no task of a
   previous life survives unowned. *)
Theorem C18_lost_reconciliation_is_repeated : forall ops o ops',
  no_tamper ops = true -> is_sub o = true -> forallb tame ops' = true ->
  let w1 := fst (step (after (boot true) ops) o) in
  let w2 := after w1 ops' in
  w_pending w2 = [] ->
  forall t, In t (w_master w2) -> mt_alive t = true -> in_roster (mt_id t) (w_roster w2) = true.
Proof. exact resubscription_kills_orphans. Qed.
Print Assumptions C18_lost_reconciliation_is_repeated.

(* A restart whose first reconciliation is lost, at the quiescent point after the automatic
   re-subscription and its answers: nothing is alive at the master. *)
Theorem C18_restart_with_lost_reconciliation : forall ops p k,
  no_tamper ops = true ->
  let w2 := fst (hstep (after (boot true) ops) (OCrashLost p k)) in
  (forall t, In t (w_master w2) -> mt_alive t = false) /\ w_roster w2 = [] /\ w_envs w2 = [].
Proof. exact restart_lost_quiescent. Qed.
Print Assumptions C18_restart_with_lost_reconciliation.

(* The two compound operations of the harness are such histories. *)
Theorem C18_lost_operations_are_histories : forall w p k,
  step w (OCrashLost p k) = run w [OCrash p k; OLoseAnswers; OReconnect] /\
  step w OReconnectLost = run w [OReconnect; OLoseAnswers; OReconnect].
Proof. intros w p k. split; [exact (crash_lost_is_run w p k)|exact (reconnect_lost_is_run w)]. Qed.
Print Assumptions C18_lost_operations_are_histories.

(* --- ... and only that: owned tasks are never killed by reconciliation --------------------- *)

(* The KILL rule of handleMessage skips the tasks it finds in the roster (recon_guarded = true is
   what the translator reads off core/task/manager.go since the repair of finding C18-a; with the
   rule that did not look the task up the three theorems below no longer check, and the history
   [c18_witness] = create one task, reconnect, process the answer - first corpus case of the
   harness - shows up as monitor code 4). *)

(* Full statement: from every world (whatever the failover setting, tampering or not), along
   every history - restarts at any crash point, reconnections at any point, the answers
   interleaved in any way with the activity of the life - no reconciliation answer makes the core
   send KILL to a task that is in the roster, locked by a live environment. *)
Theorem C18_reconciliation_spares_owned : forall w ops, spares_owned w ops = true.
Proof. exact spares_owned_full. Qed.
Print Assumptions C18_reconciliation_spares_owned.

(* The same at the level of the calls: a KILL sent while a reconciliation answer is processed
   goes to a task that is not in the roster of the current life at all - a fortiori not an owned
   one. *)
Theorem C18_reconciliation_kills_only_unrostered : forall w t,
  In (CKill t) (snd (step w OAnswer)) -> in_roster t (w_roster w) = false /\ owned w t = false.
Proof. exact answer_kills_unrostered. Qed.
Print Assumptions C18_reconciliation_kills_only_unrostered.

(* A mere reconnection, with all its reconciliation answers processed, costs the current life
   nothing: the roster has the same tasks with the same locks and none has lost its ACTIVE mark
   ([keeps]: the ones the master reports RUNNING are ACTIVE afterwards, the ordinary effect of a
   status update), the environments are what they were, every task of the roster is at the
   master exactly as before (alive if it was), and whatever KILL was sent went to tasks outside
   the roster (e.g. the leftovers of a teardown whose KILLs had stayed unanswered).  [w] is any
   world: in particular one in the LAUNCH WINDOW (OCreateHeld: tasks accepted and in the roster,
   first TASK_RUNNING not delivered, so not ACTIVE) or with tasks written off after a TASK_LOST
   that the master still has (OLost). *)
Theorem C18_reconnect_loses_nothing : forall w,
  let r := hstep w OReconnect in
  keeps (w_roster w) (w_roster (fst r)) /\ w_envs (fst r) = w_envs w /\
  (forall x, In x (w_master w) -> in_roster (mt_id x) (w_roster w) = true -> In x (w_master (fst r))) /\
  (forall t, In (CKill t) (snd r) -> in_roster t (w_roster w) = false).
Proof. exact reconnect_untouched. Qed.
Print Assumptions C18_reconnect_loses_nothing.

(* Reconciliation answers need not carry executor_id, agent_id or source (master-generated
   statuses).  updateTaskStatus refreshes the ids of the roster task only from fields the status
   carries (status_refresh_guarded = true is what the translator reads off the guards around the
   two assignments; unguarded, an answer without them blanks the id and Task.isLocked turns false):
   processing an answer that lacks any of them is processing a complete one, and no answer takes
   the lock of a roster task away ([keeps]: same environment, ACTIVE mark not lost). *)
Theorem C18_answers_never_unlock : forall w om,
  step w (OAnswerBare om) = step w OAnswer /\
  keeps (w_roster w) (w_roster (fst (step w (OAnswerBare om)))).
Proof. exact answers_never_unlock. Qed.
Print Assumptions C18_answers_never_unlock.

(* So a reconnection answered that way loses nothing either - and, the world being the same, neither
   does any later operation (Cleanup, a new CreateEnvironment, another reconnection). *)
Theorem C18_bare_answers_lose_nothing : forall w om,
  hstep w (OReconnectOmit om) = hstep w OReconnect /\
  (let r := hstep w (OReconnectOmit om) in
   keeps (w_roster w) (w_roster (fst r)) /\ w_envs (fst r) = w_envs w /\
   (forall x, In x (w_master w) -> in_roster (mt_id x) (w_roster w) = true -> In x (w_master (fst r))) /\
   (forall t, In (CKill t) (snd r) -> in_roster t (w_roster w) = false)).
Proof. intros w om. split; [apply reconnect_omit_is_reconnect|apply reconnect_omit_untouched]. Qed.
Print Assumptions C18_bare_answers_lose_nothing.

(* --- ownership is only ever ended by the teardown of the environment or by a restart --------- *)

(* In every world reachable from boot (any failover setting, any history) a task that is in the
   roster, locked by a live environment [e], is still in the roster and locked by [e] after ANY
   operation that is neither the teardown of [e] nor a restart - in particular after kill requests:
   Cleanup, the Cleanup of a CreateEnvironment, and KillTasks with a list of ids that names stale,
   dead or locked tasks ([OKillIds]: the regenerated killtasks_removes_unlisted = false - KillTasks
   writes the roster with nothing but its kill list).  So the next reconciliation finds it in the
   roster and spares it (C18_reconciliation_kills_only_unrostered). *)
Theorem C18_ownership_survives : forall fo ops o t e,
  tears_down o e = false ->
  Own (after (boot fo) ops) t e -> Own (fst (step (after (boot fo) ops) o)) t e.
Proof. exact ownership_survives. Qed.
Print Assumptions C18_ownership_survives.

(* [Own] is what the other theorems call owned / in the roster. *)
Theorem C18_own_is_owned : forall w t e,
  Own w t e -> in_roster t (w_roster w) = true /\ owned w t = true.
Proof. exact own_in_roster. Qed.
Print Assumptions C18_own_is_owned.

(* "... and only that": a task owned by a live environment of the current life is never sent
   KILL while a reconciliation answer is processed, in any state at all, whatever the answer says *)
Theorem C18_owned_never_killed_by_answer : forall w t e,
  Own w t e -> ~ In (CKill t) (snd (step w OAnswer)).
Proof. exact owned_never_killed_by_answer. Qed.
Print Assumptions C18_owned_never_killed_by_answer.

(* ... nor by a mere reconnection to the master with all its reconciliation answers processed *)
Theorem C18_owned_never_killed_by_reconnect : forall w t e,
  Own w t e -> ~ In (CKill t) (snd (hstep w OReconnect)).
Proof. exact owned_never_killed_by_reconnect. Qed.
Print Assumptions C18_owned_never_killed_by_reconnect.

(* What makes a roster task ACTIVE or INACTIVE (regenerated from updateTaskStatus): TASK_RUNNING
   activates, TASK_LOST and TASK_FAILED deactivate, no state in which the master has a task
   alive deactivates, and TASK_RUNNING is the only live state that activates.  So INACTIVE roster
   tasks that are alive at the master exist (launch window, TASK_LOST) - the theorems above speak
   of roster membership, never of that mark. *)
Theorem C18_status_rule :
  memN mesos_running status_activating = true /\
  memN mesos_lost status_deactivating = true /\ memN mesos_failed status_deactivating = true /\
  forallb (fun s => negb (memN s status_deactivating)) mesos_live_states = true /\
  filter (fun s => memN s status_activating) mesos_live_states = [mesos_running].
Proof. exact status_rule_shape. Qed.
Print Assumptions C18_status_rule.

(* --- the quiescent semantics the harness validates is one of the histories above ----------- *)
Theorem C18_quiescent_is_a_history : forall w o,
  hstep w o = run w (o :: repeat OAnswer (length (w_pending (fst (step w o))))).
Proof. exact hstep_is_run. Qed.
Print Assumptions C18_quiescent_is_a_history.

(* non-vacuity: on the witness history the environment is alive, its task is owned and alive when
   the connection is re-established and the answer about it (RUNNING, a state of the KILL rule) is
   the one being processed - it is spared, the task stays alive and owned, no KILL is sent; a
   task outside the roster (teardown whose KILLs stayed unanswered) is killed by the same
   reconnection; the launch window and the TASK_LOST case (roster tasks that are not ACTIVE while
   the master has them alive); and a restart with two live tasks satisfies the hypotheses of the
   restart theorems. *)
Example C18_nonvacuous :
  let w := after (boot true) [OCreate 1; OReconnect] in
  no_tamper c18_witness = true /\
  owned w 0 = true /\ w_pending w = [(0, mesos_running)] /\
  memN mesos_running recon_kill_states = true /\
  spares_owned (boot true) c18_witness = true /\
  (let r := hstep (after (boot true) [OCreate 1]) OReconnect in
   kills_of (snd r) = [] /\ map mt_alive (w_master (fst r)) = [true] /\ owned (fst r) 0 = true) /\
  (let r := hstep (after (boot true) [OCreate 2; ODestroyStuck 0; OCreate 1]) OReconnect in
   kills_of (snd r) = [0; 1] /\ map mt_alive (w_master (fst r)) = [false; false; true]) /\
  (* launch window: two tasks in the roster, locked, not ACTIVE, alive at the master as STAGING; the
     reconnection kills nothing and leaves them as they are; reported RUNNING they become ACTIVE *)
  (let h := after (boot true) [OCreateHeld 2 mesos_staging] in
   map (fun r => (rt_id r, rt_env r, rt_active r)) (w_roster h) = [(0, Some 0, false); (1, Some 0, false)] /\
   owned h 0 = true /\ map mt_alive (w_master h) = [true; true] /\
   w_pending (fst (step h OReconnect)) = [(0, mesos_staging); (1, mesos_staging)] /\
   kills_of (snd (hstep h OReconnect)) = [] /\ w_roster (fst (hstep h OReconnect)) = w_roster h /\
   map rt_active (w_roster (fst (hstep (after (boot true) [OCreateHeld 2 mesos_running]) OReconnect)))
     = [true; true]) /\
  (* a task lost by the master's account but still there: INACTIVE, owned, spared, and ACTIVE again *)
  (let l := after (boot true) [OCreate 2; OLost 1] in
   map rt_active (w_roster l) = [true; false] /\ owned l 1 = true /\
   kills_of (snd (hstep l OReconnect)) = [] /\
   map rt_active (w_roster (fst (hstep l OReconnect))) = [true; true]) /\
  (* answers without executor_id and agent_id for two owned tasks, then Cleanup: nothing is killed,
     both stay locked *)
  (let b := fst (hstep (after (boot true) [OCreate 2]) (OReconnectOmit 3)) in
   map rt_env (w_roster b) = [Some 0; Some 0] /\ kills_of (snd (hstep b OCleanup)) = [] /\
   map mt_alive (w_master (fst (hstep b OCleanup))) = [true; true]) /\
  (* two environments; a kill request names the task already killed with the second one, a task
     locked by the first and an id nobody knows: nothing happens, the reconnection kills nothing *)
  (let k := after (boot true) [OCreate 2; OCreate 1; ODestroy 1 false; OKillIds [2; 0; 9001]] in
   map rt_id (w_roster k) = [0; 1] /\ map rt_env (w_roster k) = [Some 0; Some 0] /\
   kills_of (snd (hstep k OReconnect)) = []) /\
  (* a teardown whose KILL calls hang and fail while another environment is deployed: the new task
     is in the roster and locked when the failed tasks are put back, the reconnection kills nothing *)
  (let h := after (boot true) [OCreate 2; OKillHeld 0; OCreate 1; OKillRefused [0; 1]] in
   map rt_id (w_roster h) = [2; 0; 1] /\ map rt_env (w_roster h) = [Some 1; None; None] /\
   kills_of (snd (hstep h OReconnect)) = []) /\
  (* a restart whose reconciliation is lost: two SUBSCRIBEs, two RECONCILEs, the leftovers killed by
     the second; with the answers lost and NO further subscription they would survive *)
  (let v := after (boot true) [OCreate 2] in
   subs_of (snd (hstep v (OCrashLost PIdle 0))) = [(true, 1); (true, 1)] /\
   recs_of (snd (hstep v (OCrashLost PIdle 0))) = 2 /\
   kills_of (snd (hstep v (OCrashLost PIdle 0))) = [0; 1] /\
   map mt_alive (w_master (after v [OCrash PIdle 0; OLoseAnswers])) = [true; true] /\
   w_pending (after v [OCrash PIdle 0; OLoseAnswers]) = []) /\
  (* a restart in the launch window kills the held tasks *)
  kills_of (snd (hstep (after (boot true) [OCreateHeld 2 mesos_starting]) (OCrash PIdle 0))) = [0; 1] /\
  (let v := after (boot true) [OCreate 2; OStart 0] in
   map mt_alive (w_master v) = [true; true] /\
   map mt_alive (w_master (fst (hstep v (OCrash PMidConfigure 1)))) = [false; false; false] /\
   kills_of (snd (hstep v (OCrash PMidConfigure 1))) = [0; 1; 2]).
Proof. vm_compute. repeat split; reflexivity. Qed.
