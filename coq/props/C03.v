(* Property C03 — failure of a critical task drives a live environment to ERROR; the same failure
   of a non-critical task never changes the environment's state.
   Model: model/Watcher.v (on RoleTree.v and TaskCmd.v); lemmas: proofs/Watcher_proofs.v.
   A schedule is a list of [action]s (fault injection, one pending role update - whole or split at
   the hand-over of the task role to its parent -, a late reply, watcher steps, timer callback,
   begin / end of a request, the STOP of a TASK_INTERNAL_ERROR handler); the theorems hold for all
   of them.  [reachable s]: s is the state after any schedule from a freshly created environment
   of any workflow.
   Behaviour modelled: /repo with the repairs fix C03-a (a workflow already in ERROR at
   subscription is handled like a notification) and fix C03-cd (TASK_INTERNAL_ERROR: the role goes
   to ERROR in any state, the run is stopped only for a critical task). *)
From Verif Require Import Common RoleTree RoleTree_proofs TaskCmd Watcher Watcher_proofs.
Open Scope N_scope.

(* ---- non-critical tasks: the full statement, now a theorem ---- *)

Definition C03_noncritical_full_statement : Prop := noncritical_full_statement.

(* every kind of failure (terminal Mesos status, executor lost, agent lost, TASK_INTERNAL_ERROR) that
   hits only non-critical tasks of an idle reachable environment leaves its state alone, whatever
   the order in which the updates, the watcher, the timer and the handlers run.  Was refuted by
   TASK_INTERNAL_ERROR before fix C03-cd (finding C03-c; corpus case corpus-internal-noncritical is
   the regression case, monitor class 2) *)
Theorem C03_noncritical_inert : C03_noncritical_full_statement.
Proof. exact noncritical_full_statement_holds. Qed.
Print Assumptions C03_noncritical_inert.

(* the same without "idle" and "reachable": nothing critical in flight, watcher started, no handler
   waiting; the watcher is never armed either *)
Theorem C03_noncritical_inert_general :
  forall s f sched,
    (forall i, In i (fault_victims f) -> crit_of s i = false) ->
    (forall u, In u (w_pend s) -> upd_noncrit s u) ->
    w_watch s <> WTimer -> w_watch s <> WNotStarted -> w_istop s = O ->
    forallb handler_action sched = true ->
    w_env (wrun sched (wstep (AFault f) s)) = w_env s /\
    w_watch (wrun sched (wstep (AFault f) s)) <> WTimer.
Proof. exact noncritical_inert. Qed.
Print Assumptions C03_noncritical_inert_general.

(* ---- critical tasks: the full statement is still false for one reason, the lossy fan-out ---- *)

Definition C03_full_statement : Prop := full_statement.

Theorem C03_full_refuted : ~ C03_full_statement.
Proof. exact full_statement_refuted. Qed.
Print Assumptions C03_full_refuted.

(* C03-b (design level, not repaired): the ERROR reaches the ParentAdapter while the watcher is not
   in its select - right after its subscription, or between two selects after it took another
   notification - and is dropped by the non-blocking send; nothing sends it again.  Model-level only
   (the window cannot be forced from outside). *)
Theorem C03_lost_notification_refuted :
  (let s0 := wrun wit_b1_pre (created wit_tree wit_paths) in
   let s := wrun wit_b1_sched (wstep (AFault (FDead [0%nat])) s0) in
   w_watch s0 = WStarting /\ wquiet s = true /\ w_env s = E_CONFIGURED /\ st_of (w_tree s) = ERROR) /\
  (let s0 := wrun wit_b2_pre (created wit2_tree wit_paths) in
   let s := wrun wit_b2_sched (wstep (AFault (FDead [1%nat])) s0) in
   w_watch s0 = WBusy /\ w_env s0 = E_RUNNING /\ wquiet s = true /\ w_env s = E_RUNNING /\
   st_of (w_tree s) = ERROR).
Proof.
  split.
  - pose proof wit_b1 as [A [B [_ D]]]. repeat split; assumption.
  - pose proof wit_b2 as [A [B [C [D [_ F]]]]]. repeat split; assumption.
Qed.
Print Assumptions C03_lost_notification_refuted.

(* ---- what holds, for every workflow, state, victim, failure kind and schedule ---- *)

(* every failure puts the state ERROR of each victim in flight: terminal Mesos status, executor lost,
   agent lost with status INACTIVE; TASK_INTERNAL_ERROR in ANY environment state (was: only while
   RUNNING, finding C03-d), together with a STOP_ACTIVITY request when the task is critical and the
   environment RUNNING *)
Theorem C03_fault_sends_error :
  (forall vs i s, In i vs -> In (PState i ERROR) (w_pend (wstep (AFault (FDead vs)) s))) /\
  (forall v s, In (PRole v ERROR) (w_pend (wstep (AFault (FInternal v)) s)) /\
     (crit_of s v = true -> w_env s = E_RUNNING ->
      w_istop (wstep (AFault (FInternal v)) s) = S (w_istop s))).
Proof. split; [exact fault_pends_error|exact fault_internal_pends]. Qed.
Print Assumptions C03_fault_sends_error.

(* C03_ideal, under the one hypothesis that remains (C03-b): if the ERROR update of a critical task
   role - the whole update, or only its second half, the hand-over to the parent role after other
   updates of the same task have overwritten the role's cache ([PFwd]) - runs while the watcher is in
   its select, every completed schedule - whatever requests, further failures, late replies and
   updates it interleaves - ends with the environment in ERROR *)
Theorem C03_ideal_partial :
  forall s k u i sched,
    reachable s ->
    nth_error (w_pend s) k = Some u -> (u = PState i ERROR \/ u = PRole i ERROR \/ u = PFwd i ERROR) ->
    crit_of s i = true ->
    w_watch s = WWaiting ->
    wquiet (wrun sched (wstep (AUpd k) s)) = true ->
    w_env (wrun sched (wstep (AUpd k) s)) = E_ERROR.
Proof.
  intros s k u i sched R. apply ideal_partial. apply reachable_Inv. exact R.
Qed.
Print Assumptions C03_ideal_partial.

(* a failure before the watcher has subscribed (e.g. inside an after_CONFIGURE hook of the creation):
   the watcher finds the workflow in ERROR and every completed schedule ends in ERROR.  Was refuted
   before fix C03-a (corpus case corpus-early-critical is the regression case, monitor class 3).  The
   second part: the ERROR update of a critical task role leaves the root aggregator in ERROR. *)
Theorem C03_error_before_subscription :
  (forall s sched, reachable s -> w_watch s = WNotStarted -> st_of (w_tree s) = ERROR ->
     wquiet (wrun sched (wstep AWStart s)) = true -> w_env (wrun sched (wstep AWStart s)) = E_ERROR) /\
  (forall p t, is_agg t = true -> critp t p = true -> st_of (fst (upd_state p ERROR t)) = ERROR).
Proof.
  split.
  - intros s sched R. apply error_before_subscription. apply reachable_Inv. exact R.
  - exact root_error_after_crit_update.
Qed.
Print Assumptions C03_error_before_subscription.

(* the three former witnesses, replayed on the implementation by the corpus, now end as the property
   asks: (a) critical task dead before the subscription -> ERROR; (c) TASK_INTERNAL_ERROR of the
   non-critical task while RUNNING -> role ERROR, still RUNNING; (d) TASK_INTERNAL_ERROR of the
   critical task while CONFIGURED -> ERROR *)
Theorem C03_repaired_witnesses :
  (let s := wrun wit_a_sched (wstep (AFault (FDead [0%nat])) (created wit_tree wit_paths)) in
   wquiet s = true /\ w_env s = E_ERROR) /\
  (let s0 := wrun wit_c_pre (created wit_tree wit_paths) in
   let s := wrun wit_c_sched (wstep (AFault (FInternal 1%nat)) s0) in
   w_env s0 = E_RUNNING /\ crit_of s0 1%nat = false /\ wquiet s = true /\ w_env s = E_RUNNING) /\
  (let s0 := wrun wit_d_pre (created wit_tree wit_paths) in
   let s := wrun [AUpd 0; AFire []] (wstep (AFault (FInternal 0%nat)) s0) in
   crit_of s0 0%nat = true /\ w_env s0 = E_CONFIGURED /\ wquiet s = true /\ w_env s = E_ERROR).
Proof.
  split; [|split].
  - pose proof wit_a as [A [B _]]. split; assumption.
  - pose proof wit_c as [_ [B [C [D [E _]]]]]. repeat split; assumption.
  - exact wit_d.
Qed.
Print Assumptions C03_repaired_witnesses.

(* once the timer is armed nothing disarms it, and ERROR is never left *)
Theorem C03_armed_timer_ends_in_ERROR :
  forall s sched, reachable s -> w_watch s = WTimer ->
    wquiet (wrun sched s) = true -> w_env (wrun sched s) = E_ERROR.
Proof. intros s sched R. apply armed_ends_in_error. apply reachable_Inv. exact R. Qed.
Print Assumptions C03_armed_timer_ends_in_ERROR.

Theorem C03_error_is_absorbing :
  forall s sched, reachable s -> w_env s = E_ERROR -> w_env (wrun sched s) = E_ERROR.
Proof.
  intros s sched R E.
  destruct (Armed_run sched s (reachable_Inv s R) (or_intror E)) as [W|X]; [|exact X].
  revert s R E W. induction sched as [|a r IH]; intros s R E W; [exact E|].
  cbn. apply IH.
  - apply (reachable_run [a] s R).
  - apply step_env_error; [apply reachable_Inv; exact R|exact E].
  - exact W.
Qed.
Print Assumptions C03_error_is_absorbing.

(* the end of the run is recorded: a run that was going on is stamped (run_end_time_ms set) in
   every later state in which the environment is in ERROR *)
Theorem C03_run_end_recorded :
  forall s sched, reachable s -> w_env s = E_RUNNING ->
    w_env (wrun sched s) = E_ERROR -> w_rend (wrun sched s) = RSet.
Proof. intros s sched R. apply run_end_recorded. apply reachable_Inv. exact R. Qed.
Print Assumptions C03_run_end_recorded.

(* the timer callback on a RUNNING environment: ERROR, run end stamped, GO_ERROR run event published,
   STOP commanded to every task whose state is RUNNING *)
Theorem C03_timer_callback_from_RUNNING :
  forall s oc,
    w_watch s = WTimer -> w_flight s = None -> w_env s = E_RUNNING -> w_rend s = REmpty ->
    let s' := wstep (AFire oc) s in
    w_env s' = E_ERROR /\ w_rend s' = RSet /\ In (LRun 7) (w_log s') /\ w_watch s' = WFired /\
    forall i, nth_error (w_tst s) i = Some RUNNING -> exists tg, In (LCmd tg) (w_log s') /\ In i tg.
Proof. exact fire_from_running. Qed.
Print Assumptions C03_timer_callback_from_RUNNING.

(* the role-tree facts the above rest on, for every tree and path *)
Theorem C03_critical_error_reaches_adapter :
  forall p t, critp t p = true -> snd (upd_state p ERROR t) = Some ERROR.
Proof. exact upd_state_ERROR_crit. Qed.
Print Assumptions C03_critical_error_reaches_adapter.

Theorem C03_noncritical_update_reaches_nobody :
  forall p v t, critp t p = false -> snd (upd_state p v t) = None.
Proof. exact upd_state_noncrit. Qed.
Print Assumptions C03_noncritical_update_reaches_nobody.

(* the hand-over of a task / call role: the source passes the parameter of updateState /
   updateStatus to the parent (counted by the translator leafhandover on every run), and in the
   model the value a critical role was called with reaches the ParentAdapter whatever the role's
   cache holds when it is handed over; doing both halves at once is RoleTree.upd_state *)
Theorem C03_leaf_hands_incoming_value :
  leaf_hands_incoming = true /\
  (forall p t, critp t p = true -> snd (fwd_state p ERROR t) = Some ERROR) /\
  (forall p v t, upd_state p v t = fwd_state p v (map_at p (write_leaf_f v) t)).
Proof. split; [exact leaf_handover_in_source|]. split; [exact fwd_state_ERROR_crit|exact upd_state_split]. Qed.
Print Assumptions C03_leaf_hands_incoming_value.

(* the label and the route of a failure report: the source decides on the Mesos state and on the
   task being owned and locked only (case list and guard read from handleMessage by the translator
   failurelabel on every run), so in the model every report of a terminal failure state - any
   reason code, source, plain update or reconciliation answer after a reconnection, optional fields
   present or not - is the same fault, to which all theorems above apply *)
Theorem C03_failure_label_irrelevant :
  failure_label_irrelevant = true /\
  (forall l v, In (fl_state l) [1; 2; 3; 7] ->
     report_fault l true v = FDead [v] /\ report_fault l false v = FDead []).
Proof. split; [exact failure_label_in_source|exact report_fault_label_free]. Qed.
Print Assumptions C03_failure_label_irrelevant.

(* stale identity in the failure-reporting glue: the handler of device events finds the environment
   through the rostered task's current parent, never through the ids the message carries (read from
   core/environment by the translator ownerrouting on every run); exercised by the claimed-task
   worlds of the harness, where every label names an environment that no longer exists *)
Theorem C03_failure_routed_to_owner : routed_by_owner = true.
Proof. exact routed_by_owner_in_source. Qed.
Print Assumptions C03_failure_routed_to_owner.

(* benign status traffic before a failure: TASK_RUNNING updates and reconciliation answers, whatever
   optional ids they carry, change nothing the model keeps (a task stays owned and locked until its
   executor or agent is reported lost) - under the hypothesis, regenerated from the source by C18's
   translator, that updateTaskStatus refreshes the ids of a task only from fields the status carries *)
Theorem C03_benign_status_traffic_inert :
  refresh_keeps_ownership = true /\ (forall s, run_sop SRefresh s = clear_log s).
Proof. split; [exact refresh_keeps_ownership_in_source|exact run_sop_refresh]. Qed.
Print Assumptions C03_benign_status_traffic_inert.

(* concurrent roster traffic of another environment: no whole-roster write of the task manager puts
   back a snapshot kept across a Mesos call (translator rosterwrite, every run), and in the model the
   probe "every task of the environment is in the roster" holds at every sampling point - checked on
   the implementation where the teardown of another environment overlaps the deployment *)
Theorem C03_tasks_stay_in_roster :
  roster_writes_fresh = true /\ (forall s, wo_rostered (observe s) = true).
Proof. split; [exact roster_writes_fresh_in_source|exact observe_rostered]. Qed.
Print Assumptions C03_tasks_stay_in_roster.

(* the interleaving the harness forces (corpus cases corpus-overtaken-...): the ERROR update of the
   dying critical task is stopped between its two halves, a late RUNNING reply of the same task runs
   to its end, the first goes on: ERROR, run end stamped, although the role reports RUNNING *)
Theorem C03_overtaken_error_still_arrives :
  let s0 := wrun wit_ok_pre (created wit_tree wit_paths) in
  let s := run_sop (SRace 0%nat RUNNING [SendFail]) s0 in
  w_env s0 = E_RUNNING /\ w_watch s0 = WWaiting /\
  w_env s = E_ERROR /\ w_rend s = RSet /\ wquiet s = true /\
  leaf_at (w_tree s) [0%nat] = Some (true, RUNNING, INACTIVE) /\ st_of (w_tree s) = ERROR.
Proof. exact wit_race. Qed.
Print Assumptions C03_overtaken_error_still_arrives.

(* the hypotheses of C03_ideal_partial are met by a concrete run: RUNNING environment, watcher in
   its select, the critical task's ERROR pending; the schedule update / timer / replies ends in
   ERROR with the run end stamped *)
Example C03_nonvacuous :
  let s0 := wstep (AFault (FDead [0%nat])) (wrun wit_ok_pre (created wit_tree wit_paths)) in
  let s := wrun [AUpd 0; AFire []; AUpd 0; AWSelect] (wstep (AUpd 0) s0) in
  w_env s0 = E_RUNNING /\ w_watch s0 = WWaiting /\ nth_error (w_pend s0) 0 = Some (PState 0%nat ERROR) /\
  crit_of s0 0%nat = true /\ wf_ok s0 = true /\
  wquiet s = true /\ w_env s = E_ERROR /\ w_rend s = RSet /\ w_watch s = WFired.
Proof. exact wit_ok. Qed.
