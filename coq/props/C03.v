(* Property C03 — failure of a critical task drives a live environment to ERROR; the same failure
   of a non-critical task never changes the environment's state.
   Model: model/Watcher.v (on RoleTree.v and TaskCmd.v); lemmas: proofs/Watcher_proofs.v.
   A schedule is a list of [action]s (fault injection, one pending role update, watcher steps, timer
   callback, begin / end of a request, the STOP of a TASK_INTERNAL_ERROR handler); the theorems hold
   for all of them.  [reachable s]: s is the state after any schedule from a freshly created
   environment of any workflow. *)
From Verif Require Import Common RoleTree RoleTree_proofs TaskCmd Watcher Watcher_proofs.
Open Scope N_scope.

(* ---- the full statement, and why it is false for the code as it is ---- *)

Definition C03_full_statement : Prop := full_statement.
Definition C03_noncritical_full_statement : Prop := noncritical_full_statement.

Theorem C03_full_refuted : ~ C03_full_statement.
Proof. exact full_statement_refuted. Qed.
Print Assumptions C03_full_refuted.

(* C03-a: the critical task fails after the CONFIGURE of the creation and before subscribeToWfState
   (watcher NotStarted): the watcher finds the workflow in ERROR, never enters its loop; the completed
   schedule ends CONFIGURED with the root role in ERROR.  Replayed on the implementation (corpus case
   corpus-early-critical). *)
Theorem C03_already_error_refuted :
  let s := wrun wit_a_sched (wstep (AFault (FDead [0%nat])) (created wit_tree wit_paths)) in
  crit_of (created wit_tree wit_paths) 0%nat = true /\ w_watch (created wit_tree wit_paths) = WNotStarted /\
  wquiet s = true /\ w_env s = E_CONFIGURED /\ w_watch s = WGone /\ st_of (w_tree s) = ERROR.
Proof. split; [reflexivity|]. split; [reflexivity|]. exact wit_a. Qed.
Print Assumptions C03_already_error_refuted.

(* C03-b: the ERROR reaches the ParentAdapter while the watcher is not in its select - right after
   its subscription, or between two selects after it took another notification - and is dropped;
   nothing sends it again.  Model-level only (the window cannot be forced from outside). *)
Theorem C03_lost_notification_refuted :
  (let s0 := wrun wit_b1_pre (created wit_tree wit_paths) in
   let s := wrun wit_b1_sched (wstep (AFault (FDead [0%nat])) s0) in
   w_watch s0 = WStarting /\ wquiet s = true /\ w_env s = E_CONFIGURED /\ st_of (w_tree s) = ERROR) /\
  (let s0 := wrun wit_b2_pre (created wit2_tree wit_paths) in
   let s := wrun wit_b2_sched (wstep (AFault (FDead [1%nat])) s0) in
   w_watch s0 = WBusy /\ w_env s0 = E_RUNNING /\ wquiet s = true /\ w_env s = E_RUNNING /\
   st_of (w_tree s) = ERROR).
Proof.
  split.
  - pose proof wit_b1 as [A [B [_ D]]]. repeat split; assumption.
  - pose proof wit_b2 as [A [B [C [D [_ F]]]]]. repeat split; assumption.
Qed.
Print Assumptions C03_lost_notification_refuted.

(* C03-d: TASK_INTERNAL_ERROR of a critical task in a CONFIGURED environment changes nothing at all.
   Replayed (corpus case corpus-internal-critical-configured). *)
Theorem C03_internal_error_configured_refuted :
  let s0 := wrun wit_d_pre (created wit_tree wit_paths) in
  let s := wstep (AFault (FInternal 0%nat)) s0 in
  crit_of s0 0%nat = true /\ wquiet s = true /\ w_env s = E_CONFIGURED /\ s = s0.
Proof. exact wit_d. Qed.
Print Assumptions C03_internal_error_configured_refuted.

(* C03-c: TASK_INTERNAL_ERROR of a non-critical task stops the run.  Replayed (corpus case
   corpus-internal-noncritical). *)
Theorem C03_noncritical_internal_error_refuted : ~ C03_noncritical_full_statement.
Proof. exact noncritical_full_statement_refuted. Qed.
Print Assumptions C03_noncritical_internal_error_refuted.

(* ---- what does hold, for every workflow, state, victim and schedule ---- *)

(* every failure puts the state ERROR of each victim in flight (terminal Mesos status, executor lost,
   agent lost: with status INACTIVE; TASK_INTERNAL_ERROR: only while RUNNING, together with a
   STOP_ACTIVITY request) *)
Theorem C03_fault_sends_error :
  (forall vs i s, In i vs -> In (PState i ERROR) (w_pend (wstep (AFault (FDead vs)) s))) /\
  (forall v s, w_env s = E_RUNNING ->
     In (PRole v ERROR) (w_pend (wstep (AFault (FInternal v)) s)) /\
     w_istop (wstep (AFault (FInternal v)) s) = S (w_istop s)).
Proof. split; [exact fault_pends_error|exact fault_internal_pends]. Qed.
Print Assumptions C03_fault_sends_error.

(* C03_ideal, under the exact hypothesis that makes it true: if the ERROR update of a critical task
   role runs while the watcher is in its select, every completed schedule - whatever requests,
   further failures and updates it interleaves - ends with the environment in ERROR *)
Theorem C03_ideal_partial :
  forall s k u i sched,
    reachable s ->
    nth_error (w_pend s) k = Some u -> (u = PState i ERROR \/ u = PRole i ERROR) ->
    crit_of s i = true ->
    w_watch s = WWaiting ->
    wquiet (wrun sched (wstep (AUpd k) s)) = true ->
    w_env (wrun sched (wstep (AUpd k) s)) = E_ERROR.
Proof.
  intros s k u i sched R. apply ideal_partial. apply reachable_Inv. exact R.
Qed.
Print Assumptions C03_ideal_partial.

(* once the timer is armed nothing disarms it, and ERROR is never left *)
Theorem C03_armed_timer_ends_in_ERROR :
  forall s sched, reachable s -> w_watch s = WTimer ->
    wquiet (wrun sched s) = true -> w_env (wrun sched s) = E_ERROR.
Proof. intros s sched R. apply armed_ends_in_error. apply reachable_Inv. exact R. Qed.
Print Assumptions C03_armed_timer_ends_in_ERROR.

Theorem C03_error_is_absorbing :
  forall s sched, reachable s -> w_env s = E_ERROR -> w_env (wrun sched s) = E_ERROR.
Proof.
  intros s sched R E.
  destruct (Armed_run sched s (reachable_Inv s R) (or_intror E)) as [W|X]; [|exact X].
  revert s R E W. induction sched as [|a r IH]; intros s R E W; [exact E|].
  cbn. apply IH.
  - apply (reachable_run [a] s R).
  - apply step_env_error; [apply reachable_Inv; exact R|exact E].
  - exact W.
Qed.
Print Assumptions C03_error_is_absorbing.

(* the end of the run is recorded: a run that was going on is stamped (run_end_time_ms set) in
   every later state in which the environment is in ERROR *)
Theorem C03_run_end_recorded :
  forall s sched, reachable s -> w_env s = E_RUNNING ->
    w_env (wrun sched s) = E_ERROR -> w_rend (wrun sched s) = RSet.
Proof. intros s sched R. apply run_end_recorded. apply reachable_Inv. exact R. Qed.
Print Assumptions C03_run_end_recorded.

(* the timer callback on a RUNNING environment: ERROR, run end stamped, GO_ERROR run event published,
   STOP commanded to every task whose state is RUNNING *)
Theorem C03_timer_callback_from_RUNNING :
  forall s oc,
    w_watch s = WTimer -> w_flight s = None -> w_env s = E_RUNNING -> w_rend s = REmpty ->
    let s' := wstep (AFire oc) s in
    w_env s' = E_ERROR /\ w_rend s' = RSet /\ In (LRun 7) (w_log s') /\ w_watch s' = WFired /\
    forall i, nth_error (w_tst s) i = Some RUNNING -> exists tg, In (LCmd tg) (w_log s') /\ In i tg.
Proof. exact fire_from_running. Qed.
Print Assumptions C03_timer_callback_from_RUNNING.

(* non-critical tasks: a terminal Mesos status, a lost executor or a lost agent that hits only
   non-critical tasks never changes the environment state nor arms the watcher, whatever the order
   in which the updates, the watcher and the timer run (no hypothesis on the workflow or the state
   other than: nothing critical already in flight) *)
Theorem C03_noncritical_inert_partial :
  forall s vs sched,
    (forall i, In i vs -> crit_of s i = false) ->
    (forall u, In u (w_pend s) -> upd_noncrit s u) ->
    w_watch s <> WTimer ->
    forallb internal_action sched = true ->
    w_env (wrun sched (wstep (AFault (FDead vs)) s)) = w_env s /\
    w_watch (wrun sched (wstep (AFault (FDead vs)) s)) <> WTimer.
Proof. exact noncritical_inert. Qed.
Print Assumptions C03_noncritical_inert_partial.

(* the role-tree facts the above rest on, for every tree and path *)
Theorem C03_critical_error_reaches_adapter :
  forall p t, critp t p = true -> snd (upd_state p ERROR t) = Some ERROR.
Proof. exact upd_state_ERROR_crit. Qed.
Print Assumptions C03_critical_error_reaches_adapter.

Theorem C03_noncritical_update_reaches_nobody :
  forall p v t, critp t p = false -> snd (upd_state p v t) = None.
Proof. exact upd_state_noncrit. Qed.
Print Assumptions C03_noncritical_update_reaches_nobody.

(* the hypotheses of C03_ideal_partial are met by a concrete run: RUNNING environment, watcher in
   its select, the critical task's ERROR pending; the schedule update / timer / replies ends in
   ERROR with the run end stamped *)
Example C03_nonvacuous :
  let s0 := wstep (AFault (FDead [0%nat])) (wrun wit_ok_pre (created wit_tree wit_paths)) in
  let s := wrun [AUpd 0; AFire []; AUpd 0; AWSelect] (wstep (AUpd 0) s0) in
  w_env s0 = E_RUNNING /\ w_watch s0 = WWaiting /\ nth_error (w_pend s0) 0 = Some (PState 0%nat ERROR) /\
  crit_of s0 0%nat = true /\ wf_ok s0 = true /\
  wquiet s = true /\ w_env s = E_ERROR /\ w_rend s = RSet /\ w_watch s = WFired.
Proof. exact wit_ok. Qed.
