(* C11 — a role's state and status are the fold of its subtree.
   Property theorems only; each closed by [exact] of a lemma from proofs/RoleTree_proofs.v.
   Model: model/RoleTree.v (State.X, Status.X, aggregateState/aggregateStatus, SafeState.merge /
   SafeStatus.merge, leaf and aggregator updateState/updateStatus, tokens and schedules). *)
From Verif Require Import Common Gen_StateX Gen_StatusX Gen_StatusProduct Gen_MergeAtomic RoleTree RoleTree_proofs.
From Coq Require Import Permutation.
Open Scope N_scope.

(* ---- the two products are the running code's, completely (8x8 and 5x5) ---- *)

Theorem C11_stateX_is_the_code :
  (forall a b, enum_lookup (N_of_state a) (N_of_state b) stateX_enum = Some (N_of_state (stateX a b))) /\
  length stateX_enum = 64%nat /\
  map N_of_state all_states =
  [go_state_UNKNOWN; go_state_STANDBY; go_state_CONFIGURED; go_state_RUNNING;
   go_state_ERROR; go_state_DONE; go_state_MIXED; go_state_INVARIANT] /\
  (forall s, In s all_states).
Proof. exact stateX_tied. Qed.
Print Assumptions C11_stateX_is_the_code.

Theorem C11_statusX_is_the_code :
  (forall a b, enum_lookup (N_of_status a) (N_of_status b) statusX_enum = Some (N_of_status (statusX a b))) /\
  length statusX_enum = 25%nat /\
  map N_of_status all_statuses =
  [go_status_UNDEFINED; go_status_INACTIVE; go_status_PARTIAL; go_status_ACTIVE;
   go_status_UNDEPLOYABLE] /\
  map N_of_status all_statuses =
  [src_status_UNDEFINED; src_status_INACTIVE; src_status_PARTIAL; src_status_ACTIVE;
   src_status_UNDEPLOYABLE] /\
  (forall s, In s all_statuses).
Proof. exact statusX_tied. Qed.
Print Assumptions C11_statusX_is_the_code.

(* ---- algebra: both products are commutative, associative, idempotent; ERROR / UNDEFINED
        absorb; INVARIANT is neutral; UNDEPLOYABLE absorbs everything but UNDEFINED ---- *)

Theorem C11_state_product_laws :
  (forall a b, stateX a b = stateX b a) /\
  (forall a b c, stateX a (stateX b c) = stateX (stateX a b) c) /\
  (forall a, stateX a a = a) /\
  (forall a, stateX ERROR a = ERROR) /\
  (forall a, stateX INVARIANT a = a).
Proof. exact state_product_laws. Qed.
Print Assumptions C11_state_product_laws.

Theorem C11_status_product_laws :
  (forall a b, statusX a b = statusX b a) /\
  (forall a b c, statusX a (statusX b c) = statusX (statusX a b) c) /\
  (forall a, statusX a a = a) /\
  (forall a, statusX UNDEFINED a = UNDEFINED) /\
  (forall a, a <> UNDEFINED -> statusX UNDEPLOYABLE a = UNDEPLOYABLE) /\
  statusX ACTIVE INACTIVE = PARTIAL.
Proof. exact status_product_laws. Qed.
Print Assumptions C11_status_product_laws.

(* ---- aggregateState / aggregateStatus compute what the text says: ERROR dominates, differing
        healthy states give MIXED, no counted child gives INVARIANT; an UNDEFINED child gives
        UNDEFINED, else an UNDEPLOYABLE one UNDEPLOYABLE, else all-ACTIVE / all-INACTIVE, else
        PARTIAL ---- *)

Theorem C11_aggregate_state_is_the_text : forall cs,
  fold_state cs = spec_state (map st_of (filter counted cs)).
Proof. exact fold_state_text. Qed.
Print Assumptions C11_aggregate_state_is_the_text.

Theorem C11_aggregate_status_is_the_text : forall cs,
  fold_status cs = spec_status (map stat_of cs).
Proof. exact fold_status_text. Qed.
Print Assumptions C11_aggregate_status_is_the_text.

(* ---- the order in which children are listed does not matter ---- *)

Theorem C11_order_independent : forall cs cs',
  Permutation cs cs' -> fold_state cs = fold_state cs' /\ fold_status cs = fold_status cs'.
Proof. exact order_independent. Qed.
Print Assumptions C11_order_independent.

(* stronger, on whole subtrees: two consistent roles whose critical descendants hold the same
   multiset of states (all descendants: of statuses) report the same, whatever the order and
   the nesting of the roles in between *)
Theorem C11_report_depends_on_multiset : forall t t',
  Inv false t -> Inv false t' -> is_agg t = true -> is_agg t' = true ->
  (Permutation (crit_states t) (crit_states t') -> st_of t = st_of t') /\
  (Permutation (leaf_stats t) (leaf_stats t') -> stat_of t = stat_of t').
Proof. exact report_depends_on_multiset. Qed.
Print Assumptions C11_report_depends_on_multiset.

(* ---- every sequence of updates keeps "each aggregator's cache is the fold of its children's
        caches" (strong form w = false; weak form w = true exempts aggregators no update can
        reach), for every tree ---- *)

Theorem C11_seq_invariant : forall w ops t, Inv w t -> Inv w (run_ops ops t).
Proof. exact run_ops_Inv. Qed.
Print Assumptions C11_seq_invariant.

(* the tree the loader produces satisfies the weak form whatever its shape, and the strong form
   exactly when every aggregator has a child that counts (a critical task/call or an aggregator) *)
Theorem C11_loaded_tree_invariant : forall t,
  Inv true (fresh t) /\ (Inv false (fresh t) <-> all_counted t = true).
Proof. exact loaded_invariant. Qed.
Print Assumptions C11_loaded_tree_invariant.

(* ---- full statement for consistent trees: after any sequence of updates every role reports
        the combination of its critical descendants (state) / of all descendants (status) ---- *)

Theorem C11_fold_of_subtree : forall t ops p n,
  Inv false t ->
  get_sub p (run_ops ops t) = Some n -> is_agg n = true ->
  st_of n = spec_state (crit_states n) /\ stat_of n = spec_status (leaf_stats n).
Proof. exact fold_consistent. Qed.
Print Assumptions C11_fold_of_subtree.

(* ---- the same statement for every tree as loaded is false in the code (finding C11-a):
        an aggregator without critical descendant starts as STANDBY, not "no opinion" ---- *)

Definition C11_fold_of_loaded_tree_statement : Prop :=
  forall t0 ops p n,
    get_sub p (run_ops ops (fresh t0)) = Some n -> is_agg n = true ->
    st_of n = spec_state (crit_states n) /\ stat_of n = spec_status (leaf_stats n).

Theorem C11_fold_of_loaded_tree_refuted : ~ C11_fold_of_loaded_tree_statement.
Proof. exact fold_statement_refuted. Qed.
Print Assumptions C11_fold_of_loaded_tree_refuted.

Theorem C11_fold_of_loaded_tree_partial : forall t0 ops p n,
  all_counted t0 = true ->
  get_sub p (run_ops ops (fresh t0)) = Some n -> is_agg n = true ->
  st_of n = spec_state (crit_states n) /\ stat_of n = spec_status (leaf_stats n).
Proof. exact fold_partial. Qed.
Print Assumptions C11_fold_of_loaded_tree_partial.

(* the status half needs no criticality: on every loaded tree in which every aggregator has a
   task or call below it - what the loader guarantees since 3e1e68b for every aggregator but the
   root of a workflow without any role (C15) - every role reports, after any sequence of updates,
   the combination of the statuses of all its descendants.  (Before the repair an aggregator
   whose iterators generated nothing stayed in the tree: finding C11-c, now monitor class 10.) *)
Theorem C11_status_fold_of_loaded_tree : forall t0 ops p n,
  no_leafless t0 = true ->
  get_sub p (run_ops ops (fresh t0)) = Some n ->
  stat_of n = spec_status (leaf_stats n).
Proof. exact loaded_status_fold. Qed.
Print Assumptions C11_status_fold_of_loaded_tree.

(* what every role of every loaded tree reports exactly, after any sequence of updates: the
   combination of its critical descendants' states and of one STANDBY per aggregator without
   counted child below it (this pins C11-a down: nothing else deviates) *)
Theorem C11_loaded_tree_reports : forall t0 ops p n,
  get_sub p (run_ops ops (fresh t0)) = Some n -> is_agg n = true ->
  st_of n = spec_state (opinions_loaded n).
Proof. exact loaded_actual. Qed.
Print Assumptions C11_loaded_tree_reports.

(* in particular the ERROR clause holds for every loaded tree under sequential updates *)
Theorem C11_loaded_tree_error_iff : forall t0 ops p n,
  get_sub p (run_ops ops (fresh t0)) = Some n -> is_agg n = true ->
  (st_of n = ERROR <-> In ERROR (crit_states n)).
Proof. exact loaded_error_iff. Qed.
Print Assumptions C11_loaded_tree_error_iff.

(* ---- the result depends only on what each task was last told: two update sequences that
        leave the same last values give the same tree; in particular updates to different
        tasks commute.  Holds for every loaded tree (weak invariant) ---- *)

Theorem C11_result_determined_by_last_values : forall w t ops1 ops2,
  Inv w t -> write_ops ops1 t = write_ops ops2 t -> run_ops ops1 t = run_ops ops2 t.
Proof. exact same_writes_same_result. Qed.
Print Assumptions C11_result_determined_by_last_values.

Theorem C11_commute : forall w t o1 o2,
  Inv w t -> op_path o1 <> op_path o2 -> run_ops [o1; o2] t = run_ops [o2; o1] t.
Proof. exact updates_commute. Qed.
Print Assumptions C11_commute.

(* ---- the token semantics contains the sequential one: a call run alone does exactly what
        upd_state says (tree, what the ParentAdapter is told), and the schedule that runs the
        calls one after the other yields run_ops ---- *)

Theorem C11_call_alone_is_sequential_update : forall p v t,
  c_tree (run_alone p v t) = fst (upd_state p v t) /\
  quiescent (run_alone p v t) = true /\
  c_adapter (run_alone p v t) = match snd (upd_state p v t) with Some s => [s] | None => [] end.
Proof. exact run_alone_spec. Qed.
Print Assumptions C11_call_alone_is_sequential_update.

Theorem C11_sequential_schedule_is_run_ops : forall t ups,
  let c := run_sched (seq_sched ups) (cinit t ups) in
  c_tree c = run_ops (ops_of ups) t /\ quiescent c = true.
Proof. exact sequential_schedules. Qed.
Print Assumptions C11_sequential_schedule_is_run_ops.

(* ---- the schedules treat a merge as one step.  That is a fact about the source: the lock facts
        the translator counts in SafeState.merge/get and SafeStatus.merge/get (and in any other
        method of the two types, and direct accesses elsewhere in the package) are those of one
        critical section, entered by the first statement and left on every way out, around the
        comparison, the re-aggregation of the children and the store ---- *)

Theorem C11_merge_is_atomic_in_source :
  merge_is_atomic = true /\
  (section_ok state_merge_facts = true /\ section_ok status_merge_facts = true /\
   lf_entry state_merge_facts = 1 /\ lf_entry status_merge_facts = 1 /\
   lf_locks state_merge_facts = 1 /\ lf_locks status_merge_facts = 1 /\
   lf_agg_out state_merge_facts = 0 /\ lf_agg_out status_merge_facts = 0 /\
   section_ok state_get_facts = true /\ section_ok status_get_facts = true /\
   direct_accesses_runtime = 0).
Proof. exact merge_atomic_in_source_spelled. Qed.
Print Assumptions C11_merge_is_atomic_in_source.

(* the schedules with the switch set to "atomic" are the token schedules of the other theorems *)
Theorem C11_atomic_schedules_are_token_schedules : forall sched g,
  run_sched_g true sched g = mkG (run_sched sched (g_c g)) (g_pend g).
Proof. exact run_sched_g_atomic. Qed.
Print Assumptions C11_atomic_schedules_are_token_schedules.

(* ---- interleaved updates, all schedules, with the switch set by the source
        ([state_merge_atomic] is computed from Gen_MergeAtomic.v): at quiescence every ancestor
        of a critical task whose last written state is ERROR reports ERROR ---- *)

Theorem C11_error_never_lost : forall w t ups sched,
  Inv w t ->
  let g := run_sched_g state_merge_atomic sched (ginit t ups) in
  gquiescent g = true ->
  forall p r x, r <> [] -> get_sub (p ++ r) (g_tree g) = Some (Leaf true ERROR x) ->
  st_at p (g_tree g) = Some ERROR.
Proof. exact never_lost_src. Qed.
Print Assumptions C11_error_never_lost.

(* and it does rest on that: were the lock released between re-aggregating the children and
   storing the result, the same statement would be false on a loaded tree of two critical tasks
   (witness wit_s_tree / wit_s_ups / wit_s_sched: the root ends MIXED above a task in ERROR) *)
Definition C11_error_never_lost_split_statement : Prop :=
  forall t0 ups sched,
    let g := run_sched_g false sched (ginit (fresh t0) ups) in
    gquiescent g = true ->
    forall p r x, r <> [] -> get_sub (p ++ r) (g_tree g) = Some (Leaf true ERROR x) ->
    st_at p (g_tree g) = Some ERROR.

Theorem C11_error_lost_if_merge_not_atomic : ~ C11_error_never_lost_split_statement.
Proof. exact never_lost_split_refuted. Qed.
Print Assumptions C11_error_lost_if_merge_not_atomic.

(* and at every moment of every schedule: a counted child in ERROR has an ERROR parent, or a
   token that will deliver ERROR to the parent is on that edge *)
Theorem C11_error_in_flight : forall w t ups sched,
  Inv w t -> EL (run_sched sched (cinit t ups)).
Proof. exact never_lost_in_flight. Qed.
Print Assumptions C11_error_in_flight.

(* ---- "never invented, also when updates arrive concurrently" is false in the code (finding
        C11-b): a leaf forwards the value it was called with, not its cache, and merge trusts
        an incoming ERROR ---- *)

Definition C11_error_not_invented_statement : Prop :=
  forall t0 ups sched,
    let c := run_sched sched (cinit (fresh t0) ups) in
    quiescent c = true ->
    st_of (c_tree c) = ERROR -> In ERROR (crit_states (c_tree c)).

Theorem C11_error_not_invented_refuted : ~ C11_error_not_invented_statement.
Proof. exact not_invented_refuted. Qed.
Print Assumptions C11_error_not_invented_refuted.

(* without interleaving: a role reports ERROR exactly when a critical task below is in ERROR *)
Theorem C11_error_not_invented_partial : forall t ops p n,
  Inv false t ->
  get_sub p (run_ops ops t) = Some n -> is_agg n = true ->
  (st_of n = ERROR <-> In ERROR (crit_states n)).
Proof. exact error_iff_seq. Qed.
Print Assumptions C11_error_not_invented_partial.

(* the same on the token semantics: under the schedules that run one call at a time, on every
   loaded tree whose aggregators all have a counted child *)
Theorem C11_error_not_invented_sequential_schedules : forall t0 ups,
  all_counted t0 = true -> is_agg t0 = true ->
  let c := run_sched (seq_sched ups) (cinit (fresh t0) ups) in
  quiescent c = true /\
  (st_of (c_tree c) = ERROR <-> In ERROR (crit_states (c_tree c))).
Proof. exact not_invented_sequential. Qed.
Print Assumptions C11_error_not_invented_sequential_schedules.

(* ---- bridge to the monitor: on every tree reached from a consistent one by any sequence of
        updates, the monitor that is evaluated on the implementation's snapshots reports no
        violation class (so a monitor failure is a deviation from these theorems' model) ---- *)
Theorem C11_monitor_accepts_consistent_runs : forall t ops,
  Inv false t ->
  pick_code (snap_top [] (run_ops ops t)) = 0 /\ pick_code (snap_codes [] (run_ops ops t)) = 0.
Proof. exact monitor_accepts_model. Qed.
Print Assumptions C11_monitor_accepts_consistent_runs.

(* non-vacuity: a concrete loaded tree with task, nested aggregator and a non-critical leaf that
   satisfies the strong invariant; the refutation witnesses are loaded trees too *)
Example C11_nonvacuous :
  let t := Agg STANDBY INACTIVE [Agg STANDBY INACTIVE [Leaf true STANDBY INACTIVE; Leaf false STANDBY INACTIVE];
                                 Leaf true STANDBY INACTIVE] in
  Inv false (fresh t) /\ all_counted t = true /\
  st_of (run_ops [OpState [0; 0]%nat ERROR; OpState [1]%nat RUNNING; OpStatus [0; 1]%nat ACTIVE] (fresh t)) = ERROR /\
  stat_of (run_ops [OpState [0; 0]%nat ERROR; OpState [1]%nat RUNNING; OpStatus [0; 1]%nat ACTIVE] (fresh t)) = PARTIAL /\
  fresh wit_a_tree = wit_a_tree /\ fresh wit_b_tree = wit_b_tree /\ all_counted wit_b_tree = true /\
  quiescent (run_sched wit_b_sched (cinit wit_b_tree wit_b_ups)) = true /\
  fresh wit_s_tree = wit_s_tree /\ all_counted wit_s_tree = true /\
  gquiescent (run_sched_g false wit_s_sched (ginit wit_s_tree wit_s_ups)) = true /\
  gquiescent (run_sched_g state_merge_atomic wit_s_sched (ginit wit_s_tree wit_s_ups)) = true.
Proof. vm_compute. repeat split; reflexivity. Qed.

(* the class that guards the repaired loader defect: an aggregator below the root with nothing
   below it is flagged on the loaded tree; a workflow with nothing at all below its root is not *)
Example C11_code10_guard :
  pick_code (snap_top [] (Agg STANDBY INACTIVE [Agg STANDBY INACTIVE []; Leaf true STANDBY INACTIVE])) = 10 /\
  memN 10 (snap_top [] (Agg STANDBY INACTIVE [])) = false /\
  memN 10 (snap_codes [] (Agg STANDBY INACTIVE [])) = true.
Proof. exact code10_witness. Qed.
