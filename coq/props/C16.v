(* C16 — the task state reported after a transition is the device's real state.
   Property theorems only; each closed by [exact] of a lemma from proofs/FairMQ_proofs.v.

   Reading guide.  [run_root (mk_root mode strict evt dst src nargs) sc] runs the model of
   Transitioner.Commit(evt, src, dst, args) (mode 1 = FairMQ, 0 = Direct; reply acceptance of
   client.go:doTransition included; on the Go side entered through the executor's message handler
   and ControllableTask.Transition and observed in the MESSAGE sent to the core, which must pass
   Commit's result on unchanged) against the
   simulated device, which starts in the device
   state that corresponds to [src]; [sc] gives one outcome (Done | Refused in place | ErrState |
   TLost request lost | TAfter performed, reply lost) per request that is actually issued, of any
   length (an exhausted script means Done).  The result records the reported state [o_final], whether
   an error is reported [o_err], the state the device is really in [o_dev], and every request with
   the device state before/after it [o_log].  [strict] devices reject a request whose source state
   is not their current state with an RPC error, as the OCC plugin and the OCC library in /repo/occ
   do; lenient ones ignore the source state.  [image mode d] is the documented image of a device
   state (identity for Direct; "" for FairMQ states without an O2 counterpart).
   All theorems hold for scripts of any length and any number of forwarded arguments. *)
From Verif Require Import Common Gen_FairMQ FairMQ Gen_FairMQTable FairMQ_proofs.
Open Scope N_scope.

(* ---- clause 1: the reported state is the image of the state the device is really in ---- *)

(* The full statement: every implemented transition, every source state, every outcome script. *)
Definition C16_image_statement : Prop :=
  forall mode strict evt dst src nargs sc,
    In mode modes -> In (evt, dst) implemented_events -> In src o2_states ->
    let ob := run_root (mk_root mode strict evt dst src nargs) sc in
    o_final ob = image mode (o_dev ob).

(* Refuted by the unchanged code (finding C16-a): CONFIGURE from STANDBY, INIT TASK performed but
   its reply lost: the device is READY (image CONFIGURED), the report is the empty string. *)
Theorem C16_image_refuted : ~ C16_image_statement.
Proof. exact image_refuted. Qed.
Print Assumptions C16_image_refuted.

(* Without any transport error the full statement holds (since the repair of finding C16-b): all
   seven events of the task state machine, every source state, lenient and source-checking
   devices, every script of performed / refused / error-state outcomes of any length.  Before the
   repair a follow-up request could carry a source state the device had already left (CONNECT from
   BOUND after an accepted roll-back to IDLE; END from READY after the reset phase of EXIT), which
   a source-checking device rejects with an RPC error: "" was reported. *)
Theorem C16_image_notransport : forall mode strict evt dst src nargs sc,
  In mode modes -> In (evt, dst) task_events -> In src o2_states ->
  let ob := run_root (mk_root mode strict evt dst src nargs) sc in
  no_transport ob = true ->
  o_final ob = image mode (o_dev ob).
Proof. exact image_notransport. Qed.
Print Assumptions C16_image_notransport.

(* And for everything (all seven task events, both strictnesses, every script): the report is the
   image of the real state, or it is empty and some request ended in an RPC error. A wrong
   non-empty state is never reported. *)
Theorem C16_image_or_unknown : forall mode strict evt dst src nargs sc,
  In mode modes -> In (evt, dst) task_events -> In src o2_states ->
  let ob := run_root (mk_root mode strict evt dst src nargs) sc in
  o_final ob = image mode (o_dev ob) \/
  (o_final ob = [] /\ exists st, In st (o_log ob) /\ s_rpcerr st = true).
Proof. exact image_or_unknown. Qed.
Print Assumptions C16_image_or_unknown.

(* ... read from the receiver's side: a NON-EMPTY state reported after a transition is always the
   image of the state the device is really in, whatever the device and the transport did *)
Theorem C16_reported_state_is_real : forall mode strict evt dst src nargs sc,
  In mode modes -> In (evt, dst) task_events -> In src o2_states ->
  let ob := run_root (mk_root mode strict evt dst src nargs) sc in
  o_final ob <> [] -> o_final ob = image mode (o_dev ob).
Proof. exact reported_state_is_real. Qed.
Print Assumptions C16_reported_state_is_real.

(* ---- clause 3: success is reported only if the device reached the destination ---- *)
(* All seven events of the task state machine (since the repair of finding C16-c, FairMQ RECOVER
   and GO_ERROR, which are not implemented and request nothing from the device, report an error). *)
Theorem C16_success_sound : forall mode strict evt dst src nargs sc,
  In mode modes -> In (evt, dst) task_events -> In src o2_states ->
  let ob := run_root (mk_root mode strict evt dst src nargs) sc in
  o_err ob = false ->
  o_dev ob = dev_of mode dst /\ o_final ob = dst.
Proof. exact success_sound. Qed.
Print Assumptions C16_success_sound.

(* ---- clause 2: roll-back ---- *)
(* If the first request that the device answers in place leaves it in an intermediate state
   (neither source nor destination) from which the device graph has an edge back to the source
   state, then the next request is such an edge, and if the device performs it the device ends
   in the source state — whatever happens to the requests the code issues afterwards. *)
Theorem C16_rollback : forall mode strict evt dst src nargs sc,
  In mode modes -> In (evt, dst) task_events -> In src o2_states ->
  let g := d_graph (spec_of mode) in
  let srcd := dev_of mode src in
  let dstd := dev_of mode dst in
  let ob := run_root (mk_root mode strict evt dst src nargs) sc in
  forall pre st post,
    o_log ob = pre ++ st :: post ->
    (forall x, In x pre -> in_place x = false) ->
    in_place st = true ->
    s_after st <> srcd -> s_after st <> dstd -> has_edge g (s_after st) srcd = true ->
    exists rb post', post = rb :: post' /\
      is_edge g (s_after st) (ei_evt (s_ei rb)) srcd = true /\
      (reached rb srcd = true -> o_dev ob = srcd).
Proof. exact rollback. Qed.
Print Assumptions C16_rollback.

(* ---- a device that performs everything it is asked ---- *)
(* Every transition a task really gets, on lenient and source-checking devices alike (since the
   repair of finding C16-b, EXIT from CONFIGURED sends END from the state its reset phase reached,
   so a source-checking device no longer rejects it): success, destination reported and reached. *)
Theorem C16_compliant_device : forall mode strict evt dst src nargs sc,
  In mode modes -> In (evt, dst, src) legit_transitions -> Forall (fun o => o = Done) sc ->
  let ob := run_root (mk_root mode strict evt dst src nargs) sc in
  o_err ob = false /\ o_final ob = dst /\ o_dev ob = dev_of mode dst.
Proof. exact compliant. Qed.
Print Assumptions C16_compliant_device.

(* ---- mechanism: reply acceptance (client.go:doTransition), for every reply whatsoever ---- *)
Theorem C16_reply_accepted_iff : forall ei trg st ev ok,
  snd (do_transition ei (Reply trg st ev ok)) = false <->
  ok = true /\ trg = trigger_EXECUTOR /\ ev = ei_evt ei /\ st = ei_dst ei.
Proof. exact do_transition_accepts. Qed.
Print Assumptions C16_reply_accepted_iff.

Theorem C16_reply_state_passed_on : forall ei trg st ev ok,
  fst (do_transition ei (Reply trg st ev ok)) = st.
Proof. exact do_transition_state. Qed.
Print Assumptions C16_reply_state_passed_on.

Theorem C16_rpc_error_gives_empty_state : forall ei, do_transition ei RpcErr = ([], true).
Proof. exact do_transition_rpcerr. Qed.
Print Assumptions C16_rpc_error_gives_empty_state.

(* ---- state: the code's state map (translated from fairmq.go on every run) is the documented
   one: STANDBY=IDLE, CONFIGURED=READY, RUNNING, ERROR, DONE=EXITING, nothing else ---- *)
Theorem C16_state_map_inverse_documented : forall d,
  state_for_fmq_state d = image MODE_FAIRMQ d.
Proof. exact inverse_map_is_image. Qed.
Print Assumptions C16_state_map_inverse_documented.

Theorem C16_state_map_forward_documented : forall st,
  In st o2_states -> fmq_state_for_state st = dev_of MODE_FAIRMQ st.
Proof. exact forward_map_is_dev_of. Qed.
Print Assumptions C16_state_map_forward_documented.

(* ---- the monitor evaluated by the harness, on the model: only the one recorded class of
   violation (1: empty state after a transport error, finding C16-a) can ever show up, and none
   without a transport error ---- *)
Theorem C16_monitor_bridge : forall mode strict evt dst src nargs sc,
  In mode modes -> In (evt, dst) task_events -> In src o2_states ->
  let r := mk_root mode strict evt dst src nargs in
  In (mon16 (CRun r sc (run_root r sc))) [0; 1].
Proof. exact monitor_bridge. Qed.
Print Assumptions C16_monitor_bridge.

Theorem C16_monitor_clean : forall mode strict evt dst src nargs sc,
  In mode modes -> In (evt, dst) task_events -> In src o2_states ->
  let r := mk_root mode strict evt dst src nargs in
  no_transport (run_root r sc) = true ->
  mon16 (CRun r sc (run_root r sc)) = 0.
Proof. exact monitor_clean. Qed.
Print Assumptions C16_monitor_clean.

(* ---- the complete tie with the Go code: Gen_FairMQTable.fmq_table is written on every run by
   executing every (mode, event incl. a non-existent one, source state, strictness) and every
   outcome script (as a prefix tree) on the real code.  It has an entry for every root, and
   following ANY script through an entry's tree gives exactly the model's run. ---- *)
Theorem C16_table_covers_domain : forall mode strict evt dst src,
  In mode modes -> In (evt, dst) table_events -> In src o2_states ->
  exists t, In (mk_root mode strict evt dst src 1, t) fmq_table.
Proof. exact table_complete. Qed.
Print Assumptions C16_table_covers_domain.

Theorem C16_table_is_model : forall r t sc,
  In (r, t) fmq_table -> walk t sc [] = run_root r sc.
Proof. exact table_is_behaviour. Qed.
Print Assumptions C16_table_is_model.

(* ---- up to the message the executor sends to the core.  What [o_final] / [o_err] stand for in
   every theorem above is the "state" / "error" of the MESSAGE payload the executor sends: h16 (and
   therefore fmq_table and every case) hands the MesosCommand_Transition document to the executor's
   own message handler (executor.handleMessageEvent, run through the committed verif hook of that
   package) with a real ControllableTask (executable.NewTask) as the active task, and reads what the
   handler sends back.  So C16_table_is_model also says that the handler, UnmarshalTransition,
   Transition and PrepareResponse pass Commit's result on unchanged, for every execution of the
   domain; nothing on that path is read from the source text. ---- *)

(* non-vacuity: concrete runs meeting the hypotheses above *)
Example C16_nonvacuous :
  (* success: everything performed *)
  (let ob := run_root (mk_root MODE_FAIRMQ true E_CONFIGURE O2_CONFIGURED O2_STANDBY 1) [] in
   o_err ob = false /\ o_final ob = O2_CONFIGURED /\ o_dev ob = D_READY /\ length (o_log ob) = 5%nat) /\
  (* roll-back: BIND refused in place, RESET DEVICE performed; hypotheses of C16_rollback and of
     C16_image_notransport hold on a source-checking device, device back in IDLE, nothing more is
     requested, STANDBY reported with an error *)
  (let ob := run_root (mk_root MODE_FAIRMQ true E_CONFIGURE O2_CONFIGURED O2_STANDBY 1)
                      [Done; Done; Refused; Done; ErrState] in
   no_transport ob = true /\ length (o_log ob) = 4%nat /\
   match o_log ob with
   | a :: b :: st :: rb :: _ =>
     in_place a = false /\ in_place b = false /\
     in_place st = true /\ s_after st = D_INITIALIZED /\
     has_edge fmq_graph D_INITIALIZED D_IDLE = true /\ reached rb D_IDLE = true /\
     o_dev ob = D_IDLE /\ o_final ob = O2_STANDBY /\ o_err ob = true
   | _ => False
   end) /\
  (* EXIT from CONFIGURED on a source-checking device: RESET TASK, RESET DEVICE, END from IDLE *)
  (let ob := run_root (mk_root MODE_FAIRMQ true E_EXIT O2_DONE O2_CONFIGURED 1) [] in
   o_err ob = false /\ o_final ob = O2_DONE /\ o_dev ob = D_EXITING /\
   map (fun st => ei_src (s_ei st)) (o_log ob) = [D_READY; D_DEVICE_READY; D_IDLE]) /\
  (* a reply that is accepted *)
  do_transition (EI T_RUN D_READY D_RUNNING 0) (Reply trigger_EXECUTOR D_RUNNING T_RUN true)
    = (D_RUNNING, false).
Proof. vm_compute. repeat split; reflexivity. Qed.
