(* C16 — the task state reported after a transition is the device's real state.
   Property theorems only; each closed by [exact] of a lemma from proofs/FairMQ_proofs.v.

   Reading guide.  [run_root (mk_root mode strict evt dst src nargs) sc] runs the model of
   Transitioner.Commit(evt, src, dst, args) (mode 1 = FairMQ, 0 = Direct; reply acceptance of
   client.go:doTransition included) against the simulated device, which starts in the device
   state that corresponds to [src]; [sc] gives one outcome (Done | Refused in place | ErrState |
   TLost request lost | TAfter performed, reply lost) per request that is actually issued, of any
   length (an exhausted script means Done).  The result records the reported state [o_final], whether
   an error is reported [o_err], the state the device is really in [o_dev], and every request with
   the device state before/after it [o_log].  [strict] devices reject a request whose source state
   is not their current state with an RPC error, as the OCC plugin and the OCC library in /repo/occ
   do; lenient ones ignore the source state.  [image mode d] is the documented image of a device
   state (identity for Direct; "" for FairMQ states without an O2 counterpart).
   All theorems hold for scripts of any length and any number of forwarded arguments. *)
From Verif Require Import Common Gen_FairMQ FairMQ Gen_FairMQTable FairMQ_proofs.
Open Scope N_scope.

(* ---- clause 1: the reported state is the image of the state the device is really in ---- *)

(* The full statement: every implemented transition, every source state, every outcome script. *)
Definition C16_image_statement : Prop :=
  forall mode strict evt dst src nargs sc,
    In mode modes -> In (evt, dst) implemented_events -> In src o2_states ->
    let ob := run_root (mk_root mode strict evt dst src nargs) sc in
    o_final ob = image mode (o_dev ob).

(* Refuted by the unchanged code (finding C16-a): CONFIGURE from STANDBY, INIT TASK performed but
   its reply lost: the device is READY (image CONFIGURED), the report is the empty string. *)
Theorem C16_image_refuted : ~ C16_image_statement.
Proof. exact image_refuted. Qed.
Print Assumptions C16_image_refuted.

(* Without any transport error, but for devices of either strictness. *)
Definition C16_image_notransport_statement : Prop :=
  forall mode strict evt dst src nargs sc,
    In mode modes -> In (evt, dst) implemented_events -> In src o2_states ->
    let ob := run_root (mk_root mode strict evt dst src nargs) sc in
    no_transport ob = true ->
    o_final ob = image mode (o_dev ob).

(* Refuted as well (finding C16-b): BIND refused in place, RESET DEVICE roll-back performed (device
   IDLE), then doConfigure carries on with CONNECT from source BOUND, which a source-checking
   device rejects with an RPC error: report "" while the device is IDLE (image STANDBY). *)
Theorem C16_image_notransport_refuted : ~ C16_image_notransport_statement.
Proof. exact image_notransport_refuted. Qed.
Print Assumptions C16_image_notransport_refuted.

(* What does hold: no transport error and a device that does not check the source state. *)
Theorem C16_image_partial : forall mode evt dst src nargs sc,
  In mode modes -> In (evt, dst) implemented_events -> In src o2_states ->
  let ob := run_root (mk_root mode false evt dst src nargs) sc in
  no_transport ob = true ->
  o_final ob = image mode (o_dev ob).
Proof. exact image_partial. Qed.
Print Assumptions C16_image_partial.

(* And for everything (all seven task events, both strictnesses, every script): the report is the
   image of the real state, or it is empty and some request ended in an RPC error. A wrong
   non-empty state is never reported. *)
Theorem C16_image_or_unknown : forall mode strict evt dst src nargs sc,
  In mode modes -> In (evt, dst) task_events -> In src o2_states ->
  let ob := run_root (mk_root mode strict evt dst src nargs) sc in
  o_final ob = image mode (o_dev ob) \/
  (o_final ob = [] /\ exists st, In st (o_log ob) /\ s_rpcerr st = true).
Proof. exact image_or_unknown. Qed.
Print Assumptions C16_image_or_unknown.

(* ---- clause 3: success is reported only if the device reached the destination ---- *)
Theorem C16_success_sound : forall mode strict evt dst src nargs sc,
  In mode modes -> In (evt, dst) implemented_events -> In src o2_states ->
  let ob := run_root (mk_root mode strict evt dst src nargs) sc in
  o_err ob = false ->
  o_dev ob = dev_of mode dst /\ o_final ob = dst.
Proof. exact success_sound. Qed.
Print Assumptions C16_success_sound.

(* The same over all seven events of the task state machine is refuted (finding C16-c): FairMQ
   GO_ERROR (and RECOVER) report success and the source state without asking the device. *)
Definition C16_success_all_events_statement : Prop :=
  forall mode strict evt dst src nargs sc,
    In mode modes -> In (evt, dst) task_events -> In src o2_states ->
    let ob := run_root (mk_root mode strict evt dst src nargs) sc in
    o_err ob = false ->
    o_dev ob = dev_of mode dst /\ o_final ob = dst.

Theorem C16_success_all_events_refuted : ~ C16_success_all_events_statement.
Proof. exact success_all_events_refuted. Qed.
Print Assumptions C16_success_all_events_refuted.

(* ---- clause 2: roll-back ---- *)
(* If the first request that the device answers in place leaves it in an intermediate state
   (neither source nor destination) from which the device graph has an edge back to the source
   state, then the next request is such an edge, and if the device performs it the device ends
   in the source state — whatever happens to the requests the code issues afterwards. *)
Theorem C16_rollback : forall mode strict evt dst src nargs sc,
  In mode modes -> In (evt, dst) task_events -> In src o2_states ->
  let g := d_graph (spec_of mode) in
  let srcd := dev_of mode src in
  let dstd := dev_of mode dst in
  let ob := run_root (mk_root mode strict evt dst src nargs) sc in
  forall pre st post,
    o_log ob = pre ++ st :: post ->
    (forall x, In x pre -> in_place x = false) ->
    in_place st = true ->
    s_after st <> srcd -> s_after st <> dstd -> has_edge g (s_after st) srcd = true ->
    exists rb post', post = rb :: post' /\
      is_edge g (s_after st) (ei_evt (s_ei rb)) srcd = true /\
      (reached rb srcd = true -> o_dev ob = srcd).
Proof. exact rollback. Qed.
Print Assumptions C16_rollback.

(* ---- a device that performs everything it is asked ---- *)
Definition C16_compliant_device_statement : Prop :=
  forall mode strict evt dst src nargs sc,
    In mode modes -> In (evt, dst, src) legit_transitions -> Forall (fun o => o = Done) sc ->
    let ob := run_root (mk_root mode strict evt dst src nargs) sc in
    o_err ob = false /\ o_final ob = dst /\ o_dev ob = dev_of mode dst.

(* Refuted (finding C16-b again): EXIT from CONFIGURED sends END with source READY after the
   reset phase has brought the device to IDLE; a source-checking device rejects it, so the
   transition can never complete: device left in IDLE, report "" with an error. *)
Theorem C16_compliant_device_refuted : ~ C16_compliant_device_statement.
Proof. exact compliant_refuted. Qed.
Print Assumptions C16_compliant_device_refuted.

Theorem C16_compliant_device_partial : forall mode evt dst src nargs sc,
  In mode modes -> In (evt, dst, src) legit_transitions -> Forall (fun o => o = Done) sc ->
  let ob := run_root (mk_root mode false evt dst src nargs) sc in
  o_err ob = false /\ o_final ob = dst /\ o_dev ob = dev_of mode dst.
Proof. exact compliant_partial. Qed.
Print Assumptions C16_compliant_device_partial.

(* ---- mechanism: reply acceptance (client.go:doTransition), for every reply whatsoever ---- *)
Theorem C16_reply_accepted_iff : forall ei trg st ev ok,
  snd (do_transition ei (Reply trg st ev ok)) = false <->
  ok = true /\ trg = trigger_EXECUTOR /\ ev = ei_evt ei /\ st = ei_dst ei.
Proof. exact do_transition_accepts. Qed.
Print Assumptions C16_reply_accepted_iff.

Theorem C16_reply_state_passed_on : forall ei trg st ev ok,
  fst (do_transition ei (Reply trg st ev ok)) = st.
Proof. exact do_transition_state. Qed.
Print Assumptions C16_reply_state_passed_on.

Theorem C16_rpc_error_gives_empty_state : forall ei, do_transition ei RpcErr = ([], true).
Proof. exact do_transition_rpcerr. Qed.
Print Assumptions C16_rpc_error_gives_empty_state.

(* ---- state: the code's state map (translated from fairmq.go on every run) is the documented
   one: STANDBY=IDLE, CONFIGURED=READY, RUNNING, ERROR, DONE=EXITING, nothing else ---- *)
Theorem C16_state_map_inverse_documented : forall d,
  state_for_fmq_state d = image MODE_FAIRMQ d.
Proof. exact inverse_map_is_image. Qed.
Print Assumptions C16_state_map_inverse_documented.

Theorem C16_state_map_forward_documented : forall st,
  In st o2_states -> fmq_state_for_state st = dev_of MODE_FAIRMQ st.
Proof. exact forward_map_is_dev_of. Qed.
Print Assumptions C16_state_map_forward_documented.

(* ---- the monitor evaluated by the harness, on the model: only the three recorded classes of
   violation can ever show up, and none without a transport error on a lenient device ---- *)
Theorem C16_monitor_bridge : forall mode strict evt dst src nargs sc,
  In mode modes -> In (evt, dst) task_events -> In src o2_states ->
  let r := mk_root mode strict evt dst src nargs in
  In (mon16 (CRun r sc (run_root r sc))) [0; 1; 2; 6].
Proof. exact monitor_bridge. Qed.
Print Assumptions C16_monitor_bridge.

Theorem C16_monitor_clean : forall mode evt dst src nargs sc,
  In mode modes -> In (evt, dst) implemented_events -> In src o2_states ->
  let r := mk_root mode false evt dst src nargs in
  no_transport (run_root r sc) = true ->
  mon16 (CRun r sc (run_root r sc)) = 0.
Proof. exact monitor_clean. Qed.
Print Assumptions C16_monitor_clean.

(* ---- the complete tie with the Go code: Gen_FairMQTable.fmq_table is written on every run by
   executing every (mode, event incl. a non-existent one, source state, strictness) and every
   outcome script (as a prefix tree) on the real code.  It has an entry for every root, and
   following ANY script through an entry's tree gives exactly the model's run. ---- *)
Theorem C16_table_covers_domain : forall mode strict evt dst src,
  In mode modes -> In (evt, dst) table_events -> In src o2_states ->
  exists t, In (mk_root mode strict evt dst src 1, t) fmq_table.
Proof. exact table_complete. Qed.
Print Assumptions C16_table_covers_domain.

Theorem C16_table_is_model : forall r t sc,
  In (r, t) fmq_table -> walk t sc [] = run_root r sc.
Proof. exact table_is_behaviour. Qed.
Print Assumptions C16_table_is_model.

(* non-vacuity: concrete runs meeting the hypotheses above *)
Example C16_nonvacuous :
  (* success: everything performed *)
  (let ob := run_root (mk_root MODE_FAIRMQ true E_CONFIGURE O2_CONFIGURED O2_STANDBY 1) [] in
   o_err ob = false /\ o_final ob = O2_CONFIGURED /\ o_dev ob = D_READY /\ length (o_log ob) = 5%nat) /\
  (* roll-back: BIND refused in place, RESET DEVICE performed; hypotheses of C16_rollback and of
     C16_image_partial hold, device back in IDLE, STANDBY reported with an error *)
  (let ob := run_root (mk_root MODE_FAIRMQ false E_CONFIGURE O2_CONFIGURED O2_STANDBY 1)
                      [Done; Done; Refused; Done; ErrState] in
   no_transport ob = true /\
   match o_log ob with
   | a :: b :: st :: rb :: _ =>
     in_place a = false /\ in_place b = false /\
     in_place st = true /\ s_after st = D_INITIALIZED /\
     has_edge fmq_graph D_INITIALIZED D_IDLE = true /\ reached rb D_IDLE = true /\
     o_dev ob = D_IDLE /\ o_final ob = O2_STANDBY /\ o_err ob = true
   | _ => False
   end) /\
  (* a reply that is accepted *)
  do_transition (EI T_RUN D_READY D_RUNNING 0) (Reply trigger_EXECUTOR D_RUNNING T_RUN true)
    = (D_RUNNING, false).
Proof. vm_compute. repeat split; reflexivity. Qed.
