(* C12 — each control command gets exactly one answer per target, never someone else's.
   Property theorems only; each closed by [exact] of a lemma from proofs/CmdQueue_proofs.v.

   [run sched] is the state of CommandQueue + Servent after the schedule [sched]: an arbitrary
   list of Enqueue calls, ProcessResponse calls with arbitrary (id, sender, payload), SendFunc
   returns (nil / error), timer firings and the code's own atomic sections, in any order.
   Labels that are not enabled leave the state unchanged, so [forall sched] ranges over every
   interleaving, any number of commands, targets and replies.  Nothing below is bounded. *)
From Coq Require Import Permutation.
From Verif Require Import Common CmdQueue CmdQueue_proofs CmdQueue_alias_proofs.
Open Scope N_scope.

(* ---- exactly once ---- *)
(* At every moment the commands enqueued so far are, in enqueue order, exactly: those whose
   callback has received its (one) value, the one being committed, those still queued. *)
Theorem C12_exactly_once_fifo : forall sched,
  map fst (s_out (run sched)) ++ cur_cmds (run sched) ++ s_queue (run sched) = enq_cmds sched.
Proof. exact fifo_accounting. Qed.
Print Assumptions C12_exactly_once_fifo.

(* ... so at any moment of any schedule the commands answered so far are a prefix of the commands
   enqueued so far, in their order: no answer to a command nobody asked, none twice, none
   overtaking an earlier command *)
Theorem C12_answered_is_prefix : forall sched,
  exists rest, enq_cmds sched = map fst (s_out (run sched)) ++ rest.
Proof. exact answered_is_prefix. Qed.
Print Assumptions C12_answered_is_prefix.

(* From every reachable state all enqueued commands get their value by moves of the code
   itself (SendFunc returning, time-outs, clean-ups), without a single reply, in at most
   [measure] steps; afterwards the callbacks have received exactly the enqueued commands. *)
Theorem C12_exactly_once_completes : forall sched,
  exists ext, (forall l, In l ext -> progress_label l = true) /\
              (length ext <= measure (run sched))%nat /\
              map fst (s_out (run (sched ++ ext))) = enq_cmds sched.
Proof. exact completes_exactly_once. Qed.
Print Assumptions C12_exactly_once_completes.

(* Every move of the code strictly uses up the measure, replies never add to it, and while it
   is not zero some move of the code is enabled: a command can only fail to complete if
   SendFunc never returns or the scheduler starves a goroutine for ever. *)
Theorem C12_progress_measure :
  (forall st l st', progress_label l = true -> step_rel st l st' ->
                    (measure st' < measure st)%nat) /\
  (forall st id t p, measure (step st (LDeliver id t p)) = measure st) /\
  (forall st, shape_ok st -> measure st <> O ->
              exists l st', progress_label l = true /\ step_rel st l st') /\
  (forall st, measure st = O <-> s_cur st = None /\ s_queue st = []).
Proof. exact progress_measure. Qed.
Print Assumptions C12_progress_measure.

(* ---- per target: own reply, or an error saying not sent / not answered ---- *)
(* The value given to the callback of command c (distinct targets) has the shape nil / single /
   multi according to the number of targets, holds exactly one entry per target, and the entry
   for t is: the payload p of a ProcessResponse call of this schedule with c's id and sender t;
   or the send error, and SendFunc did return an error for (id, t); or the time-out error, and
   the timer of that worker did fire.  Never anything else ([EOther] is [False]). *)
Theorem C12_per_target_own : forall sched c r,
  In (c, r) (s_out (run sched)) -> NoDup (c_targets c) ->
  result_shape c r /\
  Permutation (map fst (entries_of c r)) (c_targets c) /\
  forall t e, In (t, e) (entries_of c r) ->
    match e with
    | EReply p => In (LDeliver (c_id c) t p) sched
    | ESendErr => In (c_id c, t, false) (s_sends (run sched))
    | ETimeout => exists w, nth_error (c_targets c) w = Some t /\ In (LTimeout (c_id c) w) sched
    | EOther => False
    end.
Proof. exact per_target_own. Qed.
Print Assumptions C12_per_target_own.

(* Without the distinctness assumption: the value is the consolidation of one collected entry
   per element of the target list, each with the same provenance; and the command was enqueued. *)
Theorem C12_collected_entries_own : forall sched c r,
  In (c, r) (s_out (run sched)) ->
  In c (enq_cmds sched) /\
  exists coll, r = consolidate coll /\ Permutation (map fst coll) (c_targets c) /\
               forall t e, In (t, e) coll -> entry_prov sched (s_sends (run sched)) c t e.
Proof. exact out_collected. Qed.
Print Assumptions C12_collected_entries_own.

(* ---- isolation ---- *)
(* A reply whose (id, sender) is not pending — unknown, late, duplicate, not yet sent — changes
   nothing at all (any state, reachable or not). *)
Theorem C12_isolation_dropped : forall st id t p,
  pend_get (id, t) (s_pending st) = None -> step st (LDeliver id t p) = st.
Proof. exact deliver_dropped. Qed.
Print Assumptions C12_isolation_dropped.

(* In every reachable state a reply either changes nothing, or it is for the command in
   progress, from one of its targets whose call is registered and unanswered, and all it does
   is to take that key out of the pending map and offer its payload to that very call. *)
Theorem C12_isolation : forall sched id t p,
  let st := run sched in
  step st (LDeliver id t p) = st \/
  exists k w ws c,
    s_cur st = Some k /\ c_id (k_cmd k) = id /\
    nth_error (c_targets (k_cmd k)) w = Some t /\
    nth_error (k_workers k) w = Some ws /\ holds_call ws c = true /\
    step st (LDeliver id t p) =
      mkState (s_queue st) (s_cur st) (pend_del (id, t) (s_pending st))
              ((c, p) :: s_offers st) (s_next st) (s_out st) (s_sends st).
Proof. exact deliver_effect. Qed.
Print Assumptions C12_isolation.

(* A reply never touches worker states, collected results, callbacks, the queue, the send log
   or any other pending key (any state). *)
Theorem C12_isolation_frame : forall st id t p,
  let st' := step st (LDeliver id t p) in
  s_cur st' = s_cur st /\ s_queue st' = s_queue st /\ s_out st' = s_out st /\
  s_sends st' = s_sends st /\ s_next st' = s_next st /\
  (forall ky, ky <> (id, t) -> pend_get ky (s_pending st') = pend_get ky (s_pending st)) /\
  (forall c q, In (c, q) (s_offers st) -> In (c, q) (s_offers st')).
Proof. exact deliver_frame. Qed.
Print Assumptions C12_isolation_frame.

(* A reply for any command other than the one in progress (answered, queued, never issued) can
   be deleted from any schedule: the resulting state is the same. *)
Theorem C12_isolation_other_command : forall s1 s2 id t p,
  (forall k, s_cur (run s1) = Some k -> c_id (k_cmd k) <> id) ->
  run (s1 ++ LDeliver id t p :: s2) = run (s1 ++ s2).
Proof. exact foreign_reply_irrelevant. Qed.
Print Assumptions C12_isolation_other_command.

(* ---- identity of per-command objects: a left-over completion signal completes nobody ---- *)
(* A responder that is blocked on the Done channel of a call which no worker of the command in
   progress owns (its command timed out, failed to send or is long finished) stays blocked for
   ever and the call is never owned again, whatever commands, sends, replies and time-outs follow:
   every registration allocates a call nobody has seen ([s_next]), so the late reply to one
   command can never complete, fail or alter another command through a shared call/channel. *)
Theorem C12_stale_signal_completes_nobody : forall sched c p,
  In (c, p) (s_offers (run sched)) -> unowned (run sched) c ->
  forall ext, In (c, p) (s_offers (run (sched ++ ext))) /\ unowned (run (sched ++ ext)) c.
Proof. exact stale_offer_forever. Qed.
Print Assumptions C12_stale_signal_completes_nobody.

(* in particular every responder still blocked when no command is in progress *)
Theorem C12_idle_signals_are_stale : forall sched c p ext,
  s_cur (run sched) = None -> In (c, p) (s_offers (run sched)) ->
  In (c, p) (s_offers (run (sched ++ ext))) /\ unowned (run (sched ++ ext)) c.
Proof. intros sched c p ext C I. apply stale_offer_forever; [exact I|apply idle_unowned, C]. Qed.
Print Assumptions C12_idle_signals_are_stale.

(* two workers never own the same call *)
Theorem C12_calls_never_shared : forall sched k w1 w2 ws1 ws2 c,
  s_cur (run sched) = Some k ->
  nth_error (k_workers k) w1 = Some ws1 -> nth_error (k_workers k) w2 = Some ws2 ->
  holds_call ws1 c = true -> holds_call ws2 c = true -> w1 = w2.
Proof. exact calls_never_shared. Qed.
Print Assumptions C12_calls_never_shared.

(* the forced schedule played by the harness (the timer of command 1 wins the select, then the
   late reply takes the call, then the clean-up; command 2 to another target follows): command 2
   is completed at step 7 by its own reply 60, never by the left-over signal (0, 51). *)
Theorem C12_late_reply_race_witness :
  let st := hrunh alias_holds alias_script in
  s_out st = [(mkCmd 1 [7], RSingle ETimeout); (mkCmd 2 [8], RSingle (EReply 60))] /\
  s_offers st = [(0, 51)] /\ s_pending st = [] /\ s_cur st = None /\
  model_when alias_holds alias_script = [4; 7] /\
  (let mid := hrunh alias_holds (firstn 6 alias_script) in
   In (0, 51) (s_offers mid) /\ unowned mid 0 /\
   exists k, s_cur mid = Some k /\ k_cmd k = mkCmd 2 [8] /\ k_workers k = [WWait 1]).
Proof. exact alias_witness. Qed.
Print Assumptions C12_late_reply_race_witness.

(* ---- time bound: no worker waits for another worker ---- *)
(* In every state (reachable or not) the move each worker of the command in progress is waiting
   to make - register and send, the return of SendFunc, its own timer, its clean-up - is enabled
   by that worker's own state alone.  So all targets are sent to at once and all response timers
   run side by side: together with C12_exactly_once_completes (time-outs alone complete every
   command) a command completes one response timeout after its sends returned, whatever the
   number of targets.  The harness measures exactly this on commands with hundreds of targets
   (monitor codes 13, 14). *)
Theorem C12_no_worker_waits_for_another : forall st k w ws t,
  s_cur st = Some k -> nth_error (k_workers k) w = Some ws ->
  nth_error (c_targets (k_cmd k)) w = Some t ->
  match ws with
  | WInit => enabled st (LRegister w) = true
  | WReg _ => enabled st (LSendOk (c_id (k_cmd k)) w) = true /\
              enabled st (LSendErr (c_id (k_cmd k)) w) = true
  | WWait _ => enabled st (LTimeout (c_id (k_cmd k)) w) = true
  | WFail _ => enabled st (LFailCleanup w) = true
  | WTimedOut _ => enabled st (LTimeoutCleanup w) = true
  | WFin => True
  end.
Proof. exact worker_moves_independent. Qed.
Print Assumptions C12_no_worker_waits_for_another.

(* ---- pending is clean ---- *)
Theorem C12_pending_owned : forall sched id t c,
  In ((id, t), c) (s_pending (run sched)) ->
  exists k w ws, s_cur (run sched) = Some k /\ c_id (k_cmd k) = id /\
                 nth_error (c_targets (k_cmd k)) w = Some t /\
                 nth_error (k_workers k) w = Some ws /\ holds_call ws c = true.
Proof. exact pending_owned. Qed.
Print Assumptions C12_pending_owned.

Theorem C12_pending_clean : forall sched,
  s_cur (run sched) = None -> s_pending (run sched) = [].
Proof. exact pending_clean. Qed.
Print Assumptions C12_pending_clean.

(* ---- a reply to a live call is never lost: true for distinct targets only ---- *)
(* Full statement: whenever a worker has registered its call, has not timed out and has not
   been answered, a reply from its target with its command's id reaches that call. *)
Definition C12_no_reply_lost_statement : Prop :=
  forall sched, reply_reaches_live_call_for sched.

Theorem C12_duplicate_target_refuted : ~ C12_no_reply_lost_statement.
Proof. exact reply_lost_with_duplicate_target. Qed.
Print Assumptions C12_duplicate_target_refuted.

Theorem C12_no_reply_lost_partial : forall sched,
  (forall c, In c (enq_cmds sched) -> NoDup (c_targets c)) ->
  reply_reaches_live_call_for sched.
Proof. exact reply_reaches_live_call. Qed.
Print Assumptions C12_no_reply_lost_partial.

(* ---- outside the property: a responder can stay blocked on Done for ever ---- *)
Theorem C12_responder_left_blocked_witness :
  let st := run leak_witness in
  s_cur st = None /\ s_queue st = [] /\ s_pending st = [] /\
  s_out st = [(mkCmd 1 [7], RSingle ESendErr)] /\ s_offers st = [(0, 55)].
Proof. exact responder_left_blocked. Qed.
Print Assumptions C12_responder_left_blocked_witness.

(* ---- the harness-level runs (environment labels, code settles in between) are runs ---- *)
Theorem C12_harness_runs_are_runs : forall script,
  exists sched, hrun script = run sched /\
                forall l, In l sched -> In l script \/ internal_label l = true.
Proof. exact hrun_is_run. Qed.
Print Assumptions C12_harness_runs_are_runs.

(* the same with held steps (positions after which the harness keeps the servent mutex, so that
   no clean-up runs before the next environment action) *)
Theorem C12_held_harness_runs_are_runs : forall holds script,
  exists sched, hrunh holds script = run sched /\
                forall l, In l sched -> In l script \/ internal_label l = true.
Proof. exact hrunh_is_run. Qed.
Print Assumptions C12_held_harness_runs_are_runs.

(* non-vacuity: a concrete schedule with two commands, a reply before the send returned, a send
   failure, a time-out racing a reply, duplicate / foreign / early / late replies; both commands
   are answered once, each entry is an own reply or an error, pending ends empty, and the
   hypotheses of the theorems above (distinct targets, a command in progress) are met. *)
Example C12_nonvacuous :
  let st := run example_sched in
  s_out st = [(mkCmd 1 [10; 11; 12], RMulti [(10, EReply 100); (11, ESendErr); (12, ETimeout)]);
              (mkCmd 2 [10], RSingle (EReply 105))] /\
  s_pending st = [] /\ s_cur st = None /\ s_offers st = [(2, 103)] /\
  NoDup (c_targets (mkCmd 1 [10; 11; 12])) /\
  (exists k, s_cur (run (firstn 9 example_sched)) = Some k /\ c_id (k_cmd k) = 1) /\
  measure (run (firstn 9 example_sched)) <> O.
Proof.
  vm_compute. repeat split; try reflexivity.
  - repeat constructor; cbn; intuition discriminate.
  - eexists. split; reflexivity.
  - discriminate.
Qed.
