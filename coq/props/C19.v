(* C19 — published events are delivered once, in order, and flushed on shutdown.
   Property theorems only; each closed by [exact] of a lemma from proofs/EventWriter_proofs.v.
   Model: model/EventWriter.v (producers, batching loop, writing loop, Close as interleaved
   sequential processes; a schedule = list of "who moves next"); all theorems quantify over
   every schedule [sched : list label], i.e. every number of producers, burst pattern, broker
   latency (the writer not being scheduled inside the write function) and instant of Close.
   Constants and the key table come from gen/Gen_EventWriter.v (regenerated from writer.go). *)
From Verif Require Import Common Gen_EventWriter EventWriter EventWriter_proofs.
From Verif Require Import Gen_EventRegistry EventRegistry EventRegistry_proofs.
Open Scope N_scope.

(* ---- exactly once, in order ---- *)

(* Conservation: what was put into the channel, in that order, is exactly the concatenation of
   the batches handed to the broker followed by what is still inside the pipeline (popped batch,
   FIFO buffer, the batcher's hand, channel).  Hence nothing is lost, duplicated or reordered. *)
Theorem C19_conservation : forall sched,
  let s := run sched init in
  accepted s = concat (delivered s) ++ pending s.
Proof. exact conservation. Qed.
Print Assumptions C19_conservation.

(* What [accepted] means: it grows by exactly the converted message when a producer's channel
   send succeeds (supported event, channel open and not full) and never otherwise. *)
Theorem C19_accepted_meaning : forall s,
  (forall p e,
     accepted (step (LPub p e) s) =
     match key_of e with
     | Some k => if publish_enabled s then accepted s ++ [mkMsg p e k] else accepted s
     | None => accepted s
     end) /\
  accepted (step LB s) = accepted s /\ accepted (step LW s) = accepted s /\
  accepted (step LC s) = accepted s.
Proof. exact accepted_spec. Qed.
Print Assumptions C19_accepted_meaning.

Theorem C19_exactly_once : forall sched,
  let s := run sched init in
  NoDup (map id_of (accepted s)) -> NoDup (map id_of (concat (delivered s))).
Proof. exact exactly_once. Qed.
Print Assumptions C19_exactly_once.

(* the events of every producer reach the broker in the order the producer published them:
   what has been delivered of producer p is a prefix of what was accepted from p *)
Theorem C19_per_producer_order : forall sched p,
  let s := run sched init in
  exists rest,
    filter (by_prod p) (accepted s) = filter (by_prod p) (concat (delivered s)) ++ rest.
Proof. exact per_producer_order. Qed.
Print Assumptions C19_per_producer_order.

(* ---- bounded batches ---- *)
Theorem C19_batch_bound : forall sched b,
  In b (delivered (run sched init)) -> (1 <= length b <= 100)%nat.
Proof. exact batch_bound. Qed.
Print Assumptions C19_batch_bound.

(* ---- producers never wait for the broker ---- *)
(* As long as the channel is open, at most two steps of the batching loop alone — with the
   writer frozen wherever it is, e.g. inside the write function for ever — make the next
   WriteEvent succeed; those steps touch neither the writer nor the delivered batches. *)
Theorem C19_producers_never_wait_for_broker : forall sched,
  let s := run sched init in
  closed s = false ->
  exists k, (k <= 2)%nat /\
    let s' := run (repeat LB k) s in
    publish_enabled s' = true /\ wp s' = wp s /\ delivered s' = delivered s /\
    accepted s' = accepted s.
Proof. exact producers_never_wait. Qed.
Print Assumptions C19_producers_never_wait_for_broker.

(* ---- every accepted event does reach the broker ---- *)
(* Without shutdown: under every policy that keeps scheduling whichever of the two loops can move
   (no further publication, Close not called), from every reachable state, within [measure s]
   steps everything accepted so far has been handed to the broker and the pipeline is empty. *)
Theorem C19_eventually_delivered : forall pol sched,
  fair_bw_policy pol ->
  let s := run sched init in
  cp s = CNot ->
  exists n, (n <= measure s)%nat /\
            let s' := drive pol n s in
            pending s' = [] /\ concat (delivered s') = accepted s' /\ accepted s' = accepted s.
Proof. exact eventually_delivered. Qed.
Print Assumptions C19_eventually_delivered.

(* ---- flushed on shutdown ---- *)
(* When Close has returned, every accepted message has been handed to the broker and the
   pipeline is empty — for every schedule, in particular every instant of Close. *)
Theorem C19_flush : forall sched,
  let s := run sched init in
  cp s = CReturned -> pending s = [] /\ concat (delivered s) = accepted s.
Proof. exact flush. Qed.
Print Assumptions C19_flush.

Theorem C19_waitgroup_never_negative : forall sched, (0 <= wg (run sched init))%Z.
Proof. exact wg_nonneg. Qed.
Print Assumptions C19_waitgroup_never_negative.

(* the only panic of the model (send on the closed channel) needs a publication after Close
   closed the channel *)
Theorem C19_panic_only_after_close : forall sched,
  panicked (run sched init) = true -> closed (run sched init) = true.
Proof. exact no_panic_before_close. Qed.
Print Assumptions C19_panic_only_after_close.

(* ---- partition keys ---- *)
Theorem C19_key_table_as_documented :
  ew_key_table = [(0,0); (1,0); (2,0); (3,1); (4,2); (5,2); (6,2); (7,2); (8,2)] /\
  forall e k, key_of e = Some k -> k = documented_key e.
Proof. exact (conj key_table_documented documented_key_agrees). Qed.
Print Assumptions C19_key_table_as_documented.

(* role, environment, call, integrated-service and run events about the same environment reach
   the broker with the same key, and that key is the environment id *)
Theorem C19_same_key : forall sched m1 m2,
  let s := run sched init in
  In m1 (concat (delivered s)) -> In m2 (concat (delivered s)) ->
  env_scoped_kind (e_kind (m_ev m1)) = true -> env_scoped_kind (e_kind (m_ev m2)) = true ->
  e_env (m_ev m1) = e_env (m_ev m2) ->
  m_key m1 = m_key m2 /\ m_key m1 = nonempty_key (e_env (m_ev m1)).
Proof. exact same_key. Qed.
Print Assumptions C19_same_key.

Theorem C19_task_events_keyed_by_task : forall sched m,
  In m (concat (delivered (run sched init))) -> e_kind (m_ev m) = 3 ->
  m_key m = nonempty_key (e_task (m_ev m)).
Proof. exact task_key. Qed.
Print Assumptions C19_task_events_keyed_by_task.

(* Reading note (not a defect of the code against its documentation): Ev_TaskEvent also carries
   an environment id, so under the literal reading "same environment id => same key" over all
   event types the clause fails — a task event is keyed by its task id. *)
Definition C19_same_key_all_types_statement : Prop := same_key_all_types_statement.
Theorem C19_same_key_all_types_refuted : ~ C19_same_key_all_types_statement.
Proof. exact same_key_all_types_refuted. Qed.
Print Assumptions C19_same_key_all_types_refuted.

(* ---- Close returns ---- *)
(* Under every scheduling policy that keeps scheduling a process that can move (and no further
   publication), from every reachable state in which Close has been called, Close has returned
   after at most [measure s] steps.  (Before FifoBuffer got its `released` flag this failed: the
   lost wake-up below; the flag is read from fifobuffer.go on every run — ew_release_sticky — so
   a revert breaks this proof.) *)
Theorem C19_close_terminates : forall pol sched,
  fair_policy pol ->
  let s := run sched init in
  cp s <> CNot ->
  exists n, (n <= measure s)%nat /\ cp (drive pol n s) = CReturned.
Proof. exact close_terminates. Qed.
Print Assumptions C19_close_terminates.

(* the state "batching loop gone, writer in cond.Wait without wake-up, Close waiting" is unreachable *)
Theorem C19_no_lost_wakeup : forall sched, ~ lost_wakeup (run sched init).
Proof. exact no_lost_wakeup. Qed.
Print Assumptions C19_no_lost_wakeup.

(* the schedule that used to hang (writer decides `default:`; Close; the batcher signals,
   broadcasts and leaves; only then the writer enters PopMultiple): the writer now comes back
   empty-handed to its select with the done token present, and four more steps let Close return *)
Theorem C19_old_hang_schedule_terminates :
  wp (run hang_sched init) = WSelect /\ done_sig (run hang_sched init) = true /\
  cp (run (hang_sched ++ [LW; LW; LW; LC]) init) = CReturned.
Proof. exact old_hang_schedule_terminates. Qed.
Print Assumptions C19_old_hang_schedule_terminates.

(* every step of the batching loop, the writing loop or Close decreases [measure]: no busy
   loop, finitely many steps between two publications *)
Theorem C19_service_steps_decrease_measure : forall sched l,
  let s := run sched init in
  (l = LB \/ l = LW \/ l = LC) -> can l s = true -> (measure (step l s) < measure s)%nat.
Proof. exact measure_decreases_reach. Qed.
Print Assumptions C19_service_steps_decrease_measure.

(* the constants read from writer.go on this run are within what the model assumes: the done
   signal never blocks (capacity 1), the done branch drains, a released FifoBuffer does not
   block, batch limits are within 1..100 *)
Theorem C19_translated_constants_fit_model :
  ew_done_cap = 1 /\ ew_drain_on_done = true /\ ew_release_sticky = true /\
  (forall d, (1 <= pop_max d <= 100)%nat) /\ (1 <= N.to_nat ew_chan_cap)%nat.
Proof. exact constants_fit_model. Qed.
Print Assumptions C19_translated_constants_fit_model.

(* ---- the producer side: one plain blocking send; a full channel makes the producer wait ---- *)
(* What the translator read in WriteEvent / WriteEventWithTimestamp on this run: the hand-over to
   the batching loop is exactly one send statement on toBatchMessagesChan, a plain statement (not
   a select case, not under go / defer, not in a loop or a stored closure), there is no select
   and no go statement in the two functions, and the value sent is the message the conversion
   produced before the send.  Hence the step of the model: on a full, open channel a publication
   is a stutter — the producer waits, nothing is accepted, WriteEvent has not returned.
   ([step_pub] models any other hand-over as "WriteEvent returns, the message is outside the
   pipeline"; C19_conservation, C19_accepted_meaning, C19_flush, ... are proved through
   [pub_sync = true] and fail with this theorem when the source changes shape.) *)
Theorem C19_publish_is_blocking_send :
  ew_pub_single_send = true /\ ew_pub_plain_send = true /\ ew_pub_no_select = true /\
  ew_pub_no_go = true /\ ew_pub_convert_first = true /\
  (forall s p e, closed s = false -> publish_enabled s = false -> step (LPub p e) s = s).
Proof. exact publish_is_blocking_send. Qed.
Print Assumptions C19_publish_is_blocking_send.

(* From every reachable state, whatever WriteEvent calls any number of producers issue: as long
   as the batching loop does not move, no more of them are accepted (return) than the channel has
   room for, and nothing is delivered meanwhile. *)
Theorem C19_full_channel_blocks_producers : forall sched pubs,
  let s := run sched init in
  let s' := run (map pub_label pubs) s in
  (length (accepted s') + length (chan s) <= length (accepted s) + N.to_nat ew_chan_cap)%nat /\
  delivered s' = delivered s.
Proof. exact full_channel_blocks_producers. Qed.
Print Assumptions C19_full_channel_blocks_producers.

(* The forced "channel full" schedule (OFull: the batching loop is stalled at its Push while the
   producers publish).  From every reachable state: at most capacity + 1 WriteEvent calls return
   during the stall (the channel, plus the one message the stalled loop holds) ... *)
Theorem C19_stalled_batcher_bounds_returns : forall sched l,
  let s := run sched init in
  (N.to_nat (stalled_returns l s) + length (chan s) <= N.to_nat ew_chan_cap + 1)%nat.
Proof. exact stalled_returns_bound. Qed.
Print Assumptions C19_stalled_batcher_bounds_returns.

(* ... exactly min(number of publications, capacity + 1) when the loop was idle on an empty, open
   channel (the closed form the long cases are compared with, [full_returns]) ... *)
Theorem C19_stalled_returns_closed_form : forall sched l,
  let s := run sched init in
  full_pre_ok s = true -> forallb (fun pe => supported (snd pe)) l = true ->
  stalled_returns l s = full_returns l.
Proof. exact stalled_returns_closed_form. Qed.
Print Assumptions C19_stalled_returns_closed_form.

(* ... and once the stall is over every one of the publications is accepted, in the order listed
   (per producer: the order of its WriteEvent calls); with C19_flush, Close then hands exactly
   this sequence to the broker. *)
Theorem C19_full_accepts_all_in_order : forall sched l,
  let s := run sched init in
  closed s = false -> forallb (fun pe => supported (snd pe)) l = true ->
  let s' := run (full_labels l s) s in
  accepted s' = accepted s ++ map msg_of_pub l /\ closed s' = false.
Proof. exact full_accepts_all. Qed.
Print Assumptions C19_full_accepts_all_in_order.

(* ---- the per-topic writer registry (core/the: EventWriterWithTopic, ClearEventWriters) ---- *)
(* Model: model/EventRegistry.v — any number of goroutines, each in one call of
   createOrGetWriter (fast path if the code has one, Lock, lookup under the lock if the code has
   it, create and store, Unlock) or of ClearEventWriters; a schedule is a list of goroutine
   numbers; the theorems hold for every assignment [ops] of calls to goroutines and every schedule.
   The lock discipline is read from core/the/eventwriter.go on every run (gen/Gen_EventRegistry.v). *)
Theorem C19_registry_lock_discipline :
  er_lock_exclusive = true /\ er_check_under_lock = true /\ er_write_under_lock = true /\
  er_returns_stored = true /\ er_entry_sync = true /\
  er_clear_locked = true /\ er_clear_closes_each = true /\ er_clear_empties = true.
Proof. exact registry_discipline. Qed.
Print Assumptions C19_registry_lock_discipline.

(* at most one writer of a topic is alive (built and not closed) at any time, and it is the
   registered one *)
Theorem C19_registry_one_live_writer_per_topic : forall ops sched t w1 w2,
  let s := rrun ops sched rinit in
  live s t w1 -> live s t w2 -> w1 = w2 /\ In (t, w1) (r_reg s).
Proof. exact one_live_writer. Qed.
Print Assumptions C19_registry_one_live_writer_per_topic.

(* until ClearEventWriters is called, at most one writer per topic is ever built *)
Theorem C19_registry_one_writer_per_topic_ever : forall ops sched t w1 w2,
  let s := rrun ops sched rinit in
  r_closed s = [] -> In (t, w1) (r_created s) -> In (t, w2) (r_created s) -> w1 = w2.
Proof. exact one_writer_per_topic_ever. Qed.
Print Assumptions C19_registry_one_writer_per_topic_ever.

(* all producers of one topic are handed the same writer — hence one channel, one FIFO, one
   writing loop, to which C19_per_producer_order applies — and it is the registered one *)
Theorem C19_registry_same_writer_for_all_producers : forall ops sched g1 g2 t w1 w2,
  let s := rrun ops sched rinit in
  ops g1 = RGet t -> ops g2 = RGet t ->
  r_pc s g1 = RDone (Some w1) -> r_pc s g2 = RDone (Some w2) ->
  ~ In w1 (r_closed s) -> ~ In w2 (r_closed s) ->
  w1 = w2 /\ In (t, w1) (r_reg s).
Proof. exact same_writer_for_all. Qed.
Print Assumptions C19_registry_same_writer_for_all_producers.

(* the writer a call is about to return is, at that moment, the registered, alive writer of its
   topic (and the caller still holds the lock) *)
Theorem C19_registry_handed_out_is_registered : forall ops sched g t w,
  let s := rrun ops sched rinit in
  ops g = RGet t -> r_pc s g = RHave w ->
  In (t, w) (r_reg s) /\ live s t w /\ r_lock s = Some g.
Proof. exact handed_out_is_registered. Qed.
Print Assumptions C19_registry_handed_out_is_registered.

(* shutdown: when ClearEventWriters has done its work, every writer ever built — hence every
   writer ever handed out — has been closed (so C19_flush applies to each) and the registry is empty *)
Theorem C19_registry_clear_closes_all : forall ops sched g,
  let s := rrun ops sched rinit in
  ops g = RClear -> r_pc s g = RCleared ->
  r_reg s = [] /\ forall t w, In (t, w) (r_created s) -> In w (r_closed s).
Proof. exact clear_closes_all. Qed.
Print Assumptions C19_registry_clear_closes_all.

(* ---- the schedules forced by the harness are schedules of the model ---- *)
(* (every operation, OFull included: [coarse_sched] is built from [op_labels]) *)
Theorem C19_forced_schedules_are_schedules : forall ops,
  coarse_state ops init_settled = run (init_labels ++ coarse_sched ops init_settled) init.
Proof. exact forced_schedule_is_schedule. Qed.
Print Assumptions C19_forced_schedules_are_schedules.

(* non-vacuity: a concrete run with two producers, a burst of 150 events while the broker
   stalls, Close in the middle; Close returns, three batches (1, 100, 50), all delivered;
   and a fair policy exists *)
Example C19_nonvacuous :
  let ev := fun k t => mkEvent k t [101;49] [116;55] in
  let burst := map (fun i => (N.of_nat i mod 2, ev 5 (N.of_nat i))) (seq 1 150) in
  let ops := [OPub 0 (ev 4 0); OBurst burst; OClose; ORelease; ORelease; ORelease] in
  let s := coarse_state ops init_settled in
  cp s = CReturned /\ map (@length msg) (delivered s) = [1; 100; 50]%nat /\
  length (accepted s) = 151%nat /\ NoDup (map id_of (accepted s)) /\
  fair_policy bwc_policy /\ fair_bw_policy bw_policy.
Proof.
  cbn zeta. split; [vm_compute; reflexivity|]. split; [vm_compute; reflexivity|].
  split; [vm_compute; reflexivity|]. split; [|exact (conj bwc_fair bw_fair)].
  apply nodupb_NoDup. vm_compute. reflexivity.
Qed.

(* non-vacuity of the "channel full" theorems: after one publication the writer sits in the write
   function, the batching loop is idle on the empty open channel ([full_pre_ok]); a burst of
   capacity + 4 supported events then has exactly capacity + 1 returns during the stall *)
Example C19_full_nonvacuous :
  let ev := mkEvent 0 0 [] [] in
  let l := expand_runs 0 [] [] [(0, 1, ew_chan_cap + 4)] in
  let s0 := coarse_state [OPub 0 ev] init_settled in
  full_pre_ok s0 = true /\ in_write s0 = true /\
  forallb (fun pe => supported (snd pe)) l = true /\
  Nlen l = ew_chan_cap + 4 /\ full_returns l = ew_chan_cap + 1 /\
  stalled_returns l s0 = ew_chan_cap + 1.
Proof.
  cbn zeta. do 5 (split; [vm_compute; reflexivity|]).
  rewrite forced_schedule_is_schedule.
  rewrite stalled_returns_closed_form; [vm_compute; reflexivity| |vm_compute; reflexivity].
  rewrite <- forced_schedule_is_schedule. vm_compute. reflexivity.
Qed.

(* non-vacuity of the registry theorems: three producers of topic 7 and one of topic 8, two of
   them waiting for the lock, then ClearEventWriters *)
Example C19_registry_nonvacuous :
  let s := rrun ex_ops ex_sched rinit in
  r_pc s 0%nat = RDone (Some 0) /\ r_pc s 1%nat = RDone (Some 0) /\ r_pc s 2%nat = RDone (Some 0) /\
  r_pc s 3%nat = RDone (Some 1) /\ r_pc s 4%nat = RCleared /\
  r_created s = [(8, 1); (7, 0)] /\ r_closed s = [1; 0].
Proof. exact registry_example. Qed.
