(* Proofs about the model of core/controlcommands (model/CmdQueue.v). *)
From Coq Require Import Permutation Arith.
From Verif Require Import Common CmdQueue.
Open Scope N_scope.

(* ====================================================================== *)
(* basic list facts                                                        *)
(* ====================================================================== *)
Lemma set_nth_length {A} (x : A) : forall l n, length (set_nth n x l) = length l.
Proof.
  induction l as [|y l IH]; intros [|n]; cbn; try reflexivity. rewrite IH. reflexivity.
Qed.

Lemma nth_error_set_nth_eq {A} (x : A) : forall l n y,
  nth_error l n = Some y -> nth_error (set_nth n x l) n = Some x.
Proof.
  induction l as [|z l IH]; intros [|n] y H; cbn in *; try discriminate; try reflexivity.
  eapply IH. exact H.
Qed.

Lemma nth_error_set_nth_neq {A} (x : A) : forall l n m,
  n <> m -> nth_error (set_nth n x l) m = nth_error l m.
Proof.
  induction l as [|z l IH]; intros [|n] [|m] H; cbn; try reflexivity.
  - congruence.
  - apply IH. congruence.
Qed.

Lemma nth_error_set_nth {A} (x : A) l n m y :
  nth_error (set_nth n x l) m = Some y ->
  (n = m /\ y = x) \/ (n <> m /\ nth_error l m = Some y).
Proof.
  intro H. destruct (Nat.eq_dec n m) as [E|E].
  - subst. left. split; [reflexivity|].
    destruct (nth_error l m) as [z|] eqn:Z.
    + rewrite (nth_error_set_nth_eq x l m z Z) in H. congruence.
    + exfalso. apply nth_error_None in Z.
      assert (L : (length (set_nth m x l) <= m)%nat) by (rewrite set_nth_length; exact Z).
      apply nth_error_None in L. congruence.
  - right. split; [exact E|]. rewrite nth_error_set_nth_neq in H by exact E. exact H.
Qed.

Lemma nth_error_repeat {A} (x : A) n m y : nth_error (repeat x n) m = Some y -> y = x.
Proof.
  intro H. apply nth_error_In in H. apply repeat_spec in H. exact H.
Qed.

Lemma key_eqb_eq a b : key_eqb a b = true <-> a = b.
Proof.
  destruct a as [a1 a2], b as [b1 b2]. unfold key_eqb. cbn [fst snd].
  rewrite andb_true_iff, !N.eqb_eq. split.
  - intros [-> ->]. reflexivity.
  - intro E. inversion E. split; reflexivity.
Qed.

Lemma key_eqb_refl a : key_eqb a a = true.
Proof. apply key_eqb_eq. reflexivity. Qed.

Lemma key_eqb_neq a b : key_eqb a b = false <-> a <> b.
Proof.
  split.
  - intros H E. apply key_eqb_eq in E. congruence.
  - intro H. destruct (key_eqb a b) eqn:E; [|reflexivity]. apply key_eqb_eq in E. contradiction.
Qed.

(* ---------- pending map ---------- *)
Lemma pend_get_In k l v : pend_get k l = Some v -> In (k, v) l.
Proof.
  induction l as [|[k' v'] l IH]; cbn; [discriminate|].
  destruct (key_eqb k k') eqn:E.
  - apply key_eqb_eq in E. subst. intro H. inversion H. left. reflexivity.
  - intro H. right. apply IH, H.
Qed.

Lemma pend_get_None k l : pend_get k l = None -> forall v, ~ In (k, v) l.
Proof.
  induction l as [|[k' v'] l IH]; cbn; intros H v; [tauto|].
  destruct (key_eqb k k') eqn:E; [discriminate|].
  intros [X|X].
  - inversion X. subst. rewrite key_eqb_refl in E. discriminate.
  - exact (IH H v X).
Qed.

Lemma In_pend_del k k' v l : In (k', v) (pend_del k l) -> In (k', v) l /\ k' <> k.
Proof.
  induction l as [|[k2 v2] l IH]; cbn; [tauto|].
  destruct (key_eqb k k2) eqn:E.
  - intro H. destruct (IH H) as [A B]. split; [right; exact A|exact B].
  - intros [H|H].
    + inversion H. subst. split; [left; reflexivity|]. apply key_eqb_neq in E. congruence.
    + destruct (IH H) as [A B]. split; [right; exact A|exact B].
Qed.

Lemma pend_get_del_same k l : pend_get k (pend_del k l) = None.
Proof.
  induction l as [|[k2 v2] l IH]; cbn; [reflexivity|].
  destruct (key_eqb k k2) eqn:E; [exact IH|]. cbn. rewrite E. exact IH.
Qed.

Lemma pend_get_del_other k k' l : k' <> k -> pend_get k' (pend_del k l) = pend_get k' l.
Proof.
  intro NE. induction l as [|[k2 v2] l IH]; cbn; [reflexivity|].
  destruct (key_eqb k k2) eqn:E.
  - apply key_eqb_eq in E. subst k2.
    apply key_eqb_neq in NE. rewrite NE. exact IH.
  - cbn. destruct (key_eqb k' k2); [reflexivity|exact IH].
Qed.

(* ---------- offers ---------- *)
Lemma offer_get_In c l p : offer_get c l = Some p -> In (c, p) l.
Proof.
  induction l as [|[c' p'] l IH]; cbn; [discriminate|].
  destruct (c =? c') eqn:E.
  - apply N.eqb_eq in E. subst. intro H. inversion H. left. reflexivity.
  - intro H. right. apply IH, H.
Qed.

Lemma In_offer_del c x l : In x (offer_del c l) -> In x l.
Proof.
  induction l as [|[c' p'] l IH]; cbn; [tauto|].
  destruct (c =? c'); [intro H; right; exact H|].
  intros [H|H]; [left; exact H|right; apply IH, H].
Qed.

Lemma In_offer_del_other c c' p l : c' <> c -> In (c', p) l -> In (c', p) (offer_del c l).
Proof.
  intros NE. induction l as [|[c2 p2] l IH]; cbn; [tauto|].
  destruct (c =? c2) eqn:E.
  - apply N.eqb_eq in E. subst c2. intros [H|H]; [inversion H; congruence|exact H].
  - intros [H|H]; [left; exact H|right; apply IH, H].
Qed.

(* ====================================================================== *)
(* inversion of steps                                                      *)
(* ====================================================================== *)
Lemma worker_at_some st w k ws t :
  worker_at st w = Some (k, ws, t) ->
  s_cur st = Some k /\ nth_error (k_workers k) w = Some ws /\
  nth_error (c_targets (k_cmd k)) w = Some t.
Proof.
  unfold worker_at. destruct (s_cur st) as [k'|]; [|discriminate].
  destruct (nth_error (k_workers k') w) as [ws'|] eqn:E1; [|discriminate].
  destruct (nth_error (c_targets (k_cmd k')) w) as [t'|] eqn:E2; [|discriminate].
  intro H. inversion H. subst. repeat split; assumption.
Qed.

Lemma worker_at_intro st w k ws t :
  s_cur st = Some k -> nth_error (k_workers k) w = Some ws ->
  nth_error (c_targets (k_cmd k)) w = Some t -> worker_at st w = Some (k, ws, t).
Proof. intros A B C. unfold worker_at. rewrite A, B, C. reflexivity. Qed.

Lemma step_enabled st l st' : step_opt st l = Some st' -> step st l = st'.
Proof. intro H. unfold step. rewrite H. reflexivity. Qed.

Lemma step_disabled st l : step_opt st l = None -> step st l = st.
Proof. intro H. unfold step. rewrite H. reflexivity. Qed.

Lemma run_from_app st a b : run_from st (a ++ b) = run_from (run_from st a) b.
Proof. unfold run_from. apply fold_left_app. Qed.

Lemma run_snoc s l : run (s ++ [l]) = step (run s) l.
Proof. unfold run. rewrite run_from_app. reflexivity. Qed.

(* ====================================================================== *)
(* C12_exactly_once, safety half: FIFO accounting of commands              *)
(* ====================================================================== *)
Definition cur_cmds (st : state) : list command :=
  match s_cur st with Some k => [k_cmd k] | None => [] end.
Definition acct (st : state) : list command :=
  map fst (s_out st) ++ cur_cmds st ++ s_queue st.
Definition enq_of (l : label) : list command :=
  match l with LEnqueue c => [c] | _ => [] end.

Ltac wa_inv H :=
  match type of H with
  | context [worker_at ?st ?w] =>
    let WA := fresh "WA" in
    destruct (worker_at st w) as [[[? ?] ?]|] eqn:WA; [|discriminate H]
  end.

Lemma acct_step st l : acct (step st l) = acct st ++ enq_of l.
Proof.
  unfold step. destruct (step_opt st l) as [st'|] eqn:S.
  2:{ destruct l; cbn in S; try discriminate; cbn [enq_of]; rewrite ?app_nil_r; reflexivity. }
  destruct l; cbn [step_opt] in S; cbn [enq_of]; rewrite ?app_nil_r.
  - inversion S. subst. unfold acct, cur_cmds. cbn. rewrite !app_assoc. reflexivity.
  - destruct (s_cur st) eqn:C; [discriminate|]. destruct (s_queue st) eqn:Q; [discriminate|].
    inversion S. subst. unfold acct, cur_cmds. cbn. rewrite C, Q. reflexivity.
  - wa_inv S. apply worker_at_some in WA. destruct WA as (C & _ & _).
    destruct w0; try discriminate. inversion S. subst. unfold acct, cur_cmds. cbn. rewrite C. reflexivity.
  - wa_inv S. apply worker_at_some in WA. destruct WA as (C & _ & _).
    destruct w0; try discriminate. destruct (c_id (k_cmd c) =? id); [|discriminate].
    inversion S. subst. unfold acct, cur_cmds. cbn. rewrite C. reflexivity.
  - wa_inv S. apply worker_at_some in WA. destruct WA as (C & _ & _).
    destruct w0; try discriminate. destruct (c_id (k_cmd c) =? id); [|discriminate].
    inversion S. subst. unfold acct, cur_cmds. cbn. rewrite C. reflexivity.
  - wa_inv S. apply worker_at_some in WA. destruct WA as (C & _ & _).
    destruct w0; try discriminate. inversion S. subst. unfold acct, cur_cmds. cbn. rewrite C. reflexivity.
  - wa_inv S. apply worker_at_some in WA. destruct WA as (C & _ & _).
    destruct w0; try discriminate. destruct (offer_get call (s_offers st)); [|discriminate].
    inversion S. subst. unfold acct, cur_cmds. cbn. rewrite C. reflexivity.
  - wa_inv S. apply worker_at_some in WA. destruct WA as (C & _ & _).
    destruct w0; try discriminate. destruct (c_id (k_cmd c) =? id); [|discriminate].
    inversion S. subst. unfold acct, cur_cmds. cbn. rewrite C. reflexivity.
  - wa_inv S. apply worker_at_some in WA. destruct WA as (C & _ & _).
    destruct w0; try discriminate. inversion S. subst. unfold acct, cur_cmds. cbn. rewrite C. reflexivity.
  - destruct (pend_get (id, t) (s_pending st)); inversion S; subst; reflexivity.
  - destruct (s_cur st) as [k|] eqn:C; [|discriminate].
    destruct (forallb _ (k_workers k)); [|discriminate].
    inversion S. subst. unfold acct, cur_cmds. cbn. rewrite C. rewrite map_app. cbn.
    rewrite <- !app_assoc. reflexivity.
Qed.

Lemma enq_cmds_app a b : enq_cmds (a ++ b) = enq_cmds a ++ enq_cmds b.
Proof. unfold enq_cmds. apply flat_map_app. Qed.

Lemma acct_run_from : forall s st, acct (run_from st s) = acct st ++ enq_cmds s.
Proof.
  induction s as [|l s IH]; intro st; cbn.
  - rewrite app_nil_r. reflexivity.
  - change (fold_left step s (step st l)) with (run_from (step st l) s).
    rewrite IH, acct_step. rewrite <- app_assoc. reflexivity.
Qed.

(* every enqueued command is, in enqueue order, either answered (once), in progress or
   still queued; nothing else ever is *)
Lemma fifo_accounting sched :
  map fst (s_out (run sched)) ++ cur_cmds (run sched) ++ s_queue (run sched) = enq_cmds sched.
Proof. exact (acct_run_from sched init). Qed.

(* ====================================================================== *)
(* the step function as a relation (one constructor per enabled case)      *)
(* ====================================================================== *)
Definition is_fin (ws : wstate) : bool := match ws with WFin => true | _ => false end.

Inductive step_rel (st : state) : label -> state -> Prop :=
| SR_enq c :
    step_rel st (LEnqueue c)
      (mkState (s_queue st ++ [c]) (s_cur st) (s_pending st) (s_offers st) (s_next st)
               (s_out st) (s_sends st))
| SR_start c q :
    s_cur st = None -> s_queue st = c :: q ->
    step_rel st LStart
      (mkState q (Some (mkCommit c (repeat WInit (length (c_targets c))) []))
               (s_pending st) (s_offers st) (s_next st) (s_out st) (s_sends st))
| SR_reg w k t :
    s_cur st = Some k -> nth_error (k_workers k) w = Some WInit ->
    nth_error (c_targets (k_cmd k)) w = Some t ->
    step_rel st (LRegister w)
      (mkState (s_queue st) (Some (set_worker k w (WReg (s_next st))))
               (pend_put (c_id (k_cmd k), t) (s_next st) (s_pending st))
               (s_offers st) (N.succ (s_next st)) (s_out st) (s_sends st))
| SR_sendok w k c t :
    s_cur st = Some k -> nth_error (k_workers k) w = Some (WReg c) ->
    nth_error (c_targets (k_cmd k)) w = Some t ->
    step_rel st (LSendOk (c_id (k_cmd k)) w)
      (mkState (s_queue st) (Some (set_worker k w (WWait c))) (s_pending st) (s_offers st)
               (s_next st) (s_out st) (s_sends st ++ [(c_id (k_cmd k), t, true)]))
| SR_senderr w k c t :
    s_cur st = Some k -> nth_error (k_workers k) w = Some (WReg c) ->
    nth_error (c_targets (k_cmd k)) w = Some t ->
    step_rel st (LSendErr (c_id (k_cmd k)) w)
      (mkState (s_queue st) (Some (set_worker k w (WFail c))) (s_pending st) (s_offers st)
               (s_next st) (s_out st) (s_sends st ++ [(c_id (k_cmd k), t, false)]))
| SR_failclean w k c t :
    s_cur st = Some k -> nth_error (k_workers k) w = Some (WFail c) ->
    nth_error (c_targets (k_cmd k)) w = Some t ->
    step_rel st (LFailCleanup w)
      (mkState (s_queue st) (Some (fin_worker k w t ESendErr))
               (pend_del (c_id (k_cmd k), t) (s_pending st))
               (s_offers st) (s_next st) (s_out st) (s_sends st))
| SR_recv w k c t p :
    s_cur st = Some k -> nth_error (k_workers k) w = Some (WWait c) ->
    nth_error (c_targets (k_cmd k)) w = Some t ->
    offer_get c (s_offers st) = Some p ->
    step_rel st (LRecv w)
      (mkState (s_queue st) (Some (fin_worker k w t (EReply p))) (s_pending st)
               (offer_del c (s_offers st)) (s_next st) (s_out st) (s_sends st))
| SR_timeout w k c t :
    s_cur st = Some k -> nth_error (k_workers k) w = Some (WWait c) ->
    nth_error (c_targets (k_cmd k)) w = Some t ->
    step_rel st (LTimeout (c_id (k_cmd k)) w)
      (mkState (s_queue st) (Some (set_worker k w (WTimedOut c))) (s_pending st) (s_offers st)
               (s_next st) (s_out st) (s_sends st))
| SR_toclean w k c t :
    s_cur st = Some k -> nth_error (k_workers k) w = Some (WTimedOut c) ->
    nth_error (c_targets (k_cmd k)) w = Some t ->
    step_rel st (LTimeoutCleanup w)
      (mkState (s_queue st) (Some (fin_worker k w t ETimeout))
               (pend_del (c_id (k_cmd k), t) (s_pending st))
               (s_offers st) (s_next st) (s_out st) (s_sends st))
| SR_deliver_hit id t p c :
    pend_get (id, t) (s_pending st) = Some c ->
    step_rel st (LDeliver id t p)
      (mkState (s_queue st) (s_cur st) (pend_del (id, t) (s_pending st))
               ((c, p) :: s_offers st) (s_next st) (s_out st) (s_sends st))
| SR_deliver_miss id t p :
    pend_get (id, t) (s_pending st) = None ->
    step_rel st (LDeliver id t p) st
| SR_finish k :
    s_cur st = Some k -> forallb is_fin (k_workers k) = true ->
    step_rel st LFinish
      (mkState (s_queue st) None (s_pending st) (s_offers st) (s_next st)
               (s_out st ++ [(k_cmd k, consolidate (k_coll k))]) (s_sends st)).

Lemma step_opt_rel st l st' : step_opt st l = Some st' -> step_rel st l st'.
Proof.
  intro S. destruct l; cbn [step_opt] in S.
  - inversion S. constructor.
  - destruct (s_cur st) eqn:C; [discriminate|]. destruct (s_queue st) eqn:Q; [discriminate|].
    inversion S. apply SR_start; assumption.
  - wa_inv S. apply worker_at_some in WA. destruct WA as (C & W & T).
    destruct w0; try discriminate. inversion S. eapply SR_reg; eassumption.
  - wa_inv S. apply worker_at_some in WA. destruct WA as (C & W & T).
    destruct w0; try discriminate. destruct (c_id (k_cmd c) =? id) eqn:E; [|discriminate].
    apply N.eqb_eq in E. subst id. inversion S. eapply SR_sendok; eassumption.
  - wa_inv S. apply worker_at_some in WA. destruct WA as (C & W & T).
    destruct w0; try discriminate. destruct (c_id (k_cmd c) =? id) eqn:E; [|discriminate].
    apply N.eqb_eq in E. subst id. inversion S. eapply SR_senderr; eassumption.
  - wa_inv S. apply worker_at_some in WA. destruct WA as (C & W & T).
    destruct w0; try discriminate. inversion S. eapply SR_failclean; eassumption.
  - wa_inv S. apply worker_at_some in WA. destruct WA as (C & W & T).
    destruct w0; try discriminate. destruct (offer_get call (s_offers st)) eqn:O; [|discriminate].
    inversion S. eapply SR_recv; eassumption.
  - wa_inv S. apply worker_at_some in WA. destruct WA as (C & W & T).
    destruct w0; try discriminate. destruct (c_id (k_cmd c) =? id) eqn:E; [|discriminate].
    apply N.eqb_eq in E. subst id. inversion S.
    unfold with_cur. eapply SR_timeout; eassumption.
  - wa_inv S. apply worker_at_some in WA. destruct WA as (C & W & T).
    destruct w0; try discriminate. inversion S. eapply SR_toclean; eassumption.
  - destruct (pend_get (id, t) (s_pending st)) eqn:G; inversion S.
    + apply SR_deliver_hit. exact G.
    + subst. apply SR_deliver_miss. exact G.
  - destruct (s_cur st) as [k|] eqn:C; [|discriminate].
    destruct (forallb _ (k_workers k)) eqn:F; [|discriminate].
    inversion S. apply SR_finish; assumption.
Qed.

Lemma step_rel_opt st l st' : step_rel st l st' -> step_opt st l = Some st'.
Proof.
  intro R. destruct R; cbn [step_opt].
  - reflexivity.
  - rewrite H, H0. reflexivity.
  - rewrite (worker_at_intro _ _ _ _ _ H H0 H1). reflexivity.
  - rewrite (worker_at_intro _ _ _ _ _ H H0 H1). rewrite N.eqb_refl. reflexivity.
  - rewrite (worker_at_intro _ _ _ _ _ H H0 H1). rewrite N.eqb_refl. reflexivity.
  - rewrite (worker_at_intro _ _ _ _ _ H H0 H1). reflexivity.
  - rewrite (worker_at_intro _ _ _ _ _ H H0 H1). rewrite H2. reflexivity.
  - rewrite (worker_at_intro _ _ _ _ _ H H0 H1). rewrite N.eqb_refl. reflexivity.
  - rewrite (worker_at_intro _ _ _ _ _ H H0 H1). reflexivity.
  - rewrite H. reflexivity.
  - rewrite H. reflexivity.
  - rewrite H. change (fun ws => match ws with WFin => true | _ => false end) with is_fin.
    rewrite H0. reflexivity.
Qed.

(* either the label was enabled and [step_rel] describes the move, or nothing changed *)
Lemma step_cases st l : step_rel st l (step st l) \/ (step_opt st l = None /\ step st l = st).
Proof.
  unfold step. destruct (step_opt st l) eqn:S.
  - left. apply step_opt_rel, S.
  - right. split; reflexivity.
Qed.

(* ====================================================================== *)
(* shape: one worker per element of the target list                        *)
(* ====================================================================== *)
Definition shape_ok (st : state) : Prop :=
  match s_cur st with
  | Some k => length (k_workers k) = length (c_targets (k_cmd k))
  | None => True
  end.

Lemma shape_step_rel st l st' : shape_ok st -> step_rel st l st' -> shape_ok st'.
Proof.
  unfold shape_ok. intros S R. destruct R; cbn; try rewrite H in S; try exact S; try exact I;
    try (rewrite set_nth_length; exact S).
  apply repeat_length.
Qed.

Lemma shape_step st l : shape_ok st -> shape_ok (step st l).
Proof.
  intro S. destruct (step_cases st l) as [R|[_ E]].
  - eapply shape_step_rel; eassumption.
  - rewrite E. exact S.
Qed.

Lemma shape_run_from s : forall st, shape_ok st -> shape_ok (run_from st s).
Proof.
  induction s as [|l s IH]; intros st S; [exact S|]. cbn. apply IH. apply shape_step, S.
Qed.

Lemma shape_run s : shape_ok (run s).
Proof. apply shape_run_from. exact I. Qed.

(* ====================================================================== *)
(* C12_exactly_once, progress half                                         *)
(* ====================================================================== *)
Lemma sum_set_nth (f : wstate -> nat) x : forall l w y,
  nth_error l w = Some y ->
  (sum_nat (map f (set_nth w x l)) + f y = sum_nat (map f l) + f x)%nat.
Proof.
  unfold sum_nat.
  induction l as [|z l IH]; intros [|w] y H; cbn in *; try discriminate.
  - inversion H. subst. lia.
  - specialize (IH w y H). lia.
Qed.

Lemma sum_repeat_init n : sum_nat (map wmeasure (repeat WInit n)) = (4 * n)%nat.
Proof. unfold sum_nat. induction n as [|n IH]; cbn in *; [reflexivity|]. lia. Qed.

Lemma sum_app a b : sum_nat (a ++ b) = (sum_nat a + sum_nat b)%nat.
Proof. unfold sum_nat. induction a as [|x a IH]; cbn; [reflexivity|]. rewrite IH. lia. Qed.

(* every move of the code itself uses up the measure *)
Lemma progress_decreases st l st' :
  progress_label l = true -> step_rel st l st' -> (measure st' < measure st)%nat.
Proof.
  intros P R. destruct R; cbn in P; try discriminate; unfold measure; cbn [s_queue s_cur];
    try rewrite H; unfold kmeasure; cbn [k_workers set_worker fin_worker].
  - rewrite H0. cbn. rewrite sum_repeat_init. unfold sum_nat in *. lia.
  - pose proof (sum_set_nth wmeasure (WReg (s_next st)) _ _ _ H0) as X. cbn in X. unfold sum_nat in *. lia.
  - pose proof (sum_set_nth wmeasure (WWait c) _ _ _ H0) as X. cbn in X. unfold sum_nat in *. lia.
  - pose proof (sum_set_nth wmeasure (WFail c) _ _ _ H0) as X. cbn in X. unfold sum_nat in *. lia.
  - pose proof (sum_set_nth wmeasure WFin _ _ _ H0) as X. cbn in X. unfold sum_nat in *. lia.
  - pose proof (sum_set_nth wmeasure WFin _ _ _ H0) as X. cbn in X. unfold sum_nat in *. lia.
  - pose proof (sum_set_nth wmeasure (WTimedOut c) _ _ _ H0) as X. cbn in X. unfold sum_nat in *. lia.
  - pose proof (sum_set_nth wmeasure WFin _ _ _ H0) as X. cbn in X. unfold sum_nat in *. lia.
  - lia.
Qed.

(* replies never add work *)
Lemma deliver_measure st id t p : measure (step st (LDeliver id t p)) = measure st.
Proof.
  unfold step. cbn [step_opt]. destruct (pend_get (id, t) (s_pending st)); reflexivity.
Qed.

Lemma measure_zero st : measure st = O <-> s_cur st = None /\ s_queue st = [].
Proof.
  unfold measure. split.
  - intro H. destruct (s_cur st) as [k|]; [unfold kmeasure in H; lia|].
    destruct (s_queue st) as [|c q]; [split; reflexivity|]. cbn in H. lia.
  - intros [-> ->]. reflexivity.
Qed.

Lemma forallb_false_nth {A} (f : A -> bool) : forall l,
  forallb f l = false -> exists w x, nth_error l w = Some x /\ f x = false.
Proof.
  induction l as [|y l IH]; cbn; [discriminate|].
  destruct (f y) eqn:E; cbn.
  - intro H. destruct (IH H) as (w & x & A1 & B1). exists (S w), x. split; assumption.
  - intros _. exists O, y. split; [reflexivity|exact E].
Qed.

(* as long as something is owed, the code has a move of its own that needs no reply *)
Lemma progress_exists st :
  shape_ok st -> measure st <> O ->
  exists l st', progress_label l = true /\ step_rel st l st'.
Proof.
  intros S M. unfold shape_ok in S. destruct (s_cur st) as [k|] eqn:C.
  - destruct (forallb is_fin (k_workers k)) eqn:F.
    + exists LFinish. eexists. split; [reflexivity|]. apply SR_finish; eassumption.
    + destruct (forallb_false_nth _ _ F) as (w & ws & W & NF).
      assert (T : exists t, nth_error (c_targets (k_cmd k)) w = Some t).
      { destruct (nth_error (c_targets (k_cmd k)) w) eqn:E; [eexists; reflexivity|].
        apply nth_error_None in E. rewrite <- S in E. apply nth_error_None in E. congruence. }
      destruct T as [t T].
      destruct ws; cbn in NF; try discriminate.
      * exists (LRegister w). eexists. split; [reflexivity|]. eapply SR_reg; eassumption.
      * exists (LSendOk (c_id (k_cmd k)) w). eexists. split; [reflexivity|]. eapply SR_sendok; eassumption.
      * exists (LTimeout (c_id (k_cmd k)) w). eexists. split; [reflexivity|]. eapply SR_timeout; eassumption.
      * exists (LFailCleanup w). eexists. split; [reflexivity|]. eapply SR_failclean; eassumption.
      * exists (LTimeoutCleanup w). eexists. split; [reflexivity|]. eapply SR_toclean; eassumption.
  - destruct (s_queue st) as [|c q] eqn:Q.
    + exfalso. apply M. apply measure_zero. split; assumption.
    + exists LStart. eexists. split; [reflexivity|]. eapply SR_start; eassumption.
Qed.

(* from every reachable state the commands all complete by the code's own moves (send returns,
   time-outs, clean-ups) in at most [measure] steps, without any reply being needed *)
Lemma completes_without_replies : forall n st,
  shape_ok st -> (measure st <= n)%nat ->
  exists sched, (forall l, In l sched -> progress_label l = true) /\
                (length sched <= measure st)%nat /\
                s_cur (run_from st sched) = None /\ s_queue (run_from st sched) = [].
Proof.
  induction n as [|n IH]; intros st S M.
  - exists []. split; [intros l []|]. split; [cbn; lia|]. apply measure_zero. cbn. lia.
  - destruct (Nat.eq_dec (measure st) O) as [Z|NZ].
    + exists []. split; [intros l []|]. split; [cbn; lia|]. apply measure_zero. exact Z.
    + destruct (progress_exists st S NZ) as (l & st' & P & R).
      pose proof (progress_decreases _ _ _ P R) as D.
      destruct (IH st' (shape_step_rel _ _ _ S R) ltac:(lia)) as (sched & A & B & C).
      exists (l :: sched). split; [|split].
      * intros x [<-|X]; [exact P|apply A, X].
      * cbn. lia.
      * cbn. rewrite (step_enabled _ _ _ (step_rel_opt _ _ _ R)). exact C.
Qed.

(* ====================================================================== *)
(* the invariant behind C12_per_target_own, C12_isolation, C12_pending_clean *)
(* ====================================================================== *)
(* where an entry of a result comes from: [h] is the schedule so far *)
Definition entry_prov (h : list label) (sends : list (N * N * bool)) (c : command)
           (t : N) (e : entry) : Prop :=
  match e with
  | EReply p => In (LDeliver (c_id c) t p) h
  | ESendErr => In (c_id c, t, false) sends
  | ETimeout => exists w, nth_error (c_targets c) w = Some t /\ In (LTimeout (c_id c) w) h
  | EOther => False
  end.

Lemma entry_prov_mono h h' s s' c t e :
  (forall x, In x h -> In x h') -> (forall x, In x s -> In x s') ->
  entry_prov h s c t e -> entry_prov h' s' c t e.
Proof.
  intros A B. destruct e; cbn; auto.
  intros (w & X & Y). exists w. split; auto.
Qed.

(* targets whose worker has handed in its result *)
Fixpoint fin_targets (ws : list wstate) (ts : list N) : list N :=
  match ws, ts with
  | w :: ws', t :: ts' => if is_fin w then t :: fin_targets ws' ts' else fin_targets ws' ts'
  | _, _ => []
  end.

Lemma fin_targets_set_nonfin y : forall ws ts w x,
  nth_error ws w = Some x -> is_fin x = false -> is_fin y = false ->
  fin_targets (set_nth w y ws) ts = fin_targets ws ts.
Proof.
  induction ws as [|z ws IH]; intros [|t ts] [|w] x H FX FY; cbn in *; try discriminate;
    try reflexivity.
  - inversion H. subst. rewrite FX, FY. reflexivity.
  - rewrite (IH ts w x H FX FY). reflexivity.
Qed.

Lemma fin_targets_set_fin : forall ws ts w x t,
  nth_error ws w = Some x -> is_fin x = false -> nth_error ts w = Some t ->
  Permutation (fin_targets (set_nth w WFin ws) ts) (t :: fin_targets ws ts).
Proof.
  induction ws as [|z ws IH]; intros [|u ts] [|w] x t H FX T; cbn in *; try discriminate.
  - inversion H. inversion T. subst. rewrite FX. apply Permutation_refl.
  - specialize (IH ts w x t H FX T). destruct (is_fin z).
    + eapply perm_trans; [apply perm_skip, IH|apply perm_swap].
    + exact IH.
Qed.

Lemma fin_targets_repeat_init n ts : fin_targets (repeat WInit n) ts = [].
Proof.
  revert ts. induction n as [|n IH]; intros [|t ts]; cbn; try reflexivity. apply IH.
Qed.

Lemma fin_targets_all : forall ws ts,
  forallb is_fin ws = true -> length ws = length ts -> fin_targets ws ts = ts.
Proof.
  induction ws as [|z ws IH]; intros [|t ts] F L; cbn in *; try discriminate; try reflexivity.
  apply andb_true_iff in F. destruct F as [F1 F2]. rewrite F1. f_equal. apply IH; [exact F2|lia].
Qed.

Lemma forallb_nth {A} (f : A -> bool) l w x :
  forallb f l = true -> nth_error l w = Some x -> f x = true.
Proof.
  intros F H. apply nth_error_In in H. rewrite forallb_forall in F. apply F, H.
Qed.

Record InvA (h : list label) (st : state) : Prop := {
  a_shape : shape_ok st;
  a_pend : forall id t c, In ((id, t), c) (s_pending st) ->
    exists k w ws, s_cur st = Some k /\ c_id (k_cmd k) = id /\
      nth_error (c_targets (k_cmd k)) w = Some t /\
      nth_error (k_workers k) w = Some ws /\ holds_call ws c = true;
  a_fresh_w : forall k w ws c, s_cur st = Some k -> nth_error (k_workers k) w = Some ws ->
    holds_call ws c = true -> c < s_next st;
  a_fresh_o : forall c p, In (c, p) (s_offers st) -> c < s_next st;
  a_uniq : forall k w1 w2 ws1 ws2 c, s_cur st = Some k ->
    nth_error (k_workers k) w1 = Some ws1 -> nth_error (k_workers k) w2 = Some ws2 ->
    holds_call ws1 c = true -> holds_call ws2 c = true -> w1 = w2;
  a_offer : forall c p k w ws t, In (c, p) (s_offers st) -> s_cur st = Some k ->
    nth_error (k_workers k) w = Some ws -> holds_call ws c = true ->
    nth_error (c_targets (k_cmd k)) w = Some t ->
    In (LDeliver (c_id (k_cmd k)) t p) h;
  a_fail : forall k w c t, s_cur st = Some k -> nth_error (k_workers k) w = Some (WFail c) ->
    nth_error (c_targets (k_cmd k)) w = Some t -> In (c_id (k_cmd k), t, false) (s_sends st);
  a_to : forall k w c, s_cur st = Some k -> nth_error (k_workers k) w = Some (WTimedOut c) ->
    In (LTimeout (c_id (k_cmd k)) w) h;
  a_coll : forall k t e, s_cur st = Some k -> In (t, e) (k_coll k) ->
    entry_prov h (s_sends st) (k_cmd k) t e;
  a_perm : forall k, s_cur st = Some k ->
    Permutation (map fst (k_coll k)) (fin_targets (k_workers k) (c_targets (k_cmd k)));
  a_excl : forall ky c p, In (ky, c) (s_pending st) -> In (c, p) (s_offers st) -> False;
  a_out : forall c r, In (c, r) (s_out st) ->
    exists coll, r = consolidate coll /\ Permutation (map fst coll) (c_targets c) /\
                 forall t e, In (t, e) coll -> entry_prov h (s_sends st) c t e
}.

Lemma invA_init : InvA [] init.
Proof.
  constructor; cbn; try (intros; discriminate); try (intros; contradiction).
  exact I.
Qed.

Lemma holds_call_eq ws c d : holds_call ws c = true -> holds_call ws d = true -> c = d.
Proof.
  destruct ws; cbn; try discriminate; intros A B; apply N.eqb_eq in A, B; congruence.
Qed.

Lemma holds_not_fin ws c : holds_call ws c = true -> is_fin ws = false.
Proof. destruct ws; cbn; try discriminate; reflexivity. Qed.

Ltac som :=
  repeat match goal with
         | H : Some _ = Some _ |- _ => inversion H; clear H; subst
         | H : None = Some _ |- _ => discriminate H
         | H : Some _ = None |- _ => discriminate H
         end.
Ltac simp := cbn [s_queue s_cur s_pending s_offers s_next s_out s_sends
                  k_cmd k_workers k_coll set_worker fin_worker] in *.
Ltac ina := auto using in_or_app, in_eq, in_cons.

(* replacing worker [w]'s state by one that holds the same call and is not finished *)
Section SameCall.
  Variables (h : list label) (st : state) (l : label) (k : commit) (w : nat)
            (ws ws' : wstate) (snd' : list (N * N * bool)).
  Hypothesis INV : InvA h st.
  Hypothesis CUR : s_cur st = Some k.
  Hypothesis NTH : nth_error (k_workers k) w = Some ws.
  Hypothesis SAME : forall c, holds_call ws' c = holds_call ws c.
  Hypothesis NF : is_fin ws = false.
  Hypothesis NF' : is_fin ws' = false.
  Hypothesis SENDS : forall x, In x (s_sends st) -> In x snd'.
  Hypothesis FAIL : forall c t, ws' = WFail c -> nth_error (c_targets (k_cmd k)) w = Some t ->
                                In (c_id (k_cmd k), t, false) snd'.
  Hypothesis TO : forall c, ws' = WTimedOut c -> l = LTimeout (c_id (k_cmd k)) w.

  Lemma invA_same_call :
    InvA (h ++ [l]) (mkState (s_queue st) (Some (set_worker k w ws')) (s_pending st)
                             (s_offers st) (s_next st) (s_out st) snd').
  Proof.
    destruct INV as [SH PE FW FO UQ OF FA TM CO PM EX OU].
    constructor; simp.
    - unfold shape_ok in *. simp. rewrite CUR in SH. rewrite set_nth_length. exact SH.
    - intros id t c IN. destruct (PE id t c IN) as (k0 & w0 & ws0 & C0 & ID & T0 & W0 & H0).
      rewrite CUR in C0. som. exists (set_worker k0 w ws'). simp.
      destruct (Nat.eq_dec w w0) as [->|NE].
      + exists w0, ws'. rewrite NTH in W0. som.
        repeat split; auto. eapply nth_error_set_nth_eq; eassumption. rewrite SAME. exact H0.
      + exists w0, ws0. repeat split; auto. rewrite nth_error_set_nth_neq; assumption.
    - intros k0 w0 ws0 c C0 W0 H0. som. simp.
      apply nth_error_set_nth in W0. destruct W0 as [[-> ->]|[NE W0]].
      + rewrite SAME in H0. eapply FW; eassumption.
      + eapply FW; eassumption.
    - exact FO.
    - intros k0 w1 w2 ws1 ws2 c C0 W1 W2 H1 H2. som. simp.
      apply nth_error_set_nth in W1, W2.
      destruct W1 as [[-> ->]|[NE1 W1]]; destruct W2 as [[-> ->]|[NE2 W2]];
        rewrite ?SAME in *; try reflexivity; eapply UQ; eassumption.
    - intros c p k0 w0 ws0 t IN C0 W0 H0 T0. som. simp. apply in_or_app. left.
      apply nth_error_set_nth in W0. destruct W0 as [[-> ->]|[NE W0]].
      + rewrite SAME in H0. eapply OF; eassumption.
      + eapply OF; eassumption.
    - intros k0 w0 c t C0 W0 T0. som. simp.
      apply nth_error_set_nth in W0. destruct W0 as [[-> E]|[NE W0]].
      + apply FAIL with c; auto.
      + apply SENDS. eapply FA; eassumption.
    - intros k0 w0 c C0 W0. som. simp.
      apply nth_error_set_nth in W0. destruct W0 as [[-> E]|[NE W0]].
      + apply in_or_app. right. rewrite (TO c) by auto. left. reflexivity.
      + apply in_or_app. left. eapply TM; eassumption.
    - intros k0 t e C0 IN. som. simp.
      eapply entry_prov_mono; [| |eapply CO; eassumption]; ina.
    - intros k0 C0. som. simp.
      rewrite (fin_targets_set_nonfin ws' _ _ _ _ NTH NF NF'). apply PM, CUR.
    - exact EX.
    - intros c r IN. destruct (OU c r IN) as (coll & A & B & C).
      exists coll. repeat split; auto. intros t e X.
      eapply entry_prov_mono; [| |apply C, X]; ina.
  Qed.
End SameCall.

(* worker [w] hands in its result *)
Section Finish.
  Variables (h : list label) (st : state) (l : label) (k : commit) (w : nat)
            (ws : wstate) (t : N) (e : entry) (pend' : list (key * N)) (offers' : list (N * N)).
  Hypothesis INV : InvA h st.
  Hypothesis CUR : s_cur st = Some k.
  Hypothesis NTH : nth_error (k_workers k) w = Some ws.
  Hypothesis TGT : nth_error (c_targets (k_cmd k)) w = Some t.
  Hypothesis NF : is_fin ws = false.
  Hypothesis PEND : forall ky c, In (ky, c) pend' ->
                                 In (ky, c) (s_pending st) /\ holds_call ws c = false.
  Hypothesis OFFERS : forall x, In x offers' -> In x (s_offers st).
  Hypothesis PROV : entry_prov (h ++ [l]) (s_sends st) (k_cmd k) t e.

  Lemma invA_finish_worker :
    InvA (h ++ [l]) (mkState (s_queue st) (Some (fin_worker k w t e)) pend' offers'
                             (s_next st) (s_out st) (s_sends st)).
  Proof.
    destruct INV as [SH PE FW FO UQ OF FA TM CO PM EX OU].
    constructor; simp.
    - unfold shape_ok in *. simp. rewrite CUR in SH. rewrite set_nth_length. exact SH.
    - intros id t0 c IN. destruct (PEND _ _ IN) as [IN0 NH].
      destruct (PE id t0 c IN0) as (k0 & w0 & ws0 & C0 & ID & T0 & W0 & H0).
      rewrite CUR in C0. som. exists (fin_worker k0 w t e). simp.
      exists w0, ws0. repeat split; auto.
      rewrite nth_error_set_nth_neq; [exact W0|].
      intros ->. rewrite NTH in W0. som. congruence.
    - intros k0 w0 ws0 c C0 W0 H0. som. simp.
      apply nth_error_set_nth in W0. destruct W0 as [[-> ->]|[NE W0]]; [discriminate|].
      eapply FW; eassumption.
    - intros c p IN. eapply FO, OFFERS, IN.
    - intros k0 w1 w2 ws1 ws2 c C0 W1 W2 H1 H2. som. simp.
      apply nth_error_set_nth in W1, W2.
      destruct W1 as [[-> ->]|[NE1 W1]]; [discriminate|].
      destruct W2 as [[-> ->]|[NE2 W2]]; [discriminate|].
      eapply UQ; eassumption.
    - intros c p k0 w0 ws0 t0 IN C0 W0 H0 T0. som. simp. apply in_or_app. left.
      apply nth_error_set_nth in W0. destruct W0 as [[-> ->]|[NE W0]]; [discriminate|].
      eapply OF; try eassumption. apply OFFERS, IN.
    - intros k0 w0 c t0 C0 W0 T0. som. simp.
      apply nth_error_set_nth in W0. destruct W0 as [[-> E]|[NE W0]]; [discriminate|].
      eapply FA; eassumption.
    - intros k0 w0 c C0 W0. som. simp.
      apply nth_error_set_nth in W0. destruct W0 as [[-> E]|[NE W0]]; [discriminate|].
      apply in_or_app. left. eapply TM; eassumption.
    - intros k0 t0 e0 C0 IN. som. simp. apply in_app_or in IN. destruct IN as [IN|[IN|[]]].
      + eapply entry_prov_mono; [| |eapply CO; eassumption]; ina.
      + inversion IN. subst. exact PROV.
    - intros k0 C0. som. simp. rewrite map_app. cbn [map fst].
      eapply perm_trans; [|apply Permutation_sym; eapply fin_targets_set_fin; eassumption].
      eapply perm_trans; [apply Permutation_app_comm|]. cbn. apply perm_skip. apply PM, CUR.
    - intros ky c p IN1 IN2. destruct (PEND _ _ IN1) as [IN0 _]. eapply EX; [exact IN0|apply OFFERS, IN2].
    - intros c r IN. destruct (OU c r IN) as (coll & A & B & C).
      exists coll. repeat split; auto. intros t0 e0 X.
      eapply entry_prov_mono; [| |apply C, X]; ina.
  Qed.
End Finish.

(* the queue plays no role in the invariant; the history only grows *)
Lemma invA_queue_hist h st l q :
  InvA h st ->
  InvA (h ++ [l]) (mkState q (s_cur st) (s_pending st) (s_offers st) (s_next st)
                           (s_out st) (s_sends st)).
Proof.
  intros [SH PE FW FO UQ OF FA TM CO PM EX OU]. constructor; simp; auto.
  - intros. apply in_or_app. left. eapply OF; eassumption.
  - intros. apply in_or_app. left. eapply TM; eassumption.
  - intros. eapply entry_prov_mono; [| |eapply CO; eassumption]; ina.
  - intros c r IN. destruct (OU c r IN) as (coll & A & B & C).
    exists coll. repeat split; auto. intros t0 e0 X.
    eapply entry_prov_mono; [| |apply C, X]; ina.
Qed.

Lemma invA_same_state h st l : InvA h st -> InvA (h ++ [l]) st.
Proof.
  intro I. pose proof (invA_queue_hist h st l (s_queue st) I) as X. destruct st. exact X.
Qed.

Lemma invA_no_cur_no_pending h st : InvA h st -> s_cur st = None -> s_pending st = [].
Proof.
  intros I C. destruct (s_pending st) as [|[[id t] c] r] eqn:P; [reflexivity|].
  destruct (a_pend _ _ I id t c) as (k & _ & _ & C0 & _). { rewrite P. left. reflexivity. }
  congruence.
Qed.

Lemma invA_step_rel h st l st' : InvA h st -> step_rel st l st' -> InvA (h ++ [l]) st'.
Proof.
  intros INV R. destruct R.
  - (* enqueue *) apply invA_queue_hist. exact INV.
  - (* start *)
    pose proof (invA_no_cur_no_pending _ _ INV H) as PN.
    destruct INV as [SH PE FW FO UQ OF FA TM CO PM EX OU]. rewrite PN in *.
    constructor; simp.
    + unfold shape_ok. simp. apply repeat_length.
    + intros ? ? ? [].
    + intros k0 w0 ws0 c0 C0 W0 H1. som. simp. apply nth_error_repeat in W0. subst. discriminate.
    + exact FO.
    + intros k0 w1 w2 ws1 ws2 c0 C0 W1 W2 H1 H2. som. simp. apply nth_error_repeat in W1. subst. discriminate.
    + intros c0 p k0 w0 ws0 t IN C0 W0 H1. som. simp. apply nth_error_repeat in W0. subst. discriminate.
    + intros k0 w0 c0 t C0 W0. som. simp. apply nth_error_repeat in W0. discriminate.
    + intros k0 w0 c0 C0 W0. som. simp. apply nth_error_repeat in W0. discriminate.
    + intros k0 t e C0 IN. som. simp. contradiction.
    + intros k0 C0. som. simp. rewrite fin_targets_repeat_init. apply perm_nil.
    + intros ? ? ? [].
    + intros c0 r IN. destruct (OU c0 r IN) as (coll & A & B & C).
      exists coll. repeat split; auto. intros t0 e0 X.
      eapply entry_prov_mono; [| |apply C, X]; ina.
  - (* register *)
    destruct INV as [SH PE FW FO UQ OF FA TM CO PM EX OU].
    constructor; simp.
    + unfold shape_ok in *. simp. rewrite H in SH. rewrite set_nth_length. exact SH.
    + intros id t0 c IN. destruct IN as [IN|IN].
      * inversion IN. subst. exists (set_worker k w (WReg (s_next st))), w, (WReg (s_next st)). simp.
        repeat split; auto. eapply nth_error_set_nth_eq; eassumption. cbn. apply N.eqb_refl.
      * apply In_pend_del in IN. destruct IN as [IN _].
        destruct (PE id t0 c IN) as (k0 & w0 & ws0 & C0 & ID & T0 & W0 & H2).
        rewrite H in C0. som. exists (set_worker k0 w (WReg (s_next st))), w0, ws0. simp.
        repeat split; auto. rewrite nth_error_set_nth_neq; [exact W0|].
        intros ->. rewrite H0 in W0. som. discriminate.
    + intros k0 w0 ws0 c C0 W0 H2. som. simp.
      apply nth_error_set_nth in W0. destruct W0 as [[-> ->]|[NE W0]].
      * cbn in H2. apply N.eqb_eq in H2. subst. lia.
      * pose proof (FW _ _ _ _ H W0 H2). lia.
    + intros c p IN. pose proof (FO c p IN). lia.
    + intros k0 w1 w2 ws1 ws2 c C0 W1 W2 H2 H3. som. simp.
      apply nth_error_set_nth in W1, W2.
      destruct W1 as [[-> ->]|[NE1 W1]]; destruct W2 as [[-> ->]|[NE2 W2]]; try reflexivity.
      * cbn in H2. apply N.eqb_eq in H2. subst. pose proof (FW _ _ _ _ H W2 H3). lia.
      * cbn in H3. apply N.eqb_eq in H3. subst. pose proof (FW _ _ _ _ H W1 H2). lia.
      * eapply UQ; eassumption.
    + intros c p k0 w0 ws0 t0 IN C0 W0 H2 T0. som. simp. apply in_or_app. left.
      apply nth_error_set_nth in W0. destruct W0 as [[-> ->]|[NE W0]].
      * cbn in H2. apply N.eqb_eq in H2. subst. pose proof (FO _ _ IN). lia.
      * eapply OF; eassumption.
    + intros k0 w0 c t0 C0 W0 T0. som. simp.
      apply nth_error_set_nth in W0. destruct W0 as [[-> E]|[NE W0]]; [discriminate|].
      eapply FA; eassumption.
    + intros k0 w0 c C0 W0. som. simp.
      apply nth_error_set_nth in W0. destruct W0 as [[-> E]|[NE W0]]; [discriminate|].
      apply in_or_app. left. eapply TM; eassumption.
    + intros k0 t0 e C0 IN. som. simp.
      eapply entry_prov_mono; [| |eapply CO; eassumption]; ina.
    + intros k0 C0. som. simp.
      rewrite (fin_targets_set_nonfin (WReg (s_next st)) _ _ _ _ H0) by reflexivity. apply PM, H.
    + intros ky c p IN1 IN2. destruct IN1 as [IN1|IN1].
      * inversion IN1. subst. pose proof (FO _ _ IN2). lia.
      * apply In_pend_del in IN1. destruct IN1 as [IN1 _]. eapply EX; eassumption.
    + intros c r IN. destruct (OU c r IN) as (coll & A & B & C).
      exists coll. repeat split; auto. intros t0 e0 X.
      eapply entry_prov_mono; [| |apply C, X]; ina.
  - (* send ok *)
    eapply invA_same_call with (ws := WReg c); try eassumption; try reflexivity; ina.
    + intros c0 t0 E. discriminate.
    + intros c0 E. discriminate.
  - (* send error *)
    eapply invA_same_call with (ws := WReg c); try eassumption; try reflexivity; ina.
    + intros c0 t0 E T0. rewrite H1 in T0. som. ina.
    + intros c0 E. discriminate.
  - (* fail clean-up *)
    eapply invA_finish_worker with (ws := WFail c); try eassumption; try reflexivity.
    + intros ky c0 IN. apply In_pend_del in IN. destruct IN as [IN NE]. split; [exact IN|].
      destruct (holds_call (WFail c) c0) eqn:HC; [|reflexivity]. exfalso.
      destruct ky as [id0 t0].
      destruct (a_pend _ _ INV id0 t0 c0 IN) as (k0 & w0 & ws0 & C0 & ID & T0 & W0 & H2).
      rewrite H in C0. som.
      assert (w = w0) by (eapply (a_uniq _ _ INV); eassumption). subst w0.
      rewrite H1 in T0. som. apply NE. reflexivity.
    + auto.
    + cbn. apply (a_fail _ _ INV _ _ _ _ H H0 H1).
  - (* receive *)
    eapply invA_finish_worker with (ws := WWait c); try eassumption; try reflexivity.
    + intros ky c0 IN. split; [exact IN|].
      destruct (holds_call (WWait c) c0) eqn:HC; [|reflexivity]. exfalso.
      cbn in HC. apply N.eqb_eq in HC. subst c0.
      eapply (a_excl _ _ INV); [exact IN|]. apply offer_get_In. eassumption.
    + intros x IN. eapply In_offer_del, IN.
    + cbn. apply in_or_app. left.
      eapply (a_offer _ _ INV); try eassumption.
      * apply offer_get_In. eassumption.
      * cbn. apply N.eqb_refl.
  - (* time-out *)
    eapply invA_same_call with (ws := WWait c); try eassumption; try reflexivity; ina.
    + intros c0 t0 E. discriminate.
  - (* time-out clean-up *)
    eapply invA_finish_worker with (ws := WTimedOut c); try eassumption; try reflexivity.
    + intros ky c0 IN. apply In_pend_del in IN. destruct IN as [IN NE]. split; [exact IN|].
      destruct (holds_call (WTimedOut c) c0) eqn:HC; [|reflexivity]. exfalso.
      destruct ky as [id0 t0].
      destruct (a_pend _ _ INV id0 t0 c0 IN) as (k0 & w0 & ws0 & C0 & ID & T0 & W0 & H2).
      rewrite H in C0. som.
      assert (w = w0) by (eapply (a_uniq _ _ INV); eassumption). subst w0.
      rewrite H1 in T0. som. apply NE. reflexivity.
    + auto.
    + cbn. exists w. split; [exact H1|]. apply in_or_app. left.
      apply (a_to _ _ INV _ _ _ H H0).
  - (* deliver, matched *)
    pose proof (pend_get_In _ _ _ H) as PIN.
    destruct (a_pend _ _ INV id t c PIN) as (k0 & w0 & ws0 & C0 & ID & T0 & W0 & H2).
    destruct INV as [SH PE FW FO UQ OF FA TM CO PM EX OU].
    constructor; simp; auto.
    + intros id1 t1 c1 IN. apply In_pend_del in IN. destruct IN as [IN _]. apply PE, IN.
    + intros c1 p1 [IN|IN].
      * inversion IN. subst. eapply FW; eassumption.
      * apply FO with p1, IN.
    + intros c1 p1 k1 w1 ws1 t1 IN C1 W1 H3 T1. destruct IN as [IN|IN].
      * inversion IN. subst c1 p1. rewrite C0 in C1. som.
        assert (w0 = w1) by (eapply UQ; eassumption). subst w1.
        rewrite T0 in T1. som. apply in_or_app. right. left. reflexivity.
      * apply in_or_app. left. eapply OF; eassumption.
    + intros. apply in_or_app. left. eapply TM; eassumption.
    + intros. eapply entry_prov_mono; [| |eapply CO; eassumption]; ina.
    + intros ky c1 p1 IN1 IN2. apply In_pend_del in IN1. destruct IN1 as [IN1 NE].
      destruct IN2 as [IN2|IN2].
      * inversion IN2. subst c1 p1. destruct ky as [id1 t1].
        destruct (PE id1 t1 c IN1) as (k1 & w1 & ws1 & C1 & ID1 & T1 & W1 & H3).
        rewrite C0 in C1. som.
        assert (w0 = w1) by (eapply UQ; eassumption). subst w1.
        rewrite T0 in T1. som. apply NE. reflexivity.
      * eapply EX; eassumption.
    + intros c0 r IN. destruct (OU c0 r IN) as (coll & A & B & C).
      exists coll. repeat split; auto. intros t0 e0 X.
      eapply entry_prov_mono; [| |apply C, X]; ina.
  - (* deliver, dropped *) apply invA_same_state. exact INV.
  - (* finish *)
    assert (PN : s_pending st = []).
    { destruct (s_pending st) as [|[[id t] c] r] eqn:P; [reflexivity|]. exfalso.
      destruct (a_pend _ _ INV id t c) as (k0 & w0 & ws0 & C0 & _ & _ & W0 & H2).
      { rewrite P. left. reflexivity. }
      rewrite H in C0. som. pose proof (forallb_nth _ _ _ _ H0 W0) as F.
      rewrite (holds_not_fin _ _ H2) in F. discriminate. }
    pose proof (a_shape _ _ INV) as SHP. unfold shape_ok in SHP. rewrite H in SHP.
    destruct INV as [SH PE FW FO UQ OF FA TM CO PM EX OU]. rewrite PN in *.
    constructor; simp; try (intros; discriminate); auto.
    + exact I.
    + intros ? ? ? [].
    + intros c r IN. apply in_app_or in IN. destruct IN as [IN|[IN|[]]].
      * destruct (OU c r IN) as (coll & A & B & C).
        exists coll. repeat split; auto. intros t0 e0 X.
        eapply entry_prov_mono; [| |apply C, X]; ina.
      * inversion IN. subst c r. exists (k_coll k). split; [reflexivity|]. split.
        -- pose proof (PM _ H) as X. rewrite (fin_targets_all _ _ H0 SHP) in X. exact X.
        -- intros t0 e0 X. eapply entry_prov_mono; [| |eapply CO; eassumption]; ina.
Qed.

Lemma invA_step h st l : InvA h st -> InvA (h ++ [l]) (step st l).
Proof.
  intro I. destruct (step_cases st l) as [R|[_ E]].
  - eapply invA_step_rel; eassumption.
  - rewrite E. apply invA_same_state, I.
Qed.

Lemma invA_run sched : InvA sched (run sched).
Proof.
  induction sched as [|l s IH] using rev_ind.
  - exact invA_init.
  - rewrite run_snoc. apply invA_step, IH.
Qed.

(* ====================================================================== *)
(* consolidateResponses                                                    *)
(* ====================================================================== *)
Lemma mput_perm k v : forall m, ~ In k (map fst m) -> Permutation (mput k v m) ((k, v) :: m).
Proof.
  induction m as [|[k' v'] m IH]; cbn [mput map fst In]; intro NI.
  - apply Permutation_refl.
  - destruct (k =? k') eqn:E.
    + apply N.eqb_eq in E. subst. exfalso. apply NI. left. reflexivity.
    + destruct (k <? k'); [apply Permutation_refl|].
      eapply perm_trans; [apply perm_skip, IH|apply perm_swap].
      intro X. apply NI. right. exact X.
Qed.

Lemma build_map_perm_acc : forall coll acc,
  NoDup (map fst coll) -> (forall k, In k (map fst coll) -> ~ In k (map fst acc)) ->
  Permutation (fold_left (fun m kv => mput (fst kv) (snd kv) m) coll acc) (coll ++ acc).
Proof.
  induction coll as [|[k v] r IH]; intros acc ND DJ; cbn [fold_left app].
  - apply Permutation_refl.
  - cbn [map fst] in ND. inversion ND as [|? ? NI ND']. subst.
    assert (P : Permutation (mput k v acc) ((k, v) :: acc)).
    { apply mput_perm. apply DJ. left. reflexivity. }
    cbn [fst snd].
    eapply perm_trans.
    + apply IH; [exact ND'|]. intros k0 IN X.
      apply (Permutation_in _ (Permutation_map fst P)) in X. cbn in X. destruct X as [X|X].
      * subst. contradiction.
      * apply (DJ k0); [right; exact IN|exact X].
    + eapply perm_trans; [apply Permutation_app_head, P|].
      apply Permutation_sym, Permutation_middle.
Qed.

Lemma build_map_perm coll : NoDup (map fst coll) -> Permutation (build_map coll) coll.
Proof.
  intro ND. unfold build_map.
  pose proof (build_map_perm_acc coll [] ND) as X. rewrite app_nil_r in X. apply X.
  intros k _ [].
Qed.

(* the per-target content of a result *)
Definition entries_of (c : command) (r : result) : list (N * entry) :=
  match r with
  | RSingle e => match c_targets c with [t] => [(t, e)] | _ => [] end
  | RMulti m => m
  | _ => []
  end.
Definition result_shape (c : command) (r : result) : Prop :=
  match c_targets c, r with
  | [], RNil => True
  | [_], RSingle _ => True
  | _ :: _ :: _, RMulti _ => True
  | _, _ => False
  end.

Lemma consolidate_spec c coll :
  NoDup (c_targets c) -> Permutation (map fst coll) (c_targets c) ->
  Permutation (entries_of c (consolidate coll)) coll /\ result_shape c (consolidate coll).
Proof.
  intros ND P.
  assert (ND' : NoDup (map fst coll)).
  { eapply Permutation_NoDup; [apply Permutation_sym, P|exact ND]. }
  pose proof (build_map_perm coll ND') as B.
  pose proof (Permutation_length P) as L1. pose proof (Permutation_length B) as L2.
  rewrite map_length in L1.
  unfold consolidate, result_shape. destruct (build_map coll) as [|[t e] [|x m]] eqn:E.
  - apply Permutation_nil in B. subst coll. cbn in P. apply Permutation_nil in P.
    rewrite P. split; [apply perm_nil|exact I].
  - apply Permutation_length_1_inv in B. subst coll. cbn in P.
    apply Permutation_length_1_inv in P. rewrite P. cbn. rewrite P.
    split; [apply Permutation_refl|exact I].
  - cbn [entries_of]. split; [exact B|].
    cbn in L2. destruct (c_targets c) as [|a [|b ts]]; cbn in L1; try lia; exact I.
Qed.

(* ====================================================================== *)
(* no reply to a live call is lost (needs distinct targets)                 *)
(* ====================================================================== *)
Definition live (ws : wstate) (c : N) : Prop := ws = WReg c \/ ws = WWait c.

Definition InvB (st : state) : Prop :=
  forall k w ws c t, s_cur st = Some k -> NoDup (c_targets (k_cmd k)) ->
    nth_error (k_workers k) w = Some ws -> live ws c ->
    nth_error (c_targets (k_cmd k)) w = Some t ->
    (forall p, ~ In (c, p) (s_offers st)) ->
    pend_get (c_id (k_cmd k), t) (s_pending st) = Some c.

Lemma live_holds ws c : live ws c -> holds_call ws c = true.
Proof. intros [->| ->]; cbn; apply N.eqb_refl. Qed.

Lemma nodup_nth_neq (l : list N) i j a b :
  NoDup l -> nth_error l i = Some a -> nth_error l j = Some b -> i <> j -> a <> b.
Proof.
  intros ND A B NE E. subst b. apply NE.
  rewrite NoDup_nth_error in ND. apply ND.
  - apply nth_error_Some. congruence.
  - congruence.
Qed.

Lemma key_neq_t (id t t' : N) : t <> t' -> (id, t) <> (id, t').
Proof. intros NE E. inversion E. contradiction. Qed.

Lemma invB_step_rel h st l st' : InvA h st -> InvB st -> step_rel st l st' -> InvB st'.
Proof.
  intros IA IB R. unfold InvB in *. destruct R; simp.
  - exact IB.
  - intros k0 w0 ws0 c0 t0 C0 ND W0 LV. som. simp. apply nth_error_repeat in W0. subst.
    destruct LV; discriminate.
  - (* register *)
    intros k0 w0 ws0 c0 t0 C0 ND W0 LV T0 NO. som. simp. unfold pend_put.
    apply nth_error_set_nth in W0. destruct W0 as [[-> ->]|[NE W0]].
    + rewrite H1 in T0. som. cbn [pend_get]. rewrite key_eqb_refl.
      destruct LV as [E|E]; inversion E. reflexivity.
    + pose proof (nodup_nth_neq _ _ _ _ _ ND H1 T0 NE) as NT.
      cbn [pend_get]. destruct (key_eqb (c_id (k_cmd k), t0) (c_id (k_cmd k), t)) eqn:KE.
      * apply key_eqb_eq in KE. inversion KE. congruence.
      * rewrite pend_get_del_other by (apply key_neq_t; congruence).
        eapply IB; eassumption.
  - (* send ok *)
    intros k0 w0 ws0 c0 t0 C0 ND W0 LV T0 NO. som. simp.
    apply nth_error_set_nth in W0. destruct W0 as [[-> ->]|[NE W0]].
    + destruct LV as [E|E]; inversion E. subst. eapply IB; try eassumption. left. reflexivity.
    + eapply IB; eassumption.
  - (* send error *)
    intros k0 w0 ws0 c0 t0 C0 ND W0 LV T0 NO. som. simp.
    apply nth_error_set_nth in W0. destruct W0 as [[-> ->]|[NE W0]].
    + destruct LV; discriminate.
    + eapply IB; eassumption.
  - (* fail clean-up *)
    intros k0 w0 ws0 c0 t0 C0 ND W0 LV T0 NO. som. simp.
    apply nth_error_set_nth in W0. destruct W0 as [[-> ->]|[NE W0]]; [destruct LV; discriminate|].
    pose proof (nodup_nth_neq _ _ _ _ _ ND H1 T0 NE) as NT.
    rewrite pend_get_del_other by (apply key_neq_t; congruence). eapply IB; eassumption.
  - (* receive *)
    intros k0 w0 ws0 c0 t0 C0 ND W0 LV T0 NO. som. simp.
    apply nth_error_set_nth in W0. destruct W0 as [[-> ->]|[NE W0]]; [destruct LV; discriminate|].
    eapply IB; try eassumption. intros p0 IN.
    destruct (N.eq_dec c0 c) as [->|NC].
    + apply NE. eapply (a_uniq _ _ IA); try eassumption.
      * cbn. apply N.eqb_refl.
      * apply live_holds, LV.
    + apply (NO p0). apply In_offer_del_other; assumption.
  - (* time-out *)
    intros k0 w0 ws0 c0 t0 C0 ND W0 LV T0 NO. som. simp.
    apply nth_error_set_nth in W0. destruct W0 as [[-> ->]|[NE W0]].
    + destruct LV; discriminate.
    + eapply IB; eassumption.
  - (* time-out clean-up *)
    intros k0 w0 ws0 c0 t0 C0 ND W0 LV T0 NO. som. simp.
    apply nth_error_set_nth in W0. destruct W0 as [[-> ->]|[NE W0]]; [destruct LV; discriminate|].
    pose proof (nodup_nth_neq _ _ _ _ _ ND H1 T0 NE) as NT.
    rewrite pend_get_del_other by (apply key_neq_t; congruence). eapply IB; eassumption.
  - (* deliver, matched *)
    intros k0 w0 ws0 c0 t0 C0 ND W0 LV T0 NO.
    assert (G : pend_get (c_id (k_cmd k0), t0) (s_pending st) = Some c0).
    { eapply IB; try eassumption. intros p0 IN. apply (NO p0). right. exact IN. }
    destruct (key_eqb (id, t) (c_id (k_cmd k0), t0)) eqn:KE.
    + apply key_eqb_eq in KE. rewrite KE in H. rewrite H in G. som.
      exfalso. apply (NO p). left. reflexivity.
    + apply key_eqb_neq in KE. rewrite pend_get_del_other by congruence. exact G.
  - exact IB.
  - intros; discriminate.
Qed.

Lemma invB_run sched : InvB (run sched).
Proof.
  induction sched as [|l s IH] using rev_ind.
  - intros k w ws c t C. discriminate.
  - rewrite run_snoc. destruct (step_cases (run s) l) as [R|[_ E]].
    + eapply invB_step_rel; [apply invA_run|exact IH|exact R].
    + rewrite E. exact IH.
Qed.

(* ====================================================================== *)
(* the harness-level runs are runs                                         *)
(* ====================================================================== *)
Lemma find_some_in {A} (f : A -> bool) l x : find f l = Some x -> In x l /\ f x = true.
Proof. apply find_some. Qed.

Lemma internal_candidates_internal st l : In l (internal_candidates st) -> internal_label l = true.
Proof.
  unfold internal_candidates. destruct (s_cur st) as [k|].
  - intros [<-|IN]; [reflexivity|]. apply in_flat_map in IN. destruct IN as (w & _ & IN).
    cbn in IN. repeat (destruct IN as [<-|IN]; [reflexivity|]). contradiction.
  - intros [<-|[]]. reflexivity.
Qed.

Lemma settle_fuel_run : forall fuel st,
  exists s, settle_fuel fuel st = run_from st s /\ forall l, In l s -> internal_label l = true.
Proof.
  induction fuel as [|f IH]; intro st; cbn [settle_fuel].
  - exists []. split; [reflexivity|intros l []].
  - destruct (first_internal st) as [l|] eqn:F.
    + destruct (IH (step st l)) as (s & E & A). exists (l :: s). split; [exact E|].
      intros x [<-|X]; [|apply A, X].
      unfold first_internal in F. apply find_some in F. destruct F as [F _].
      eapply internal_candidates_internal, F.
    + exists []. split; [reflexivity|intros l []].
Qed.

Lemma hrun_is_run_from : forall script st,
  exists s, fold_left hstep script st = run_from st s /\
            forall l, In l s -> In l script \/ internal_label l = true.
Proof.
  induction script as [|l script IH]; intro st; cbn [fold_left].
  - exists []. split; [reflexivity|intros l []].
  - unfold hstep at 2. unfold settle.
    destruct (settle_fuel_run (measure (step st l)) (step st l)) as (s1 & E1 & A1).
    rewrite E1. destruct (IH (run_from (step st l) s1)) as (s2 & E2 & A2).
    exists (l :: s1 ++ s2). split.
    + rewrite E2. cbn [run_from fold_left]. change (fold_left step (s1 ++ s2) (step st l))
        with (run_from (step st l) (s1 ++ s2)). rewrite run_from_app. reflexivity.
    + intros x [<-|X]; [left; left; reflexivity|]. apply in_app_or in X. destruct X as [X|X].
      * right. apply A1, X.
      * destruct (A2 x X) as [Y|Y]; [left; right; exact Y|right; exact Y].
Qed.

Lemma hrun_is_run script :
  exists sched, hrun script = run sched /\
                forall l, In l sched -> In l script \/ internal_label l = true.
Proof.
  unfold hrun, settle.
  destruct (settle_fuel_run (measure init) init) as (s0 & E0 & A0). rewrite E0.
  destruct (hrun_is_run_from script (run_from init s0)) as (s & E & A).
  exists (s0 ++ s). split.
  - rewrite E. unfold run. rewrite run_from_app. reflexivity.
  - intros l X. apply in_app_or in X. destruct X as [X|X]; [right; apply A0, X|apply A, X].
Qed.

(* ====================================================================== *)
(* the statements used by props/C12.v                                      *)
(* ====================================================================== *)

(* --- exactly once --- *)
Lemma enq_cmds_progress ext :
  (forall l, In l ext -> progress_label l = true) -> enq_cmds ext = [].
Proof.
  induction ext as [|l ext IH]; intro A; [reflexivity|].
  unfold enq_cmds in *. cbn [flat_map]. rewrite IH by (intros x X; apply A; right; exact X).
  specialize (A l (or_introl eq_refl)). destruct l; cbn in A; try discriminate; reflexivity.
Qed.

Lemma completes_exactly_once sched :
  exists ext, (forall l, In l ext -> progress_label l = true) /\
              (length ext <= measure (run sched))%nat /\
              map fst (s_out (run (sched ++ ext))) = enq_cmds sched.
Proof.
  destruct (completes_without_replies (measure (run sched)) (run sched) (shape_run sched)
                                      (le_n _)) as (ext & A & B & C & Q).
  exists ext. split; [exact A|]. split; [exact B|].
  pose proof (fifo_accounting (sched ++ ext)) as F.
  unfold run in *. rewrite run_from_app in F |- *.
  unfold cur_cmds in F. rewrite C, Q in F. cbn in F. rewrite app_nil_r in F.
  rewrite F, enq_cmds_app, (enq_cmds_progress ext A). apply app_nil_r.
Qed.

Lemma progress_measure :
  (forall st l st', progress_label l = true -> step_rel st l st' ->
                    (measure st' < measure st)%nat) /\
  (forall st id t p, measure (step st (LDeliver id t p)) = measure st) /\
  (forall st, shape_ok st -> measure st <> O ->
              exists l st', progress_label l = true /\ step_rel st l st') /\
  (forall st, measure st = O <-> s_cur st = None /\ s_queue st = []).
Proof.
  split; [exact progress_decreases|]. split; [exact deliver_measure|].
  split; [exact progress_exists|exact measure_zero].
Qed.

(* --- per target: own reply or an error --- *)
Lemma out_collected sched c r :
  In (c, r) (s_out (run sched)) ->
  In c (enq_cmds sched) /\
  exists coll, r = consolidate coll /\ Permutation (map fst coll) (c_targets c) /\
               forall t e, In (t, e) coll -> entry_prov sched (s_sends (run sched)) c t e.
Proof.
  intro IN. split.
  - rewrite <- fifo_accounting. apply in_or_app. left.
    change c with (fst (c, r)). apply in_map, IN.
  - apply (a_out _ _ (invA_run sched)), IN.
Qed.

Lemma per_target_own sched c r :
  In (c, r) (s_out (run sched)) -> NoDup (c_targets c) ->
  result_shape c r /\
  Permutation (map fst (entries_of c r)) (c_targets c) /\
  forall t e, In (t, e) (entries_of c r) -> entry_prov sched (s_sends (run sched)) c t e.
Proof.
  intros IN ND. destruct (out_collected sched c r IN) as (_ & coll & -> & P & PR).
  destruct (consolidate_spec c coll ND P) as [PE SH].
  split; [exact SH|]. split.
  - eapply perm_trans; [apply Permutation_map, PE|exact P].
  - intros t e X. apply PR. eapply Permutation_in; [exact PE|exact X].
Qed.

(* --- isolation --- *)
Lemma deliver_dropped st id t p :
  pend_get (id, t) (s_pending st) = None -> step st (LDeliver id t p) = st.
Proof. intro G. unfold step. cbn [step_opt]. rewrite G. reflexivity. Qed.

Lemma deliver_frame st id t p :
  let st' := step st (LDeliver id t p) in
  s_cur st' = s_cur st /\ s_queue st' = s_queue st /\ s_out st' = s_out st /\
  s_sends st' = s_sends st /\ s_next st' = s_next st /\
  (forall ky, ky <> (id, t) -> pend_get ky (s_pending st') = pend_get ky (s_pending st)) /\
  (forall c q, In (c, q) (s_offers st) -> In (c, q) (s_offers st')).
Proof.
  unfold step. cbn [step_opt]. destruct (pend_get (id, t) (s_pending st)) eqn:G; cbn.
  - repeat split; auto. intros ky NE. apply pend_get_del_other, NE.
  - repeat split; auto.
Qed.

(* the only reply that has any effect is one for the command in progress, from a target of
   that command whose call is registered and still unanswered; its whole effect is to
   take that call out of the pending map and to offer the payload to that call *)
Lemma deliver_effect sched id t p :
  let st := run sched in
  step st (LDeliver id t p) = st \/
  exists k w ws c,
    s_cur st = Some k /\ c_id (k_cmd k) = id /\
    nth_error (c_targets (k_cmd k)) w = Some t /\
    nth_error (k_workers k) w = Some ws /\ holds_call ws c = true /\
    step st (LDeliver id t p) =
      mkState (s_queue st) (s_cur st) (pend_del (id, t) (s_pending st))
              ((c, p) :: s_offers st) (s_next st) (s_out st) (s_sends st).
Proof.
  cbn zeta. destruct (pend_get (id, t) (s_pending (run sched))) as [c|] eqn:G.
  - right. destruct (a_pend _ _ (invA_run sched) id t c (pend_get_In _ _ _ G))
      as (k & w & ws & C & ID & T & W & HC).
    exists k, w, ws, c. repeat split; auto.
    unfold step. cbn [step_opt]. rewrite G. reflexivity.
  - left. apply deliver_dropped, G.
Qed.

Lemma deliver_other_command sched id t p :
  (forall k, s_cur (run sched) = Some k -> c_id (k_cmd k) <> id) ->
  step (run sched) (LDeliver id t p) = run sched.
Proof.
  intro NC. destruct (deliver_effect sched id t p) as [E|(k & w & ws & c & C & ID & _)].
  - exact E.
  - exfalso. apply (NC k C ID).
Qed.

(* a reply carrying an id that no command in progress has (never issued, already answered,
   still queued) can be removed from any schedule without changing anything *)
Lemma foreign_reply_irrelevant s1 s2 id t p :
  (forall k, s_cur (run s1) = Some k -> c_id (k_cmd k) <> id) ->
  run (s1 ++ LDeliver id t p :: s2) = run (s1 ++ s2).
Proof.
  intro NC. unfold run. rewrite !run_from_app. cbn [run_from fold_left].
  change (run_from init s1) with (run s1). rewrite (deliver_other_command s1 id t p NC).
  reflexivity.
Qed.

(* --- pending is clean --- *)
Lemma pending_owned sched id t c :
  In ((id, t), c) (s_pending (run sched)) ->
  exists k w ws, s_cur (run sched) = Some k /\ c_id (k_cmd k) = id /\
                 nth_error (c_targets (k_cmd k)) w = Some t /\
                 nth_error (k_workers k) w = Some ws /\ holds_call ws c = true.
Proof. apply (a_pend _ _ (invA_run sched)). Qed.

Lemma pending_clean sched :
  s_cur (run sched) = None -> s_pending (run sched) = [].
Proof. apply invA_no_cur_no_pending with sched, invA_run. Qed.

Lemma pending_clean_after_answer sched c r id t call :
  In (c, r) (s_out (run sched)) -> In ((id, t), call) (s_pending (run sched)) ->
  exists k, s_cur (run sched) = Some k /\ c_id (k_cmd k) = id /\
            exists a b, enq_cmds sched = a ++ c :: b /\ In (k_cmd k) b.
Proof.
  intros IN PIN. destruct (pending_owned sched id t call PIN) as (k & _ & _ & C & ID & _).
  exists k. split; [exact C|]. split; [exact ID|].
  pose proof (fifo_accounting sched) as F. unfold cur_cmds in F. rewrite C in F.
  apply in_split in IN. destruct IN as (o1 & o2 & E). rewrite E in F.
  rewrite map_app in F. cbn [map fst] in F. rewrite <- app_assoc in F. cbn [app] in F.
  exists (map fst o1), (map fst o2 ++ [k_cmd k] ++ s_queue (run sched)).
  split; [symmetry; exact F|]. apply in_or_app. right. left. reflexivity.
Qed.

(* --- no reply to a live call is lost: needs distinct targets --- *)
Definition reply_reaches_live_call_for (sched : list label) : Prop :=
  forall k w ws c t p,
    s_cur (run sched) = Some k ->
    nth_error (k_workers k) w = Some ws -> live ws c ->
    nth_error (c_targets (k_cmd k)) w = Some t ->
    (forall q, ~ In (c, q) (s_offers (run sched))) ->
    offer_get c (s_offers (step (run sched) (LDeliver (c_id (k_cmd k)) t p))) = Some p.

Lemma reply_reaches_live_call sched :
  (forall c, In c (enq_cmds sched) -> NoDup (c_targets c)) ->
  reply_reaches_live_call_for sched.
Proof.
  intros ND k w ws c t p C W LV T NO.
  assert (NDk : NoDup (c_targets (k_cmd k))).
  { apply ND. rewrite <- fifo_accounting. apply in_or_app. right. apply in_or_app. left.
    unfold cur_cmds. rewrite C. left. reflexivity. }
  pose proof (invB_run sched k w ws c t C NDk W LV T NO) as G.
  unfold step. cbn [step_opt]. rewrite G. cbn. rewrite N.eqb_refl. reflexivity.
Qed.

Definition dup_witness : list label :=
  [LEnqueue (mkCmd 1 [7; 7]); LStart; LRegister 0; LRegister 1; LSendOk 1 0; LSendOk 1 1;
   LTimeout 1 0; LTimeoutCleanup 0].

Lemma reply_lost_with_duplicate_target : ~ (forall sched, reply_reaches_live_call_for sched).
Proof.
  intro H.
  specialize (H dup_witness (mkCommit (mkCmd 1 [7; 7]) [WFin; WWait 1] [(7, ETimeout)])
                1%nat (WWait 1) 1 7 55).
  vm_compute in H.
  assert (X : None = Some 55); [|discriminate X].
  apply H; try reflexivity.
  - right. reflexivity.
  - intros q [].
Qed.

(* and the time-out of the other worker is then all the command reports for that target *)
Lemma duplicate_target_result :
  s_out (run (dup_witness ++ [LDeliver 1 7 55; LTimeout 1 1; LTimeoutCleanup 1; LFinish])) =
  [(mkCmd 1 [7; 7], RSingle ETimeout)].
Proof. vm_compute. reflexivity. Qed.

(* --- responder left blocked on Done (leak; outside the property) --- *)
Definition leak_witness : list label :=
  [LEnqueue (mkCmd 1 [7]); LStart; LRegister 0; LDeliver 1 7 55; LSendErr 1 0; LFailCleanup 0;
   LFinish].

Lemma responder_left_blocked :
  let st := run leak_witness in
  s_cur st = None /\ s_queue st = [] /\ s_pending st = [] /\
  s_out st = [(mkCmd 1 [7], RSingle ESendErr)] /\ s_offers st = [(0, 55)].
Proof. vm_compute. repeat split; reflexivity. Qed.

(* --- non-vacuity material --- *)
Definition example_sched : list label :=
  [LEnqueue (mkCmd 1 [10; 11; 12]); LEnqueue (mkCmd 2 [10]); LStart;
   LRegister 0; LRegister 1; LRegister 2;
   LDeliver 2 10 90;                       (* reply to a command still queued: dropped *)
   LDeliver 1 10 100;                      (* reply before SendFunc returned *)
   LSendOk 1 0; LRecv 0; LSendErr 1 1; LFailCleanup 1; LSendOk 1 2;
   LDeliver 1 10 101;                      (* duplicate reply: dropped *)
   LDeliver 9 12 102;                      (* foreign id: dropped *)
   LTimeout 1 2; LDeliver 1 12 103;        (* reply racing the time-out: responder stays blocked *)
   LTimeoutCleanup 2; LFinish; LStart; LRegister 0; LSendOk 2 0;
   LDeliver 1 12 104;                      (* late reply to the answered command: dropped *)
   LDeliver 2 10 105; LRecv 0; LFinish].

(* C12: fifo_accounting at any moment of any schedule - the commands answered so far are a prefix of
   the commands enqueued so far, in their order: no answer for a command nobody asked, none twice,
   none overtaking an earlier command *)
Lemma answered_is_prefix sched :
  exists rest, enq_cmds sched = map fst (s_out (run sched)) ++ rest.
Proof.
  exists (cur_cmds (run sched) ++ s_queue (run sched)). symmetry. exact (fifo_accounting sched).
Qed.
