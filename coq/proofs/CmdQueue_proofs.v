(* Proofs about the model of core/controlcommands (model/CmdQueue.v). *)
From Coq Require Import Permutation Arith.
From Verif Require Import Common CmdQueue.
Open Scope N_scope.

(* ====================================================================== *)
(* basic list facts                                                        *)
(* ====================================================================== *)
Lemma set_nth_length {A} (x : A) : forall l n, length (set_nth n x l) = length l.
Proof.
  induction l as [|y l IH]; intros [|n]; cbn; try reflexivity. rewrite IH. reflexivity.
Qed.

Lemma nth_error_set_nth_eq {A} (x : A) : forall l n y,
  nth_error l n = Some y -> nth_error (set_nth n x l) n = Some x.
Proof.
  induction l as [|z l IH]; intros [|n] y H; cbn in *; try discriminate; try reflexivity.
  eapply IH. exact H.
Qed.

Lemma nth_error_set_nth_neq {A} (x : A) : forall l n m,
  n <> m -> nth_error (set_nth n x l) m = nth_error l m.
Proof.
  induction l as [|z l IH]; intros [|n] [|m] H; cbn; try reflexivity.
  - congruence.
  - apply IH. congruence.
Qed.

Lemma nth_error_set_nth {A} (x : A) l n m y :
  nth_error (set_nth n x l) m = Some y ->
  (n = m /\ y = x) \/ (n <> m /\ nth_error l m = Some y).
Proof.
  intro H. destruct (Nat.eq_dec n m) as [E|E].
  - subst. left. split; [reflexivity|].
    destruct (nth_error l m) as [z|] eqn:Z.
    + rewrite (nth_error_set_nth_eq x l m z Z) in H. congruence.
    + exfalso. apply nth_error_None in Z.
      assert (L : (length (set_nth m x l) <= m)%nat) by (rewrite set_nth_length; exact Z).
      apply nth_error_None in L. congruence.
  - right. split; [exact E|]. rewrite nth_error_set_nth_neq in H by exact E. exact H.
Qed.

Lemma nth_error_repeat {A} (x : A) n m y : nth_error (repeat x n) m = Some y -> y = x.
Proof.
  intro H. apply nth_error_In in H. apply repeat_spec in H. exact H.
Qed.

Lemma key_eqb_eq a b : key_eqb a b = true <-> a = b.
Proof.
  destruct a as [a1 a2], b as [b1 b2]. unfold key_eqb. cbn [fst snd].
  rewrite andb_true_iff, !N.eqb_eq. split.
  - intros [-> ->]. reflexivity.
  - intro E. inversion E. split; reflexivity.
Qed.

Lemma key_eqb_refl a : key_eqb a a = true.
Proof. apply key_eqb_eq. reflexivity. Qed.

Lemma key_eqb_neq a b : key_eqb a b = false <-> a <> b.
Proof.
  split.
  - intros H E. apply key_eqb_eq in E. congruence.
  - intro H. destruct (key_eqb a b) eqn:E; [|reflexivity]. apply key_eqb_eq in E. contradiction.
Qed.

(* ---------- pending map ---------- *)
Lemma pend_get_In k l v : pend_get k l = Some v -> In (k, v) l.
Proof.
  induction l as [|[k' v'] l IH]; cbn; [discriminate|].
  destruct (key_eqb k k') eqn:E.
  - apply key_eqb_eq in E. subst. intro H. inversion H. left. reflexivity.
  - intro H. right. apply IH, H.
Qed.

Lemma pend_get_None k l : pend_get k l = None -> forall v, ~ In (k, v) l.
Proof.
  induction l as [|[k' v'] l IH]; cbn; intros H v; [tauto|].
  destruct (key_eqb k k') eqn:E; [discriminate|].
  intros [X|X].
  - inversion X. subst. rewrite key_eqb_refl in E. discriminate.
  - exact (IH H v X).
Qed.

Lemma In_pend_del k k' v l : In (k', v) (pend_del k l) -> In (k', v) l /\ k' <> k.
Proof.
  induction l as [|[k2 v2] l IH]; cbn; [tauto|].
  destruct (key_eqb k k2) eqn:E.
  - intro H. destruct (IH H) as [A B]. split; [right; exact A|exact B].
  - intros [H|H].
    + inversion H. subst. split; [left; reflexivity|]. apply key_eqb_neq in E. congruence.
    + destruct (IH H) as [A B]. split; [right; exact A|exact B].
Qed.

Lemma pend_get_del_same k l : pend_get k (pend_del k l) = None.
Proof.
  induction l as [|[k2 v2] l IH]; cbn; [reflexivity|].
  destruct (key_eqb k k2) eqn:E; [exact IH|]. cbn. rewrite E. exact IH.
Qed.

Lemma pend_get_del_other k k' l : k' <> k -> pend_get k' (pend_del k l) = pend_get k' l.
Proof.
  intro NE. induction l as [|[k2 v2] l IH]; cbn; [reflexivity|].
  destruct (key_eqb k k2) eqn:E.
  - apply key_eqb_eq in E. subst k2.
    apply key_eqb_neq in NE. rewrite NE. exact IH.
  - cbn. destruct (key_eqb k' k2); [reflexivity|exact IH].
Qed.

(* ---------- offers ---------- *)
Lemma offer_get_In c l p : offer_get c l = Some p -> In (c, p) l.
Proof.
  induction l as [|[c' p'] l IH]; cbn; [discriminate|].
  destruct (c =? c') eqn:E.
  - apply N.eqb_eq in E. subst. intro H. inversion H. left. reflexivity.
  - intro H. right. apply IH, H.
Qed.

Lemma In_offer_del c x l : In x (offer_del c l) -> In x l.
Proof.
  induction l as [|[c' p'] l IH]; cbn; [tauto|].
  destruct (c =? c'); [intro H; right; exact H|].
  intros [H|H]; [left; exact H|right; apply IH, H].
Qed.

Lemma In_offer_del_other c c' p l : c' <> c -> In (c', p) l -> In (c', p) (offer_del c l).
Proof.
  intros NE. induction l as [|[c2 p2] l IH]; cbn; [tauto|].
  destruct (c =? c2) eqn:E.
  - apply N.eqb_eq in E. subst c2. intros [H|H]; [inversion H; congruence|exact H].
  - intros [H|H]; [left; exact H|right; apply IH, H].
Qed.

(* ====================================================================== *)
(* inversion of steps                                                      *)
(* ====================================================================== *)
Lemma worker_at_some st w k ws t :
  worker_at st w = Some (k, ws, t) ->
  s_cur st = Some k /\ nth_error (k_workers k) w = Some ws /\
  nth_error (c_targets (k_cmd k)) w = Some t.
Proof.
  unfold worker_at. destruct (s_cur st) as [k'|]; [|discriminate].
  destruct (nth_error (k_workers k') w) as [ws'|] eqn:E1; [|discriminate].
  destruct (nth_error (c_targets (k_cmd k')) w) as [t'|] eqn:E2; [|discriminate].
  intro H. inversion H. subst. repeat split; assumption.
Qed.

Lemma worker_at_intro st w k ws t :
  s_cur st = Some k -> nth_error (k_workers k) w = Some ws ->
  nth_error (c_targets (k_cmd k)) w = Some t -> worker_at st w = Some (k, ws, t).
Proof. intros A B C. unfold worker_at. rewrite A, B, C. reflexivity. Qed.

Lemma step_enabled st l st' : step_opt st l = Some st' -> step st l = st'.
Proof. intro H. unfold step. rewrite H. reflexivity. Qed.

Lemma step_disabled st l : step_opt st l = None -> step st l = st.
Proof. intro H. unfold step. rewrite H. reflexivity. Qed.

Lemma run_from_app st a b : run_from st (a ++ b) = run_from (run_from st a) b.
Proof. unfold run_from. apply fold_left_app. Qed.

Lemma run_snoc s l : run (s ++ [l]) = step (run s) l.
Proof. unfold run. rewrite run_from_app. reflexivity. Qed.

(* ====================================================================== *)
(* C12_exactly_once, safety half: FIFO accounting of commands              *)
(* ====================================================================== *)
Definition cur_cmds (st : state) : list command :=
  match s_cur st with Some k => [k_cmd k] | None => [] end.
Definition acct (st : state) : list command :=
  map fst (s_out st) ++ cur_cmds st ++ s_queue st.
Definition enq_of (l : label) : list command :=
  match l with LEnqueue c => [c] | _ => [] end.

Ltac wa_inv H :=
  match type of H with
  | context [worker_at ?st ?w] =>
    let WA := fresh "WA" in
    destruct (worker_at st w) as [[[? ?] ?]|] eqn:WA; [|discriminate H]
  end.

Lemma acct_step st l : acct (step st l) = acct st ++ enq_of l.
Proof.
  unfold step. destruct (step_opt st l) as [st'|] eqn:S.
  2:{ destruct l; cbn in S; try discriminate; cbn [enq_of]; rewrite ?app_nil_r; reflexivity. }
  destruct l; cbn [step_opt] in S; cbn [enq_of]; rewrite ?app_nil_r.
  - inversion S. subst. unfold acct, cur_cmds. cbn. rewrite !app_assoc. reflexivity.
  - destruct (s_cur st) eqn:C; [discriminate|]. destruct (s_queue st) eqn:Q; [discriminate|].
    inversion S. subst. unfold acct, cur_cmds. cbn. rewrite C, Q. reflexivity.
  - wa_inv S. apply worker_at_some in WA. destruct WA as (C & _ & _).
    destruct w0; try discriminate. inversion S. subst. unfold acct, cur_cmds. cbn. rewrite C. reflexivity.
  - wa_inv S. apply worker_at_some in WA. destruct WA as (C & _ & _).
    destruct w0; try discriminate. destruct (c_id (k_cmd c) =? id); [|discriminate].
    inversion S. subst. unfold acct, cur_cmds. cbn. rewrite C. reflexivity.
  - wa_inv S. apply worker_at_some in WA. destruct WA as (C & _ & _).
    destruct w0; try discriminate. destruct (c_id (k_cmd c) =? id); [|discriminate].
    inversion S. subst. unfold acct, cur_cmds. cbn. rewrite C. reflexivity.
  - wa_inv S. apply worker_at_some in WA. destruct WA as (C & _ & _).
    destruct w0; try discriminate. inversion S. subst. unfold acct, cur_cmds. cbn. rewrite C. reflexivity.
  - wa_inv S. apply worker_at_some in WA. destruct WA as (C & _ & _).
    destruct w0; try discriminate. destruct (offer_get call (s_offers st)); [|discriminate].
    inversion S. subst. unfold acct, cur_cmds. cbn. rewrite C. reflexivity.
  - wa_inv S. apply worker_at_some in WA. destruct WA as (C & _ & _).
    destruct w0; try discriminate. destruct (c_id (k_cmd c) =? id); [|discriminate].
    inversion S. subst. unfold acct, cur_cmds. cbn. rewrite C. reflexivity.
  - wa_inv S. apply worker_at_some in WA. destruct WA as (C & _ & _).
    destruct w0; try discriminate. inversion S. subst. unfold acct, cur_cmds. cbn. rewrite C. reflexivity.
  - destruct (pend_get (id, t) (s_pending st)); inversion S; subst; reflexivity.
  - destruct (s_cur st) as [k|] eqn:C; [|discriminate].
    destruct (forallb _ (k_workers k)); [|discriminate].
    inversion S. subst. unfold acct, cur_cmds. cbn. rewrite C. rewrite map_app. cbn.
    rewrite <- !app_assoc. reflexivity.
Qed.

Lemma enq_cmds_app a b : enq_cmds (a ++ b) = enq_cmds a ++ enq_cmds b.
Proof. unfold enq_cmds. apply flat_map_app. Qed.

Lemma acct_run_from : forall s st, acct (run_from st s) = acct st ++ enq_cmds s.
Proof.
  induction s as [|l s IH]; intro st; cbn.
  - rewrite app_nil_r. reflexivity.
  - change (fold_left step s (step st l)) with (run_from (step st l) s).
    rewrite IH, acct_step. rewrite <- app_assoc. reflexivity.
Qed.

(* every enqueued command is, in enqueue order, either answered (once), in progress or
   still queued; nothing else ever is *)
Lemma fifo_accounting sched :
  map fst (s_out (run sched)) ++ cur_cmds (run sched) ++ s_queue (run sched) = enq_cmds sched.
Proof. exact (acct_run_from sched init). Qed.

(* ====================================================================== *)
(* the step function as a relation (one constructor per enabled case)      *)
(* ====================================================================== *)
Definition is_fin (ws : wstate) : bool := match ws with WFin => true | _ => false end.

Inductive step_rel (st : state) : label -> state -> Prop :=
| SR_enq c :
    step_rel st (LEnqueue c)
      (mkState (s_queue st ++ [c]) (s_cur st) (s_pending st) (s_offers st) (s_next st)
               (s_out st) (s_sends st))
| SR_start c q :
    s_cur st = None -> s_queue st = c :: q ->
    step_rel st LStart
      (mkState q (Some (mkCommit c (repeat WInit (length (c_targets c))) []))
               (s_pending st) (s_offers st) (s_next st) (s_out st) (s_sends st))
| SR_reg w k t :
    s_cur st = Some k -> nth_error (k_workers k) w = Some WInit ->
    nth_error (c_targets (k_cmd k)) w = Some t ->
    step_rel st (LRegister w)
      (mkState (s_queue st) (Some (set_worker k w (WReg (s_next st))))
               (pend_put (c_id (k_cmd k), t) (s_next st) (s_pending st))
               (s_offers st) (N.succ (s_next st)) (s_out st) (s_sends st))
| SR_sendok w k c t :
    s_cur st = Some k -> nth_error (k_workers k) w = Some (WReg c) ->
    nth_error (c_targets (k_cmd k)) w = Some t ->
    step_rel st (LSendOk (c_id (k_cmd k)) w)
      (mkState (s_queue st) (Some (set_worker k w (WWait c))) (s_pending st) (s_offers st)
               (s_next st) (s_out st) (s_sends st ++ [(c_id (k_cmd k), t, true)]))
| SR_senderr w k c t :
    s_cur st = Some k -> nth_error (k_workers k) w = Some (WReg c) ->
    nth_error (c_targets (k_cmd k)) w = Some t ->
    step_rel st (LSendErr (c_id (k_cmd k)) w)
      (mkState (s_queue st) (Some (set_worker k w (WFail c))) (s_pending st) (s_offers st)
               (s_next st) (s_out st) (s_sends st ++ [(c_id (k_cmd k), t, false)]))
| SR_failclean w k c t :
    s_cur st = Some k -> nth_error (k_workers k) w = Some (WFail c) ->
    nth_error (c_targets (k_cmd k)) w = Some t ->
    step_rel st (LFailCleanup w)
      (mkState (s_queue st) (Some (fin_worker k w t ESendErr))
               (pend_del (c_id (k_cmd k), t) (s_pending st))
               (s_offers st) (s_next st) (s_out st) (s_sends st))
| SR_recv w k c t p :
    s_cur st = Some k -> nth_error (k_workers k) w = Some (WWait c) ->
    nth_error (c_targets (k_cmd k)) w = Some t ->
    offer_get c (s_offers st) = Some p ->
    step_rel st (LRecv w)
      (mkState (s_queue st) (Some (fin_worker k w t (EReply p))) (s_pending st)
               (offer_del c (s_offers st)) (s_next st) (s_out st) (s_sends st))
| SR_timeout w k c t :
    s_cur st = Some k -> nth_error (k_workers k) w = Some (WWait c) ->
    nth_error (c_targets (k_cmd k)) w = Some t ->
    step_rel st (LTimeout (c_id (k_cmd k)) w)
      (mkState (s_queue st) (Some (set_worker k w (WTimedOut c))) (s_pending st) (s_offers st)
               (s_next st) (s_out st) (s_sends st))
| SR_toclean w k c t :
    s_cur st = Some k -> nth_error (k_workers k) w = Some (WTimedOut c) ->
    nth_error (c_targets (k_cmd k)) w = Some t ->
    step_rel st (LTimeoutCleanup w)
      (mkState (s_queue st) (Some (fin_worker k w t ETimeout))
               (pend_del (c_id (k_cmd k), t) (s_pending st))
               (s_offers st) (s_next st) (s_out st) (s_sends st))
| SR_deliver_hit id t p c :
    pend_get (id, t) (s_pending st) = Some c ->
    step_rel st (LDeliver id t p)
      (mkState (s_queue st) (s_cur st) (pend_del (id, t) (s_pending st))
               ((c, p) :: s_offers st) (s_next st) (s_out st) (s_sends st))
| SR_deliver_miss id t p :
    pend_get (id, t) (s_pending st) = None ->
    step_rel st (LDeliver id t p) st
| SR_finish k :
    s_cur st = Some k -> forallb is_fin (k_workers k) = true ->
    step_rel st LFinish
      (mkState (s_queue st) None (s_pending st) (s_offers st) (s_next st)
               (s_out st ++ [(k_cmd k, consolidate (k_coll k))]) (s_sends st)).

Lemma step_opt_rel st l st' : step_opt st l = Some st' -> step_rel st l st'.
Proof.
  intro S. destruct l; cbn [step_opt] in S.
  - inversion S. constructor.
  - destruct (s_cur st) eqn:C; [discriminate|]. destruct (s_queue st) eqn:Q; [discriminate|].
    inversion S. apply SR_start; assumption.
  - wa_inv S. apply worker_at_some in WA. destruct WA as (C & W & T).
    destruct w0; try discriminate. inversion S. eapply SR_reg; eassumption.
  - wa_inv S. apply worker_at_some in WA. destruct WA as (C & W & T).
    destruct w0; try discriminate. destruct (c_id (k_cmd c) =? id) eqn:E; [|discriminate].
    apply N.eqb_eq in E. subst id. inversion S. eapply SR_sendok; eassumption.
  - wa_inv S. apply worker_at_some in WA. destruct WA as (C & W & T).
    destruct w0; try discriminate. destruct (c_id (k_cmd c) =? id) eqn:E; [|discriminate].
    apply N.eqb_eq in E. subst id. inversion S. eapply SR_senderr; eassumption.
  - wa_inv S. apply worker_at_some in WA. destruct WA as (C & W & T).
    destruct w0; try discriminate. inversion S. eapply SR_failclean; eassumption.
  - wa_inv S. apply worker_at_some in WA. destruct WA as (C & W & T).
    destruct w0; try discriminate. destruct (offer_get call (s_offers st)) eqn:O; [|discriminate].
    inversion S. eapply SR_recv; eassumption.
  - wa_inv S. apply worker_at_some in WA. destruct WA as (C & W & T).
    destruct w0; try discriminate. destruct (c_id (k_cmd c) =? id) eqn:E; [|discriminate].
    apply N.eqb_eq in E. subst id. inversion S.
    unfold with_cur. eapply SR_timeout; eassumption.
  - wa_inv S. apply worker_at_some in WA. destruct WA as (C & W & T).
    destruct w0; try discriminate. inversion S. eapply SR_toclean; eassumption.
  - destruct (pend_get (id, t) (s_pending st)) eqn:G; inversion S.
    + apply SR_deliver_hit. exact G.
    + subst. apply SR_deliver_miss. exact G.
  - destruct (s_cur st) as [k|] eqn:C; [|discriminate].
    destruct (forallb _ (k_workers k)) eqn:F; [|discriminate].
    inversion S. apply SR_finish; assumption.
Qed.

Lemma step_rel_opt st l st' : step_rel st l st' -> step_opt st l = Some st'.
Proof.
  intro R. destruct R; cbn [step_opt].
  - reflexivity.
  - rewrite H, H0. reflexivity.
  - rewrite (worker_at_intro _ _ _ _ _ H H0 H1). reflexivity.
  - rewrite (worker_at_intro _ _ _ _ _ H H0 H1). rewrite N.eqb_refl. reflexivity.
  - rewrite (worker_at_intro _ _ _ _ _ H H0 H1). rewrite N.eqb_refl. reflexivity.
  - rewrite (worker_at_intro _ _ _ _ _ H H0 H1). reflexivity.
  - rewrite (worker_at_intro _ _ _ _ _ H H0 H1). rewrite H2. reflexivity.
  - rewrite (worker_at_intro _ _ _ _ _ H H0 H1). rewrite N.eqb_refl. reflexivity.
  - rewrite (worker_at_intro _ _ _ _ _ H H0 H1). reflexivity.
  - rewrite H. reflexivity.
  - rewrite H. reflexivity.
  - rewrite H. change (fun ws => match ws with WFin => true | _ => false end) with is_fin.
    rewrite H0. reflexivity.
Qed.

(* either the label was enabled and [step_rel] describes the move, or nothing changed *)
Lemma step_cases st l : step_rel st l (step st l) \/ (step_opt st l = None /\ step st l = st).
Proof.
  unfold step. destruct (step_opt st l) eqn:S.
  - left. apply step_opt_rel, S.
  - right. split; reflexivity.
Qed.

(* ====================================================================== *)
(* shape: one worker per element of the target list                        *)
(* ====================================================================== *)
Definition shape_ok (st : state) : Prop :=
  match s_cur st with
  | Some k => length (k_workers k) = length (c_targets (k_cmd k))
  | None => True
  end.

Lemma shape_step_rel st l st' : shape_ok st -> step_rel st l st' -> shape_ok st'.
Proof.
  unfold shape_ok. intros S R. destruct R; cbn; try rewrite H in S; try exact S; try exact I;
    try (rewrite set_nth_length; exact S).
  apply repeat_length.
Qed.

Lemma shape_step st l : shape_ok st -> shape_ok (step st l).
Proof.
  intro S. destruct (step_cases st l) as [R|[_ E]].
  - eapply shape_step_rel; eassumption.
  - rewrite E. exact S.
Qed.

Lemma shape_run_from s : forall st, shape_ok st -> shape_ok (run_from st s).
Proof.
  induction s as [|l s IH]; intros st S; [exact S|]. cbn. apply IH. apply shape_step, S.
Qed.

Lemma shape_run s : shape_ok (run s).
Proof. apply shape_run_from. exact I. Qed.

(* ====================================================================== *)
(* C12_exactly_once, progress half                                         *)
(* ====================================================================== *)
Lemma sum_set_nth (f : wstate -> nat) x : forall l w y,
  nth_error l w = Some y ->
  (sum_nat (map f (set_nth w x l)) + f y = sum_nat (map f l) + f x)%nat.
Proof.
  unfold sum_nat.
  induction l as [|z l IH]; intros [|w] y H; cbn in *; try discriminate.
  - inversion H. subst. lia.
  - specialize (IH w y H). lia.
Qed.

Lemma sum_repeat_init n : sum_nat (map wmeasure (repeat WInit n)) = (4 * n)%nat.
Proof. unfold sum_nat. induction n as [|n IH]; cbn in *; [reflexivity|]. lia. Qed.

Lemma sum_app a b : sum_nat (a ++ b) = (sum_nat a + sum_nat b)%nat.
Proof. unfold sum_nat. induction a as [|x a IH]; cbn; [reflexivity|]. rewrite IH. lia. Qed.

(* every move of the code itself uses up the measure *)
Lemma progress_decreases st l st' :
  progress_label l = true -> step_rel st l st' -> (measure st' < measure st)%nat.
Proof.
  intros P R. destruct R; cbn in P; try discriminate; unfold measure; cbn [s_queue s_cur];
    try rewrite H; unfold kmeasure; cbn [k_workers set_worker fin_worker].
  - rewrite H0. cbn. rewrite sum_repeat_init. unfold sum_nat in *. lia.
  - pose proof (sum_set_nth wmeasure (WReg (s_next st)) _ _ _ H0) as X. cbn in X. unfold sum_nat in *. lia.
  - pose proof (sum_set_nth wmeasure (WWait c) _ _ _ H0) as X. cbn in X. unfold sum_nat in *. lia.
  - pose proof (sum_set_nth wmeasure (WFail c) _ _ _ H0) as X. cbn in X. unfold sum_nat in *. lia.
  - pose proof (sum_set_nth wmeasure WFin _ _ _ H0) as X. cbn in X. unfold sum_nat in *. lia.
  - pose proof (sum_set_nth wmeasure WFin _ _ _ H0) as X. cbn in X. unfold sum_nat in *. lia.
  - pose proof (sum_set_nth wmeasure (WTimedOut c) _ _ _ H0) as X. cbn in X. unfold sum_nat in *. lia.
  - pose proof (sum_set_nth wmeasure WFin _ _ _ H0) as X. cbn in X. unfold sum_nat in *. lia.
  - lia.
Qed.

(* replies never add work *)
Lemma deliver_measure st id t p : measure (step st (LDeliver id t p)) = measure st.
Proof.
  unfold step. cbn [step_opt]. destruct (pend_get (id, t) (s_pending st)); reflexivity.
Qed.

Lemma measure_zero st : measure st = O <-> s_cur st = None /\ s_queue st = [].
Proof.
  unfold measure. split.
  - intro H. destruct (s_cur st) as [k|]; [unfold kmeasure in H; lia|].
    destruct (s_queue st) as [|c q]; [split; reflexivity|]. cbn in H. lia.
  - intros [-> ->]. reflexivity.
Qed.

Lemma forallb_false_nth {A} (f : A -> bool) : forall l,
  forallb f l = false -> exists w x, nth_error l w = Some x /\ f x = false.
Proof.
  induction l as [|y l IH]; cbn; [discriminate|].
  destruct (f y) eqn:E; cbn.
  - intro H. destruct (IH H) as (w & x & A1 & B1). exists (S w), x. split; assumption.
  - intros _. exists O, y. split; [reflexivity|exact E].
Qed.

(* as long as something is owed, the code has a move of its own that needs no reply *)
Lemma progress_exists st :
  shape_ok st -> measure st <> O ->
  exists l st', progress_label l = true /\ step_rel st l st'.
Proof.
  intros S M. unfold shape_ok in S. destruct (s_cur st) as [k|] eqn:C.
  - destruct (forallb is_fin (k_workers k)) eqn:F.
    + exists LFinish. eexists. split; [reflexivity|]. apply SR_finish; eassumption.
    + destruct (forallb_false_nth _ _ F) as (w & ws & W & NF).
      assert (T : exists t, nth_error (c_targets (k_cmd k)) w = Some t).
      { destruct (nth_error (c_targets (k_cmd k)) w) eqn:E; [eexists; reflexivity|].
        apply nth_error_None in E. rewrite <- S in E. apply nth_error_None in E. congruence. }
      destruct T as [t T].
      destruct ws; cbn in NF; try discriminate.
      * exists (LRegister w). eexists. split; [reflexivity|]. eapply SR_reg; eassumption.
      * exists (LSendOk (c_id (k_cmd k)) w). eexists. split; [reflexivity|]. eapply SR_sendok; eassumption.
      * exists (LTimeout (c_id (k_cmd k)) w). eexists. split; [reflexivity|]. eapply SR_timeout; eassumption.
      * exists (LFailCleanup w). eexists. split; [reflexivity|]. eapply SR_failclean; eassumption.
      * exists (LTimeoutCleanup w). eexists. split; [reflexivity|]. eapply SR_toclean; eassumption.
  - destruct (s_queue st) as [|c q] eqn:Q.
    + exfalso. apply M. apply measure_zero. split; assumption.
    + exists LStart. eexists. split; [reflexivity|]. eapply SR_start; eassumption.
Qed.

(* from every reachable state the commands all complete by the code's own moves (send returns,
   time-outs, clean-ups) in at most [measure] steps, without any reply being needed *)
Lemma completes_without_replies : forall n st,
  shape_ok st -> (measure st <= n)%nat ->
  exists sched, (forall l, In l sched -> progress_label l = true) /\
                (length sched <= measure st)%nat /\
                s_cur (run_from st sched) = None /\ s_queue (run_from st sched) = [].
Proof.
  induction n as [|n IH]; intros st S M.
  - exists []. split; [intros l []|]. split; [cbn; lia|]. apply measure_zero. cbn. lia.
  - destruct (Nat.eq_dec (measure st) O) as [Z|NZ].
    + exists []. split; [intros l []|]. split; [cbn; lia|]. apply measure_zero. exact Z.
    + destruct (progress_exists st S NZ) as (l & st' & P & R).
      pose proof (progress_decreases _ _ _ P R) as D.
      destruct (IH st' (shape_step_rel _ _ _ S R) ltac:(lia)) as (sched & A & B & C).
      exists (l :: sched). split; [|split].
      * intros x [<-|X]; [exact P|apply A, X].
      * cbn. lia.
      * cbn. rewrite (step_enabled _ _ _ (step_rel_opt _ _ _ R)). exact C.
Qed.
