From Coq Require Import List NArith ZArith Bool.
From Verif Require Import Common Gen_PendReg PendReg.
Import ListNotations.
Open Scope N_scope.

Lemma registration_is_careful : reg_fresh_only_when_empty = true.
Proof. vm_compute. reflexivity. Qed.

Lemma wm_add_keeps : forall w c m x, In x (wm_calls m) -> In x (wm_calls (wm_add w c m)).
Proof.
  intros w c m x. induction m as [|[w' l] r IH]; simpl; intros H; [contradiction|].
  destruct (Z.eqb w w'); simpl; unfold wm_calls in *; simpl in *; apply in_app_iff in H; apply in_app_iff.
  - destruct H as [H|H]; [left; apply in_app_iff; left; exact H | right; exact H].
  - destruct H as [H|H]; [left; exact H | right; apply IH; exact H].
Qed.

Lemma wm_add_has : forall w c m, In c (wm_calls (wm_add w c m)).
Proof.
  intros w c m. induction m as [|[w' l] r IH]; simpl.
  - left. reflexivity.
  - destruct (Z.eqb w w'); unfold wm_calls in *; simpl; apply in_app_iff.
    + left. apply in_app_iff. right. left. reflexivity.
    + right. exact IH.
Qed.

Lemma rg_set_new : forall n m r x, In x (wm_calls m) -> In x (all_calls (rg_set n m r)).
Proof.
  intros n m r x H. induction r as [|[n' m'] t IH]; simpl.
  - unfold all_calls. simpl. rewrite app_nil_r. exact H.
  - destruct (N.eqb n n'); unfold all_calls in *; simpl; apply in_app_iff.
    + left. exact H.
    + right. exact IH.
Qed.

Lemma rg_set_old : forall n m r x,
  In x (all_calls r) -> (In x (wm_calls (rg_get n r)) -> In x (wm_calls m)) ->
  In x (all_calls (rg_set n m r)).
Proof.
  intros n m r x. induction r as [|[n' m'] t IH]; simpl; intros H K; [contradiction|].
  unfold all_calls in H. simpl in H. apply in_app_iff in H.
  destruct (N.eqb n n') eqn:E; unfold all_calls; simpl; apply in_app_iff.
  - destruct H as [H|H]; [left; apply K; exact H | right; exact H].
  - destruct H as [H|H]; [left; exact H | right; apply IH; assumption].
Qed.

Lemma register_keeps : forall n w c r x, In x (all_calls r) -> In x (all_calls (register n w c r)).
Proof.
  intros n w c r x H. unfold register, register_mode. rewrite registration_is_careful.
  apply rg_set_old; [exact H | apply wm_add_keeps].
Qed.

Lemma register_has : forall n w c r, In c (all_calls (register n w c r)).
Proof.
  intros n w c r. unfold register, register_mode. apply rg_set_new. apply wm_add_has.
Qed.

Lemma register_all_keeps : forall l r x, In x (all_calls r) -> In x (all_calls (register_all l r)).
Proof.
  induction l as [|[[n w] c] t IH]; simpl; intros r x H; [exact H|].
  apply IH. apply register_keeps. exact H.
Qed.

(* every call that was started - whatever await trigger and weight each was filed under, in whatever order -
   is among the calls the teardown walks (and cancels) *)
Lemma teardown_reaches_every_started_call : forall l r x,
  In x (map snd l) -> In x (all_calls (register_all l r)).
Proof.
  induction l as [|[[n w] c] t IH]; simpl; intros r x H; [contradiction|].
  destruct H as [H|H].
  - subst x. apply register_all_keeps. apply register_has.
  - apply IH. exact H.
Qed.

(* regression witness: a fresh per-trigger map whenever the (trigger, weight) slot is empty loses the call
   registered under the other weight *)
Lemma careless_registration_refuted :
  all_calls (register_mode false 0 10%Z 2 (register_mode false 0 0%Z 1 [])) = [2].
Proof. vm_compute. reflexivity. Qed.
