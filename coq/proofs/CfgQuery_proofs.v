(* Lemmas about model/CfgQuery.v *)
From Verif Require Import Common CfgQuery.
Open Scope N_scope.

(* ---------- split_at ---------- *)
Lemma split_at_app sep a r :
  forallb (fun c => negb (c =? sep)) a = true ->
  split_at sep (a ++ sep :: r) = (a, Some r).
Proof.
  induction a as [|c a IH]; cbn; intro H.
  - rewrite N.eqb_refl. reflexivity.
  - apply andb_true_iff in H. destruct H as [Hc Ha].
    apply negb_true_iff in Hc. rewrite Hc. rewrite (IH Ha). reflexivity.
Qed.

Lemma split_at_some sep l a r :
  split_at sep l = (a, Some r) ->
  l = a ++ sep :: r /\ forallb (fun c => negb (c =? sep)) a = true.
Proof.
  revert a r. induction l as [|c l IH]; cbn; intros a r H.
  - discriminate.
  - destruct (c =? sep) eqn:E.
    + inversion H; subst. apply N.eqb_eq in E. subst. split; reflexivity.
    + destruct (split_at sep l) as [a' b'] eqn:S. inversion H; subst.
      destruct (IH a' r eq_refl) as [-> Hf]. split; [reflexivity|].
      cbn. rewrite E. exact Hf.
Qed.

Lemma class_no_slash (p : N -> bool) s :
  p slash = false -> forallb p s = true ->
  forallb (fun c => negb (c =? slash)) s = true.
Proof.
  intros Hp H. apply forallb_forall. intros c Hc.
  rewrite forallb_forall in H. specialize (H c Hc).
  apply negb_true_iff. apply N.eqb_neq. intro; subst. congruence.
Qed.

Lemma comp_no_slash : is_comp_char slash = false. Proof. reflexivity. Qed.
Lemma rt_no_slash : is_rt_char slash = false. Proof. reflexivity. Qed.

(* ---------- trim ---------- *)
Lemma trim_left_id c l : is_space c = false -> trim_left (c :: l) = c :: l.
Proof. intro H. cbn. rewrite H. reflexivity. Qed.

Lemma trim_id_snoc c l d :
  is_space c = false -> is_space d = false -> trim (c :: l ++ [d]) = c :: l ++ [d].
Proof.
  intros Hc Hd. unfold trim. rewrite (trim_left_id c _ Hc).
  change (c :: l ++ [d]) with ((c :: l) ++ [d]).
  rewrite rev_app_distr. cbn [rev app].
  rewrite (trim_left_id d _ Hd).
  change (d :: rev l ++ [c]) with ([d] ++ rev (c :: l)).
  rewrite rev_app_distr, rev_involutive. reflexivity.
Qed.

Lemma trim_id_single c : is_space c = false -> trim [c] = [c].
Proof. intro H. unfold trim. cbn. rewrite H. cbn. rewrite H. reflexivity. Qed.

Lemma trim_left_no_lead l : match trim_left l with [] => True | c :: _ => is_space c = false end.
Proof.
  induction l as [|c l IH]; cbn; [exact I|].
  destruct (is_space c) eqn:E; [exact IH|exact E].
Qed.

Lemma trim_left_suffix l : exists p, l = p ++ trim_left l.
Proof.
  induction l as [|c l [p IH]]; cbn.
  - exists []. reflexivity.
  - destruct (is_space c).
    + exists (c :: p). cbn. f_equal. exact IH.
    + exists []. reflexivity.
Qed.

(* the last element of a list, if any *)
Lemma trim_no_trail l : match rev (trim l) with [] => True | c :: _ => is_space c = false end.
Proof. unfold trim. rewrite rev_involutive. apply trim_left_no_lead. Qed.

Lemma trim_left_fix l :
  match l with [] => True | c :: _ => is_space c = false end -> trim_left l = l.
Proof. destruct l as [|c l]; [reflexivity|]. intro H. cbn. rewrite H. reflexivity. Qed.

(* trimming the front of a list whose last char is no blank keeps that property *)
Lemma trim_left_keeps_last l :
  match rev l with [] => True | c :: _ => is_space c = false end ->
  match rev (trim_left l) with [] => True | c :: _ => is_space c = false end.
Proof.
  induction l as [|c l IH]; cbn [trim_left]; intro H; [exact I|].
  destruct (is_space c) eqn:E; [|exact H].
  apply IH. cbn [rev] in H. destruct (rev l) as [|d r]; [exact I|]. exact H.
Qed.

Lemma trim_no_lead l : match trim l with [] => True | c :: _ => is_space c = false end.
Proof.
  unfold trim.
  pose proof (trim_left_keeps_last (rev (trim_left l))) as H.
  rewrite rev_involutive in H. apply H. apply trim_left_no_lead.
Qed.

Lemma trim_idem l : trim (trim l) = trim l.
Proof.
  unfold trim at 1.
  rewrite (trim_left_fix (trim l) (trim_no_lead l)).
  rewrite (trim_left_fix (rev (trim l)) (trim_no_trail l)).
  apply rev_involutive.
Qed.

(* ---------- character classes are not blanks ---------- *)
Lemma comp_char_not_space c : is_comp_char c = true -> is_space c = false.
Proof.
  unfold is_comp_char, is_space, is_lower, is_upper, is_digit, is_dash_us. intro H.
  destruct (c =? 32) eqn:E1; [apply N.eqb_eq in E1; subst; discriminate|].
  destruct (9 <=? c) eqn:E2; destruct (c <=? 13) eqn:E3; try reflexivity.
  apply N.leb_le in E2, E3. exfalso.
  repeat (apply orb_true_iff in H; destruct H as [H|H]);
    repeat match goal with
           | H : _ && _ = true |- _ => apply andb_true_iff in H; destruct H
           | H : (_ <=? _) = true |- _ => apply N.leb_le in H
           | H : (_ =? _) = true |- _ => apply N.eqb_eq in H
           end; lia.
Qed.

Lemma entry_char_not_space c : is_entry_char c = true -> is_space c = false.
Proof.
  unfold is_entry_char. intro H. apply orb_true_iff in H. destruct H as [H|H].
  - apply comp_char_not_space, H.
  - apply N.eqb_eq in H. subst. reflexivity.
Qed.

(* ---------- run type table ---------- *)
Definition table_ok (tbl : list (N * str)) : bool :=
  forallb (fun e => match rt_of_name tbl (snd e), rt_name tbl (fst e) with
                    | Some i, Some s => (i =? fst e) && str_eqb s (snd e) && seg_ok is_rt_char (snd e)
                    | _, _ => false
                    end) tbl.

Lemma runtype_table_ok : table_ok runtype_table = true.
Proof. vm_compute. reflexivity. Qed.

Lemma rt_name_in tbl i s : rt_name tbl i = Some s -> In (i, s) tbl.
Proof.
  induction tbl as [|[j t] tbl IH]; cbn; [discriminate|].
  destruct (i =? j) eqn:E.
  - intro H. inversion H; subst. apply N.eqb_eq in E. subst. left. reflexivity.
  - intro H. right. apply IH, H.
Qed.

Lemma rt_of_name_in tbl n i : rt_of_name tbl n = Some i -> In (i, n) tbl.
Proof.
  induction tbl as [|[j t] tbl IH]; cbn; [discriminate|].
  destruct (str_eqb n t) eqn:E.
  - intro H. inversion H; subst. apply str_eqb_spec in E. subst. left. reflexivity.
  - intro H. right. apply IH, H.
Qed.

Lemma table_ok_entry tbl i s :
  table_ok tbl = true -> In (i, s) tbl ->
  rt_of_name tbl s = Some i /\ rt_name tbl i = Some s /\ seg_ok is_rt_char s = true.
Proof.
  unfold table_ok. intros H Hin. rewrite forallb_forall in H. specialize (H _ Hin).
  cbn [fst snd] in H.
  destruct (rt_of_name tbl s) as [i'|]; [|discriminate].
  destruct (rt_name tbl i) as [s'|]; [|discriminate].
  apply andb_true_iff in H. destruct H as [H H3].
  apply andb_true_iff in H. destruct H as [H1 H2].
  apply N.eqb_eq in H1. apply str_eqb_spec in H2. subst. auto.
Qed.

Lemma runtype_name_of i s :
  rt_name runtype_table i = Some s ->
  runtype_of_name s = Some i /\ seg_ok is_rt_char s = true.
Proof.
  intro H. apply rt_name_in in H.
  destruct (table_ok_entry _ _ _ runtype_table_ok H) as (A & _ & C). auto.
Qed.

Lemma runtype_of_name_name s i :
  runtype_of_name s = Some i -> rt_name runtype_table i = Some s.
Proof.
  intro H. apply rt_of_name_in in H.
  destruct (table_ok_entry _ _ _ runtype_table_ok H) as (_ & B & _). exact B.
Qed.

(* ---------- parse / print ---------- *)
Lemma seg_ok_split p s : seg_ok p s = true -> nonempty s = true /\ forallb p s = true.
Proof. unfold seg_ok. intro H. apply andb_true_iff in H. exact H. Qed.

Lemma parse_core_print q :
  wf_query q = true -> parse_core (print_query q) = Some q.
Proof.
  destruct q as [comp rt role entry]. unfold wf_query, print_query. cbn [q_comp q_rt q_role q_entry].
  intro H.
  apply andb_true_iff in H. destruct H as [H Hrt].
  apply andb_true_iff in H. destruct H as [H Hentry].
  apply andb_true_iff in H. destruct H as [Hcomp Hrole].
  unfold runtype_name.
  destruct (rt_name runtype_table rt) as [name|] eqn:En; [|discriminate].
  destruct (runtype_name_of _ _ En) as [Hof Hname].
  unfold parse_core.
  rewrite split_at_app by (apply (class_no_slash is_comp_char); [reflexivity|apply seg_ok_split, Hcomp]).
  rewrite split_at_app by (apply (class_no_slash is_rt_char); [reflexivity|apply seg_ok_split, Hname]).
  rewrite split_at_app by (apply (class_no_slash is_comp_char); [reflexivity|apply seg_ok_split, Hrole]).
  rewrite Hcomp, Hname, Hrole, Hentry. cbn [andb]. rewrite Hof. reflexivity.
Qed.

Lemma parse_core_sound s q :
  parse_core s = Some q -> print_query q = s /\ wf_query q = true.
Proof.
  unfold parse_core.
  destruct (split_at slash s) as [comp [r1|]] eqn:S1; [|discriminate].
  destruct (split_at slash r1) as [rt [r2|]] eqn:S2; [|discriminate].
  destruct (split_at slash r2) as [role [entry|]] eqn:S3; [|discriminate].
  destruct (seg_ok is_comp_char comp && seg_ok is_rt_char rt &&
            seg_ok is_comp_char role && seg_ok is_entry_char entry) eqn:Hok; [|discriminate].
  destruct (runtype_of_name rt) as [t|] eqn:Ht; [|discriminate].
  intro H. inversion H; subst q. clear H.
  apply split_at_some in S1. destruct S1 as [-> _].
  apply split_at_some in S2. destruct S2 as [-> _].
  apply split_at_some in S3. destruct S3 as [-> _].
  apply andb_true_iff in Hok. destruct Hok as [Hok Hentry].
  apply andb_true_iff in Hok. destruct Hok as [Hok Hrole].
  apply andb_true_iff in Hok. destruct Hok as [Hcomp Hrt].
  pose proof (runtype_of_name_name _ _ Ht) as Hn.
  split.
  - unfold print_query, runtype_name. cbn [q_comp q_rt q_role q_entry]. rewrite Hn. reflexivity.
  - unfold wf_query. cbn [q_comp q_rt q_role q_entry]. rewrite Hcomp, Hrole, Hentry, Hn. reflexivity.
Qed.

(* the printed form of a well-formed query has no surrounding blanks *)
Lemma last_app_nonempty {A} (l : list A) (m : list A) :
  m <> [] -> exists m' d, l ++ m = (l ++ m') ++ [d] /\ In d m.
Proof.
  intro Hm. destruct (exists_last Hm) as (m' & d & ->).
  exists m', d. split; [rewrite app_assoc; reflexivity|].
  apply in_or_app. right. left. reflexivity.
Qed.

Lemma print_trim q : wf_query q = true -> trim (print_query q) = print_query q.
Proof.
  destruct q as [comp rt role entry]. unfold wf_query, print_query. cbn [q_comp q_rt q_role q_entry].
  intro H.
  apply andb_true_iff in H. destruct H as [H _].
  apply andb_true_iff in H. destruct H as [H Hentry].
  apply andb_true_iff in H. destruct H as [Hcomp _].
  apply seg_ok_split in Hcomp. destruct Hcomp as [Hne Hall].
  apply seg_ok_split in Hentry. destruct Hentry as [Hne' Hall'].
  destruct comp as [|c comp]; [discriminate|].
  cbn in Hall. apply andb_true_iff in Hall. destruct Hall as [Hc _].
  assert (Hent : entry <> []) by (destruct entry; [discriminate|congruence]).
  set (mid := comp ++ slash :: runtype_name rt ++ slash :: role ++ [slash]).
  assert (E : (c :: comp) ++ slash :: runtype_name rt ++ slash :: role ++ slash :: entry
              = c :: mid ++ entry).
  { unfold mid. cbn. f_equal. rewrite <- !app_assoc. cbn. f_equal. f_equal.
    rewrite <- !app_assoc. cbn. f_equal. f_equal. rewrite <- app_assoc. reflexivity. }
  rewrite E.
  destruct (last_app_nonempty mid entry Hent) as (m' & d & Em & Hd).
  rewrite Em. apply trim_id_snoc.
  - apply comp_char_not_space, Hc.
  - apply entry_char_not_space. rewrite forallb_forall in Hall'. apply Hall', Hd.
Qed.

Lemma parse_print_roundtrip q : wf_query q = true -> parse_query (print_query q) = Some q.
Proof. intro H. unfold parse_query. rewrite (print_trim q H). apply parse_core_print, H. Qed.

Lemma parse_sound s q : parse_query s = Some q -> print_query q = trim s /\ wf_query q = true.
Proof. unfold parse_query. apply parse_core_sound. Qed.

Lemma parse_rejects s :
  parse_query s = None <-> ~ exists q, wf_query q = true /\ trim s = print_query q.
Proof.
  split.
  - intros H (q & Hq & E). unfold parse_query in H. rewrite E in H.
    rewrite (parse_core_print q Hq) in H. discriminate.
  - intro H. destruct (parse_query s) as [q|] eqn:E; [|reflexivity].
    exfalso. apply H. exists q. destruct (parse_sound _ _ E) as [A B]. auto.
Qed.

(* parsing ignores surrounding blanks *)
Lemma parse_trim s : parse_query (trim s) = parse_query s.
Proof. unfold parse_query. rewrite trim_idem. reflexivity. Qed.

(* ---------- fallback ---------- *)
Lemma resolve_is_find ex q :
  resolve ex q = find (fun c => ex (print_query c)) (candidates q).
Proof.
  unfold resolve, candidates. cbn [find].
  destruct (ex (print_query q)); [reflexivity|].
  destruct (ex (print_query (with_any_rt q))); [reflexivity|].
  destruct (ex (print_query (with_any_role q))); [reflexivity|].
  destruct (ex (print_query (with_any_rt (with_any_role q)))); reflexivity.
Qed.

Lemma find_first {A} (f : A -> bool) l r :
  find f l = Some r <->
  exists pre post, l = pre ++ r :: post /\ f r = true /\ forall x, In x pre -> f x = false.
Proof.
  induction l as [|x l IH]; cbn.
  - split; [discriminate|]. intros (pre & post & E & _). destruct pre; discriminate.
  - destruct (f x) eqn:Ex.
    + split.
      * intro H. inversion H; subst. exists [], l. cbn. repeat split; auto. intros ? [].
      * intros (pre & post & E & Hr & Hpre). destruct pre as [|y pre].
        -- cbn in E. inversion E; subst. reflexivity.
        -- cbn in E. inversion E; subst. specialize (Hpre y (or_introl eq_refl)). congruence.
    + rewrite IH. split.
      * intros (pre & post & -> & Hr & Hpre). exists (x :: pre), post. cbn. split; [reflexivity|].
        split; [exact Hr|]. intros y [<-|Hy]; [exact Ex|apply Hpre, Hy].
      * intros (pre & post & E & Hr & Hpre). destruct pre as [|y pre].
        -- cbn in E. inversion E; subst. congruence.
        -- cbn in E. inversion E; subst. exists pre, post. split; [reflexivity|].
           split; [exact Hr|]. intros z Hz. apply Hpre. right. exact Hz.
Qed.

Lemma resolve_first ex q r :
  resolve ex q = Some r <->
  exists pre post, candidates q = pre ++ r :: post /\ ex (print_query r) = true /\
                   forall x, In x pre -> ex (print_query x) = false.
Proof. rewrite resolve_is_find. apply (find_first (fun c => ex (print_query c))). Qed.

Lemma resolve_none ex q :
  resolve ex q = None <-> forall c, In c (candidates q) -> ex (print_query c) = false.
Proof.
  rewrite resolve_is_find. split.
  - intros H c Hc. apply (find_none _ _ H c Hc).
  - intro H. destruct (find _ _) as [r|] eqn:E; [|reflexivity].
    apply find_some in E. destruct E as [Hin Hr]. rewrite (H r Hin) in Hr. discriminate.
Qed.

Lemma resolve_exists ex q r :
  resolve ex q = Some r -> ex (print_query r) = true /\ In r (candidates q).
Proof.
  rewrite resolve_is_find. intro H. apply find_some in H. destruct H. auto.
Qed.

(* candidates spell what the documentation says *)
Lemma candidates_spec q :
  candidates q =
  [ mkQuery (q_comp q) (q_rt q) (q_role q) (q_entry q);
    mkQuery (q_comp q) RT_ANY (q_role q) (q_entry q);
    mkQuery (q_comp q) (q_rt q) ROLE_ANY (q_entry q);
    mkQuery (q_comp q) RT_ANY ROLE_ANY (q_entry q) ].
Proof. destruct q. reflexivity. Qed.

(* the monitor agrees with the model on every existence oracle *)
Lemma first_existing_find ex l :
  first_existing ex l = find (fun c => ex (print_query c)) l.
Proof. induction l as [|x l IH]; cbn; [reflexivity|]. destruct (ex (print_query x)); auto. Qed.

(* ---------- the backends the resolution relies on ---------- *)
(* the resolution looks at the existence of its four candidates and at nothing else *)
Lemma resolve_ext ex ex' q :
  (forall c, In c (candidates q) -> ex (print_query c) = ex' (print_query c)) ->
  resolve ex q = resolve ex' q.
Proof.
  intro H. unfold resolve.
  rewrite (H q), (H (with_any_rt q)), (H (with_any_role q)), (H (with_any_rt (with_any_role q)));
    try reflexivity; unfold candidates; cbn [In]; auto.
Qed.

(* ConsulSource.Exists asks Consul for the key itself (translator cfgbackends) ... *)
Lemma consul_exists_by_get_in_source : consul_exists_by_get = true.
Proof. reflexivity. Qed.

(* ... so it says yes exactly for the entries *)
Lemma consul_exists_membership existing p :
  consul_exists consul_exists_by_get existing p = is_entry existing p.
Proof. reflexivity. Qed.

Lemma consul_resolution existing q :
  resolve (consul_exists consul_exists_by_get existing) q = first_existing (is_entry existing) (candidates q).
Proof.
  rewrite first_existing_find, <- resolve_is_find.
  apply resolve_ext. intros c _. apply consul_exists_membership.
Qed.

Lemma first_existing_is_entry ex l r : first_existing ex l = Some r -> ex (print_query r) = true /\ In r l.
Proof.
  induction l as [|x l IH]; cbn; [discriminate|].
  destruct (ex (print_query x)) eqn:E.
  - intro H. inversion H; subst. auto.
  - intro H. destruct (IH H). auto.
Qed.

Lemma consul_resolved_is_entry existing q r :
  resolve (consul_exists consul_exists_by_get existing) q = Some r ->
  is_entry existing (print_query r) = true /\ In r (candidates q).
Proof. rewrite consul_resolution. apply first_existing_is_entry. Qed.

(* asking Consul by key LISTING instead (prefix semantics) gives another resolution *)
Lemma prefix_listing_differs :
  exists existing q r,
    resolve (consul_exists false existing) q = Some r /\ is_entry existing (print_query r) = false /\
    resolve (consul_exists true existing) q <> Some r.
Proof.
  (* r/PHYSICS/any/flp1 asked; r/PHYSICS/any/flp10 and r/ANY/any/flp1 stored *)
  exists [[114;47;80;72;89;83;73;67;83;47;97;110;121;47;102;108;112;49;48];
          [114;47;65;78;89;47;97;110;121;47;102;108;112;49]],
         (mkQuery [114] 1 [97;110;121] [102;108;112;49]),
         (mkQuery [114] 1 [97;110;121] [102;108;112;49]).
  vm_compute. repeat split; discriminate.
Qed.

(* the file backend: a folder "exists" too *)
Definition file_resolves_entries_statement : Prop :=
  forall existing q r, resolve (file_exists existing) q = Some r -> is_entry existing (print_query r) = true.

Lemma file_resolves_entries_refuted : ~ file_resolves_entries_statement.
Proof.
  intro H.
  (* c/ANY/any/t asked; only c/ANY/any/t/u stored *)
  specialize (H [[99;47;65;78;89;47;97;110;121;47;116;47;117]]
                (mkQuery [99] RT_ANY ROLE_ANY [116]) (mkQuery [99] RT_ANY ROLE_ANY [116])).
  vm_compute in H. specialize (H eq_refl). discriminate.
Qed.

Lemma file_resolves_entries_partial existing q :
  (forall c, In c (candidates q) -> is_folder existing (print_query c) = false) ->
  resolve (file_exists existing) q = first_existing (is_entry existing) (candidates q).
Proof.
  intro H. rewrite first_existing_find, <- resolve_is_find.
  apply resolve_ext. intros c Hc. unfold file_exists. rewrite (H c Hc). apply orb_false_r.
Qed.

(* ---------- templating ---------- *)
Definition opt_app (x y : option str) : option str :=
  match x, y with Some a, Some b => Some (a ++ b) | _, _ => None end.

Lemma render_pieces_app raw b t1 t2 :
  render_pieces raw b (t1 ++ t2) = opt_app (render_pieces raw b t1) (render_pieces raw b t2).
Proof.
  induction t1 as [|p t1 IH]; cbn [app render_pieces].
  - unfold opt_app. destruct (render_pieces raw b t2); reflexivity.
  - rewrite IH. unfold opt_app.
    destruct (render_piece raw b p) as [x|]; [|reflexivity].
    destruct (render_pieces raw b t1) as [y|]; [|reflexivity].
    destruct (render_pieces raw b t2) as [z|]; [|reflexivity].
    rewrite app_assoc. reflexivity.
Qed.

Lemma render_app vars t1 t2 :
  render vars (t1 ++ t2) =
  match render vars t1, render vars t2 with Some a, Some b => Some (a ++ b) | _, _ => None end.
Proof.
  unfold render, render_g. destruct (keys_ok (bindings vars)); [|reflexivity].
  apply render_pieces_app.
Qed.

Lemma prefixed_override_ext raw raw' x y :
  (forall k, assoc k raw = assoc k raw') -> prefixed_override raw x y = prefixed_override raw' x y.
Proof. intro H. unfold prefixed_override. rewrite !H. reflexivity. Qed.

Lemma eval_ext raw raw' b b' e :
  (forall n, In n (expr_names e) -> assoc n b = assoc n b') ->
  (expr_overrides e = true -> forall k, assoc k raw = assoc k raw') ->
  eval raw b e = eval raw' b' e.
Proof.
  induction e as [s|n|l a IHa p IHp|l f a IHa]; cbn [eval expr_names expr_overrides]; intros Hn Ho.
  - reflexivity.
  - rewrite (Hn n (or_introl eq_refl)). reflexivity.
  - specialize (Ho eq_refl).
    rewrite IHa, IHp.
    + destruct (eval raw' b' a) as [| |x]; try reflexivity.
      destruct (eval raw' b' p) as [| |y]; try reflexivity.
      rewrite (prefixed_override_ext raw raw' x y Ho). reflexivity.
    + intros n Hin. apply Hn. apply in_or_app. right. exact Hin.
    + intros _. exact Ho.
    + intros n Hin. apply Hn. apply in_or_app. left. exact Hin.
    + intros _. exact Ho.
  - rewrite IHa; [reflexivity| exact Hn | exact Ho].
Qed.

Lemma render_pieces_ext raw raw' b b' t :
  (forall n, In n (tpl_names t) -> assoc n b = assoc n b') ->
  (tpl_overrides t = true -> forall k, assoc k raw = assoc k raw') ->
  render_pieces raw b t = render_pieces raw' b' t.
Proof.
  induction t as [|p t IH]; cbn [render_pieces]; intros Hn Ho; [reflexivity|].
  assert (Hp : render_piece raw b p = render_piece raw' b' p).
  { destruct p as [s|n|e]; cbn [render_piece].
    - reflexivity.
    - rewrite (Hn n). reflexivity. cbn. left. reflexivity.
    - rewrite (eval_ext raw raw' b b' e); [reflexivity| |].
      + intros n Hin. apply Hn. unfold tpl_names. cbn [flat_map piece_names]. apply in_or_app. left. exact Hin.
      + intro He. apply Ho. cbn [tpl_overrides existsb]. rewrite He. reflexivity. }
  rewrite Hp, IH; [reflexivity| |].
  - intros n Hin. apply Hn. unfold tpl_names. cbn [flat_map]. apply in_or_app. right. exact Hin.
  - intro Ht. apply Ho. unfold tpl_overrides in *. cbn [existsb]. rewrite Ht. apply orb_true_r.
Qed.

(* the payload depends on the supplied variables only through: whether all (trimmed) keys are
   identifiers, the values of the names the entry mentions, and - if the entry calls
   PrefixedOverride - the values found under the keys as supplied *)
Lemma render_only_supplied vars vars' t :
  keys_ok (bindings vars) = keys_ok (bindings vars') ->
  (forall n, In n (tpl_names t) -> assoc n (bindings vars) = assoc n (bindings vars')) ->
  (tpl_overrides t = true -> forall k, assoc k vars = assoc k vars') ->
  render vars t = render vars' t.
Proof.
  intros Hk Hn Ho. unfold render, render_g. rewrite Hk.
  destruct (keys_ok (bindings vars')); [|reflexivity].
  apply render_pieces_ext; assumption.
Qed.

Lemma render_lit vars s : keys_ok (bindings vars) = true -> render vars [TLit s] = Some s.
Proof. intro H. unfold render, render_g. rewrite H. cbn. rewrite app_nil_r. reflexivity. Qed.

Lemma render_var vars n :
  keys_ok (bindings vars) = true ->
  render vars [TVar n] =
  Some (match assoc n (bindings vars) with Some v => escape_html v | None => [] end).
Proof. intro H. unfold render, render_g. rewrite H. cbn. rewrite app_nil_r. reflexivity. Qed.

Lemma render_bad_key vars t : keys_ok (bindings vars) = false -> render vars t = None.
Proof. intro H. unfold render, render_g. rewrite H. reflexivity. Qed.

Lemma render_override vars l n p :
  keys_ok (bindings vars) = true ->
  render vars [TExp (EPO l (ELit n) (ELit p))] = Some (escape_html (prefixed_override vars n p)).
Proof. intro H. unfold render, render_g. rewrite H. cbn. rewrite app_nil_r. reflexivity. Qed.

(* what PrefixedOverride returns, spelled out *)
Definition usable (raw : list (str * str)) (k v : str) : Prop := assoc k raw = Some v /\ nullish v = false.
Definition unusable (raw : list (str * str)) (k : str) : Prop :=
  assoc k raw = None \/ exists v, assoc k raw = Some v /\ nullish v = true.

Lemma live_cases raw k :
  (exists v, live (assoc k raw) = Some v /\ usable raw k v) \/ (live (assoc k raw) = None /\ unusable raw k).
Proof.
  unfold live, usable, unusable. destruct (assoc k raw) as [v|].
  - destruct (nullish v) eqn:E.
    + right. split; [reflexivity|]. right. exists v. auto.
    + left. exists v. auto.
  - right. auto.
Qed.

Lemma prefixed_override_spec raw n p :
  let r := prefixed_override raw n p in
  usable raw (p ++ 95 :: n) r \/
  (unusable raw (p ++ 95 :: n) /\ (usable raw n r \/ (unusable raw n /\ r = []))).
Proof.
  cbv zeta. unfold prefixed_override.
  destruct (live_cases raw (p ++ 95 :: n)) as [(v & -> & Hv)|(-> & Hu)].
  - left. exact Hv.
  - right. split; [exact Hu|].
    destruct (live_cases raw n) as [(v & -> & Hv)|(-> & Hu2)].
    + left. exact Hv.
    + right. split; [exact Hu2|reflexivity].
Qed.

Lemma legacy_alias raw b l l' a p f x :
  eval raw b (EPO l a p) = eval raw b (EPO l' a p) /\ eval raw b (EFun l f x) = eval raw b (EFun l' f x).
Proof. split; reflexivity. Qed.

(* ---------- the service across requests (function map built per request) ---------- *)
Lemma step_state_shape st a b :
  op_shape a b -> fst (step_g false st a) = fst (step_g false st b).
Proof.
  destruct a as [p v| |p c], b as [p' v'| |p' c']; cbn [op_shape]; try contradiction; intro H.
  - subst p'. cbn [step_g].
    destruct (assoc p (s_cache st)); [reflexivity|].
    destruct (assoc p (s_backend st)); reflexivity.
  - reflexivity.
  - destruct H as [-> ->]. reflexivity.
Qed.

Lemma run_g_cons sh st op r :
  run_g sh st (op :: r) =
  (fst (run_g sh (fst (step_g sh st op)) r), snd (step_g sh st op) :: snd (run_g sh (fst (step_g sh st op)) r)).
Proof.
  cbn [run_g]. destruct (step_g sh st op) as [st1 o]. cbn [fst snd].
  destruct (run_g sh st1 r) as [st2 os]. reflexivity.
Qed.

Lemma run_state_shape st h h' :
  Forall2 op_shape h h' -> fst (run_g false st h) = fst (run_g false st h').
Proof.
  intro H. revert st. induction H as [|a b h h' Hab _ IH]; intro st; [reflexivity|].
  rewrite !run_g_cons. cbn [fst]. rewrite (step_state_shape st a b Hab). apply IH.
Qed.

(* the payload of a request does not depend on the variables of any earlier request *)
Lemma noninterference st h h' p vars :
  Forall2 op_shape h h' ->
  snd (step_g false (fst (run_g false st h)) (OReq p vars)) =
  snd (step_g false (fst (run_g false st h')) (OReq p vars)).
Proof. intro H. rewrite (run_state_shape st h h' H). reflexivity. Qed.

(* it is the template in effect rendered with the variables of this request *)
Lemma step_payload st p vars :
  snd (step_g false st (OReq p vars)) =
  match in_effect st p with Some t => render vars t | None => None end.
Proof.
  unfold in_effect. cbn [step_g].
  destruct (assoc p (s_cache st)); [reflexivity|].
  destruct (assoc p (s_backend st)); reflexivity.
Qed.

Definition coherent (st : svc) : Prop :=
  forall p t, assoc p (s_cache st) = Some t -> assoc p (s_backend st) = Some t.

Lemma coherent_step st op :
  coherent st -> (match op with OPut _ _ => False | _ => True end) ->
  coherent (fst (step_g false st op)) /\ s_backend (fst (step_g false st op)) = s_backend st.
Proof.
  intros Hc Hop. destruct op as [p vars| |p c]; [| |contradiction].
  - cbn [step_g]. destruct (assoc p (s_cache st)) as [t|] eqn:Ec.
    + cbn [fst s_backend]. split; [|reflexivity]. exact Hc.
    + destruct (assoc p (s_backend st)) as [t|] eqn:Eb; cbn [fst s_backend]; (split; [|reflexivity]).
      * intros q u. cbn [s_cache s_backend assoc].
        destruct (str_eqb q p) eqn:E.
        -- apply str_eqb_spec in E. subst q. intro H. inversion H; subst. exact Eb.
        -- apply Hc.
      * exact Hc.
  - cbn [step_g fst s_backend]. split; [|reflexivity]. intros q u H. discriminate.
Qed.

Lemma pure_run st h :
  coherent st -> no_put h = true -> snd (run_g false st h) = pure_outs (s_backend st) h.
Proof.
  revert st. induction h as [|op h IH]; intros st Hc Hn; [reflexivity|].
  cbn [no_put forallb] in Hn. apply andb_true_iff in Hn. destruct Hn as [Hop Hn].
  rewrite run_g_cons. cbn [snd].
  assert (Hop' : match op with OPut _ _ => False | _ => True end) by (destruct op; [exact I|exact I|discriminate]).
  destruct (coherent_step st op Hc Hop') as [Hc1 Hb1].
  rewrite (IH _ Hc1 Hn), Hb1.
  destruct op as [p vars| |p c]; [| |discriminate].
  - cbn [pure_outs]. f_equal. rewrite step_payload. unfold in_effect.
    destruct (assoc p (s_cache st)) as [t|] eqn:Ec; [|reflexivity].
    rewrite (Hc p t Ec). reflexivity.
  - reflexivity.
Qed.

Lemma pure_run_fresh be h : no_put h = true -> snd (run_g false (fresh be) h) = pure_outs be h.
Proof. intro H. apply (pure_run (fresh be) h); [|exact H]. intros p t E. discriminate. Qed.

Lemma run_g_app sh st h1 h2 :
  fst (run_g sh st (h1 ++ h2)) = fst (run_g sh (fst (run_g sh st h1)) h2).
Proof.
  revert st. induction h1 as [|op h1 IH]; intro st; [reflexivity|].
  cbn [app]. rewrite !run_g_cons. cbn [fst]. apply IH.
Qed.

(* whatever happened before (entries rewritten, anything cached): after an invalidation every
   request gets the pure per-request result over the backend as it is *)
Lemma pure_after_invalidation st h1 h2 :
  no_put h2 = true ->
  snd (run_g false (fst (run_g false st (h1 ++ [OInv]))) h2) =
  pure_outs (s_backend (fst (run_g false st h1))) h2.
Proof.
  intro H. rewrite run_g_app.
  set (s1 := fst (run_g false st h1)).
  cbn [run_g step_g fst].
  apply (pure_run (mkSvc (s_backend s1) [] []) h2); [|exact H].
  intros p t E. discriminate.
Qed.

(* ---------- lookups of paths without an entry; histories that create entries ---------- *)
Definition cache_sub (st : svc) : Prop :=
  forall p t, assoc p (s_cache st) = Some t -> assoc p (s_backend st) <> None.

Lemma cache_sub_step st op : cache_sub st -> cache_sub (fst (step_g false st op)).
Proof.
  intro H. destruct op as [p vars| |p c].
  - cbn [step_g]. destruct (assoc p (s_cache st)) as [t|] eqn:Ec; [exact H|].
    destruct (assoc p (s_backend st)) as [t|] eqn:Eb; [|exact H].
    intros q u. cbn [fst s_cache s_backend assoc].
    destruct (str_eqb q p) eqn:E.
    + apply str_eqb_spec in E. subst q. intros _. rewrite Eb. discriminate.
    + apply H.
  - intros q u. cbn. discriminate.
  - intros q u. cbn [step_g fst s_cache s_backend assoc].
    destruct (str_eqb q p); [discriminate|apply H].
Qed.

Lemma cache_sub_run st h : cache_sub st -> cache_sub (fst (run_g false st h)).
Proof.
  revert st. induction h as [|op h IH]; intros st H; [exact H|].
  rewrite run_g_cons. cbn [fst]. apply IH. apply cache_sub_step. exact H.
Qed.

Lemma backend_step sh st op :
  s_backend (fst (step_g sh st op)) = match op with OPut p c => (p, c) :: s_backend st | _ => s_backend st end.
Proof.
  destruct op as [p vars| |p c]; cbn [step_g]; [|reflexivity|reflexivity].
  destruct (assoc p (s_cache st)); [reflexivity|].
  destruct (assoc p (s_backend st)); reflexivity.
Qed.

Lemma backend_run sh st h : s_backend (fst (run_g sh st h)) = store_after (s_backend st) h.
Proof.
  revert st. induction h as [|op h IH]; intro st; [reflexivity|].
  rewrite run_g_cons. cbn [fst]. rewrite IH, backend_step. unfold store_after. cbn [fold_left].
  destruct op; reflexivity.
Qed.

(* a processed lookup of a path without an entry fails - after every history *)
Lemma needs_entry be h p vars :
  assoc p (store_after be h) = None ->
  snd (step_g false (fst (run_g false (fresh be) h)) (OReq p vars)) = None.
Proof.
  intro Hn.
  assert (Hs : cache_sub (fst (run_g false (fresh be) h))).
  { apply cache_sub_run. intros q u E. discriminate. }
  rewrite step_payload. unfold in_effect.
  change be with (s_backend (fresh be)) in Hn.
  rewrite <- (backend_run false (fresh be) h) in Hn.
  destruct (assoc p (s_cache (fst (run_g false (fresh be) h)))) as [t|] eqn:Ec.
  - exfalso. exact (Hs p t Ec Hn).
  - rewrite Hn. reflexivity.
Qed.

Lemma coherent_safe st h :
  coherent st -> safe_hist st h = true -> coherent (fst (run_g false st h)).
Proof.
  revert st. induction h as [|op h IH]; intros st Hc Hs; [exact Hc|].
  cbn [safe_hist] in Hs. apply andb_true_iff in Hs. destruct Hs as [Hop Hs].
  change (step st op) with (step_g false st op) in Hs.
  rewrite run_g_cons. cbn [fst]. apply IH; [|exact Hs].
  destruct op as [p vars| |p c].
  - apply (coherent_step st (OReq p vars) Hc I).
  - apply (coherent_step st OInv Hc I).
  - intros q u. cbn [step_g fst s_cache s_backend assoc].
    destruct (str_eqb q p) eqn:E.
    + apply str_eqb_spec in E. subst q. intro Hq. rewrite Hq in Hop. discriminate.
    + apply Hc.
Qed.

Lemma coherent_payload st p vars :
  coherent st ->
  snd (step_g false st (OReq p vars)) =
  match assoc p (s_backend st) with Some t => render vars t | None => None end.
Proof.
  intro Hc. rewrite step_payload. unfold in_effect.
  destruct (assoc p (s_cache st)) as [t|] eqn:Ec; [|reflexivity].
  rewrite (Hc p t Ec). reflexivity.
Qed.

(* success/failure and payload of a processed lookup are a function of the current content of
   the store and of the request - whatever was asked, created or invalidated before, as long as no
   entry with a compiled template was rewritten without an invalidation *)
Lemma history_free be h p vars :
  safe_hist (fresh be) h = true ->
  snd (step_g false (fst (run_g false (fresh be) h)) (OReq p vars)) =
  match assoc p (store_after be h) with Some t => render vars t | None => None end.
Proof.
  intro Hs. rewrite coherent_payload.
  - rewrite backend_run. reflexivity.
  - apply coherent_safe; [|exact Hs]. intros q u E. discriminate E.
Qed.

(* the source sets the switch to "per request" *)
Lemma request_data_not_cached_in_source :
  tplcache_request_data_cached = false /\ tplcache_funcmap_from_request = true /\ fm_shared = false.
Proof. repeat split; reflexivity. Qed.

(* the template loader reports a failed fetch as an error (translator tplcache over
   configuration/template/loader.go): what lets a processed lookup of a missing entry fail and
   leave nothing in the template cache, as [step_g] has it *)
Lemma failed_fetch_is_error_in_source : tplcache_failed_fetch_is_error = true.
Proof. reflexivity. Qed.

(* with the switch on (function map registered with the cached template set) the payload of a
   request does depend on the variables of an earlier one *)
Lemma shared_function_map_leaks :
  exists be p v1 v2 v,
    snd (step_g true (fst (run_g true (fresh be) [OReq p v1])) (OReq p v)) <>
    snd (step_g true (fst (run_g true (fresh be) [OReq p v2])) (OReq p v)).
Proof.
  exists [([101], [TExp (EPO false (ELit [97]) (ELit [120]))])], [101],
         [([120;95;97], [49])], [([120;95;97], [50])], [([120;95;97], [51])].
  vm_compute. discriminate.
Qed.

(* ---------- query parameters ---------- *)
Lemma split_at_none sep l a :
  split_at sep l = (a, None) -> a = l /\ forallb (fun c => negb (c =? sep)) l = true.
Proof.
  revert a. induction l as [|c l IH]; cbn; intros a H.
  - inversion H. auto.
  - destruct (c =? sep) eqn:E; [discriminate|].
    destruct (split_at sep l) as [a' b'] eqn:S. inversion H; subst.
    destruct (IH a' eq_refl) as [-> Hf]. split; [reflexivity|]. cbn. exact Hf.
Qed.

Lemma split_at_nosep sep l :
  forallb (fun c => negb (c =? sep)) l = true -> split_at sep l = (l, None).
Proof.
  induction l as [|c l IH]; cbn; intro H; [reflexivity|].
  apply andb_true_iff in H. destruct H as [Hc Hl]. apply negb_true_iff in Hc.
  rewrite Hc, (IH Hl). reflexivity.
Qed.

Lemma split_all_fuel_nonempty fuel sep s : split_all_fuel fuel sep s <> [].
Proof.
  destruct fuel; cbn; [discriminate|].
  destruct (split_at sep s) as [a [r|]]; discriminate.
Qed.

Lemma join_amp_cons x l : l <> [] -> join_amp (x :: l) = x ++ amp :: join_amp l.
Proof. destruct l; [congruence|reflexivity]. Qed.

Lemma join_split fuel s :
  (length s <= fuel)%nat -> join_amp (split_all_fuel fuel amp s) = s.
Proof.
  revert s. induction fuel as [|f IH]; intros s H.
  - destruct s; [reflexivity|cbn in H; lia].
  - cbn [split_all_fuel]. destruct (split_at amp s) as [a [r|]] eqn:S.
    + apply split_at_some in S. destruct S as [-> _].
      rewrite join_amp_cons by apply split_all_fuel_nonempty.
      rewrite IH; [reflexivity|]. rewrite app_length in H. cbn in H. lia.
    + apply split_at_none in S. destruct S as [-> _]. reflexivity.
Qed.

Lemma split_join l fuel :
  l <> [] ->
  (forall x, In x l -> forallb (fun c => negb (c =? amp)) x = true) ->
  (length (join_amp l) <= fuel)%nat ->
  split_all_fuel fuel amp (join_amp l) = l.
Proof.
  revert fuel. induction l as [|x l IH]; intros fuel Hne Hno Hlen; [congruence|].
  destruct l as [|y r].
  - cbn [join_amp] in *. destruct fuel as [|f].
    + destruct x; [reflexivity|cbn in Hlen; lia].
    + cbn [split_all_fuel]. rewrite split_at_nosep by (apply Hno; left; reflexivity). reflexivity.
  - rewrite join_amp_cons in * by discriminate.
    destruct fuel as [|f]; [rewrite app_length in Hlen; cbn in Hlen; lia|].
    cbn [split_all_fuel].
    rewrite split_at_app by (apply Hno; left; reflexivity).
    f_equal. apply IH; [discriminate| |].
    + intros z Hz. apply Hno. right. exact Hz.
    + rewrite app_length in Hlen. cbn [length] in Hlen. lia.
Qed.

Lemma comp_no_eq s : forallb is_comp_char s = true -> forallb (fun c => negb (c =? eqc)) s = true.
Proof.
  intro H. apply forallb_forall. intros c Hc. rewrite forallb_forall in H. specialize (H c Hc).
  apply negb_true_iff. apply N.eqb_neq. intro; subst. discriminate.
Qed.

Lemma parse_kv_print kv : wf_kv kv = true -> parse_kv (print_kv kv) = Some kv.
Proof.
  destruct kv as [k v]. unfold wf_kv, print_kv, parse_kv. cbn [fst snd]. intro H.
  pose proof H as H0. apply andb_true_iff in H. destruct H as [Hk Hv].
  rewrite split_at_app by (apply comp_no_eq; apply seg_ok_split, Hk).
  rewrite H0. reflexivity.
Qed.

Lemma parse_kv_sound s kv : parse_kv s = Some kv -> s = print_kv kv /\ wf_kv kv = true.
Proof.
  unfold parse_kv. destruct (split_at eqc s) as [k [v|]] eqn:S; [|discriminate].
  destruct (seg_ok is_comp_char k && seg_ok is_val_char v) eqn:E; [|discriminate].
  intro H. inversion H; subst. apply split_at_some in S. destruct S as [-> _].
  split; [reflexivity|exact E].
Qed.

Lemma val_no_amp s : forallb is_val_char s = true -> forallb (fun c => negb (c =? amp)) s = true.
Proof.
  intro H. apply forallb_forall. intros c Hc. rewrite forallb_forall in H. specialize (H c Hc).
  apply negb_true_iff. apply N.eqb_neq. intro; subst. discriminate.
Qed.
Lemma comp_no_amp s : forallb is_comp_char s = true -> forallb (fun c => negb (c =? amp)) s = true.
Proof.
  intro H. apply forallb_forall. intros c Hc. rewrite forallb_forall in H. specialize (H c Hc).
  apply negb_true_iff. apply N.eqb_neq. intro; subst. discriminate.
Qed.

Lemma print_kv_no_amp kv : wf_kv kv = true -> forallb (fun c => negb (c =? amp)) (print_kv kv) = true.
Proof.
  destruct kv as [k v]. unfold wf_kv, print_kv. cbn [fst snd]. intro H.
  apply andb_true_iff in H. destruct H as [Hk Hv].
  rewrite forallb_app. cbn [forallb].
  rewrite (comp_no_amp k) by apply seg_ok_split, Hk.
  rewrite (val_no_amp v) by apply seg_ok_split, Hv. reflexivity.
Qed.

Lemma parse_kvs_print kvs :
  forallb wf_kv kvs = true -> parse_kvs (map print_kv kvs) = Some kvs.
Proof.
  induction kvs as [|kv kvs IH]; cbn; intro H; [reflexivity|].
  apply andb_true_iff in H. destruct H as [Hkv Hr].
  rewrite (parse_kv_print kv Hkv), (IH Hr). reflexivity.
Qed.

Lemma parse_kvs_sound l kvs :
  parse_kvs l = Some kvs -> l = map print_kv kvs /\ forallb wf_kv kvs = true.
Proof.
  revert kvs. induction l as [|s l IH]; cbn; intros kvs H.
  - inversion H. auto.
  - destruct (parse_kv s) as [kv|] eqn:E; [|discriminate].
    destruct (parse_kvs l) as [rest|] eqn:R; [|discriminate].
    inversion H; subst. destruct (parse_kv_sound _ _ E) as [-> Hw].
    destruct (IH rest eq_refl) as [-> Hr]. cbn. rewrite Hw, Hr. auto.
Qed.

(* a well-formed item list prints to a string without surrounding blanks *)
Lemma val_char_not_space c : is_val_char c = true -> is_space c = false.
Proof.
  unfold is_val_char. intro H.
  apply orb_true_iff in H. destruct H as [H|H]; [|apply N.eqb_eq in H; subst; reflexivity].
  apply orb_true_iff in H. destruct H as [H|H]; [|apply N.eqb_eq in H; subst; reflexivity].
  apply orb_true_iff in H. destruct H as [H|H]; [|apply N.eqb_eq in H; subst; reflexivity].
  apply orb_true_iff in H. destruct H as [H|H]; [|apply N.eqb_eq in H; subst; reflexivity].
  apply comp_char_not_space, H.
Qed.

Lemma join_amp_last l x :
  join_amp (l ++ [x]) = match l with [] => x | _ => join_amp l ++ amp :: x end.
Proof.
  induction l as [|y l IH]; [reflexivity|].
  destruct l as [|z r].
  - reflexivity.
  - change ((y :: z :: r) ++ [x]) with (y :: ((z :: r) ++ [x])).
    rewrite join_amp_cons by (cbn; discriminate).
    rewrite IH. rewrite (join_amp_cons y (z :: r)) by discriminate.
    rewrite <- app_assoc. reflexivity.
Qed.

Lemma print_kvs_trim kvs :
  nonempty kvs = true -> forallb wf_kv kvs = true -> trim (print_kvs kvs) = print_kvs kvs.
Proof.
  intros Hne Hall. unfold print_kvs.
  (* first character: first char of the first key; last: last char of the last value *)
  destruct kvs as [|[k v] rest]; [discriminate|].
  assert (Hk : exists c k', k = c :: k' /\ is_space c = false).
  { cbn in Hall. apply andb_true_iff in Hall. destruct Hall as [H _].
    unfold wf_kv in H. cbn in H. apply andb_true_iff in H. destruct H as [H _].
    apply seg_ok_split in H. destruct H as [Hn Hf]. destruct k as [|c k']; [discriminate|].
    exists c, k'. split; [reflexivity|]. cbn in Hf. apply andb_true_iff in Hf.
    apply comp_char_not_space, Hf. }
  destruct Hk as (c & k' & -> & Hc).
  (* decompose the whole list as init ++ [last] *)
  match goal with |- context [map print_kv ?L] =>
    assert (Hnn : L <> []) by discriminate;
    destruct (exists_last Hnn) as (init & [kl vl] & E) end.
  assert (Hl : exists v' d, vl = v' ++ [d] /\ is_space d = false).
  { assert (Hin : In (kl, vl) (init ++ [(kl, vl)])) by (apply in_or_app; right; left; reflexivity).
    rewrite <- E in Hin.
    rewrite forallb_forall in Hall. specialize (Hall _ Hin).
    unfold wf_kv in Hall. cbn in Hall. apply andb_true_iff in Hall. destruct Hall as [_ H].
    apply seg_ok_split in H. destruct H as [Hn Hf].
    assert (Hvn : vl <> []) by (destruct vl; [discriminate|congruence]).
    destruct (exists_last Hvn) as (v' & d & ->). exists v', d. split; [reflexivity|].
    apply val_char_not_space. rewrite forallb_forall in Hf. apply Hf. apply in_or_app. right. left. reflexivity. }
  destruct Hl as (v' & d & -> & Hd).
  rewrite E. rewrite map_app. cbn [map]. rewrite join_amp_last.
  match goal with |- trim ?T = _ => assert (Hshape : exists mid, T = c :: mid ++ [d]) end.
  { destruct init as [|i0 init'].
    - cbn in E. inversion E; subst. cbn. unfold print_kv. cbn [fst snd].
      exists (k' ++ eqc :: v'). cbn. f_equal. rewrite <- app_assoc. cbn. reflexivity.
    - cbn in E. inversion E; subst i0.
      cbn [map].
      match goal with |- exists mid, ?J ++ _ = _ => assert (HJ : exists j, J = c :: j) end.
      { destruct (map print_kv init') as [|m ms].
        - cbn. unfold print_kv. cbn. eexists. reflexivity.
        - rewrite join_amp_cons by discriminate. unfold print_kv at 1. cbn. eexists. reflexivity. }
      destruct HJ as (j & HJ).
      rewrite HJ. unfold print_kv. cbn [fst snd].
      exists (j ++ amp :: kl ++ eqc :: v'). cbn. f_equal.
      rewrite <- !app_assoc. cbn. f_equal. f_equal. rewrite <- app_assoc. reflexivity. }
  destruct Hshape as (mid & ->). apply trim_id_snoc; assumption.
Qed.

Lemma parse_params_print kvs :
  wf_kvs kvs = true -> parse_params (print_kvs kvs) = Some (params_of kvs).
Proof.
  unfold wf_kvs. intro H.
  apply andb_true_iff in H. destruct H as [H Hproc].
  apply andb_true_iff in H. destruct H as [H Hnd].
  apply andb_true_iff in H. destruct H as [Hne Hall].
  unfold parse_params. rewrite (print_kvs_trim kvs Hne Hall).
  unfold print_kvs, split_all.
  rewrite split_join.
  - rewrite (parse_kvs_print kvs Hall). rewrite Hnd. unfold params_of.
    destruct (assoc k_process kvs) as [v|]; [|reflexivity].
    destruct (parse_bool v); [reflexivity|discriminate].
  - destruct kvs; [discriminate|discriminate].
  - intros x Hx. apply in_map_iff in Hx. destruct Hx as (kv & <- & Hkv).
    apply print_kv_no_amp. rewrite forallb_forall in Hall. apply Hall, Hkv.
  - apply le_n.
Qed.

Lemma parse_params_sound s p :
  parse_params s = Some p ->
  exists kvs, wf_kvs kvs = true /\ trim s = print_kvs kvs /\ p = params_of kvs.
Proof.
  unfold parse_params.
  destruct (parse_kvs (split_all amp (trim s))) as [kvs|] eqn:E; [|discriminate].
  destruct (keys_nodup kvs) eqn:Hnd; [|discriminate].
  apply parse_kvs_sound in E. destruct E as [Esplit Hall].
  assert (Hjoin : trim s = print_kvs kvs).
  { unfold print_kvs. rewrite <- Esplit. unfold split_all. symmetry. apply join_split. apply le_n. }
  assert (Hne : nonempty kvs = true).
  { destruct kvs; [|reflexivity]. cbn in Esplit. exfalso.
    apply (split_all_fuel_nonempty (length (trim s)) amp (trim s)). exact Esplit. }
  intro H. exists kvs. split; [|split; [exact Hjoin|]].
  - unfold wf_kvs. rewrite Hne, Hall, Hnd. cbn [andb].
    destruct (assoc k_process kvs) as [v|]; [|reflexivity].
    destruct (parse_bool v); [reflexivity|discriminate].
  - unfold params_of. destruct (assoc k_process kvs) as [v|].
    + destruct (parse_bool v); [|discriminate]. inversion H. reflexivity.
    + inversion H. reflexivity.
Qed.

Lemma parse_params_rejects s :
  parse_params s = None <-> ~ exists kvs, wf_kvs kvs = true /\ trim s = print_kvs kvs.
Proof.
  split.
  - intros H (kvs & Hw & E).
    assert (Hp : parse_params s = parse_params (print_kvs kvs)).
    { unfold parse_params. rewrite E.
      unfold wf_kvs in Hw. apply andb_true_iff in Hw. destruct Hw as [Hw _].
      apply andb_true_iff in Hw. destruct Hw as [Hw _].
      apply andb_true_iff in Hw. destruct Hw as [Hne Hall].
      rewrite (print_kvs_trim kvs Hne Hall). reflexivity. }
    rewrite Hp, (parse_params_print kvs Hw) in H. discriminate.
  - intro H. destruct (parse_params s) as [p|] eqn:E; [|reflexivity].
    exfalso. apply H. destruct (parse_params_sound _ _ E) as (kvs & A & B & _). exists kvs. auto.
Qed.
