(* Lemmas about the environment state machine model (EnvFsm.v) for property C01. *)
From Verif Require Import Common EnvFsmTypes Gen_EnvEvents Gen_EnvCan EnvFsm.
Open Scope N_scope.

(* ------------------------------------------------------------------------------------------ *)
(* equality tests *)
Lemma estate_eqb_eq a b : estate_eqb a b = true <-> a = b.
Proof. destruct a, b; cbn; split; intro H; try reflexivity; try discriminate. Qed.
Lemma estate_eqb_refl a : estate_eqb a a = true.
Proof. apply estate_eqb_eq. reflexivity. Qed.
Lemma estate_eqb_neq a b : estate_eqb a b = false <-> a <> b.
Proof.
  split.
  - intros H E. apply estate_eqb_eq in E. congruence.
  - intro H. destruct (estate_eqb a b) eqn:E; [|reflexivity]. apply estate_eqb_eq in E. contradiction.
Qed.
Lemma eevent_eqb_eq a b : eevent_eqb a b = true <-> a = b.
Proof. destruct a, b; cbn; split; intro H; try reflexivity; try discriminate. Qed.

Lemma in_all_states s : In s all_states.
Proof. destruct s; cbn; tauto. Qed.
Lemma in_all_events e : In e all_events.
Proof. destruct e; cbn; tauto. Qed.
Lemma in_all_optypes o : In o all_optypes.
Proof. destruct o; cbn; tauto. Qed.

Lemma mem_event_in e l : mem_event e l = true <-> In e l.
Proof.
  unfold mem_event. rewrite existsb_exists. split.
  - intros [x [Hx E]]. apply eevent_eqb_eq in E. subst. exact Hx.
  - intro H. exists e. split; [exact H|apply eevent_eqb_eq; reflexivity].
Qed.

(* lifting a check over the finite domains *)
Lemma forall_states (P : estate -> bool) :
  forallb P all_states = true -> forall s, P s = true.
Proof. intros H s. rewrite forallb_forall in H. apply H, in_all_states. Qed.
Lemma forall_events (P : eevent -> bool) :
  forallb P all_events = true -> forall e, P e = true.
Proof. intros H e. rewrite forallb_forall in H. apply H, in_all_events. Qed.
Lemma forall_optypes (P : optype -> bool) :
  forallb P all_optypes = true -> forall o, P o = true.
Proof. intros H o. rewrite forallb_forall in H. apply H, in_all_optypes. Qed.

(* ------------------------------------------------------------------------------------------ *)
(* Complete ties between the translated tables and the running code (Gen_EnvCan.v is written by
   `h01 -gen` from a real Environment on every run). *)

(* FSM.Can of the real FSM = [can] of the translated table, on all 6 x 8 pairs *)
Lemma can_table_agrees :
  forall s e, In (s, e, can env_events s e) env_can_table.
Proof.
  assert (H : forallb (fun s => forallb (fun e =>
              existsb (fun r => match r with (s', e', b) =>
                 estate_eqb s s' && eevent_eqb e e' && Bool.eqb b (can env_events s e) end) env_can_table)
              all_events) all_states = true) by (vm_compute; reflexivity).
  intros s e.
  pose proof (forall_states _ H s) as Hs. cbv beta in Hs.
  pose proof (forall_events _ Hs e) as He. cbv beta in He.
  apply existsb_exists in He. destruct He as [[[s' e'] b] [Hin Hc]].
  apply andb_true_iff in Hc. destruct Hc as [Hc Hb].
  apply andb_true_iff in Hc. destruct Hc as [Hs' He'].
  apply estate_eqb_eq in Hs'. apply eevent_eqb_eq in He'. apply Bool.eqb_prop in Hb.
  subst. exact Hin.
Qed.

Lemma can_table_functional :
  forall s e b, In (s, e, b) env_can_table -> b = can env_events s e.
Proof.
  assert (H : forallb (fun r => match r with (s, e, b) => Bool.eqb b (can env_events s e) end)
                      env_can_table = true) by (vm_compute; reflexivity).
  intros s e b Hin. rewrite forallb_forall in H. specialize (H _ Hin). cbv beta iota in H.
  apply Bool.eqb_prop in H. exact H.
Qed.

(* firing every event in every state on the real Environment (all hooks and the body succeed)
   = the model's section, on all 6 x 8 pairs *)
Lemma fire_table_agrees :
  forall s e, In (s, e, sec_final s (fsm_section env_events all_bodyful no_faults s e),
                  sec_err (fsm_section env_events all_bodyful no_faults s e)) env_fire_table.
Proof.
  assert (H : forallb (fun s => forallb (fun e =>
              existsb (fun r => match r with (s', e', f, b) =>
                 estate_eqb s s' && eevent_eqb e e' &&
                 estate_eqb f (sec_final s (fsm_section env_events all_bodyful no_faults s e)) &&
                 Bool.eqb b (sec_err (fsm_section env_events all_bodyful no_faults s e)) end) env_fire_table)
              all_events) all_states = true) by (vm_compute; reflexivity).
  intros s e.
  pose proof (forall_states _ H s) as Hs. cbv beta in Hs.
  pose proof (forall_events _ Hs e) as He. cbv beta in He.
  apply existsb_exists in He. destruct He as [[[[s' e'] f] b] [Hin Hc]].
  apply andb_true_iff in Hc. destruct Hc as [Hc Hb].
  apply andb_true_iff in Hc. destruct Hc as [Hc Hf].
  apply andb_true_iff in Hc. destruct Hc as [Hs' He'].
  apply estate_eqb_eq in Hs'. apply eevent_eqb_eq in He'. apply estate_eqb_eq in Hf.
  apply Bool.eqb_prop in Hb. subst. exact Hin.
Qed.

(* MakeTransition as run = the translated switch, on every optype *)
Lemma make_table_agrees :
  forall ot, assoc_op ot env_make_table = make_transition ot.
Proof.
  assert (H : forallb (fun ot => option_eqb eevent_eqb (assoc_op ot env_make_table) (make_transition ot))
                      all_optypes = true) by (vm_compute; reflexivity).
  intro ot. pose proof (forall_optypes _ H ot) as Ho. cbv beta in Ho.
  destruct (assoc_op ot env_make_table), (make_transition ot); cbn in Ho; try discriminate; try reflexivity.
  apply eevent_eqb_eq in Ho. subst. reflexivity.
Qed.

(* the event names of the constructors as run = the baseTransition literals found by the translator *)
Lemma ctor_names_agree :
  forall e, In e env_ctor_names <-> In e env_transition_names.
Proof.
  assert (H : forallb (fun e => Bool.eqb (mem_event e env_ctor_names) (mem_event e env_transition_names))
                      all_events = true) by (vm_compute; reflexivity).
  intro e. pose proof (forall_events _ H e) as He. cbv beta in He. apply Bool.eqb_prop in He.
  rewrite <- !mem_event_in. rewrite He. tauto.
Qed.

(* ------------------------------------------------------------------------------------------ *)
(* Facts about the translated table *)

(* every edge an event of a constructible transition can take is an edge of the documented graph *)
Lemma api_edge_documented :
  forall ev st d, mem_event ev env_transition_names = true ->
                  lookup_dst env_events ev st = Some d -> doc_edge st d = true.
Proof.
  assert (H : forallb (fun ev => forallb (fun st =>
              negb (mem_event ev env_transition_names) ||
              match lookup_dst env_events ev st with Some d => doc_edge st d | None => true end)
              all_states) all_events = true) by (vm_compute; reflexivity).
  intros ev st d Hm Hl.
  pose proof (forall_events _ H ev) as He. cbv beta in He.
  pose proof (forall_states _ He st) as Hs. cbv beta in Hs.
  rewrite Hm, Hl in Hs. cbn in Hs. exact Hs.
Qed.

(* no constructible transition leads to DONE, none leaves DONE *)
Lemma api_dst_not_done :
  forall ev st d, mem_event ev env_transition_names = true ->
                  lookup_dst env_events ev st = Some d -> d <> sDONE /\ st <> sDONE.
Proof.
  intros ev st d Hm Hl. pose proof (api_edge_documented ev st d Hm Hl) as Hd.
  assert (H : forallb (fun ev => forallb (fun st =>
              negb (mem_event ev env_transition_names) ||
              match lookup_dst env_events ev st with
              | Some d => negb (estate_eqb d sDONE) && negb (estate_eqb st sDONE)
              | None => true end) all_states) all_events = true) by (vm_compute; reflexivity).
  pose proof (forall_events _ H ev) as He. cbv beta in He.
  pose proof (forall_states _ He st) as Hs. cbv beta in Hs.
  rewrite Hm, Hl in Hs. cbn in Hs. apply andb_true_iff in Hs. destruct Hs as [H1 H2].
  apply negb_true_iff in H1. apply negb_true_iff in H2.
  split; apply estate_eqb_neq; assumption.
Qed.

(* EXIT and RECOVER are in the table but no transition carries their name; RECOVER's edge is not
   part of the documented graph *)
Lemma exit_recover_not_constructible :
  mem_event eEXIT env_transition_names = false /\ mem_event eRECOVER env_transition_names = false.
Proof. vm_compute. split; reflexivity. Qed.

Lemma recover_edge_undocumented :
  lookup_dst env_events eRECOVER sERROR = Some sDEPLOYED /\ doc_edge sERROR sDEPLOYED = false.
Proof. vm_compute. split; reflexivity. Qed.

(* MakeTransition only returns constructible transitions, never GO_ERROR *)
Lemma make_transition_names :
  forall ot ev, make_transition ot = Some ev ->
                mem_event ev env_transition_names = true /\ ev <> eGO_ERROR.
Proof.
  assert (H : forallb (fun ot => match make_transition ot with
                                 | Some ev => mem_event ev env_transition_names && negb (eevent_eqb ev eGO_ERROR)
                                 | None => true end) all_optypes = true) by (vm_compute; reflexivity).
  intros ot ev Hm. pose proof (forall_optypes _ H ot) as Ho. cbv beta in Ho. rewrite Hm in Ho.
  apply andb_true_iff in Ho. destruct Ho as [H1 H2]. split; [exact H1|].
  apply negb_true_iff in H2. intro E. subst. cbn in H2. discriminate.
Qed.

(* the operations the API hands to the state machine are exactly the five documented ones *)
Lemma make_transition_documented :
  forall ot, make_transition ot = doc_op_event ot.
Proof.
  assert (H : forallb (fun ot => option_eqb eevent_eqb (make_transition ot) (doc_op_event ot))
                      all_optypes = true) by (vm_compute; reflexivity).
  intro ot. pose proof (forall_optypes _ H ot) as Ho. cbv beta in Ho.
  destruct (make_transition ot), (doc_op_event ot); cbn in Ho; try discriminate; try reflexivity.
  apply eevent_eqb_eq in Ho. subst. reflexivity.
Qed.

(* the table agrees with the documented effect of the five operations *)
Lemma table_is_documented_ops :
  forall ot ev st, doc_op_event ot = Some ev -> lookup_dst env_events ev st = doc_op ot st.
Proof.
  assert (H : forallb (fun ot => forallb (fun st =>
              match doc_op_event ot with
              | Some ev => option_eqb estate_eqb (lookup_dst env_events ev st) (doc_op ot st)
              | None => true end) all_states) all_optypes = true) by (vm_compute; reflexivity).
  intros ot ev st He.
  pose proof (forall_optypes _ H ot) as Ho. cbv beta in Ho.
  pose proof (forall_states _ Ho st) as Hs. cbv beta in Hs. rewrite He in Hs.
  destruct (lookup_dst env_events ev st), (doc_op ot st); cbn in Hs; try discriminate; try reflexivity.
  apply estate_eqb_eq in Hs. subst. reflexivity.
Qed.

(* GO_ERROR is enabled exactly in the live states and leads to ERROR *)
Lemma goerror_table :
  forall st, lookup_dst env_events eGO_ERROR st = if live st then Some sERROR else None.
Proof. intro st. destruct st; vm_compute; reflexivity. Qed.

(* setState / SetState literals in core/ are ERROR or DONE only *)
Lemma forced_literals_error_or_done :
  forall s, In s env_forced_literals -> s = sERROR \/ s = sDONE.
Proof.
  assert (H : forallb (fun s => estate_eqb s sERROR || estate_eqb s sDONE) env_forced_literals = true)
    by (vm_compute; reflexivity).
  intros s Hin. rewrite forallb_forall in H. specialize (H s Hin).
  apply orb_true_iff in H. destruct H as [H|H]; apply estate_eqb_eq in H; tauto.
Qed.

(* ------------------------------------------------------------------------------------------ *)
(* Shape of a locked section *)

Definition no_setst (l : list titem) : Prop := forall t, In t l -> is_setst t = false.

Lemma no_setst_nil : no_setst [].
Proof. intros t []. Qed.

Lemma no_setst_app a b : no_setst a -> no_setst b -> no_setst (a ++ b).
Proof. intros Ha Hb t Hin. apply in_app_or in Hin. destruct Hin; [apply Ha|apply Hb]; assumption. Qed.

Definition trace_final (s : estate) (t : list titem) : estate :=
  fold_left (fun s t => match t with SetSt d => d | _ => s end) t s.

Lemma trace_edges_app s a b :
  trace_edges s (a ++ b) = trace_edges s a ++ trace_edges (trace_final s a) b.
Proof.
  revert s. induction a as [|x a IH]; intro s; cbn; [reflexivity|].
  destruct x; cbn; try apply IH. rewrite IH. reflexivity.
Qed.

Lemma trace_final_app s a b : trace_final s (a ++ b) = trace_final (trace_final s a) b.
Proof. unfold trace_final. apply fold_left_app. Qed.

Lemma no_setst_edges s l : no_setst l -> trace_edges s l = [] /\ trace_final s l = s.
Proof.
  revert s. induction l as [|x l IH]; intros s H; cbn; [split; reflexivity|].
  assert (Hx : is_setst x = false) by (apply H; left; reflexivity).
  assert (Hl : no_setst l) by (intros t Ht; apply H; right; exact Ht).
  destruct x; cbn in Hx; try discriminate; apply IH; exact Hl.
Qed.

Definition sec_wf (s : section) : Prop := no_setst (sec_pre s) /\ no_setst (sec_post s).

Lemma sec_trace_edges st sec :
  sec_wf sec ->
  trace_edges st (sec_trace sec) =
    match sec_commit sec with Some (d, _) => [(st, d)] | None => [] end /\
  trace_final st (sec_trace sec) = sec_final st sec.
Proof.
  intros [Hpre Hpost]. unfold sec_trace, sec_final.
  destruct (no_setst_edges st _ Hpre) as [E1 F1].
  rewrite trace_edges_app, trace_final_app, E1, F1. cbn [app].
  destruct (sec_commit sec) as [[d u]|].
  - destruct (no_setst_edges d _ Hpost) as [E2 F2].
    rewrite trace_edges_app, trace_final_app. cbn. rewrite E2, F2. split; reflexivity.
  - destruct (no_setst_edges st _ Hpost) as [E2 F2].
    cbn [app]. rewrite E2, F2. split; reflexivity.
Qed.

Ltac in_items H :=
  repeat (destruct H as [H|H]; [subst; reflexivity|]); try destruct H.

Lemma fsm_core_wf tbl bf st ev oc : sec_wf (fsm_core tbl bf st ev oc).
Proof.
  unfold fsm_core, sec_wf, no_setst.
  destruct (lookup_dst tbl ev st) as [dst|]; [|cbn; split; intros t []].
  destruct (f_before oc), (estate_eqb st dst), (f_leave oc), (f_body oc), (bf ev); cbn;
    split; intros t H; in_items H.
Qed.

Lemma teardown_wf o st force : sec_wf (teardown_section o st force).
Proof.
  unfold teardown_section, sec_wf, no_setst.
  destruct (estate_eqb st sDONE), (negb (mem_state st [sSTANDBY; sDEPLOYED]) && negb force),
    (o_relfail1 o), (o_relfail2 o); cbn; split; intros t H; in_items H.
Qed.

(* the one state write of an event section is the table's edge *)
Lemma fsm_core_commit tbl bf st ev oc d u :
  sec_commit (fsm_core tbl bf st ev oc) = Some (d, u) ->
  lookup_dst tbl ev st = Some d /\ d <> st /\ u = false.
Proof.
  unfold fsm_core.
  destruct (lookup_dst tbl ev st) as [dst|]; [|cbn; discriminate].
  destruct (f_before oc); [cbn; discriminate|].
  destruct (estate_eqb st dst) eqn:E; [cbn; discriminate|].
  destruct (f_leave oc); [cbn; discriminate|].
  destruct (f_body oc && bf ev); cbn; [discriminate|].
  intro H. inversion H; subst. split; [reflexivity|]. split; [|reflexivity].
  apply estate_eqb_neq in E. congruence.
Qed.

(* an event that is not enabled does nothing at all and returns an error *)
Lemma fsm_core_disabled tbl bf st ev oc :
  can tbl st ev = false -> fsm_core tbl bf st ev oc = mkSec [] None [] true.
Proof.
  unfold can, fsm_core. destruct (lookup_dst tbl ev st); [discriminate|reflexivity].
Qed.

(* a section that reports no error has moved the state to the table's destination *)
Lemma fsm_core_success tbl bf st ev oc :
  sec_err (fsm_core tbl bf st ev oc) = false ->
  exists d, lookup_dst tbl ev st = Some d /\ sec_commit (fsm_core tbl bf st ev oc) = Some (d, false).
Proof.
  unfold fsm_core.
  destruct (lookup_dst tbl ev st) as [dst|]; [|cbn; discriminate].
  destruct (f_before oc); [cbn; discriminate|].
  destruct (estate_eqb st dst); [cbn; discriminate|].
  destruct (f_leave oc); [cbn; discriminate|].
  destruct (f_body oc && bf ev); cbn; [discriminate|].
  intros _. exists dst. split; reflexivity.
Qed.

Lemma teardown_commit o st force d u :
  sec_commit (teardown_section o st force) = Some (d, u) -> d = sDONE /\ u = true /\ st <> sDONE.
Proof.
  unfold teardown_section.
  destruct (estate_eqb st sDONE) eqn:E; [cbn; discriminate|].
  destruct (negb (mem_state st [sSTANDBY; sDEPLOYED]) && negb force); [cbn; discriminate|].
  destruct (o_relfail1 o); [cbn; discriminate|].
  destruct (o_relfail2 o); cbn; [discriminate|].
  intro H. inversion H; subst. apply estate_eqb_neq in E. tauto.
Qed.

(* which events the items of a section name *)
Definition item_event (t : titem) : option eevent :=
  match t with
  | Hook (MBefore e) | Hook (MAfter e) | Body e => Some e
  | _ => None
  end.

Lemma fsm_core_items tbl bf st ev oc t e :
  In t (sec_trace (fsm_core tbl bf st ev oc)) -> item_event t = Some e -> e = ev.
Proof.
  unfold fsm_core, sec_trace.
  destruct (lookup_dst tbl ev st) as [dst|]; [|cbn; tauto].
  destruct (f_before oc); [cbn; intros [H|[]] E; subst; cbn in E; congruence|].
  destruct (estate_eqb st dst); [cbn; intros [H|[H|[]]] E; subst; cbn in E; congruence|].
  destruct (f_leave oc); [cbn; intros [H|[H|[]]] E; subst; cbn in E; congruence|].
  destruct (f_body oc && bf ev); cbn [sec_pre sec_commit sec_post]; destruct (bf ev); cbn;
    intros H E; repeat (destruct H as [H|H]; [subst; cbn in E; congruence|]); destruct H.
Qed.

Lemma teardown_items o st force t :
  In t (sec_trace (teardown_section o st force)) -> item_event t = None.
Proof.
  unfold teardown_section, sec_trace.
  destruct (estate_eqb st sDONE); [cbn; tauto|].
  destruct (negb (mem_state st [sSTANDBY; sDEPLOYED]) && negb force); [cbn; tauto|].
  destruct (o_relfail1 o); [cbn; intros [H|[]]; subst; reflexivity|].
  destruct (o_relfail2 o); cbn; intros H; repeat (destruct H as [H|H]; [subst; reflexivity|]); destruct H.
Qed.

(* ------------------------------------------------------------------------------------------ *)
(* Programs: which actions a caller may use *)

Definition act_ok (a : act) : Prop :=
  match a with
  | ATry ev => mem_event ev env_transition_names = true
  | AForce s => s = sERROR
  | _ => True
  end.

Inductive prog_ok : prog -> Prop :=
| ok_ret c s : prog_ok (Ret c s)
| ok_do a k : act_ok a -> (forall r, prog_ok (k r)) -> prog_ok (Do a k).

Definition req_ok (q : req) : Prop :=
  match q with QTry ev => mem_event ev env_transition_names = true | _ => True end.

Lemma names_goerror : mem_event eGO_ERROR env_transition_names = true.
Proof. vm_compute. reflexivity. Qed.
Lemma names_stop : mem_event eSTOP_ACTIVITY env_transition_names = true.
Proof. vm_compute. reflexivity. Qed.
Lemma names_reset : mem_event eRESET env_transition_names = true.
Proof. vm_compute. reflexivity. Qed.

Ltac ok_tac :=
  repeat first
    [ apply ok_ret
    | apply ok_do; [first [exact I | reflexivity | exact names_goerror | exact names_stop | exact names_reset | assumption]|intro]
    | match goal with |- prog_ok (if ?b then _ else _) => destruct b end
    | match goal with |- prog_ok (match ?x with _ => _ end) => destruct x eqn:? end ].

Lemma reply_ok c : prog_ok (reply c).
Proof. unfold reply. ok_tac. Qed.

Lemma p_dtc_ok f : prog_ok (p_dtc f).
Proof. unfold p_dtc. ok_tac. Qed.

Lemma p_control_ok ot : prog_ok (p_control ot).
Proof.
  unfold p_control. apply ok_do; [exact I|intro f].
  destruct (negb (res_b f)); [apply ok_ret|].
  destruct (make_transition ot) as [ev|] eqn:E; [|apply ok_ret].
  destruct (make_transition_names ot ev E) as [Hn _].
  apply ok_do; [exact Hn|intro e1].
  destruct (negb (res_b e1)); [apply reply_ok|].
  apply ok_do; [exact names_goerror|intro e2].
  destruct (negb (res_b e2)); [apply reply_ok|].
  apply ok_do; [reflexivity|intro]. apply reply_ok.
Qed.

Lemma p_destroy_ok f a : prog_ok (p_destroy f a).
Proof.
  unfold p_destroy. apply ok_do; [exact I|intro r].
  destruct (negb (res_b r)); [apply ok_ret|].
  destruct f; [apply p_dtc_ok|].
  assert (Hrest : prog_ok
    (Do ARead (fun s =>
        if negb (mem_state (res_s s) env_states_for_destroy) then p_dtc true else
        Do ARead (fun s2 =>
          if estate_eqb (res_s s2) sCONFIGURED then
            Do (ATry eRESET) (fun e => if res_b e then p_dtc true else p_dtc false)
          else p_dtc false)))).
  { apply ok_do; [exact I|intro s].
    destruct (negb (mem_state (res_s s) env_states_for_destroy)); [apply p_dtc_ok|].
    apply ok_do; [exact I|intro s2].
    destruct (estate_eqb (res_s s2) sCONFIGURED); [|apply p_dtc_ok].
    apply ok_do; [exact names_reset|intro e]. destruct (res_b e); apply p_dtc_ok. }
  destruct a; [|exact Hrest].
  apply ok_do; [exact I|intro s].
  destruct (estate_eqb (res_s s) sRUNNING); [|exact Hrest].
  apply ok_do; [exact names_stop|intro e]. destruct (res_b e); [apply p_dtc_ok|exact Hrest].
Qed.

Lemma prog_of_ok q : req_ok q -> prog_ok (prog_of q).
Proof.
  destruct q; cbn [prog_of req_ok]; intro H.
  - apply p_control_ok.
  - apply p_destroy_ok.
  - unfold p_teardown. ok_tac.
  - unfold p_watcher. ok_tac.
  - unfold p_autostop. ok_tac.
  - unfold p_odc. ok_tac.
  - unfold p_stoprun. ok_tac.
  - unfold p_try. ok_tac.
Qed.

(* ------------------------------------------------------------------------------------------ *)
(* Sequential semantics *)

Section Seq.
Variable o : oracle.
Notation tbl := env_events.
Notation bf := api_bodyful.

Definition step_w (a : act) (w : world) : world := fst (fst (exec_act tbl bf o a w)).
Definition step_r (a : act) (w : world) : ares := snd (fst (exec_act tbl bf o a w)).
Definition step_t (a : act) (w : world) : list titem := snd (exec_act tbl bf o a w).

Lemma run_prog_do a k w :
  run_prog tbl bf o (Do a k) w =
  (fst (fst (run_prog tbl bf o (k (step_r a w)) (step_w a w))),
   snd (fst (run_prog tbl bf o (k (step_r a w)) (step_w a w))),
   step_t a w ++ snd (run_prog tbl bf o (k (step_r a w)) (step_w a w))).
Proof.
  cbn [run_prog]. unfold step_r, step_w, step_t.
  destruct (exec_act tbl bf o a w) as [[w1 r] t1]. cbn [fst snd].
  destruct (run_prog tbl bf o (k r) w1) as [[w2 res] t2]. reflexivity.
Qed.

(* DONE implies unlisted: only a teardown writes DONE and it unlists in the same section *)
Definition J (w : world) : Prop := w_st w = sDONE -> w_listed w = false.

Lemma act_section_wf a st : sec_wf (act_section tbl bf o a st).
Proof.
  destruct a; cbn [act_section]; try (split; apply no_setst_nil).
  - apply fsm_core_wf.
  - apply teardown_wf.
  - destruct (estate_eqb st sDONE || estate_eqb st s); split; apply no_setst_nil.
Qed.

Lemma act_section_commit a st d u :
  act_ok a -> sec_commit (act_section tbl bf o a st) = Some (d, u) ->
  doc_edge st d = true /\ st <> sDONE /\ (d = sDONE -> u = true) /\ (u = true -> d = sDONE).
Proof.
  destruct a; cbn [act_section act_ok]; intros Hok Hc; try (cbn in Hc; discriminate).
  - unfold fsm_section in Hc. apply fsm_core_commit in Hc. destruct Hc as [Hl [Hne Hu]].
    pose proof (api_edge_documented _ _ _ Hok Hl) as Hd.
    destruct (api_dst_not_done _ _ _ Hok Hl) as [Hdn Hsn].
    subst u. repeat split; try assumption; intro; [contradiction|discriminate].
  - apply teardown_commit in Hc. destruct Hc as [Hd [Hu Hne]]. subst d u.
    repeat split; try assumption; try reflexivity.
    destruct st; cbn; try reflexivity. contradiction Hne. reflexivity.
  - (* forced state: ERROR, under the mutex, refused on DONE *)
    subst s. destruct (estate_eqb st sDONE) eqn:E1; [cbn in Hc; discriminate|].
    destruct (estate_eqb st sERROR) eqn:E2; cbn in Hc; [discriminate|].
    inversion Hc; subst d u. apply estate_eqb_neq in E1.
    split; [destruct st; cbn in *; try reflexivity; try discriminate; contradiction E1; reflexivity|].
    split; [exact E1|]. split; intro H; discriminate H.
Qed.

(* the section of a locked action in DONE: nothing runs, nothing is written *)
Lemma act_section_done a :
  act_ok a -> sec_commit (act_section tbl bf o a sDONE) = None /\ sec_trace (act_section tbl bf o a sDONE) = [].
Proof.
  destruct a; cbn [act_section act_ok]; intro Hok; try (split; reflexivity).
  unfold fsm_section, fsm_core.
  destruct (lookup_dst tbl ev sDONE) as [d|] eqn:Hl; [|split; reflexivity].
  destruct (api_dst_not_done _ _ _ Hok Hl) as [_ H]. contradiction H. reflexivity.
Qed.

(* a locked section acts on the state it finds when it has the mutex: its leave hooks are those of
   that state, and a teardown without force commits from STANDBY / DEPLOYED only *)
Lemma act_section_leave a st s :
  In (Hook (MLeave s)) (sec_trace (act_section tbl bf o a st)) -> s = st.
Proof.
  destruct a; cbn [act_section]; try (cbn; tauto).
  - unfold fsm_section, fsm_core, sec_trace.
    destruct (lookup_dst tbl ev st) as [dst|]; [|cbn; tauto].
    destruct (f_before (outcome_for tbl o st ev)); [cbn; intros [H|[]]; discriminate|].
    destruct (estate_eqb st dst); [cbn; intros [H|[H|[]]]; discriminate|].
    destruct (f_leave (outcome_for tbl o st ev)); [cbn; intros [H|[H|[]]]; congruence|].
    destruct (f_body (outcome_for tbl o st ev) && bf ev); cbn [sec_pre sec_commit sec_post]; destruct (bf ev); cbn;
      intro H; repeat (destruct H as [H|H]; [congruence|]); destruct H.
  - unfold teardown_section, sec_trace.
    destruct (estate_eqb st sDONE); [cbn; tauto|].
    destruct (negb (mem_state st [sSTANDBY; sDEPLOYED]) && negb force); [cbn; tauto|].
    destruct (o_relfail1 o); [cbn; intros [H|[]]; congruence|].
    destruct (o_relfail2 o); cbn; intro H; repeat (destruct H as [H|H]; [congruence|]); destruct H.
  - destruct (estate_eqb st sDONE || estate_eqb st s0); cbn; intro H; repeat (destruct H as [H|H]; [discriminate|]); destruct H.
Qed.

Lemma teardown_unforced_commit st d u :
  sec_commit (act_section tbl bf o (ATeardown false) st) = Some (d, u) -> st = sSTANDBY \/ st = sDEPLOYED.
Proof.
  cbn [act_section]. unfold teardown_section.
  destruct (estate_eqb st sDONE); [cbn; discriminate|].
  destruct st; cbn; try discriminate; tauto.
Qed.

Definition locked (a : act) : bool := match a with ATry _ | ATeardown _ | AForce _ => true | _ => false end.

Lemma exec_locked a w :
  locked a = true ->
  exec_act tbl bf o a w =
  (mkWorld (sec_final (w_st w) (act_section tbl bf o a (w_st w)))
           (w_listed w && negb (sec_unlists (act_section tbl bf o a (w_st w)))),
   RB (sec_err (act_section tbl bf o a (w_st w))), sec_trace (act_section tbl bf o a (w_st w))).
Proof. destruct a; cbn [locked]; intro H; try discriminate; reflexivity. Qed.

(* one action: what it does to the world and to the trace *)
Lemma step_spec a w :
  act_ok a -> J w ->
  edges_ok (trace_edges (w_st w) (step_t a w)) = true /\
  trace_final (w_st w) (step_t a w) = w_st (step_w a w) /\
  J (step_w a w) /\
  (w_listed w = false -> w_listed (step_w a w) = false).
Proof.
  intros Hok HJ. unfold step_t, step_w.
  destruct (locked a) eqn:Hl.
  - rewrite (exec_locked a w Hl). cbn [fst snd].
    pose proof (act_section_wf a (w_st w)) as Hwf.
    destruct (sec_trace_edges (w_st w) _ Hwf) as [He Hf].
    rewrite He, Hf. cbn [w_st w_listed].
    split.
    { destruct (sec_commit (act_section tbl bf o a (w_st w))) as [[d u]|] eqn:Hc; [|reflexivity].
      destruct (act_section_commit _ _ _ _ Hok Hc) as [Hd _]. cbn. unfold edge_ok. cbn [fst snd].
      rewrite Hd. rewrite orb_true_r. reflexivity. }
    split; [reflexivity|].
    split.
    { unfold J, sec_final, sec_unlists. cbn [w_st w_listed].
      destruct (sec_commit (act_section tbl bf o a (w_st w))) as [[d u]|] eqn:Hc.
      - destruct (act_section_commit _ _ _ _ Hok Hc) as [_ [_ [Hdu _]]].
        intro Hd. rewrite (Hdu Hd). cbn. apply andb_false_r.
      - intro Hd. rewrite (HJ Hd). reflexivity. }
    intro Hli. rewrite Hli. reflexivity.
  - destruct a; try discriminate Hl; cbn; repeat split; try assumption; tauto.
Qed.

Lemma run_prog_graph p :
  prog_ok p -> forall w, J w ->
  edges_ok (trace_edges (w_st w) (snd (run_prog tbl bf o p w))) = true /\
  trace_final (w_st w) (snd (run_prog tbl bf o p w)) = w_st (fst (fst (run_prog tbl bf o p w))) /\
  J (fst (fst (run_prog tbl bf o p w))) /\
  (w_listed w = false -> w_listed (fst (fst (run_prog tbl bf o p w))) = false).
Proof.
  induction 1 as [c s|a k Ha Hk IH]; intros w HJ.
  - cbn. repeat split; try assumption; tauto.
  - rewrite run_prog_do. cbn [fst snd].
    destruct (step_spec a w Ha HJ) as [E1 [F1 [J1 L1]]].
    destruct (IH (step_r a w) (step_w a w) J1) as [E2 [F2 [J2 L2]]].
    rewrite trace_edges_app, trace_final_app, F1.
    split.
    { unfold edges_ok in *. rewrite forallb_app, E1, E2. reflexivity. }
    split; [exact F2|]. split; [exact J2|]. intro Hl. apply L2, L1, Hl.
Qed.

(* DONE is terminal for every action of every caller: nothing runs, nothing is written *)
Lemma step_done a w :
  act_ok a -> w_st w = sDONE -> w_st (step_w a w) = sDONE /\ step_t a w = [].
Proof.
  intros Hok Hd. unfold step_t, step_w.
  destruct (locked a) eqn:Hl.
  - rewrite (exec_locked a w Hl). cbn [fst snd w_st]. rewrite Hd.
    destruct (act_section_done a Hok) as [Hc Ht]. unfold sec_final. rewrite Hc, Ht. split; reflexivity.
  - destruct a; try discriminate Hl; cbn; split; try assumption; reflexivity.
Qed.

Lemma run_prog_done p :
  prog_ok p -> forall w, w_st w = sDONE ->
  w_st (fst (fst (run_prog tbl bf o p w))) = sDONE /\ snd (run_prog tbl bf o p w) = [].
Proof.
  induction 1 as [c s|a k Ha Hk IH]; intros w Hd.
  - cbn. split; [exact Hd|reflexivity].
  - rewrite run_prog_do. cbn [fst snd].
    destruct (step_done a w Ha Hd) as [D1 T1].
    destruct (IH (step_r a w) (step_w a w) D1) as [D2 T2].
    rewrite T1, T2. split; [exact D2|reflexivity].
Qed.

Lemma listed_not_done w : J w -> w_listed w = true -> w_st w <> sDONE.
Proof. intros HJ Hl Hd. rewrite (HJ Hd) in Hl. discriminate. Qed.

(* requests made by a holder of the *Environment (they do not go through the manager's map) *)
Definition handle_req (q : req) : bool :=
  match q with QWatcher | QAutoStop | QTry _ => true | _ => false end.

End Seq.

(* ------------------------------------------------------------------------------------------ *)
(* Sequential histories *)

Lemma run_req_eq o q w : run_req o q w = run_prog env_events api_bodyful o (prog_of q) w.
Proof. reflexivity. Qed.

Lemma run_seq_cons q o r w :
  run_seq ((q, o) :: r) w =
  (fst (run_seq r (fst (fst (run_req o q w)))),
   snd (run_req o q w) ++ snd (run_seq r (fst (fst (run_req o q w))))).
Proof.
  cbn [run_seq]. destruct (run_req o q w) as [[w1 res] t1]. cbn [fst snd].
  destruct (run_seq r w1) as [w2 t2]. reflexivity.
Qed.

Definition api_req (q : req) : Prop := handle_req q = false.

Lemma api_req_ok q : api_req q -> req_ok q.
Proof. destruct q; cbn; intro H; try exact I. discriminate. Qed.

(* every state write of every sequential history, whoever the callers are (API requests, watcher,
   auto-stop timer, holders of a stale handle), is an edge of the documented graph *)
Lemma run_seq_graph l :
  Forall (fun qo => req_ok (fst qo)) l -> forall w, J w ->
  edges_ok (trace_edges (w_st w) (snd (run_seq l w))) = true /\
  trace_final (w_st w) (snd (run_seq l w)) = w_st (fst (run_seq l w)) /\
  J (fst (run_seq l w)).
Proof.
  induction 1 as [|[q o] r Hq Hr IH]; intros w HJ.
  - cbn. repeat split; try assumption.
  - rewrite run_seq_cons. cbn [fst snd]. cbn [fst] in Hq.
    destruct (run_prog_graph o (prog_of q) (prog_of_ok q Hq) w HJ) as [E1 [F1 [J1 _]]].
    rewrite <- run_req_eq in E1, F1, J1.
    destruct (IH _ J1) as [E2 [F2 J2]].
    rewrite trace_edges_app, trace_final_app, F1.
    split; [unfold edges_ok in *; rewrite forallb_app, E1, E2; reflexivity|].
    split; assumption.
Qed.

(* DONE is terminal for every history of every caller *)
Lemma run_seq_done l :
  Forall (fun qo => req_ok (fst qo)) l -> forall w, w_st w = sDONE ->
  w_st (fst (run_seq l w)) = sDONE /\ snd (run_seq l w) = [].
Proof.
  induction 1 as [|[q o] r Hq Hr IH]; intros w Hd.
  - cbn. split; [exact Hd|reflexivity].
  - rewrite run_seq_cons. cbn [fst snd]. cbn [fst] in Hq.
    destruct (run_prog_done o (prog_of q) (prog_of_ok q Hq) w Hd) as [D1 T1].
    rewrite <- run_req_eq in D1, T1.
    destruct (IH _ D1) as [D2 T2]. rewrite T1, T2. split; [exact D2|reflexivity].
Qed.

(* API requests on an environment that is not listed do nothing at all *)
Lemma api_unlisted_inert o q w :
  api_req q -> w_listed w = false ->
  fst (fst (run_req o q w)) = w /\ snd (run_req o q w) = [].
Proof.
  intros Hq Hl. destruct q; try discriminate Hq; unfold run_req; cbn [prog_of].
  - unfold p_control. cbn. rewrite Hl. cbn. split; reflexivity.
  - unfold p_destroy. cbn. rewrite Hl. cbn. split; reflexivity.
  - unfold p_teardown. cbn. rewrite Hl. cbn. split; reflexivity.
  - unfold p_odc. cbn. rewrite Hl. cbn. split; reflexivity.
  - unfold p_stoprun. cbn. rewrite Hl. cbn. split; reflexivity.
Qed.

(* ------------------------------------------------------------------------------------------ *)
(* One ControlEnvironment request on a listed environment *)

Lemma world_eta w : mkWorld (w_st w) (w_listed w) = w.
Proof. destruct w; reflexivity. Qed.

Lemma fsm_section_unlists o st ev : sec_unlists (fsm_section env_events api_bodyful o st ev) = false.
Proof.
  unfold sec_unlists.
  destruct (sec_commit (fsm_section env_events api_bodyful o st ev)) as [[d u]|] eqn:Hc; [|reflexivity].
  unfold fsm_section in Hc. apply fsm_core_commit in Hc. tauto.
Qed.

Lemma exec_try o ev w :
  exec_act env_events api_bodyful o (ATry ev) w =
  (mkWorld (sec_final (w_st w) (fsm_section env_events api_bodyful o (w_st w) ev)) (w_listed w),
   RB (sec_err (fsm_section env_events api_bodyful o (w_st w) ev)),
   sec_trace (fsm_section env_events api_bodyful o (w_st w) ev)).
Proof.
  cbn [exec_act act_section]. rewrite fsm_section_unlists. cbn [negb]. rewrite andb_true_r. reflexivity.
Qed.

(* Environment.ForceError on an environment that is not DONE: ERROR, at most one state write *)
Definition force_trace (st : estate) : list titem := if estate_eqb st sERROR then [] else [SetSt sERROR].

Lemma exec_force o w :
  w_st w <> sDONE ->
  exec_act env_events api_bodyful o (AForce sERROR) w = (mkWorld sERROR (w_listed w), RB false, force_trace (w_st w)).
Proof.
  intro Hd. cbn [exec_act act_section]. apply estate_eqb_neq in Hd. rewrite Hd. cbn [orb]. unfold force_trace.
  destruct (estate_eqb (w_st w) sERROR) eqn:E.
  - apply estate_eqb_eq in E. cbn. rewrite andb_true_r, E. reflexivity.
  - cbn. rewrite andb_true_r. reflexivity.
Qed.

Lemma try_not_done o ev st :
  mem_event ev env_transition_names = true -> st <> sDONE ->
  sec_final st (fsm_section env_events api_bodyful o st ev) <> sDONE.
Proof.
  intros Hn Hd. unfold sec_final.
  destruct (sec_commit (fsm_section env_events api_bodyful o st ev)) as [[d u]|] eqn:Hc; [|exact Hd].
  unfold fsm_section in Hc. apply fsm_core_commit in Hc. destruct Hc as [Hl _].
  destruct (api_dst_not_done _ _ _ Hn Hl) as [H _]. exact H.
Qed.

(* the GO_ERROR fallback followed, when it fails, by the forced state *)
Definition fallback_trace (o : oracle) (st : estate) : list titem :=
  let sec := fsm_section env_events api_bodyful o st eGO_ERROR in
  sec_trace sec ++ (if sec_err sec then force_trace (sec_final st sec) else []).

Lemma goerror_final o st :
  sec_err (fsm_section env_events api_bodyful o st eGO_ERROR) = false ->
  sec_final st (fsm_section env_events api_bodyful o st eGO_ERROR) = sERROR.
Proof.
  intro H. unfold fsm_section in *. apply fsm_core_success in H. destruct H as [d [Hl Hc]].
  unfold sec_final. rewrite Hc. rewrite goerror_table in Hl. destruct (live st); congruence.
Qed.

(* what ControlEnvironment does once the environment was found and the operation is known *)
Lemma control_spec o ot ev w :
  w_listed w = true -> w_st w <> sDONE -> make_transition ot = Some ev ->
  let sec := fsm_section env_events api_bodyful o (w_st w) ev in
  let st1 := sec_final (w_st w) sec in
  run_req o (QControl ot) w =
  if sec_err sec
  then (mkWorld sERROR true, (3, Some sERROR), sec_trace sec ++ fallback_trace o st1)
  else (mkWorld st1 true, (0, Some st1), sec_trace sec).
Proof.
  intros Hl Hd Hm. cbv zeta. unfold run_req. cbn [prog_of]. unfold p_control.
  destruct (make_transition_names ot ev Hm) as [Hn _].
  cbn [run_prog]. cbn [exec_act]. rewrite Hl. cbn [res_b negb]. rewrite Hm.
  cbn [run_prog]. rewrite exec_try. cbn [res_b].
  destruct (sec_err (fsm_section env_events api_bodyful o (w_st w) ev)) eqn:E1; cbn [negb].
  - cbn [run_prog]. rewrite exec_try. cbn [res_b w_st w_listed].
    unfold fallback_trace.
    pose proof (try_not_done o ev (w_st w) Hn Hd) as Hd1.
    pose proof (try_not_done o eGO_ERROR _ names_goerror Hd1) as Hd2.
    destruct (sec_err (fsm_section env_events api_bodyful o
               (sec_final (w_st w) (fsm_section env_events api_bodyful o (w_st w) ev)) eGO_ERROR)) eqn:E2; cbn [negb].
    + cbn [run_prog]. rewrite exec_force by (cbn [w_st]; exact Hd2).
      unfold reply. cbn [run_prog exec_act w_st w_listed res_s]. rewrite !app_nil_r, Hl. reflexivity.
    + unfold reply. cbn [run_prog exec_act w_st w_listed res_s]. rewrite (goerror_final _ _ E2).
      rewrite !app_nil_r, Hl. reflexivity.
  - unfold reply. cbn [run_prog exec_act w_st w_listed res_s]. rewrite !app_nil_r, Hl. reflexivity.
Qed.

Lemma own_item_event ev x : own_item ev x = true -> item_event x = Some ev.
Proof.
  destruct x as [m|e|s]; cbn; try discriminate.
  - destruct m; try discriminate; intro H; apply eevent_eqb_eq in H; subst; reflexivity.
  - intro H; apply eevent_eqb_eq in H; subst; reflexivity.
Qed.

Lemma fsm_core_no_body tbl bf st ev oc e :
  bf ev = false -> ~ In (Body e) (sec_trace (fsm_core tbl bf st ev oc)).
Proof.
  intro Hb. unfold fsm_core, sec_trace. rewrite Hb, andb_false_r.
  destruct (lookup_dst tbl ev st) as [dst|]; [|cbn; tauto].
  destruct (f_before oc); [cbn; intros [H|[]]; discriminate|].
  destruct (estate_eqb st dst); [cbn; intros [H|[H|[]]]; discriminate|].
  destruct (f_leave oc); [cbn; intros [H|[H|[]]]; discriminate|].
  cbn. intro H. repeat (destruct H as [H|H]; [discriminate|]). destruct H.
Qed.

Lemma force_trace_setst st x : In x (force_trace st) -> x = SetSt sERROR.
Proof. unfold force_trace. destruct (estate_eqb st sERROR); cbn; [tauto|]. intros [H|[]]. congruence. Qed.

(* the fallback runs GO_ERROR's hooks only and never sends a task command *)
Lemma fallback_items o st x :
  In x (fallback_trace o st) ->
  (forall e, x <> Body e) /\ (forall e, item_event x = Some e -> e = eGO_ERROR).
Proof.
  unfold fallback_trace. intro H. apply in_app_or in H. destruct H as [H|H].
  - split.
    + intros e E. subst. unfold fsm_section in H. revert H. apply fsm_core_no_body. reflexivity.
    + intros e E. unfold fsm_section in H. eapply fsm_core_items; eassumption.
  - destruct (sec_err (fsm_section env_events api_bodyful o st eGO_ERROR)); [|destruct H].
    apply force_trace_setst in H. subst. split; intros e E; discriminate.
Qed.

(* "not legal in the current state", as documented, is "not enabled in the event table" *)
Lemma illegal_is_disabled ot ev st :
  make_transition ot = Some ev -> (doc_op ot st = None <-> can env_events st ev = false).
Proof.
  intro Hm. rewrite make_transition_documented in Hm.
  unfold can. rewrite (table_is_documented_ops ot ev st Hm).
  destruct (doc_op ot st); split; intro H; congruence.
Qed.

Lemma control_illegal_inert o ot ev w :
  J w -> w_listed w = true -> make_transition ot = Some ev -> doc_op ot (w_st w) = None ->
  (forall x, In x (snd (run_req o (QControl ot) w)) -> own_item ev x = false) /\
  (forall e, ~ In (Body e) (snd (run_req o (QControl ot) w))) /\
  fst (fst (run_req o (QControl ot) w)) = mkWorld sERROR true /\
  snd (snd (fst (run_req o (QControl ot) w))) = Some sERROR /\
  fst (snd (fst (run_req o (QControl ot) w))) = 3.
Proof.
  intros HJ Hl Hm Hd. apply (illegal_is_disabled ot ev (w_st w) Hm) in Hd.
  pose proof (listed_not_done w HJ Hl) as Hnd.
  destruct (make_transition_names ot ev Hm) as [_ Hne].
  assert (Hsec : fsm_section env_events api_bodyful o (w_st w) ev = mkSec [] None [] true)
    by (unfold fsm_section; apply fsm_core_disabled; exact Hd).
  rewrite (control_spec o ot ev w Hl Hnd Hm). rewrite Hsec.
  cbn [sec_err sec_final sec_trace sec_pre sec_commit sec_post app fst snd].
  split; [|split; [|split; [|split]]].
  - intros x Hx. destruct (own_item ev x) eqn:E; [|reflexivity].
    apply own_item_event in E. destruct (fallback_items o (w_st w) x Hx) as [_ H2].
    specialize (H2 _ E). contradiction.
  - intros e Hx. destruct (fallback_items o (w_st w) _ Hx) as [H1 _]. apply (H1 e). reflexivity.
  - reflexivity.
  - reflexivity.
  - reflexivity.
Qed.

(* a first TryTransition that returns an error: the environment ends in ERROR, which is also the
   state reported in the reply, and the caller gets Aborted *)
Lemma control_failed_is_error o ot ev w :
  J w -> w_listed w = true -> make_transition ot = Some ev ->
  sec_err (fsm_section env_events api_bodyful o (w_st w) ev) = true ->
  fst (fst (run_req o (QControl ot) w)) = mkWorld sERROR true /\
  snd (snd (fst (run_req o (QControl ot) w))) = Some sERROR /\
  fst (snd (fst (run_req o (QControl ot) w))) = 3.
Proof.
  intros HJ Hl Hm He. rewrite (control_spec o ot ev w Hl (listed_not_done w HJ Hl) Hm). rewrite He. cbn [fst snd].
  split; [reflexivity|]. split; reflexivity.
Qed.

(* a first TryTransition that returns no error: the documented destination, reported as such *)
Lemma control_success_documented o ot ev w :
  J w -> w_listed w = true -> make_transition ot = Some ev ->
  sec_err (fsm_section env_events api_bodyful o (w_st w) ev) = false ->
  exists d, doc_op ot (w_st w) = Some d /\
            fst (run_req o (QControl ot) w) = (mkWorld d true, (0, Some d)).
Proof.
  intros HJ Hl Hm He. rewrite (control_spec o ot ev w Hl (listed_not_done w HJ Hl) Hm). rewrite He. cbn [fst snd].
  unfold fsm_section in *. apply fsm_core_success in He. destruct He as [d [Hlk Hc]].
  exists d. split.
  - rewrite make_transition_documented in Hm. rewrite <- (table_is_documented_ops ot ev _ Hm). exact Hlk.
  - unfold sec_final. rewrite Hc. reflexivity.
Qed.

(* operations that MakeTransition refuses, and requests for an environment that is not listed,
   change nothing *)
Lemma control_refused o ot w :
  w_listed w = false \/ make_transition ot = None ->
  fst (fst (run_req o (QControl ot) w)) = w /\ snd (run_req o (QControl ot) w) = [] /\
  (fst (snd (fst (run_req o (QControl ot) w))) = 1 \/ fst (snd (fst (run_req o (QControl ot) w))) = 2).
Proof.
  intro H. unfold run_req. cbn [prog_of]. unfold p_control. cbn [run_prog exec_act res_b].
  destruct (w_listed w) eqn:Hl; cbn [negb].
  - destruct H as [H|H]; [discriminate|]. rewrite H. cbn. tauto.
  - cbn. tauto.
Qed.

Lemma api_all_ok l : Forall (fun qo : req * oracle => api_req (fst qo)) l -> Forall (fun qo => req_ok (fst qo)) l.
Proof. intro H. eapply Forall_impl; [|exact H]. intros a Ha. apply api_req_ok. exact Ha. Qed.

Lemma J_listed st : J (mkWorld st true) -> st <> sDONE.
Proof. intros H E. specialize (H E). discriminate. Qed.

(* every read of the FSM state in TryTransition, ForceError and TeardownEnvironment lies after the
   transition mutex is taken (counted by the translator in the source of this run) *)
Lemma state_read_under_mutex : env_prelock_state_reads = 0.
Proof. vm_compute. reflexivity. Qed.

(* in the source of this run nothing leaves RpcServer.ControlEnvironment between the requested
   TryTransition and the fallback to ERROR, and nothing after the transition looks at the caller's
   context (counted by the translator): p_control has no such input *)
Lemma control_fallback_unconditional :
  env_control_exits_before_fallback = 0 /\ env_control_ctx_uses_after_transition = 0.
Proof. vm_compute. split; reflexivity. Qed.

(* in the source of this run none of the four callbacks loses the error of its negative-weight hook
   pass before e.Cancel (counted by the translator): a critical hook failing in either pass of a
   moment is "the hook of that moment fails" of the model *)
Lemma hook_errors_not_lost : env_hook_errors_lost = 0.
Proof. vm_compute. reflexivity. Qed.
