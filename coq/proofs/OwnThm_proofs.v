(* The statements behind props/C04.v and props/C06.v, derived from the step-level facts of
   OwnInv_proofs.v. *)
From Verif Require Import Gen_DoKill Gen_Claimable Gen_CleanupAtomic Common Ownership Ownership_proofs Teardown Teardown_proofs OwnSpec OwnInv_proofs.
Open Scope N_scope.

Lemma option_eq_dec_N (a b : option N) : {a = b} + {a <> b}.
Proof. decide equality. apply N.eq_dec. Qed.

(* ================================================================== C04: frame *)
Section Frame.
  Variables (s s' : st) (o : op) (u : out).
  Hypothesis R : reachable s.
  Hypothesis W : wf_op s o = true.
  Hypothesis Q : is_request o = true.
  Hypothesis E : step s o = (s', u).

  Lemma frame_pick : forall e', op_env o <> Some e' -> exists e, e <> e' /\ framed2 e s s' u.
  Proof.
    intros e' Hne. pose proof (reachable_inv s R) as I.
    destruct (step_spec s o s' u I W E) as [_ F]. specialize (F Q). unfold frame_of in F.
    destruct (op_env o) as [e|].
    - exists e. split; [congruence|exact F].
    - exists (e' + 1). split; [lia|apply F].
  Qed.

  Lemma frame_tasks : forall t e', In t (s_roster s) -> t_owner t = Some e' -> t_idok t = true ->
                                   op_env o <> Some e' -> In t (s_roster s').
  Proof.
    intros t e' Hin Ho Hk Hne. destruct (frame_pick e' Hne) as [e [Hd [F1 _]]].
    eapply F1; eauto.
  Qed.

  Lemma frame_touch : forall k, In k (ks u) -> forall t e', In t (s_roster s) -> t_id t = k ->
                                t_owner t = Some e' -> t_idok t = true -> op_env o = Some e'.
  Proof.
    intros k Hk t e' Hin Eid Ho Hok.
    destruct (option_eq_dec_N (op_env o) (Some e')) as [Heq|Hne]; [exact Heq|exfalso].
    destruct (frame_pick e' Hne) as [e [Hd [_ [F2 _]]]].
    apply Hd. symmetry. eapply F2; eauto.
  Qed.

  Lemma frame_kills : forall k, In k (o_kills u) -> forall t e', In t (s_roster s) -> t_id t = k ->
                                t_owner t = Some e' -> t_idok t = true -> op_env o = Some e'.
  Proof. intros k Hk. apply frame_touch. unfold ks. apply in_or_app. left. exact Hk. Qed.

  Lemma frame_cmds : forall k, In k (o_cmds u) -> forall t e', In t (s_roster s) -> t_id t = k ->
                               t_owner t = Some e' -> t_idok t = true -> op_env o = Some e'.
  Proof. intros k Hk. apply frame_touch. unfold ks. apply in_or_app. right. exact Hk. Qed.

  Lemma frame_envs : forall x, In x (s_envs s) -> op_env o <> Some (e_id x) -> In x (s_envs s').
  Proof.
    intros x Hin Hne. destruct (frame_pick (e_id x) Hne) as [e [Hd [_ [_ F3]]]].
    apply F3; auto.
  Qed.
End Frame.

(* ================================================================== C04: cleanup / kill of unowned tasks *)
Lemma cleanup_safe s o s' u :
  reachable s -> (o = OCleanup \/ exists ids, o = OKill ids) -> step s o = (s', u) ->
  (forall t, In t (s_roster s) -> is_locked t = true -> In t (s_roster s')) /\
  (forall k, In k (o_kills u) -> forall t, In t (s_roster s) -> t_id t = k -> is_locked t = false) /\
  s_envs s' = s_envs s /\ o_cmds u = [].
Proof.
  intros R Ho E.
  assert (W : wf_op s o = true) by (destruct Ho as [->|[ids ->]]; reflexivity).
  assert (Q : is_request o = true) by (destruct Ho as [->|[ids ->]]; reflexivity).
  assert (N : op_env o = None) by (destruct Ho as [->|[ids ->]]; reflexivity).
  repeat split.
  - intros t Hin Hl. apply is_locked_true in Hl. destruct Hl as [[e' Hl] Hok].
    eapply (frame_tasks s s' o u R W Q E); eauto. rewrite N. discriminate.
  - intros k Hk t Hin Eid. destruct (is_locked t) eqn:Hl; [exfalso|reflexivity].
    apply is_locked_true in Hl. destruct Hl as [[e' Hl] Hok].
    pose proof (frame_kills s s' o u R W Q E k Hk t e' Hin Eid Hl Hok) as X. rewrite N in X. discriminate.
  - destruct Ho as [->|[ids ->]]; cbn [step] in E.
    + destruct (cleanup (s_roster s)). injection E as <- <-. reflexivity.
    + destruct (kill_tasks ids (s_roster s)). injection E as <- <-. reflexivity.
  - destruct Ho as [->|[ids ->]]; cbn [step] in E.
    + destruct (cleanup (s_roster s)). injection E as <- <-. reflexivity.
    + destruct (kill_tasks ids (s_roster s)). injection E as <- <-. reflexivity.
Qed.

(* ================================================================== C04: one owner, one task list *)
Lemma claim_exclusive s :
  reachable s ->
  NoDup (map t_id (s_roster s)) /\
  (forall t e, In t (s_roster s) -> t_owner t = Some e -> fst (t_id t) = e) /\
  NoDup (map e_id (s_envs s)) /\
  (forall x t, In x (s_envs s) -> In t (s_roster s) -> t_owner t = Some (e_id x) -> In (t_id t) (bound_tids x)) /\
  (forall x y id, In x (s_envs s) -> In y (s_envs s) -> In id (bound_tids x) -> In id (bound_tids y) -> x = y).
Proof.
  intro R. apply reachable_inv in R. destruct R as [I1 I2 I3 I4 I5 I6].
  repeat split; auto.
  intros x y id Hx Hy Bx By. apply (nodup_map_inj e_id (s_envs s)); auto.
  apply bound_tids_fst in Bx. apply bound_tids_fst in By. congruence.
Qed.

(* ================================================================== C04: the claim path (reuseUnlockedTasks) *)
(* the source fact (gen/Gen_Claimable.v): IsClaimable holds only for a task that is not locked, ACTIVE and
   in STANDBY *)
Lemma claimable_table_sound :
  forallb (fun p => negb (snd p) ||
                    (negb (fst (fst (fst p))) && snd (fst (fst p)) && N.eqb (snd (fst p)) 0)) claimable_table = true.
Proof. vm_compute. reflexivity. Qed.

Lemma claimable_unlocked t :
  claimable t = true -> is_locked t = false /\ t_active t = true /\ t_state t = TS_STANDBY.
Proof.
  unfold claimable. intro H. apply existsb_exists in H. destruct H as [p [Hp Hc]].
  pose proof claimable_table_sound as S. rewrite forallb_forall in S. specialize (S p Hp).
  apply andb_true_iff in Hc. destruct Hc as [Hc Hres]. apply andb_true_iff in Hc. destruct Hc as [Hc Hst].
  apply andb_true_iff in Hc. destruct Hc as [Hl Ha].
  rewrite Hres in S. cbn [negb orb] in S. apply andb_true_iff in S. destruct S as [S S3].
  apply andb_true_iff in S. destruct S as [S1 S2].
  apply Bool.eqb_prop in Hl. apply Bool.eqb_prop in Ha. apply N.eqb_eq in Hst. apply N.eqb_eq in S3.
  apply negb_true_iff in S1. repeat split; try congruence.
  destruct (N.leb (t_state t) 3) eqn:E3; [unfold TS_STANDBY; congruence|]. rewrite Hst in S3. discriminate.
Qed.

Lemma first_claimable_spec ch r id :
  first_claimable ch r = Some id -> exists t, In t r /\ t_id t = id /\ claimable t = true /\ t_ch t = ch.
Proof.
  induction r as [|a r IH]; cbn [first_claimable]; [discriminate|].
  destruct (claimable a && N.eqb (t_ch a) ch) eqn:E.
  - intro H. injection H as <-. apply andb_true_iff in E. destruct E as [E1 E2]. apply N.eqb_eq in E2.
    exists a. repeat split; auto. left. reflexivity.
  - intro H. destruct (IH H) as [t [H1 H2]]. exists t. split; [right; exact H1|exact H2].
Qed.

(* a creation claims only tasks that no environment holds: not locked, ACTIVE, in STANDBY, of the wanted
   class on the wanted host *)
Lemma claims_unowned c r j id :
  In (j, id) (claims c r) ->
  exists t, In t r /\ t_id t = id /\ is_locked t = false /\ t_active t = true /\ t_state t = TS_STANDBY /\
            exists ro, In (j, ro) (iroles (c_roles c)) /\ t_ch t = r_ch ro /\ r_ch ro <> 0.
Proof.
  unfold claims. intro H. apply in_flat_map in H. destruct H as [ir [Hir H]].
  destruct (r_kind (snd ir)); try contradiction.
  destruct (N.eqb (r_ch (snd ir)) 0) eqn:E0; [contradiction|].
  destruct (first_claimable (r_ch (snd ir)) r) as [id'|] eqn:Ef; [|contradiction].
  destruct H as [H|[]]. injection H as <- <-.
  destruct (first_claimable_spec _ _ _ Ef) as [t [H1 [H2 [H3 H4]]]].
  destruct (claimable_unlocked t H3) as [L [A S]].
  exists t. repeat split; auto. exists (snd ir). repeat split; auto.
  - destruct ir; exact Hir.
  - apply N.eqb_neq, E0.
Qed.

(* ================================================================== C04: detectors *)
Lemma memN_In k l : memN k l = true <-> In k l.
Proof.
  unfold memN. rewrite existsb_exists. split.
  - intros [x [Hx E]]. apply N.eqb_eq in E. subst. exact Hx.
  - intro H. exists k. split; [exact H|apply N.eqb_refl].
Qed.

Lemma nodupb_N l : nodupb N.eqb l = true -> NoDup l.
Proof.
  induction l as [|a l IH]; cbn [nodupb]; [constructor|].
  intro H. apply andb_true_iff in H. destruct H as [H1 H2]. constructor; [|apply IH, H2].
  intro Hin. apply negb_true_iff in H1. rewrite <- not_true_iff_false in H1. apply H1.
  apply existsb_exists. exists a. split; [exact Hin|apply N.eqb_refl].
Qed.

Lemma active_dets_upd e f l : keeps_shape f -> active_dets (upd_env e f l) = active_dets l.
Proof.
  intro Hf. unfold active_dets, upd_env. induction l as [|x l IH]; cbn [map flat_map]; [reflexivity|].
  rewrite IH. destruct (N.eqb (e_id x) e); [|reflexivity]. destruct (Hf x) as [_ [_ [_ ->]]]. reflexivity.
Qed.

Lemma nodup_flat_filter {A B} (f : A -> list B) (p : A -> bool) l :
  NoDup (flat_map f l) -> NoDup (flat_map f (filter p l)).
Proof.
  induction l as [|a l IH]; cbn [flat_map filter]; [auto|].
  intro H. destruct (p a); cbn [flat_map].
  - apply nodup_app.
    + clear IH. induction (f a) as [|b m IHm]; [constructor|]. cbn [app] in H. inversion H; subst.
      constructor; [|apply IHm; assumption]. intro X. apply H2. apply in_or_app. left. exact X.
    + apply IH. apply nodup_app_r in H. exact H.
    + intros x H1 H2. apply in_flat_map in H2. destruct H2 as [y [Hy Hxy]]. apply filter_In in Hy.
      assert (In x (flat_map f l)) by (apply in_flat_map; exists y; tauto).
      clear -H H1 H0. induction (f a) as [|b m IHm]; [contradiction|]. cbn [app] in H. inversion H; subst.
      destruct H1 as [->|H1]; [apply H4; apply in_or_app; right; exact H0|apply IHm; assumption].
  - apply IH. apply nodup_app_r in H. exact H.
Qed.

Lemma lmoves_dets e l l' : lmoves e l l' -> NoDup (active_dets l) -> NoDup (active_dets l').
Proof.
  induction 1 as [l|l l' f H IH Hf|l l' H IH]; intro Hnd; auto.
  - rewrite active_dets_upd by exact Hf. auto.
  - unfold remove_env, active_dets. apply nodup_flat_filter. apply IH, Hnd.
Qed.

(* the listing after the second half of a creation *)
Lemma finish0_envs e c s s' u ad :
  finish0 e c s = (s', u) -> assocN e (s_snaps s) = Some ad ->
  s_snaps s' = remove_snap e (s_snaps s) /\
  (lmoves e (s_envs s) (s_envs s') \/
   exists x, e_id x = e /\ e_dets x = c_dets c /\ lmoves e (s_envs s ++ [x]) (s_envs s') /\
             forall d, In d (c_dets c) -> ~ In d ad).
Proof.
  unfold finish0. intros H Ea. rewrite Ea in H.
  set (s0 := mkSt (s_envs s) (s_roster s) (remove_snap e (s_snaps s))) in *.
  destruct (N.leb 1 (c_fail c) && N.leb (c_fail c) 3).
  { injection H as <- <-. split; [reflexivity|left; constructor]. }
  destruct (existsb (fun d => memN d ad) (c_dets c)) eqn:Ex.
  { injection H as <- <-. split; [reflexivity|left; constructor]. }
  assert (Hfree : forall d, In d (c_dets c) -> ~ In d ad).
  { intros d Hd Hin. rewrite <- not_true_iff_false in Ex. apply Ex. apply existsb_exists.
    exists d. split; [exact Hd|apply memN_In, Hin]. }
  assert (T : forall x sm cmds l, e_id x = e -> e_dets x = c_dets c ->
              s_envs sm = s_envs s ++ [x] -> s_snaps sm = remove_snap e (s_snaps s) ->
              create_tail x sm cmds l = (s', u) ->
              s_snaps s' = remove_snap e (s_snaps s) /\
              (lmoves e (s_envs s) (s_envs s') \/
               exists x, e_id x = e /\ e_dets x = c_dets c /\ lmoves e (s_envs s ++ [x]) (s_envs s') /\
                         forall d, In d (c_dets c) -> ~ In d ad)).
  { intros x sm cmds l X1 X2 X3 X4 Hc. apply create_tail_good in Hc. destruct Hc as [[_ [B [C _]]] _].
    split; [congruence|]. right. exists x. rewrite X1, X3 in B. auto. }
  destruct (N.eqb (c_fail c) 4).
  { eapply T; [| | | |exact H]; reflexivity. }
  destruct (N.eqb (c_fail c) 6).
  { eapply T; [| | | |exact H]; reflexivity. }
  destruct (existsb _ (c_roles c) || N.eqb (c_fail c) 5).
  { eapply T; [| | | |exact H]; reflexivity. }
  destruct (existsb _ (c_roles c)).
  { eapply T; [| | | |exact H]; reflexivity. }
  injection H as <- <-. split; [reflexivity|]. right.
  eexists. split; [|split; [|split; [constructor|exact Hfree]]]; reflexivity.
Qed.

Lemma finish_envs e c s s' u ad :
  finish e c s = (s', u) -> assocN e (s_snaps s) = Some ad ->
  s_snaps s' = remove_snap e (s_snaps s) /\
  (lmoves e (s_envs s) (s_envs s') \/
   exists x, e_id x = e /\ e_dets x = c_dets c /\ lmoves e (s_envs s ++ [x]) (s_envs s') /\
             forall d, In d (c_dets c) -> ~ In d ad).
Proof.
  unfold finish. intros H Ea. rewrite Ea in H.
  set (cl := claims c (s_roster s)) in *.
  destruct (negb (c_reuse c) || negb (N.eqb (c_fail c) 0 || N.eqb (c_fail c) 5) ||
            existsb (fun d => memN d ad) (c_dets c) || match cl with [] => true | _ => false end).
  { eapply finish0_envs; eauto. }
  destruct (finish0 e (without_claimed cl c) s) as [s2 u2] eqn:E0.
  destruct (kill_tasks (map snd cl) (s_roster s2)) as [r3 k3]. injection H as <- _.
  apply (finish0_envs e (without_claimed cl c) s s2 u2 ad E0 Ea).
Qed.

Record sinv (s : st) : Prop := mkSinv {
  sinv_inv : inv s;
  sinv_snaps : s_snaps s = [];
  sinv_dets : NoDup (active_dets (s_envs s))
}.

Lemma active_dets_app l x : active_dets (l ++ [x]) = active_dets l ++ e_dets x.
Proof. unfold active_dets. rewrite flat_map_app. cbn. rewrite app_nil_r. reflexivity. Qed.

Lemma serial_step s o s' u :
  sinv s -> wf_op s o = true -> serial_op o = true -> step s o = (s', u) -> sinv s'.
Proof.
  intros [I S D] W Sr E.
  pose proof (step_spec s o s' u I W E) as [I' _].
  constructor; [exact I'| |].
  - destruct o as [e missing|e c|e c|e ev fail|e force allow keep tfail| |ids|t|fids|rids|rt| |sids|];
      cbn [step serial_op] in *; try discriminate.
    + destruct (N.eqb (c_fail c) 1).
      { unfold snap in E. injection E as <- <-. exact S. }
      unfold snap in E. destruct (cleanup (s_roster s)) as [r' k].
      cbv iota beta in E. set (s1 := mkSt (s_envs s) r' _) in E. destruct (finish e c s1) as [s2 o2] eqn:Ef. injection E as <- <-.
      assert (Ea : assocN e (s_snaps s1) = Some (active_dets (s_envs s))).
      { subst s1. cbn [s_snaps assocN]. rewrite N.eqb_refl. reflexivity. }
      destruct (finish_envs e c s1 s2 o2 _ Ef Ea) as [Hs _]. rewrite Hs. subst s1. cbn [s_snaps].
      rewrite S. cbn [remove_snap filter fst]. rewrite N.eqb_refl. reflexivity.
    + apply control_good in E. destruct E as [_ [_ [C _]]]. congruence.
    + apply destroy_good in E. destruct E as [_ [_ [C _]]]. congruence.
    + destruct (cleanup (s_roster s)). injection E as <- <-. exact S.
    + destruct (kill_tasks ids (s_roster s)). injection E as <- <-. exact S.
    + injection E as <- <-. exact S.
    + injection E as <- <-. exact S.
    + injection E as <- <-. exact S.
    + injection E as <- <-. exact S.
    + injection E as <- <-. exact S.
    + rewrite stale_cleanup_is_kill in E. destruct (kill_tasks sids (s_roster s)). injection E as <- <-. exact S.
    + injection E as <- <-. exact S.
  - destruct o as [e missing|e c|e c|e ev fail|e force allow keep tfail| |ids|t|fids|rids|rt| |sids|];
      cbn [step serial_op wf_op] in *; try discriminate.
    + apply andb_true_iff in W. destruct W as [_ Wd]. apply nodupb_N in Wd.
      destruct (N.eqb (c_fail c) 1).
      { unfold snap in E. injection E as <- <-. exact D. }
      unfold snap in E. destruct (cleanup (s_roster s)) as [r' k].
      cbv iota beta in E. set (s1 := mkSt (s_envs s) r' _) in E. destruct (finish e c s1) as [s2 o2] eqn:Ef. injection E as <- <-.
      assert (Ea : assocN e (s_snaps s1) = Some (active_dets (s_envs s))).
      { subst s1. cbn [s_snaps assocN]. rewrite N.eqb_refl. reflexivity. }
      destruct (finish_envs e c s1 s2 o2 _ Ef Ea) as [_ [Hl|[x [X1 [X2 [Hl Hfree]]]]]].
      * eapply lmoves_dets; [exact Hl|]. subst s1. exact D.
      * eapply lmoves_dets; [exact Hl|]. subst s1. cbn [s_envs]. rewrite active_dets_app, X2.
        apply nodup_app; auto. intros d H1 H2. apply (Hfree d H2 H1).
    + apply control_good in E. destruct E as [_ [B _]]. eapply lmoves_dets; eauto.
    + apply destroy_good in E. destruct E as [_ [B _]]. eapply lmoves_dets; eauto.
    + destruct (cleanup (s_roster s)). injection E as <- <-. exact D.
    + destruct (kill_tasks ids (s_roster s)). injection E as <- <-. exact D.
    + injection E as <- <-. exact D.
    + injection E as <- <-. exact D.
    + injection E as <- <-. exact D.
    + injection E as <- <-. exact D.
    + injection E as <- <-. exact D.
    + rewrite stale_cleanup_is_kill in E. destruct (kill_tasks sids (s_roster s)). injection E as <- <-. exact D.
    + injection E as <- <-. exact D.
Qed.

Lemma serial_run ops : forall s, sinv s -> valid_hist s ops = true -> forallb serial_op ops = true ->
                                 sinv (run s ops).
Proof.
  induction ops as [|o r IH]; intros s I V Sr; cbn [run]; [exact I|].
  cbn [valid_hist forallb] in *. apply andb_true_iff in V. destruct V as [W V].
  apply andb_true_iff in Sr. destruct Sr as [S1 S2].
  apply IH; auto. destruct (step s o) as [s' u] eqn:E. eapply serial_step; eauto.
Qed.

Lemma reachable_serial_sinv s : reachable_serial s -> sinv s.
Proof.
  intros [ops [V [Sr ->]]]. apply serial_run; auto.
  constructor; [apply inv_st0|reflexivity|constructor].
Qed.

Lemma reachable_serial_reachable s : reachable_serial s -> reachable s.
Proof. intros [ops [V [_ E]]]. exists ops. auto. Qed.

Lemma detector_seq s : reachable_serial s -> NoDup (active_dets (s_envs s)).
Proof. intro R. apply reachable_serial_sinv in R. apply R. Qed.

(* a creation that needs a detector in use fails and changes nothing but the unowned tasks *)
Lemma detector_conflict s e c s' u d :
  reachable_serial s -> wf_op s (OCreate e c) = true ->
  In d (c_dets c) -> In d (active_dets (s_envs s)) ->
  step s (OCreate e c) = (s', u) ->
  o_rc u = 1 /\ s_envs s' = s_envs s /\ o_cmds u = [] /\ o_launch u = [] /\
  (forall t, In t (s_roster s) -> is_locked t = true -> In t (s_roster s')) /\
  (forall k, In k (o_kills u) -> forall t, In t (s_roster s) -> t_id t = k -> is_locked t = false).
Proof.
  intros R W Hd Ha E.
  pose proof (reachable_serial_sinv s R) as [I S D].
  pose proof (reachable_serial_reachable s R) as R'.
  assert (Hrest : o_rc u = 1 /\ s_envs s' = s_envs s /\ o_cmds u = [] /\ o_launch u = []).
  { cbn [step] in E. destruct (N.eqb (c_fail c) 1).
    { unfold snap in E. injection E as <- <-. auto. }
    unfold snap in E. destruct (cleanup (s_roster s)) as [r' k].
    assert (Hex : existsb (fun d0 => memN d0 (active_dets (s_envs s))) (c_dets c) = true).
    { apply existsb_exists. exists d. split; [exact Hd|apply memN_In, Ha]. }
    cbv iota beta in E. unfold finish in E. cbn [s_snaps assocN] in E. rewrite N.eqb_refl in E.
    rewrite Hex in E. rewrite orb_true_r in E. cbn [orb] in E.
    unfold finish0 in E. cbn [s_snaps assocN] in E. rewrite N.eqb_refl in E.
    destruct (N.leb 1 (c_fail c) && N.leb (c_fail c) 3).
    { injection E as <- <-. auto. }
    rewrite Hex in E. injection E as <- <-. auto. }
  destruct Hrest as [H1 [H2 [H3 H4]]]. repeat split; auto.
  - intros t Hin Hl. apply is_locked_true in Hl. destruct Hl as [[e' Hl] Hok].
    eapply (frame_tasks s s' _ u R' W eq_refl E); eauto. cbn [op_env]. intro X. injection X as ->.
    cbn [wf_op] in W. apply andb_true_iff in W. destruct W as [W _]. apply negb_true_iff in W.
    apply usedb_false in W. destruct W as [_ [U2 _]]. apply (U2 t Hin). eapply inv_owner; eauto.
  - intros k Hk t Hin Eid. destruct (is_locked t) eqn:Hl; [exfalso|reflexivity].
    apply is_locked_true in Hl. destruct Hl as [[e' Hl] Hok].
    pose proof (frame_kills s s' _ u R' W eq_refl E k Hk t e' Hin Eid Hl Hok) as X. cbn [op_env] in X.
    injection X as ->.
    cbn [wf_op] in W. apply andb_true_iff in W. destruct W as [W _]. apply negb_true_iff in W.
    apply usedb_false in W. destruct W as [_ [U2 _]]. apply (U2 t Hin). eapply inv_owner; eauto.
Qed.

(* the race: both creations take their snapshot before either is listed *)
Definition race_spec : cspec := mkSpec [0] 0 [mkRole RPlain true 0 false 0] [] false.
Definition race_ops : list op := [OSnap 0 false; OCreate 1 race_spec; OFinish 0 race_spec].

Lemma detector_race : valid_hist st0 race_ops = true /\
                      ~ NoDup (active_dets (s_envs (run st0 race_ops))).
Proof.
  split; [vm_compute; reflexivity|]. vm_compute. intro H. inversion H as [|x l Hnin _]; subst.
  apply Hnin. left. reflexivity.
Qed.

Lemma detector_exclusive_refuted :
  ~ (forall s, reachable s -> NoDup (active_dets (s_envs s))).
Proof.
  intro H. destruct detector_race as [V N]. apply N. apply H. exists race_ops. auto.
Qed.

(* ================================================================== C06 *)
Definition own3 (t : task) := (t_id t, t_owner t, t_active t, t_kill t).

Lemma command_same e tg rf dst r : map own3 (command e tg rf dst r) = map own3 r.
Proof.
  unfold command. rewrite map_map. apply map_ext. intro t.
  destruct (owner_is e t && mem_tid (t_id t) tg && negb (mem_tid (t_id t) rf)); reflexivity.
Qed.

Lemma active_in_same r r' id : map own3 r = map own3 r' -> active_in r id = active_in r' id.
Proof.
  unfold active_in, find_task. revert r'. induction r as [|a r IH]; intros [|b r'] H; cbn [map] in H; try discriminate.
  - reflexivity.
  - unfold own3 at 1 3 in H. injection H as E1 E2 E3 E4 H2. cbn [find]. rewrite E1.
    destruct (tid_eqb (t_id b) id); [exact E3|apply IH, H2].
Qed.

Lemma same_In r r' t : map own3 r = map own3 r' -> In t r ->
  exists t', In t' r' /\ t_id t' = t_id t /\ t_owner t' = t_owner t /\ (t_active t' = t_active t /\ t_kill t' = t_kill t).
Proof.
  intros H Hin. apply (in_map own3) in Hin. rewrite H in Hin. apply in_map_iff in Hin.
  destruct Hin as [t' [E Ht']]. unfold own3 in E. injection E as E1 E2 E3 E4. exists t'. auto.
Qed.

Lemma release_active e ids r id : active_in (fst (release e ids r)) id = active_in r id.
Proof.
  unfold active_in, find_task. induction r as [|a r IH]; cbn [release]; [reflexivity|].
  destruct (release e ids r) as [r'' n]. cbn [fst] in IH.
  destruct (mem_tid (t_id a) ids); [destruct (t_owner a) as [o|]; [destruct (N.eqb o e || negb (t_idok a))|]|];
    cbn [fst find set_owner t_id t_active]; destruct (tid_eqb (t_id a) id); auto.
Qed.

Lemma release_fwd e ids r t : In t r ->
  exists t', In t' (fst (release e ids r)) /\ t_id t' = t_id t /\ (t_active t' = t_active t /\ t_kill t' = t_kill t).
Proof.
  induction r as [|a r IH]; cbn [In release]; [tauto|].
  destruct (release e ids r) as [r'' n]. cbn [fst] in IH.
  intros [->|Hin].
  - destruct (mem_tid (t_id t) ids); [destruct (t_owner t) as [o|]; [destruct (N.eqb o e || negb (t_idok t))|]|]; cbn [fst];
      eexists; (split; [left; reflexivity|split; [reflexivity|split; reflexivity]]).
  - destruct (IH Hin) as [t' [H1 H2]].
    destruct (mem_tid (t_id a) ids); [destruct (t_owner a) as [o|]; [destruct (N.eqb o e || negb (t_idok a))|]|]; cbn [fst];
      exists t'; (split; [right; exact H1|exact H2]).
Qed.

(* tasks launched for [e] are owned by [e] or by nobody *)
Definition eown (e : N) (r : roster) : Prop :=
  forall t, In t r -> fst (t_id t) = e -> t_owner t = None \/ t_owner t = Some e.

Lemma eown_inv e s : inv s -> eown e (s_roster s).
Proof.
  intros I t Hin Hf. destruct (t_owner t) as [o|] eqn:Eo; [right|left; reflexivity].
  rewrite (inv_owner s I t o Hin Eo) in Hf. congruence.
Qed.

Lemma eown_release e ids r : eown e r -> eown e (fst (release e ids r)).
Proof.
  intros H t' Hin Hf. apply release_spec in Hin. destruct Hin as [Hin|[t [Ht [_ [_ ->]]]]]; [auto|].
  left. reflexivity.
Qed.

Lemma release_ok e ids r : eown e r -> (forall id, In id ids -> fst id = e) -> snd (release e ids r) = 0.
Proof.
  intros H Hids. apply release_no_error. intros t Hin Hm. apply H; [exact Hin|].
  apply Hids. apply mem_tid_In, Hm.
Qed.

(* the shape of an environment that the teardown looks at *)
Lemma merged_shape x x' :
  e_id x = e_id x' -> e_roles x = e_roles x' -> e_bound x = e_bound x' -> merged x = merged x'.
Proof.
  intros H1 H2 H3. unfold merged, merged_at, hooks_at, all_weights. rewrite H2, H3. reflexivity.
Qed.

Lemma last_snoc {A} (l : list A) a d : last (l ++ [a]) d = a.
Proof.
  induction l as [|x l IH]; [reflexivity|]. cbn [app]. destruct (l ++ [a]) eqn:E.
  - destruct l; discriminate.
  - rewrite <- E. cbn. rewrite E in *. exact IH.
Qed.

Lemma last_in_some {A} (ls : list (list A)) x : In x (last ls []) -> exists l, In l ls /\ In x l.
Proof.
  induction ls as [|a ls IH]; [intros []|]. destruct ls as [|b ls'].
  - cbn [last]. intro H. exists a. split; [left; reflexivity|exact H].
  - intro H. change (last (a :: b :: ls') []) with (last (b :: ls') []) in H.
    destruct (IH H) as [l [H1 H2]]. exists l. split; [right; exact H1|exact H2].
Qed.

Lemma teardown_ok_shape force e s :
  td_ok (teardown force e s) = true ->
  exists x, find_env e (s_envs s) = Some x /\
    let groups := merged x in
    let hooktids := flat_map (group_tasks e) groups in
    let torelease := filter (fun id => negb (mem_tid id hooktids)) (bound_tids x) in
    let r1 := fst (release e torelease (s_roster s)) in
    let lastmsg := hooktids in
    td_st (teardown force e s) = mkSt (remove_env e (s_envs s)) (fst (release e lastmsg r1)) (s_snaps s) /\
    td_hookr (teardown force e s) = Some r1.
Proof.
  unfold teardown. destruct (find_env e (s_envs s)) as [x|]; cbn [td_ok]; [|discriminate].
  destruct (N.eqb (e_state x) ES_DONE); cbn [td_ok]; [discriminate|].
  destruct (negb force && negb (N.eqb (e_state x) ES_STANDBY || N.eqb (e_state x) ES_DEPLOYED)); cbn [td_ok];
    [discriminate|].
  destruct (release e _ (s_roster s)) as [r1 n1] eqn:E1.
  destruct (negb (N.eqb n1 0)); cbn [td_ok]; [discriminate|].
  cbn [fst].
  match goal with |- context [release e ?m r1] => destruct (release e m r1) as [r2 n2] eqn:E2 end.
  destruct (negb (N.eqb n2 0)); cbn [td_ok]; [discriminate|].
  intros _. exists x. split; [reflexivity|]. cbv zeta. rewrite E1. cbn [fst]. rewrite E2. cbn [fst td_st td_hookr].
  split; reflexivity.
Qed.

(* a successful teardown in a state satisfying the invariant releases every task of the environment *)
Lemma teardown_releases force e s x :
  inv s -> find_env e (s_envs s) = Some x ->
  td_ok (teardown force e s) = true ->
  s_envs (td_st (teardown force e s)) = remove_env e (s_envs s) /\
  s_snaps (td_st (teardown force e s)) = s_snaps s /\
  (forall t, In t (s_roster (td_st (teardown force e s))) -> owner_is e t = false) /\
  (forall t, In t (s_roster s) -> exists t', In t' (s_roster (td_st (teardown force e s))) /\
                                             t_id t' = t_id t /\ (t_active t' = t_active t /\ t_kill t' = t_kill t)) /\
  eown e (s_roster (td_st (teardown force e s))).
Proof.
  intros I Ef Hok. destruct (teardown_ok_shape force e s Hok) as [x' [Ef' [Hst _]]].
  rewrite Ef in Ef'. injection Ef' as <-. cbv zeta in Hst. rewrite Hst. cbn [s_envs s_roster s_snaps].
  pose proof (find_env_id _ _ _ Ef) as Ex. apply find_env_In in Ef. destruct Ef as [Hx _].
  set (hooktids := flat_map (group_tasks e) (merged x)) in *.
  set (torelease := filter (fun id => negb (mem_tid id hooktids)) (bound_tids x)) in *.
  set (r1 := fst (release e torelease (s_roster s))) in *.
  split; [reflexivity|]. split; [reflexivity|]. split; [|split].
  - intros t' Hin. destruct (owner_is e t') eqn:Eo; [exfalso|reflexivity].
    apply owner_is_true in Eo.
    assert (H1 : In t' r1).
    { apply release_spec in Hin. destruct Hin as [Hin|[t [_ [_ [_ ->]]]]]; [exact Hin|discriminate]. }
    assert (H0 : In t' (s_roster s)).
    { unfold r1 in H1. apply release_spec in H1. destruct H1 as [H1|[t [_ [_ [_ ->]]]]]; [exact H1|discriminate]. }
    assert (Hb : In (t_id t') (bound_tids x)).
    { eapply inv_bound; eauto. congruence. }
    destruct (mem_tid (t_id t') hooktids) eqn:Eh.
    + pose proof (release_unowns e hooktids r1 t' Hin Eh) as X.
      apply owner_is_true in Eo. congruence.
    + assert (Ht : In (t_id t') torelease).
      { unfold torelease. apply filter_In. split; [exact Hb|]. rewrite Eh. reflexivity. }
      pose proof (release_unowns e torelease (s_roster s) t' H1 (proj2 (mem_tid_In _ _) Ht)) as X.
      apply owner_is_true in Eo. congruence.
  - intros t Hin. destruct (release_fwd e torelease (s_roster s) t Hin) as [t1 [A1 [A2 [A3 A4]]]].
    destruct (release_fwd e hooktids r1 t1 A1) as [t2 [B1 [B2 [B3 B4]]]].
    exists t2. split; [exact B1|]. split; [congruence|]. split; congruence.
  - apply eown_release. apply eown_release. apply eown_inv, I.
Qed.

(* ... and it succeeds whenever it is allowed to start *)
Lemma hooktids_bound x id : In id (flat_map (group_tasks (e_id x)) (merged x)) -> fst id = e_id x.
Proof.
  intro H. apply in_flat_map in H. destruct H as [g [_ H]]. unfold group_tasks in H.
  apply in_map_iff in H. destruct H as [ir [<- _]]. reflexivity.
Qed.

Lemma teardown_succeeds force e s x :
  inv s -> find_env e (s_envs s) = Some x -> e_state x <> ES_DONE ->
  (force = true \/ e_state x = ES_STANDBY \/ e_state x = ES_DEPLOYED) ->
  td_ok (teardown force e s) = true.
Proof.
  intros I Ef Hd Hf. pose proof (find_env_id _ _ _ Ef) as Ex.
  unfold teardown. rewrite Ef.
  destruct (N.eqb (e_state x) ES_DONE) eqn:E1; [apply N.eqb_eq in E1; contradiction|].
  replace (negb force && negb (N.eqb (e_state x) ES_STANDBY || N.eqb (e_state x) ES_DEPLOYED)) with false.
  2:{ destruct force; destruct Hf as [Hf|[Hf|Hf]]; try discriminate; try rewrite Hf; reflexivity. }
  assert (Hbt : forall id, In id (bound_tids x) -> fst id = e).
  { intros id H. apply bound_tids_fst in H. congruence. }
  destruct (release e _ (s_roster s)) as [r1 n1] eqn:R1.
  assert (N1 : n1 = 0).
  { replace n1 with (snd (release e (filter (fun id => negb (mem_tid id (flat_map (group_tasks e) (merged x)))) (bound_tids x)) (s_roster s))) by (rewrite R1; reflexivity).
    apply release_ok; [apply eown_inv, I|]. intros id H. apply filter_In in H. apply Hbt, H. }
  subst n1. cbn [N.eqb negb]. cbv zeta.
  set (lastmsg := flat_map (group_tasks e) (merged x)).
  destruct (release e lastmsg r1) as [r2 n2] eqn:R2.
  assert (N2 : n2 = 0).
  { replace n2 with (snd (release e lastmsg r1)) by (rewrite R2; reflexivity).
    apply release_ok.
    - replace r1 with (fst (release e (filter (fun id => negb (mem_tid id (flat_map (group_tasks e) (merged x)))) (bound_tids x)) (s_roster s))) by (rewrite R1; reflexivity).
      apply eown_release, eown_inv, I.
    - intros id H. unfold lastmsg in H. rewrite <- Ex in H. apply hooktids_bound in H. congruence. }
  subst n2. reflexivity.
Qed.

(* the order fact read off the source (gen/Gen_TdOrder.v): pending calls are cancelled after the
   leave_<state> hooks, the last point of TeardownEnvironment where a pending call can be started *)
Lemma td_cancel_after_leave : before 4 1 = false.
Proof. vm_compute. reflexivity. Qed.

Lemma teardown_left force e s : td_ok (teardown force e s) = true -> td_left (teardown force e s) = 0.
Proof.
  unfold teardown. destruct (find_env e (s_envs s)) as [x|]; cbn [td_ok td_left]; [|discriminate].
  destruct (N.eqb (e_state x) ES_DONE); cbn [td_ok td_left]; [discriminate|].
  destruct (negb force && negb (N.eqb (e_state x) ES_STANDBY || N.eqb (e_state x) ES_DEPLOYED)); cbn [td_ok td_left];
    [discriminate|].
  rewrite td_cancel_after_leave.
  destruct (release e _ (s_roster s)) as [r1 n1].
  destruct (negb (N.eqb n1 0)); cbn [td_ok td_left]; [discriminate|].
  destruct (release e _ r1) as [r2 n2].
  destruct (negb (N.eqb n2 0)); cbn [td_ok td_left]; [discriminate|reflexivity].
Qed.

Lemma teardown_cases force e s :
  inv s ->
  (td_ok (teardown force e s) = false /\ td_st (teardown force e s) = s) \/
  td_ok (teardown force e s) = true.
Proof.
  intro I. destruct (find_env e (s_envs s)) as [x|] eqn:Ef.
  2:{ left. unfold teardown. rewrite Ef. auto. }
  destruct (N.eqb (e_state x) ES_DONE) eqn:E1.
  { left. unfold teardown. rewrite Ef, E1. auto. }
  destruct (negb force && negb (N.eqb (e_state x) ES_STANDBY || N.eqb (e_state x) ES_DEPLOYED)) eqn:E2.
  { left. unfold teardown. rewrite Ef, E1, E2. auto. }
  right. apply (teardown_succeeds force e s x I Ef).
  - intro H. rewrite H in E1. discriminate.
  - destruct force; [left; reflexivity|right]. cbn [negb andb] in E2. apply negb_false_iff in E2.
    apply orb_true_iff in E2. destruct E2 as [E2|E2]; apply N.eqb_eq in E2; auto.
Qed.

Lemma dtc_nothing force keep x s s' u :
  inv s ->
  (forall x1, find_env (e_id x) (s_envs s) = Some x1 ->
              e_roles x1 = e_roles x /\ e_bound x1 = e_bound x) ->
  dtc force keep x s = (s', u) -> o_rc u = 0 ->
  s_envs s' = remove_env (e_id x) (s_envs s) /\ s_snaps s' = s_snaps s /\
  (forall t, In t (s_roster s') -> owner_is (e_id x) t = false) /\ o_pend u = 0 /\
  (keep = false -> forall t, In t (s_roster s) -> t_owner t = Some (e_id x) -> t_kill t <> 2 ->
                   In (t_id t) (o_kills u)).
Proof.
  intros I Hx. unfold dtc. set (e := e_id x) in *.
  set (t1 := teardown force e s).
  set (t := if td_ok t1 || force then t1 else _).
  (* the teardown that counts ran on [s] itself *)
  assert (T : td_ok t = true -> exists f, td_ok (teardown f e s) = true /\ td_st t = td_st (teardown f e s) /\
                                          td_left t = td_left (teardown f e s)).
  { subst t. destruct (td_ok t1) eqn:O1; cbn [orb].
    - intros _. exists force. auto.
    - destruct force.
      + rewrite O1. discriminate.
      + cbn [td_ok td_st td_left]. intro O2. exists true.
        destruct (teardown_cases false e s I) as [[_ Hs]|Hok]; [|fold t1 in Hok; congruence].
        fold t1 in Hs. rewrite Hs in *. auto. }
  destruct (td_ok t) eqn:Ot; cbn [negb].
  2:{ intros H Hrc. injection H as <- <-. discriminate. }
  destruct (T eq_refl) as [f [Hok [Hst Hleft]]].
  destruct (teardown_ok_shape f e s Hok) as [x1 [Ef _]].
  destruct (Hx x1 Ef) as [X1 X2].
  destruct (teardown_releases f e s x1 I Ef Hok) as [R1 [R2 [R3 [R4 R5]]]].
  rewrite <- Hst in *.
  assert (Pend : match find_env e (s_envs (td_st t)) with Some x' => e_pend x' | None => td_left t end = 0).
  { rewrite R1, find_env_remove, Hleft. apply teardown_left, Hok. }
  rewrite Pend.
  destruct keep.
  { intros H _. injection H as <- <-. cbn [o_pend]. repeat split; auto. discriminate. }
  destruct (match bound_tids x with [] => cleanup (s_roster (td_st t)) | _ :: _ => _ end) as [r' k] eqn:Ek.
  intros H Hrc. injection H as <- <-. unfold with_roster. cbn [s_envs s_snaps s_roster o_pend o_kills o_rc] in *.
  repeat split; auto.
  - intros t' Hin. destruct (bound_tids x).
    + apply R3. apply cleanup_sub. rewrite Ek. exact Hin.
    + assert (Hs : In t' (fst (kill_tasks (t0 :: l) (s_roster (td_st t))))) by (rewrite Ek; exact Hin).
      apply kill_from in Hs. destruct Hs as [t2 [H2 [_ [Eo _]]]]. pose proof (R3 t2 H2) as X.
      unfold owner_is in *. rewrite <- Eo. exact X.
  - intros _ t0 Hin Ho Hk2.
    pose proof (find_env_id _ _ _ Ef) as Ex1. apply find_env_In in Ef. destruct Ef as [Hx1 _].
    assert (Hb : In (t_id t0) (bound_tids x)).
    { rewrite (bound_tids_shape x x1) by (auto; congruence). eapply inv_bound; eauto. congruence. }
    destruct (R4 t0 Hin) as [t' [T1 [T2 [T3 T4]]]].
    assert (Hl : is_locked t' = false).
    { apply is_locked_false. destruct (R5 t' T1) as [H|H]; [|left; exact H|].
      - rewrite T2. apply bound_tids_fst in Hb. exact Hb.
      - pose proof (R3 t' T1) as X. apply owner_is_true in H. congruence. }
    destruct (bound_tids x) as [|i ids] eqn:Eb; [contradiction|].
    assert (Hm : mem_tid (t_id t') (i :: ids) = true) by (apply mem_tid_In; rewrite T2; exact Hb).
    assert (Herr : kill_tasks_err (i :: ids) (s_roster (td_st t)) = false).
    { destruct (kill_tasks_err (i :: ids) (s_roster (td_st t))); [discriminate|reflexivity]. }
    assert (Hnr : kill_refused t' = false).
    { unfold kill_tasks_err in Herr. rewrite <- not_true_iff_false in Herr.
      destruct (kill_refused t') eqn:Er; [|reflexivity]. exfalso. apply Herr. apply existsb_exists.
      exists t'. split; [exact T1|]. unfold kill_selected. rewrite Hm, Hl, Er.
      assert (N.eqb (t_kill t') 2 = false) by (apply N.eqb_neq; congruence). rewrite H. reflexivity. }
    rewrite <- T2. replace k with (snd (kill_tasks (i :: ids) (s_roster (td_st t)))) by (rewrite Ek; reflexivity).
    apply kill_complete; auto. congruence.
Qed.

Lemma transition_same x dst fail r r' tg ok :
  transition x dst fail r = (r', tg, ok) -> map own3 r' = map own3 r.
Proof. unfold transition. intro H. injection H as <- _ _. apply command_same. Qed.

(* every path through DestroyEnvironment that reports success ends in doTeardownAndCleanup,
   after transitions that change neither owners nor statuses *)
Definition dshape (e : N) (keep : bool) (x : env) (s s' : st) (u : out) : Prop :=
  exists s1 f k o2 K,
    map own3 (s_roster s1) = map own3 (s_roster s) /\ good e s s1 K /\
    dtc f k x s1 = (s', o2) /\ o_rc o2 = 0 /\ o_pend u = o_pend o2 /\
    (forall id, In id (o_kills o2) -> In id (o_kills u)) /\ (keep = false -> k = false).

Lemma destroy_tail_shape e x keep s s1 o1 go_on tf K s' u :
  e_id x = e -> map own3 (s_roster s1) = map own3 (s_roster s) -> good e s s1 K ->
  destroy_tail e x keep s1 o1 go_on tf = (s', u) -> o_rc u = 0 -> dshape e keep x s s' u.
Proof.
  intros Ex Hs G1. unfold destroy_tail.
  assert (Fin : forall s1 o1 f k K,
            map own3 (s_roster s1) = map own3 (s_roster s) -> good e s s1 K -> (keep = false -> k = false) ->
            (let '(s2, o2) := dtc f k x s1 in (s2, out_seq o1 o2)) = (s', u) -> o_rc u = 0 ->
            dshape e keep x s s' u).
  { intros s2 o2' f k K2 Hs2 G Hk H Hrc. destruct (dtc f k x s2) as [s3 o3] eqn:Ed. injection H as <- <-.
    exists s2, f, k, o3, K2. cbn [out_seq o_rc o_pend o_kills] in *. split; [exact Hs2|]. split; [exact G|].
    repeat split; auto. intros id Hid. apply in_or_app. right. exact Hid. }
  destruct (negb go_on).
  { apply (Fin s1 o1 true false K); auto. }
  destruct (find_env e (s_envs s1)) as [x1|] eqn:Ef1.
  2:{ intros H Hrc. injection H as <- <-. discriminate. }
  pose proof (find_env_id _ _ _ Ef1) as Ex1. cbv zeta.
  destruct (negb (N.eqb (e_state x1) ES_CONFIGURED || N.eqb (e_state x1) ES_DEPLOYED || N.eqb (e_state x1) ES_STANDBY)).
  { apply (Fin s1 o1 true false K); auto. }
  destruct (N.eqb (e_state x1) ES_CONFIGURED).
  2:{ apply (Fin s1 o1 false keep K); auto. }
  destruct (transition x1 TS_STANDBY tf (s_roster s1)) as [[r' tg] ok] eqn:Et.
  pose proof (transition_same _ _ _ _ _ _ _ Et) as Hsame.
  apply transition_spec in Et. rewrite Ex1 in Et. destruct Et as [Em Etg].
  destruct ok.
  - apply (Fin _ _ false keep (K ++ tg)); auto; [cbn [s_roster]; congruence|].
    eapply good_trans; [exact G1|]. apply good_mk; auto.
    constructor; [constructor|]. apply keeps_comp; [apply keeps_estate|apply keeps_leave].
  - apply (Fin _ _ true false (K ++ tg)); auto; [cbn [s_roster]; congruence|].
    eapply good_trans; [exact G1|]. apply good_mk; auto. constructor; [constructor|apply keeps_leave].
Qed.

Lemma destroy_shape e force allow keep tfail s s' u x :
  find_env e (s_envs s) = Some x -> destroy e force allow keep tfail s = (s', u) -> o_rc u = 0 ->
  dshape e keep x s s' u.
Proof.
  intros Ef. unfold destroy. rewrite Ef. pose proof (find_env_id _ _ _ Ef) as Ex.
  destruct force.
  { intros H Hrc. exists s, true, keep, u, []. split; [reflexivity|]. split; [apply good_refl|]. repeat split; auto. }
  destruct (allow && N.eqb (e_state x) ES_RUNNING).
  - destruct (transition x TS_CONFIGURED tfail (s_roster s)) as [[r' tg] ok] eqn:Et.
    pose proof (transition_same _ _ _ _ _ _ _ Et) as Hsame.
    apply transition_spec in Et. rewrite Ex in Et. destruct Et as [Em Etg].
    destruct ok; apply (destroy_tail_shape e x keep s _ _ _ _ tg); auto; apply good_mk; auto.
    + constructor; [constructor|]. apply keeps_comp; [apply keeps_estate|apply keeps_leave].
    + constructor; [constructor|apply keeps_leave].
  - apply (destroy_tail_shape e x keep s _ _ _ _ []); auto. apply good_refl.
Qed.

Lemma remove_upd e f l : keeps_shape f -> remove_env e (upd_env e f l) = remove_env e l.
Proof.
  intro Hf. unfold remove_env, upd_env. induction l as [|x l IH]; cbn [map filter]; [reflexivity|].
  destruct (N.eqb (e_id x) e) eqn:E.
  - destruct (Hf x) as [-> _]. rewrite E. cbn [negb]. exact IH.
  - rewrite E. cbn [negb]. rewrite IH. reflexivity.
Qed.

Lemma remove_remove e l : remove_env e (remove_env e l) = remove_env e l.
Proof.
  unfold remove_env. induction l as [|x l IH]; cbn [filter]; [reflexivity|].
  destruct (negb (N.eqb (e_id x) e)) eqn:E; cbn [filter]; [rewrite E, IH; reflexivity|exact IH].
Qed.

Lemma lmoves_remove e l l' : lmoves e l l' -> remove_env e l' = remove_env e l.
Proof.
  induction 1 as [l|l l' f H IH Hf|l l' H IH]; [reflexivity| |].
  - rewrite remove_upd by exact Hf. exact IH.
  - rewrite remove_remove. exact IH.
Qed.

Lemma nothing_left_removed e l r sn :
  (forall t, In t r -> owner_is e t = false) -> nothing_left e (mkSt (remove_env e l) r sn).
Proof.
  intro H. repeat split; cbn [s_envs s_roster]; [apply find_env_remove|exact H|].
  intros x Hx. unfold remove_env in Hx. apply filter_In in Hx. destruct Hx as [_ Hx].
  apply negb_true_iff in Hx. apply N.eqb_neq, Hx.
Qed.

Lemma st_eta s : s = mkSt (s_envs s) (s_roster s) (s_snaps s).
Proof. destruct s; reflexivity. Qed.

(* C06, destroy: full theorem *)
Lemma destroy_nothing_behind s e force allow keep tfail s' u x :
  reachable s -> find_env e (s_envs s) = Some x ->
  step s (ODestroy e force allow keep tfail) = (s', u) -> o_rc u = 0 ->
  nothing_left e s' /\ s_envs s' = remove_env e (s_envs s) /\ o_pend u = 0 /\
  (keep = false -> forall t, In t (s_roster s) -> t_owner t = Some e -> t_kill t <> 2 -> In (t_id t) (o_kills u)).
Proof.
  intros R Ef E Hrc. cbn [step] in E. pose proof (reachable_inv s R) as I.
  pose proof (find_env_id _ _ _ Ef) as Ex.
  destruct (destroy_shape e force allow keep tfail s s' u x Ef E Hrc)
    as [s1 [f [k [o2 [K [Hsame [G [Ed [Hrc2 [Hp [Hk Hkeep]]]]]]]]]]].
  pose proof (good_inv e s s1 K I G) as I1. destruct G as [_ [Gl [Gs _]]].
  assert (Hx : forall x1, find_env (e_id x) (s_envs s1) = Some x1 ->
               e_roles x1 = e_roles x /\ e_bound x1 = e_bound x).
  { intros x1 E1. pose proof (find_env_id _ _ _ E1) as Ex1. apply find_env_In in E1. destruct E1 as [H1 _].
    destruct (lmoves_origin e _ _ Gl x1 H1) as [x0 [A1 [A2 [A3 [A4 _]]]]].
    assert (x0 = x).
    { apply (nodup_map_inj e_id (s_envs s)); [apply I|exact A1|apply (find_env_In _ _ _ Ef)|congruence]. }
    subst x0. split; auto. }
  destruct (dtc_nothing f k x s1 s' o2 I1 Hx Ed Hrc2) as [D1 [D2 [D3 [D4 D5]]]].
  rewrite Ex in *. rewrite (lmoves_remove e _ _ Gl) in D1.
  repeat split; auto.
  - rewrite D1. apply find_env_remove.
  - intros y Hy. rewrite D1 in Hy. unfold remove_env in Hy. apply filter_In in Hy. destruct Hy as [_ Hy].
    apply negb_true_iff in Hy. apply N.eqb_neq, Hy.
  - congruence.
  - intros Hkf t Hin Ho Hk2. apply Hk.
    destruct (same_In (s_roster s) (s_roster s1) t (eq_sym Hsame) Hin) as [t1 [T1 [T2 [T3 [T4 T5]]]]].
    rewrite <- T2. apply (D5 (Hkeep Hkf) t1 T1); congruence.
Qed.

Lemma destroy_leaves_nothing_holds : destroy_leaves_nothing.
Proof.
  intros s e force allow keep tfail s' u R Hl E Hrc. unfold env_listed in Hl.
  destruct (find_env e (s_envs s)) as [x|] eqn:Ef; [|discriminate].
  apply (destroy_nothing_behind s e force allow keep tfail s' u x R Ef E Hrc).
Qed.

(* C06: success is reported only when the environment is gone *)
Lemma dtc_rc0 force keep x s s' u :
  dtc force keep x s = (s', u) -> o_rc u = 0 -> find_env (e_id x) (s_envs s') = None.
Proof.
  unfold dtc. set (e := e_id x). set (t1 := teardown force e s).
  set (t := if td_ok t1 || force then t1 else _).
  assert (T : td_ok t = true -> find_env e (s_envs (td_st t)) = None).
  { subst t. destruct (td_ok t1 || force) eqn:O.
    - intro Hok. destruct (teardown_ok_shape force e s Hok) as [x1 [_ [Hst _]]]. cbv zeta in Hst.
      fold t1 in Hst. rewrite Hst. apply find_env_remove.
    - cbn [td_ok td_st]. intro Hok. destruct (teardown_ok_shape true e (td_st t1) Hok) as [x1 [_ [Hst _]]].
      cbv zeta in Hst. rewrite Hst. apply find_env_remove. }
  destruct (td_ok t); cbn [negb].
  2:{ intros H Hrc. injection H as <- <-. discriminate. }
  specialize (T eq_refl). destruct keep.
  { intros H _. injection H as <- <-. exact T. }
  destruct (match bound_tids x with [] => cleanup (s_roster (td_st t)) | _ :: _ => _ end) as [r' k].
  intros H _. injection H as <- <-. exact T.
Qed.

Lemma destroy_rc0 s e force allow keep tfail s' u :
  step s (ODestroy e force allow keep tfail) = (s', u) -> o_rc u = 0 -> find_env e (s_envs s') = None.
Proof.
  cbn [step]. intros E Hrc. destruct (find_env e (s_envs s)) as [x|] eqn:Ef.
  - destruct (destroy_shape e force allow keep tfail s s' u x Ef E Hrc)
      as [s1 [f [k [o2 [K [_ [_ [Ed [Hrc2 _]]]]]]]]].
    rewrite <- (find_env_id _ _ _ Ef). eapply dtc_rc0; eauto.
  - unfold destroy in E. rewrite Ef in E. injection E as <- <-. discriminate.
Qed.

(* C06: the DESTROY hooks run when only DESTROY hook tasks are still owned *)
Lemma destroy_order force e s x r1 :
  inv s -> find_env e (s_envs s) = Some x -> td_hookr (teardown force e s) = Some r1 ->
  forall t, In t r1 -> owner_is e t = true -> In (t_id t) (destroy_hook_tids x).
Proof.
  intros I Ef Hr t Hin Ho. pose proof (find_env_id _ _ _ Ef) as Ex.
  unfold teardown in Hr. rewrite Ef in Hr.
  destruct (N.eqb (e_state x) ES_DONE); cbn [td_hookr] in Hr; [discriminate|].
  destruct (negb force && negb (N.eqb (e_state x) ES_STANDBY || N.eqb (e_state x) ES_DEPLOYED));
    cbn [td_hookr] in Hr; [discriminate|].
  destruct (release e _ (s_roster s)) as [r1' n1] eqn:R1.
  destruct (negb (N.eqb n1 0)); cbn [td_hookr] in Hr; [discriminate|].
  match type of Hr with context [release e ?m r1'] => destruct (release e m r1') as [r2 n2] end.
  assert (r1' = r1) by (destruct (negb (N.eqb n2 0)); cbn [td_hookr] in Hr; congruence). subst r1'.
  unfold destroy_hook_tids. rewrite Ex.
  set (hooktids := flat_map (group_tasks e) (merged x)) in *.
  destruct (mem_tid (t_id t) hooktids) eqn:Eh; [apply mem_tid_In, Eh|exfalso].
  assert (Hr1 : r1 = fst (release e (filter (fun id => negb (mem_tid id hooktids)) (bound_tids x)) (s_roster s)))
    by (rewrite R1; reflexivity).
  rewrite Hr1 in Hin.
  assert (H0 : In t (s_roster s)).
  { pose proof Hin as Hin'. apply release_spec in Hin'. destruct Hin' as [H|[t0 [_ [_ [_ ->]]]]]; [exact H|].
    discriminate. }
  assert (Hb : In (t_id t) (bound_tids x)).
  { apply find_env_In in Ef. destruct Ef as [Hx _]. eapply inv_bound; eauto.
    apply owner_is_true in Ho. congruence. }
  assert (Hm : mem_tid (t_id t) (filter (fun id => negb (mem_tid id hooktids)) (bound_tids x)) = true).
  { apply mem_tid_In. apply filter_In. split; [exact Hb|]. rewrite Eh. reflexivity. }
  pose proof (release_unowns e _ _ t Hin Hm) as X. congruence.
Qed.

(* C06, failed creation: partial theorem *)
Lemma in_iroles_role rs ir : In ir (iroles rs) -> In (snd ir) rs.
Proof.
  unfold iroles. generalize 0. induction rs as [|a m IH]; intros n H; cbn [index_from In] in H; [contradiction|].
  destruct H as [<-|H]; [left; reflexivity|right; eapply IH; eauto].
Qed.

Lemma find_env_none_intro e l : (forall y, In y l -> e_id y <> e) -> find_env e l = None.
Proof.
  intro H. unfold find_env. induction l as [|y l IH]; cbn [find]; [reflexivity|].
  destruct (N.eqb (e_id y) e) eqn:E.
  - apply N.eqb_eq in E. exfalso. apply (H y); [left; reflexivity|exact E].
  - apply IH. intros z Hz. apply H. right. exact Hz.
Qed.

Lemma find_env_app_new e l x : (forall y, In y l -> e_id y <> e) -> e_id x = e -> find_env e (l ++ [x]) = Some x.
Proof.
  intros H Ex. unfold find_env. induction l as [|y l IH]; cbn [app find].
  - rewrite Ex, N.eqb_refl. reflexivity.
  - destruct (N.eqb (e_id y) e) eqn:E.
    + apply N.eqb_eq in E. exfalso. apply (H y); [left; reflexivity|exact E].
    + apply IH. intros z Hz. apply H. right. exact Hz.
Qed.

Lemma create_tail_nothing x sm cmds l s' u :
  inv sm -> find_env (e_id x) (s_envs sm) = Some x -> e_state x <> ES_DONE ->
  create_tail x sm cmds l = (s', u) ->
  nothing_left (e_id x) s' /\ (o_rc u = 1 /\ o_pend u = 0) /\ o_launch u = l /\
  (forall t, In t (s_roster sm) -> t_owner t = Some (e_id x) ->
             In (t_id t) (o_kills u) \/ exists t', In t' (s_roster s') /\ t_id t' = t_id t /\ t_owner t' = None).
Proof.
  intros I Ef Hd. unfold create_tail. set (e := e_id x) in *.
  pose proof (teardown_succeeds true e sm x I Ef Hd (or_introl eq_refl)) as Hok.
  destruct (teardown_releases true e sm x I Ef Hok) as [R1 [R2 [R3 [R4 R5]]]].
  set (t := teardown true e sm) in *.
  destruct (kill_tasks (bound_tids x) (s_roster (td_st t))) as [r' k] eqn:Ek.
  intro H; injection H as <- <-. cbn [o_rc o_launch o_kills o_pend].
  split; [|split; [split; [reflexivity|apply teardown_left, Hok]|split; [reflexivity|]]].
  - unfold with_roster. rewrite R1. apply nothing_left_removed.
    intros t' Hin.
    assert (Hs : In t' (fst (kill_tasks (bound_tids x) (s_roster (td_st t))))) by (rewrite Ek; exact Hin).
    apply kill_from in Hs. destruct Hs as [t2 [H2 [_ [Eo _]]]]. pose proof (R3 t2 H2) as X.
    unfold owner_is in *. rewrite <- Eo. exact X.
  - intros t0 Hin Ho.
    assert (Hb : In (t_id t0) (bound_tids x)).
    { apply find_env_In in Ef. destruct Ef as [Hx _]. eapply inv_bound; eauto. }
    destruct (R4 t0 Hin) as [t' [T1 [T2 T3]]].
    assert (Hn : t_owner t' = None).
    { destruct (R5 t' T1) as [H|H]; [|exact H|].
      - rewrite T2. apply bound_tids_fst in Hb. exact Hb.
      - pose proof (R3 t' T1) as X. apply owner_is_true in H. congruence. }
    destruct (kill_or_stay (bound_tids x) (s_roster (td_st t)) t' T1) as [K|[t'' [K1 [K2 K3]]]].
    + left. rewrite Ek in K. cbn [snd] in K. congruence.
    + right. exists t''. rewrite Ek in K1. cbn [fst] in K1. unfold with_roster. cbn [s_roster].
      split; [exact K1|]. split; congruence.
Qed.

Lemma finish0_nothing e c s s' u ad :
  inv s -> assocN e (s_snaps s) = Some ad -> c_fail c <> 6 ->
  finish0 e c s = (s', u) -> o_rc u = 1 ->
  (nothing_left e s' /\ launched_handled s' u) /\ o_pend u = 0.
Proof.
  intros I Ea H6. unfold finish0. rewrite Ea. pose proof (assocN_In _ _ _ Ea) as Hp.
  assert (Rfree : forall t, In t (s_roster s) -> fst (t_id t) <> e).
  { intros t Ht. apply (inv_snap_r s I (e, ad) t Hp Ht). }
  assert (Efree : forall y, In y (s_envs s) -> e_id y <> e).
  { intros y Hy. apply (inv_snap_e s I (e, ad) y Hp Hy). }
  set (s0 := mkSt (s_envs s) (s_roster s) (remove_snap e (s_snaps s))).
  assert (N0 : (nothing_left e s0 /\ launched_handled s0 (out_rc 1)) /\ o_pend (out_rc 1) = 0).
  { split; [|reflexivity]. split; [|intros id []]. repeat split; cbn [s0 s_envs s_roster]; auto.
    - apply find_env_none_intro, Efree.
    - intros t Ht. destruct (owner_is e t) eqn:Eo; [|reflexivity]. apply owner_is_true in Eo.
      exfalso. apply (Rfree t Ht). eapply inv_owner; eauto. }
  destruct (N.leb 1 (c_fail c) && N.leb (c_fail c) 3).
  { intros H _. injection H as <- <-. exact N0. }
  destruct (existsb _ (c_dets c)).
  { intros H _. injection H as <- <-. exact N0. }
  set (x0 := mkEnv e (c_dets c) ES_STANDBY (c_roles c) false 0).
  destruct (N.eqb (c_fail c) 4).
  { set (xe := set_estate ES_ERROR (leave_upd ES_STANDBY (leave_upd ES_STANDBY x0))). intros H _.
    assert (Im : inv (with_envs s0 (s_envs s0 ++ [xe]))).
    { pose proof (inv_launch s e ad xe [] I Hp eq_refl) as L. rewrite app_nil_r in L.
      apply L; [constructor|intros t []]. }
    destruct (create_tail_nothing xe _ [] [] s' u Im) as [A [[_ P0] [B _]]]; auto.
    - cbn [with_envs s_envs s0]. apply find_env_app_new; auto.
    - cbn. discriminate.
    - split; [|exact P0]. split; [exact A|]. intros id Hl. rewrite B in Hl. contradiction. }
  destruct (N.eqb (c_fail c) 6) eqn:E6; [apply N.eqb_eq in E6; contradiction|].
  set (x1 := set_bound x0).
  set (new := map (launch_task e (c_refuse c)) (task_iroles x1)).
  assert (Hids : map t_id new = bound_tids x1).
  { unfold new. rewrite launch_ids. reflexivity. }
  assert (Hnd : NoDup (map t_id new)) by (rewrite Hids; apply bound_tids_nodup).
  assert (IL : forall x, e_id x = e -> e_roles x = e_roles x1 -> e_bound x = true ->
               inv (mkSt (s_envs s ++ [x]) (s_roster s ++ new) (remove_snap e (s_snaps s)))).
  { intros x X1 X2 X3. eapply inv_launch; eauto. intros t Ht. split.
    - unfold new in Ht. apply in_map_iff in Ht. destruct Ht as [ir [<- _]]. reflexivity.
    - rewrite (bound_tids_shape x x1) by (auto). rewrite <- Hids. apply in_map, Ht. }
  (* every launched task is in the roster, owned by the new environment *)
  assert (Hrun : forall id, In id (map (fun ir0 => tid_of e (fst ir0)) (task_iroles x1)) ->
                 exists t, In t new /\ t_id t = id /\ t_owner t = Some e).
  { intros id Hl. apply in_map_iff in Hl. destruct Hl as [ir [<- Hir]].
    exists (launch_task e (c_refuse c) ir). split; [apply in_map, Hir|]. split; reflexivity. }
  assert (Tail : forall xe rm cmds, e_id xe = e -> e_roles xe = c_roles c -> e_bound xe = true -> e_state xe = ES_ERROR ->
                 inv (mkSt (s_envs s0 ++ [xe]) rm (s_snaps s0)) ->
                 map own3 rm = map own3 (s_roster s ++ new) ->
                 create_tail xe (mkSt (s_envs s0 ++ [xe]) rm (s_snaps s0)) cmds
                             (map (fun ir => tid_of e (fst ir)) (task_iroles x1)) = (s', u) ->
                 (nothing_left e s' /\ launched_handled s' u) /\ o_pend u = 0).
  { intros xe rm cmds X1 X2 X3 X4 Im Hsame H.
    destruct (create_tail_nothing xe _ cmds (map (fun ir => tid_of e (fst ir)) (task_iroles x1)) s' u Im) as [A [[_ P0] [B C]]]; auto.
    - cbn [s_envs s0]. rewrite X1. apply find_env_app_new; auto.
    - rewrite X4. discriminate.
    - rewrite X1 in *. split; [|exact P0]. split; [exact A|]. intros id Hl. rewrite B in Hl.
      destruct (Hrun id Hl) as [t [T1 [T2 T3]]].
      destruct (same_In (s_roster s ++ new) rm t (eq_sym Hsame)) as [t' [U1 [U2 [U3 U4]]]].
      { apply in_or_app. right. exact T1. }
      rewrite <- T2, <- U2. apply C; cbn [s_roster]; congruence. }
  destruct (existsb _ (c_roles c) || N.eqb (c_fail c) 5).
  { intros H _. eapply (Tail (set_estate ES_ERROR (leave_upd ES_STANDBY (leave_upd ES_STANDBY x1)))); [| | | | | |exact H]; try reflexivity.
    apply (IL (set_estate ES_ERROR (leave_upd ES_STANDBY (leave_upd ES_STANDBY x1)))); reflexivity. }
  set (r1 := s_roster s0 ++ new).
  set (targets := active_owned_in e (bound_tids x1) r1).
  set (refuse := map _ (filter _ (task_iroles x1))).
  set (r2 := command e targets refuse TS_CONFIGURED r1).
  set (x2 := add_pend (pend_roles x1) (leave_upd ES_DEPLOYED (leave_upd ES_STANDBY x1))).
  destruct (existsb _ (c_roles c)).
  { intros H _. eapply (Tail (set_estate ES_ERROR (leave_upd ES_DEPLOYED x2)) r2); [| | | | | |exact H]; try reflexivity.
    - eapply good_inv; [apply (IL (set_estate ES_ERROR (leave_upd ES_DEPLOYED x2))); reflexivity|].
      apply (good_mk e (mkSt (s_envs s ++ [set_estate ES_ERROR (leave_upd ES_DEPLOYED x2)]) (s_roster s ++ new) (remove_snap e (s_snaps s))) r2 _ []).
      + constructor. constructor.
      + constructor.
      + intros k [].
    - apply command_same. }
  intros H Hrc. injection H as <- <-. discriminate.
Qed.

(* the claim path around the creation: what it adds is a KILL for the claimed tasks *)
Lemma finish_nothing e c s s' u ad :
  inv s -> assocN e (s_snaps s) = Some ad -> c_fail c <> 6 ->
  finish e c s = (s', u) -> o_rc u = 1 ->
  (nothing_left e s' /\ launched_handled s' u) /\ o_pend u = 0.
Proof.
  intros I Ea H6. unfold finish. rewrite Ea.
  set (cl := claims c (s_roster s)).
  destruct (negb (c_reuse c) || negb (N.eqb (c_fail c) 0 || N.eqb (c_fail c) 5) ||
            existsb (fun d => memN d ad) (c_dets c) || match cl with [] => true | _ => false end).
  { eapply finish0_nothing; eauto. }
  destruct (finish0 e (without_claimed cl c) s) as [s2 u2] eqn:E0.
  destruct (kill_tasks (map snd cl) (s_roster s2)) as [r3 k3] eqn:Ek.
  intros H Hrc. injection H as <- <-. cbn [o_rc o_pend o_launch o_kills] in *.
  destruct (finish0_nothing e (without_claimed cl c) s s2 u2 ad I Ea) as [[[A1 [A2 A3]] B] P0]; auto.
  { cbn. discriminate. }
  split; [|exact P0]. split.
  - repeat split; unfold with_roster; cbn [s_envs s_roster]; auto.
    intros t Ht. assert (Hs : In t (fst (kill_tasks (map snd cl) (s_roster s2)))) by (rewrite Ek; exact Ht).
    apply kill_from in Hs. destruct Hs as [t2 [H2 [_ [Eo _]]]]. pose proof (A2 t2 H2) as X.
    unfold owner_is in *. rewrite <- Eo. exact X.
  - intros id Hl. destruct (B id Hl) as [X|[t [Ht [Eid Eo]]]].
    + left. apply in_or_app. left. exact X.
    + destruct (kill_or_stay (map snd cl) (s_roster s2) t Ht) as [K|[t' [K1 [K2 K3]]]].
      * left. apply in_or_app. right. rewrite Ek in K. cbn [snd] in K. congruence.
      * right. exists t'. rewrite Ek in K1. cbn [fst] in K1. unfold with_roster. cbn [s_roster].
        split; [exact K1|]. split; congruence.
Qed.

Lemma create_nothing_behind s e c s' u :
  reachable s -> wf_op s (OCreate e c) = true -> c_fail c <> 6 ->
  step s (OCreate e c) = (s', u) -> o_rc u = 1 ->
  (nothing_left e s' /\ launched_handled s' u) /\ o_pend u = 0.
Proof.
  intros R W H6 E Hrc. pose proof (reachable_inv s R) as I.
  cbn [wf_op] in W. apply andb_true_iff in W. destruct W as [W _]. apply negb_true_iff in W.
  pose proof (usedb_false s e W) as [U1 [U2 U3]].
  cbn [step] in E. destruct (N.eqb (c_fail c) 1).
  { unfold snap in E. injection E as <- <-. split; [|reflexivity]. split; [|intros id []]. repeat split; auto.
    - apply find_env_none_intro, U1.
    - intros t Ht. destruct (owner_is e t) eqn:Eo; [|reflexivity]. apply owner_is_true in Eo.
      exfalso. apply (U2 t Ht). eapply inv_owner; eauto. }
  destruct (snap e false s) as [s1 o1] eqn:Es.
  destruct (finish e c s1) as [s2 o2] eqn:Ef. injection E as <- <-.
  destruct (snap_spec e s s1 o1 I W Es) as [I1 [Hc [Hk [Hr He]]]].
  assert (Ea : assocN e (s_snaps s1) = Some (active_dets (s_envs s))).
  { unfold snap in Es. destruct (cleanup (s_roster s)). injection Es as <- _. cbn [s_snaps assocN].
    rewrite N.eqb_refl. reflexivity. }
  cbn [out_seq o_rc] in Hrc.
  destruct (finish_nothing e c s1 s2 o2 _ I1 Ea H6 Ef Hrc) as [[A B] P0]. split; [|exact P0]. split; [exact A|].
  intros id Hl. cbn [out_seq o_launch o_kills] in *.
  assert (Hl2 : In id (o_launch o2)).
  { apply in_app_or in Hl. destruct Hl as [Hl|Hl]; [|exact Hl].
    unfold snap in Es. destruct (cleanup (s_roster s)). injection Es as _ <-. contradiction. }
  destruct (B id Hl2) as [X|X]; [left; apply in_or_app; right; exact X|right; exact X].
Qed.

Lemma finish_nothing_behind s e c s' u :
  reachable s -> assocN e (s_snaps s) <> None -> c_fail c <> 6 ->
  step s (OFinish e c) = (s', u) -> o_rc u = 1 ->
  (nothing_left e s' /\ launched_handled s' u) /\ o_pend u = 0.
Proof.
  intros R Ha H6 E Hrc. pose proof (reachable_inv s R) as I.
  destruct (assocN e (s_snaps s)) as [ad|] eqn:Ea; [|contradiction].
  cbn [step] in E. eapply finish_nothing; eauto.
Qed.

(* ---- partial deployment failure (c_fail = 6): the retried deployment *)
Definition pd_spec : cspec :=
  mkSpec [0] 6 [mkRole RPlain true 0 false 0; mkRole RPlain false 0 false 0] [] false.

(* the source facts (gen/Gen_AcqRoster.v): the tasks of every deployment attempt reach the roster *)
Lemma roster_attempts_all : roster_attempts = [0; 1; 2].
Proof. vm_compute. reflexivity. Qed.

Lemma finish0_nothing6 e c s s' u ad :
  inv s -> assocN e (s_snaps s) = Some ad -> c_fail c = 6 ->
  finish0 e c s = (s', u) -> o_rc u = 1 ->
  (nothing_left e s' /\ launched_handled s' u) /\ o_pend u = 0.
Proof.
  intros I Ea H6. unfold finish0. rewrite Ea. pose proof (assocN_In _ _ _ Ea) as Hp.
  assert (Rfree : forall t, In t (s_roster s) -> fst (t_id t) <> e).
  { intros t Ht. apply (inv_snap_r s I (e, ad) t Hp Ht). }
  assert (Efree : forall y, In y (s_envs s) -> e_id y <> e).
  { intros y Hy. apply (inv_snap_e s I (e, ad) y Hp Hy). }
  set (s0 := mkSt (s_envs s) (s_roster s) (remove_snap e (s_snaps s))).
  rewrite H6. cbn [N.leb N.compare andb].
  replace (N.leb 1 6 && N.leb 6 3) with false by reflexivity.
  destruct (existsb _ (c_dets c)).
  { intros H _. injection H as <- <-. split; [|reflexivity]. split; [|intros id []].
    repeat split; cbn [s0 s_envs s_roster]; auto.
    - apply find_env_none_intro, Efree.
    - intros t Ht. destruct (owner_is e t) eqn:Eo; [|reflexivity]. apply owner_is_true in Eo.
      exfalso. apply (Rfree t Ht). eapply inv_owner; eauto. }
  set (x0 := mkEnv e (c_dets c) ES_STANDBY (c_roles c) false 0).
  replace (N.eqb 6 4) with false by reflexivity. replace (N.eqb 6 6) with true by reflexivity.
  set (xe := set_estate ES_ERROR (leave_upd ES_STANDBY (leave_upd ES_STANDBY x0))).
  set (trs := task_iroles (set_bound x0)). set (n := Nlen (c_roles c)).
  set (last := flat_map _ roster_attempts).
  intros H _.
  assert (Hlast : forall t, In t last -> t_owner t = None /\ fst (t_id t) = e).
  { unfold last. intros t Ht. apply in_flat_map in Ht. destruct Ht as [a [_ Ht]].
    apply in_map_iff in Ht. destruct Ht as [ir [<- _]]. split; reflexivity. }
  assert (Hnd : NoDup (map t_id last)).
  { unfold last. apply att_nodup.
    - rewrite roster_attempts_all. repeat constructor; cbn; intuition discriminate.
    - unfold trs, task_iroles, iroles. apply nodup_filter_map. apply index_from_nodup.
    - intros ir Hir. unfold trs, task_iroles, iroles in Hir. apply filter_In in Hir. destruct Hir as [Hir _].
      apply index_from_ub in Hir. cbn [set_bound e_roles x0] in Hir. unfold n. lia. }
  assert (Im : inv (mkSt (s_envs s0 ++ [xe]) (s_roster s0 ++ last) (s_snaps s0))).
  { apply (inv_launch_unowned s e ad xe last I Hp eq_refl Hnd Hlast). }
  assert (Ef : find_env (e_id xe) (s_envs (mkSt (s_envs s0 ++ [xe]) (s_roster s0 ++ last) (s_snaps s0))) = Some xe).
  { cbn [s_envs s0]. apply find_env_app_new; auto. }
  destruct (create_tail_nothing xe _ [] (map (att_id e n 0) trs ++ map (att_id e n 1) trs ++ map (att_id e n 2) trs) s' u Im Ef) as [A [[_ P0] [B _]]]; [cbn; discriminate|exact H|].
  change (e_id xe) with e in *. split; [|exact P0]. split; [exact A|].
  (* every launched task is one of [last], and those stay in the roster, unowned *)
  assert (Keep : forall t, In t last -> In t (s_roster s')).
  { intros t Ht. unfold create_tail in H.
    set (td := teardown true (e_id xe) (mkSt (s_envs s0 ++ [xe]) (s_roster s0 ++ last) (s_snaps s0))) in H.
    assert (K : In t (fst (kill_tasks (bound_tids xe) (s_roster (td_st td))))).
    { apply kill_keeps_unlisted; [|reflexivity]. unfold td.
      pose proof (teardown_succeeds true (e_id xe) _ xe Im Ef (ltac:(cbn; discriminate)) (or_introl eq_refl)) as Hok.
      destruct (teardown_ok_shape true (e_id xe) _ Hok) as [x' [_ [Hst _]]]. cbv zeta in Hst. rewrite Hst. cbn [s_roster].
      destruct (Hlast t Ht) as [Ho _].
      apply release_keeps; [|unfold owner_is; rewrite Ho; reflexivity|left; exact Ho].
      apply release_keeps; [|unfold owner_is; rewrite Ho; reflexivity|left; exact Ho].
      cbn [s_roster s0]. apply in_or_app. right. exact Ht. }
    destruct (kill_tasks (bound_tids xe) (s_roster (td_st td))) as [r' k] eqn:Ek.
    injection H as <- _. unfold with_roster. cbn [s_roster]. exact K. }
  intros id Hl. rewrite B in Hl. right.
  assert (Hin : exists t, In t last /\ t_id t = id).
  { unfold last. rewrite roster_attempts_all. cbn [flat_map]. rewrite app_nil_r.
    apply in_app_or in Hl. destruct Hl as [Hl|Hl]; [|apply in_app_or in Hl; destruct Hl as [Hl|Hl]];
      apply in_map_iff in Hl; destruct Hl as [ir [<- Hir]].
    - exists (att_task e n 0 ir). split; [|reflexivity]. apply in_or_app. left. apply in_map, Hir.
    - exists (att_task e n 1 ir). split; [|reflexivity]. apply in_or_app. right. apply in_or_app. left. apply in_map, Hir.
    - exists (att_task e n 2 ir). split; [|reflexivity]. apply in_or_app. right. apply in_or_app. right. apply in_map, Hir. }
  destruct Hin as [t [Ht Eid]]. exists t. split; [apply Keep, Ht|]. split; [exact Eid|apply Hlast, Ht].
Qed.

Lemma finish_nothing6 e c s s' u ad :
  inv s -> assocN e (s_snaps s) = Some ad -> c_fail c = 6 ->
  finish e c s = (s', u) -> o_rc u = 1 ->
  (nothing_left e s' /\ launched_handled s' u) /\ o_pend u = 0.
Proof.
  intros I Ea H6. unfold finish. rewrite Ea, H6.
  replace (negb (N.eqb 6 0 || N.eqb 6 5)) with true by reflexivity. rewrite orb_true_r. cbn [orb].
  intros H Hrc. eapply finish0_nothing6; eauto.
Qed.

Lemma create_nothing_full s e c s' u :
  reachable s -> wf_op s (OCreate e c) = true ->
  step s (OCreate e c) = (s', u) -> o_rc u = 1 ->
  (nothing_left e s' /\ launched_handled s' u) /\ o_pend u = 0.
Proof.
  intros R W E Hrc. destruct (N.eq_dec (c_fail c) 6) as [H6|H6].
  2:{ apply (create_nothing_behind s e c s' u R W H6 E Hrc). }
  pose proof (reachable_inv s R) as I.
  cbn [wf_op] in W. apply andb_true_iff in W. destruct W as [W _]. apply negb_true_iff in W.
  cbn [step] in E. rewrite H6 in E. replace (N.eqb 6 1) with false in E by reflexivity.
  destruct (snap e false s) as [s1 o1] eqn:Es.
  destruct (finish e c s1) as [s2 o2] eqn:Ef. injection E as <- <-.
  destruct (snap_spec e s s1 o1 I W Es) as [I1 _].
  assert (Ea : assocN e (s_snaps s1) = Some (active_dets (s_envs s))).
  { unfold snap in Es. destruct (cleanup (s_roster s)). injection Es as <- _. cbn [s_snaps assocN].
    rewrite N.eqb_refl. reflexivity. }
  cbn [out_seq o_rc] in Hrc.
  destruct (finish_nothing6 e c s1 s2 o2 _ I1 Ea H6 Ef Hrc) as [[A B] P0]. split; [|exact P0]. split; [exact A|].
  intros id Hl. cbn [out_seq o_launch o_kills] in *.
  assert (Hl2 : In id (o_launch o2)).
  { apply in_app_or in Hl. destruct Hl as [Hl|Hl]; [|exact Hl].
    unfold snap in Es. destruct (cleanup (s_roster s)). injection Es as _ <-. contradiction. }
  destruct (B id Hl2) as [X|X]; [left; apply in_or_app; right; exact X|right; exact X].
Qed.

Lemma failed_creation_leaves_nothing_holds : failed_creation_leaves_nothing.
Proof. intros s e c s' u R W E Hrc. eapply create_nothing_full; eauto. Qed.

Lemma failed_creation_cancels_calls s e c s' u :
  reachable s -> wf_op s (OCreate e c) = true ->
  step s (OCreate e c) = (s', u) -> o_rc u = 1 -> o_pend u = 0.
Proof. intros R W E Hrc. eapply create_nothing_full; eauto. Qed.

(* regression example: the retried deployment of the former refutation *)
Lemma retried_deployment_kept :
  wf_op st0 (OCreate 0 pd_spec) = true /\
  let '(s', u) := step st0 (OCreate 0 pd_spec) in
  o_rc u = 1 /\ length (o_launch u) = 6%nat /\ o_kills u = [] /\
  map t_id (s_roster s') = [(0, 0); (0, 1); (0, 2); (0, 3); (0, 4); (0, 5)] /\
  forallb (fun t => negb (is_locked t)) (s_roster s') = true /\
  o_kills (snd (step s' OCleanup)) = [(0, 0); (0, 1); (0, 2); (0, 3); (0, 4); (0, 5)].
Proof. vm_compute. repeat split; reflexivity. Qed.

(* "tasks that never became owned stay unowned and fall to the next cleanup" *)
Lemma unowned_falls_to_cleanup s t :
  In t (s_roster s) -> is_locked t = false -> kill_refused t = false ->
  In (t_id t) (o_kills (snd (step s OCleanup))).
Proof.
  intros Hin Hl Hr. cbn [step]. destruct (cleanup (s_roster s)) as [r' k] eqn:Ec. cbn [snd o_kills].
  replace k with (snd (cleanup (s_roster s))) by (rewrite Ec; reflexivity). apply cleanup_complete; auto.
Qed.

(* a kill request (or a cleanup) leaves every locked task in the roster, verbatim - in the model a request is
   one step; in the source the step is spread over the KILL calls, and what keeps it equivalent is read off
   the source (gen/Gen_DoKill.v, dokill_writes_fresh): from its first KILL call on, the kill routine never
   stores a whole roster it read earlier, so what other requests write meanwhile is not erased *)
Lemma kill_keeps_the_roster_of_others :
  dokill_writes_fresh = true /\
  (forall ids r t, In t r -> is_locked t = true -> In t (fst (kill_tasks ids r))) /\
  (forall r t, In t r -> is_locked t = true -> In t (fst (cleanup r))).
Proof.
  split; [vm_compute; reflexivity|].
  split; [intros; apply kill_keeps_locked; assumption | intros; apply cleanup_keeps_locked; assumption].
Qed.

(* a KILL call that fails for one task: what the source does (gen/Gen_DoKill.v) and what the model of
   doKillTasks / KillTasks / Cleanup therefore guarantees: the task that was not killed stays in the roster
   with its owner, and every other selected task still gets its KILL *)
Lemma kill_failure_is_local :
  dokill_puts_back = true /\ dokill_carries_on = true /\
  (forall ids r t, In t r ->
     In (t_id t) (snd (kill_tasks ids r)) \/
     exists t', In t' (fst (kill_tasks ids r)) /\ t_id t' = t_id t /\ t_owner t' = t_owner t) /\
  (forall ids r t, In t r -> mem_tid (t_id t) ids = true -> is_locked t = false ->
     kill_refused t = false -> t_kill t <> 2 -> In (t_id t) (snd (kill_tasks ids r))) /\
  (forall r t, In t r -> In (t_id t) (snd (cleanup r)) \/ In t (fst (cleanup r))) /\
  (forall r t, In t r -> is_locked t = false -> kill_refused t = false -> In (t_id t) (snd (cleanup r))).
Proof.
  split; [vm_compute; reflexivity|]. split; [vm_compute; reflexivity|].
  split; [intros; apply kill_or_stay; assumption|].
  split; [intros; apply kill_complete; assumption|].
  split; [|intros; apply cleanup_complete; assumption].
  intros r t. induction r as [|a r IH]; cbn [In cleanup]; [tauto|].
  destruct (cleanup r) as [r'' k]. cbn [fst snd] in IH.
  intros [->|Hin].
  - destruct (negb (is_locked t)); [destruct (kill_refused t)|]; cbn [fst snd In]; auto.
  - destruct (IH Hin) as [H|H]; destruct (negb (is_locked a)); [destruct (kill_refused a)| | destruct (kill_refused a)|];
      cbn [fst snd In]; auto.
Qed.

(* a Cleanup acts on tasks that are unlocked at the moment of the kill: a list computed earlier cannot be
   stale (source fact cleanup_is_atomic), so acting on it keeps every locked task and KILLs unlocked ones only *)
Lemma cleanup_never_stale :
  cleanup_no_block = true /\
  forall ids r,
    (forall t, In t r -> is_locked t = true -> In t (fst (stale_cleanup ids r))) /\
    (forall k, In k (snd (stale_cleanup ids r)) -> exists t, In t r /\ t_id t = k /\ is_locked t = false).
Proof.
  split; [apply cleanup_is_atomic|]. intros ids r. rewrite stale_cleanup_is_kill. split.
  - intros t Hin Hl. apply kill_keeps_locked; assumption.
  - intros k Hk. apply kill_kills in Hk. destruct Hk as [t [H1 [H2 [H3 _]]]]. exists t. auto.
Qed.

(* a status update from the master changes nothing: no lock, no owner, no listing entry *)
Lemma master_update_changes_nothing s : step s ORecon = (s, out_rc 0).
Proof. cbn [step]. rewrite recon_tasks_id. destruct s; reflexivity. Qed.

(* ---------------- the witnesses of the former refutations, now regression examples *)
Definition mw_spec : cspec :=
  mkSpec [0] 0 [mkRole RPlain true 0 false 0; mkRole (RHookTask false (-5)%Z) false 0 false 0;
                mkRole (RHookTask false 5%Z) false 0 false 0] [] false.
Definition mw_ops : list op := [OCreate 0 mw_spec].

Lemma multiweight_released :
  valid_hist st0 mw_ops = true /\
  let s := run st0 mw_ops in
  env_listed 0 s = true /\
  let '(s', u) := step s (ODestroy 0 false false false false) in
  o_rc u = 0 /\ owns_some 0 (s_roster s') = false /\ env_listed 0 s' = false /\
  s_roster s' = [] /\ length (o_kills u) = 3%nat.
Proof. vm_compute. repeat split; reflexivity. Qed.

Definition stg_spec : cspec :=
  mkSpec [2] 0 [mkRole RPlain true 0 false 0; mkRole RPlain true 1 false 0; mkRole RPlain false 2 false 0] [] false.

Lemma staging_killed :
  wf_op st0 (OCreate 0 stg_spec) = true /\
  let '(s', u) := step st0 (OCreate 0 stg_spec) in
  o_rc u = 1 /\ mem_tid (0, 2) (o_launch u) = true /\ mem_tid (0, 2) (o_kills u) = true /\
  s_roster s' = [].
Proof. vm_compute. repeat split; reflexivity. Qed.

(* an executor failure before a forced keep-tasks destroy: the failed task is not locked any more but
   still has its parent; the teardown clears it *)
Definition xf_spec : cspec :=
  mkSpec [0] 0 [mkRole RPlain true 0 false 0; mkRole RPlain false 0 false 0] [] false.

Lemma failed_executor_released :
  let ops := [OCreate 0 xf_spec; OFail [(0, 1)]] in
  valid_hist st0 ops = true /\
  let s := run st0 ops in
  existsb (fun t => owner_is 0 t && negb (is_locked t)) (s_roster s) = true /\
  let '(s', u) := step s (ODestroy 0 true false true false) in
  o_rc u = 0 /\ owns_some 0 (s_roster s') = false /\ length (s_roster s') = 2%nat /\ o_kills u = [].
Proof. vm_compute. repeat split; reflexivity. Qed.

(* C06: destroy_order read over histories - in every state any history of requests can reach, when
   the teardown comes to its DESTROY hooks the only tasks the environment still owns are the
   DESTROY hook tasks themselves *)
Lemma destroy_order_reachable force e s x r1 :
  reachable s -> find_env e (s_envs s) = Some x -> td_hookr (teardown force e s) = Some r1 ->
  forall t, In t r1 -> owner_is e t = true -> In (t_id t) (destroy_hook_tids x).
Proof. intro R. exact (destroy_order force e s x r1 (reachable_inv s R)). Qed.
