(* Lemmas about the roster primitives of model/Ownership.v. *)
From Verif Require Import Gen_CleanupAtomic Common Ownership.
Open Scope N_scope.

Lemma tid_eqb_eq a b : tid_eqb a b = true <-> a = b.
Proof.
  unfold tid_eqb. destruct a as [a1 a2], b as [b1 b2]; cbn [fst snd].
  rewrite andb_true_iff, !N.eqb_eq. split.
  - intros [-> ->]. reflexivity.
  - intros E. inversion E. auto.
Qed.

Lemma tid_eqb_refl a : tid_eqb a a = true.
Proof. apply tid_eqb_eq. reflexivity. Qed.

Lemma mem_tid_In k l : mem_tid k l = true <-> In k l.
Proof.
  unfold mem_tid. rewrite existsb_exists. split.
  - intros [x [Hx E]]. apply tid_eqb_eq in E. subst. exact Hx.
  - intros H. exists k. split; [exact H|apply tid_eqb_refl].
Qed.

Lemma mem_tid_false k l : mem_tid k l = false <-> ~ In k l.
Proof.
  split.
  - intros H Hin. apply mem_tid_In in Hin. congruence.
  - intros H. destruct (mem_tid k l) eqn:E; [|reflexivity]. apply mem_tid_In in E. contradiction.
Qed.

Lemma owner_is_true e t : owner_is e t = true <-> t_owner t = Some e.
Proof.
  unfold owner_is. destruct (t_owner t) as [o|].
  - rewrite N.eqb_eq. split; [intros ->; reflexivity|intros E; inversion E; reflexivity].
  - split; discriminate.
Qed.

Lemma owner_is_other e e' t : t_owner t = Some e' -> e' <> e -> owner_is e t = false.
Proof.
  intros H Hne. unfold owner_is. rewrite H. apply N.eqb_neq. exact Hne.
Qed.

Lemma is_locked_true t : is_locked t = true <-> (exists e, t_owner t = Some e) /\ t_idok t = true.
Proof.
  unfold is_locked. destruct (t_owner t) as [o|]; split; intro H.
  - split; [exists o; reflexivity|exact H].
  - apply H.
  - discriminate.
  - destruct H as [[e H] _]. discriminate.
Qed.

Lemma is_locked_false t : is_locked t = false <-> t_owner t = None \/ t_idok t = false.
Proof.
  unfold is_locked. destruct (t_owner t) as [o|]; split; intro H; auto.
  - destruct H as [H|H]; [discriminate|exact H].
Qed.

Lemma locked_intro t e : t_owner t = Some e -> t_idok t = true -> is_locked t = true.
Proof. intros H1 H2. apply is_locked_true. split; [eauto|exact H2]. Qed.

(* ---------------- release ---------------- *)
Lemma release_ids e ids r : map t_id (fst (release e ids r)) = map t_id r.
Proof.
  induction r as [|t r IH]; cbn [release]; [reflexivity|].
  destruct (release e ids r) as [r'' n] eqn:E. cbn [fst] in IH.
  destruct (mem_tid (t_id t) ids); [destruct (t_owner t) as [o|]; [destruct (N.eqb o e || negb (t_idok t))|]|];
    cbn [fst map set_owner t_id]; rewrite IH; reflexivity.
Qed.

(* a task that is locked by somebody else than [e], or has no parent, stays as it is *)
Lemma release_keeps e ids r t :
  In t r -> owner_is e t = false -> (t_owner t = None \/ t_idok t = true) -> In t (fst (release e ids r)).
Proof.
  induction r as [|a r IH]; cbn [release In]; [tauto|].
  intros [->|Hin] Hown Hk; destruct (release e ids r) as [r'' n] eqn:E; cbn [fst] in IH.
  - destruct (mem_tid (t_id t) ids).
    + unfold owner_is in Hown. destruct (t_owner t) as [o|] eqn:Eo.
      * destruct Hk as [Hk|Hk]; [discriminate|]. rewrite Hown, Hk. cbn. left. reflexivity.
      * cbn. left. reflexivity.
    + cbn. left. reflexivity.
  - specialize (IH Hin Hown Hk).
    destruct (mem_tid (t_id a) ids); [destruct (t_owner a) as [o|]; [destruct (N.eqb o e || negb (t_idok a))|]|];
      cbn [fst In]; right; exact IH.
Qed.

Lemma release_unlisted e ids r t :
  In t r -> mem_tid (t_id t) ids = false -> In t (fst (release e ids r)).
Proof.
  induction r as [|a r IH]; cbn [release In]; [tauto|].
  intros [->|Hin] Hm; destruct (release e ids r) as [r'' n] eqn:E; cbn [fst] in IH.
  - rewrite Hm. cbn. left. reflexivity.
  - specialize (IH Hin Hm).
    destruct (mem_tid (t_id a) ids); [destruct (t_owner a) as [o|]; [destruct (N.eqb o e || negb (t_idok a))|]|];
      cbn [fst In]; right; exact IH.
Qed.

(* every task of the result is a task of the argument, possibly with its parent cleared: then it was
   a listed task of [e], or a listed task that was not locked any more *)
Lemma release_spec e ids r t' :
  In t' (fst (release e ids r)) ->
  In t' r \/ exists t, In t r /\ (t_owner t = Some e \/ t_idok t = false) /\ mem_tid (t_id t) ids = true /\
                       t' = set_owner None t.
Proof.
  induction r as [|a r IH]; cbn [release]; [cbn; tauto|].
  destruct (release e ids r) as [r'' n] eqn:E; cbn [fst] in IH.
  assert (Hrec : In t' r'' -> In t' (a :: r) \/
            exists t, In t (a :: r) /\ (t_owner t = Some e \/ t_idok t = false) /\ mem_tid (t_id t) ids = true /\
                      t' = set_owner None t).
  { intro H. destruct (IH H) as [H1|[t [H1 H2]]]; [left; right; exact H1|].
    right. exists t. split; [right; exact H1|exact H2]. }
  destruct (mem_tid (t_id a) ids) eqn:Em.
  - destruct (t_owner a) as [o|] eqn:Eo.
    + destruct (N.eqb o e || negb (t_idok a)) eqn:Ee; cbn [fst In].
      * intros [<-|H]; [|apply Hrec, H]. right. exists a.
        split; [left; reflexivity|]. split; [|split; auto].
        apply orb_true_iff in Ee. destruct Ee as [Ee|Ee].
        -- apply N.eqb_eq in Ee. subst o. left. exact Eo.
        -- right. apply negb_true_iff, Ee.
      * intros [<-|H]; [left; left; reflexivity|apply Hrec, H].
    + cbn [fst In]. intros [<-|H]; [left; left; reflexivity|apply Hrec, H].
  - cbn [fst In]. intros [<-|H]; [left; left; reflexivity|apply Hrec, H].
Qed.

(* after the release no listed task is owned by [e] any more *)
Lemma release_unowns e ids r t' :
  In t' (fst (release e ids r)) -> mem_tid (t_id t') ids = true -> owner_is e t' = false.
Proof.
  induction r as [|a r IH]; cbn [release]; [cbn; tauto|].
  destruct (release e ids r) as [r'' n] eqn:E; cbn [fst] in IH.
  destruct (mem_tid (t_id a) ids) eqn:Em.
  - destruct (t_owner a) as [o|] eqn:Eo.
    + destruct (N.eqb o e || negb (t_idok a)) eqn:Ee; cbn [fst In].
      * intros [<-|H] Hm; [reflexivity|apply IH; assumption].
      * intros [<-|H] Hm; [|apply IH; assumption]. apply orb_false_iff in Ee.
        unfold owner_is; rewrite Eo. apply Ee.
    + cbn [fst In]. intros [<-|H] Hm; [unfold owner_is; rewrite Eo; reflexivity|apply IH; assumption].
  - cbn [fst In]. intros [<-|H] Hm; [congruence|apply IH; assumption].
Qed.

(* no refusal when every listed task is unlocked or owned by [e] *)
Lemma release_no_error e ids r :
  (forall t, In t r -> mem_tid (t_id t) ids = true -> t_owner t = None \/ t_owner t = Some e) ->
  snd (release e ids r) = 0.
Proof.
  induction r as [|a r IH]; cbn [release]; [reflexivity|].
  intros H. destruct (release e ids r) as [r'' n] eqn:E; cbn [snd] in IH.
  assert (Hn : n = 0). { apply IH. intros t Ht. apply H. right. exact Ht. }
  destruct (mem_tid (t_id a) ids) eqn:Em; [|cbn; exact Hn].
  destruct (H a (or_introl eq_refl) Em) as [Ho|Ho]; rewrite Ho.
  - cbn. exact Hn.
  - rewrite N.eqb_refl. cbn. exact Hn.
Qed.

(* ---------------- kill_tasks / cleanup ---------------- *)
(* every task of the result is a task of the argument, possibly with the kill-acknowledgement mark *)
Lemma kill_spec ids r t' :
  In t' (fst (kill_tasks ids r)) -> exists t, In t r /\ (t' = t \/ t' = set_kill 2 t).
Proof.
  induction r as [|a r IH]; cbn [kill_tasks]; [cbn; tauto|].
  destruct (kill_tasks ids r) as [r'' k] eqn:E; cbn [fst] in IH.
  assert (Hrec : In t' r'' -> exists t, In t (a :: r) /\ (t' = t \/ t' = set_kill 2 t)).
  { intro H. destruct (IH H) as [t [H1 H2]]. exists t. split; [right; exact H1|exact H2]. }
  destruct (kill_selected ids a); [destruct (kill_refused a)|]; cbn [fst In].
  - intros [<-|H]; [|apply Hrec, H]. exists a. split; [left; reflexivity|right; reflexivity].
  - apply Hrec.
  - intros [<-|H]; [|apply Hrec, H]. exists a. split; [left; reflexivity|left; reflexivity].
Qed.

Lemma kill_from ids r t' :
  In t' (fst (kill_tasks ids r)) ->
  exists t, In t r /\ t_id t = t_id t' /\ t_owner t = t_owner t' /\ t_active t = t_active t' /\ t_idok t = t_idok t'.
Proof.
  intro H. apply kill_spec in H. destruct H as [t [Ht [->| ->]]]; exists t; repeat split; auto.
Qed.

Lemma kill_keeps_locked ids r t : In t r -> is_locked t = true -> In t (fst (kill_tasks ids r)).
Proof.
  induction r as [|a r IH]; cbn [kill_tasks In]; [tauto|].
  intros [->|Hin] Hl; destruct (kill_tasks ids r) as [r'' k] eqn:E; cbn [fst] in IH.
  - unfold kill_selected. rewrite Hl. cbn [negb]. rewrite andb_false_r. cbn. left. reflexivity.
  - specialize (IH Hin Hl). destruct (kill_selected ids a); [destruct (kill_refused a)|]; cbn [fst In]; auto.
Qed.

Lemma kill_keeps_unlisted ids r t :
  In t r -> mem_tid (t_id t) ids = false -> In t (fst (kill_tasks ids r)).
Proof.
  induction r as [|a r IH]; cbn [kill_tasks In]; [tauto|].
  intros [->|Hin] Hm; destruct (kill_tasks ids r) as [r'' k] eqn:E; cbn [fst] in IH.
  - unfold kill_selected. rewrite Hm. cbn. left. reflexivity.
  - specialize (IH Hin Hm). destruct (kill_selected ids a); [destruct (kill_refused a)|]; cbn [fst In]; auto.
Qed.

(* every KILL is for a listed, unlocked task of the roster *)
Lemma kill_kills ids r k :
  In k (snd (kill_tasks ids r)) ->
  exists t, In t r /\ t_id t = k /\ is_locked t = false /\ mem_tid k ids = true.
Proof.
  induction r as [|a r IH]; cbn [kill_tasks]; [cbn; tauto|].
  destruct (kill_tasks ids r) as [r'' ks] eqn:E; cbn [snd] in IH.
  assert (Hrec : In k ks -> exists t, In t (a :: r) /\ t_id t = k /\ is_locked t = false /\
                                     mem_tid k ids = true).
  { intro H. destruct (IH H) as [t [H1 H2]]. exists t. split; [right; exact H1|exact H2]. }
  destruct (kill_selected ids a) eqn:C; [destruct (kill_refused a)|]; cbn [snd]; try exact Hrec.
  unfold kill_selected in C. apply andb_true_iff in C. destruct C as [C C3].
  apply andb_true_iff in C. destruct C as [C1 C2].
  intros [<-|H]; [|apply Hrec, H].
  exists a. split; [left; reflexivity|]. repeat split; auto.
  destruct (is_locked a); [discriminate|reflexivity].
Qed.

(* and every listed unlocked task gets its KILL, unless the master refuses it or an acknowledgement of
   an earlier refused attempt is still registered *)
Lemma kill_complete ids r t :
  In t r -> mem_tid (t_id t) ids = true -> is_locked t = false -> kill_refused t = false -> t_kill t <> 2 ->
  In (t_id t) (snd (kill_tasks ids r)).
Proof.
  induction r as [|a r IH]; cbn [kill_tasks In]; [tauto|].
  intros [->|Hin] Hm Hl Hr H2; destruct (kill_tasks ids r) as [r'' ks] eqn:E; cbn [snd] in IH.
  - unfold kill_selected. rewrite Hm, Hl, Hr. apply N.eqb_neq in H2. rewrite H2. cbn. left. reflexivity.
  - specialize (IH Hin Hm Hl Hr H2).
    destruct (kill_selected ids a); [destruct (kill_refused a)|]; cbn [snd]; auto. right. exact IH.
Qed.

(* what is not killed stays in the roster *)
Lemma kill_or_stay ids r t :
  In t r -> In (t_id t) (snd (kill_tasks ids r)) \/
            exists t', In t' (fst (kill_tasks ids r)) /\ t_id t' = t_id t /\ t_owner t' = t_owner t.
Proof.
  induction r as [|a r IH]; cbn [kill_tasks In]; [tauto|].
  destruct (kill_tasks ids r) as [r'' ks] eqn:E; cbn [fst snd] in IH.
  intros [->|Hin].
  - destruct (kill_selected ids t); [destruct (kill_refused t)|]; cbn [fst snd In].
    + right. exists (set_kill 2 t). split; [left; reflexivity|split; reflexivity].
    + left. left. reflexivity.
    + right. exists t. split; [left; reflexivity|split; reflexivity].
  - destruct (IH Hin) as [H|[t' [H1 H2]]].
    + left. destruct (kill_selected ids a); [destruct (kill_refused a)|]; cbn [snd In]; auto.
    + right. exists t'. split; [|exact H2].
      destruct (kill_selected ids a); [destruct (kill_refused a)|]; cbn [fst In]; auto.
Qed.

Lemma kill_ids_nodup ids r : NoDup (map t_id r) -> NoDup (map t_id (fst (kill_tasks ids r))).
Proof.
  induction r as [|a r IH]; cbn [kill_tasks]; [cbn; auto|].
  intros H. inversion H as [|x l Hnin Hnd]; subst.
  destruct (kill_tasks ids r) as [r'' ks] eqn:E; cbn [fst] in IH.
  assert (Hn : ~ In (t_id a) (map t_id r'')).
  { intro Hin. apply Hnin. apply in_map_iff in Hin. destruct Hin as [t [Et Ht]].
    assert (Hs : In t (fst (kill_tasks ids r))) by (rewrite E; exact Ht).
    apply kill_from in Hs. destruct Hs as [t0 [H0 [H1 _]]]. apply in_map_iff. exists t0. split; [congruence|exact H0]. }
  destruct (kill_selected ids a); [destruct (kill_refused a)|]; cbn [fst map set_kill t_id].
  - constructor; [exact Hn|apply IH, Hnd].
  - apply IH, Hnd.
  - constructor; [exact Hn|apply IH, Hnd].
Qed.

Lemma cleanup_sub r t : In t (fst (cleanup r)) -> In t r.
Proof.
  induction r as [|a r IH]; cbn [cleanup]; [cbn; tauto|].
  destruct (cleanup r) as [r'' k] eqn:E; cbn [fst] in IH.
  destruct (negb (is_locked a)); [destruct (kill_refused a)|]; cbn [fst In].
  - intros [<-|H]; [left; reflexivity|right; apply IH, H].
  - intro H. right. apply IH, H.
  - intros [<-|H]; [left; reflexivity|right; apply IH, H].
Qed.

Lemma cleanup_keeps_locked r t : In t r -> is_locked t = true -> In t (fst (cleanup r)).
Proof.
  induction r as [|a r IH]; cbn [cleanup In]; [tauto|].
  intros [->|Hin] Hl; destruct (cleanup r) as [r'' k] eqn:E; cbn [fst] in IH.
  - rewrite Hl. cbn. left. reflexivity.
  - specialize (IH Hin Hl). destruct (negb (is_locked a)); [destruct (kill_refused a)|]; cbn [fst In]; auto.
Qed.

Lemma cleanup_kills r k :
  In k (snd (cleanup r)) ->
  exists t, In t r /\ t_id t = k /\ is_locked t = false.
Proof.
  induction r as [|a r IH]; cbn [cleanup]; [cbn; tauto|].
  destruct (cleanup r) as [r'' ks] eqn:E; cbn [snd] in IH.
  assert (Hrec : In k ks -> exists t, In t (a :: r) /\ t_id t = k /\ is_locked t = false).
  { intro H. destruct (IH H) as [t [H1 H2]]. exists t. split; [right; exact H1|exact H2]. }
  destruct (negb (is_locked a)) eqn:C; [destruct (kill_refused a)|]; cbn [snd]; try exact Hrec.
  intros [<-|H]; [|apply Hrec, H].
  exists a. split; [left; reflexivity|]. repeat split; auto.
  destruct (is_locked a); [discriminate|reflexivity].
Qed.

Lemma cleanup_complete r t :
  In t r -> is_locked t = false -> kill_refused t = false -> In (t_id t) (snd (cleanup r)).
Proof.
  induction r as [|a r IH]; cbn [cleanup In]; [tauto|].
  intros [->|Hin] Hl Hr; destruct (cleanup r) as [r'' ks] eqn:E; cbn [snd] in IH.
  - rewrite Hl, Hr. cbn. left. reflexivity.
  - specialize (IH Hin Hl Hr).
    destruct (negb (is_locked a)); [destruct (kill_refused a)|]; cbn [snd]; auto. right; exact IH.
Qed.

Lemma cleanup_ids_nodup r : NoDup (map t_id r) -> NoDup (map t_id (fst (cleanup r))).
Proof.
  induction r as [|a r IH]; cbn [cleanup]; [cbn; auto|].
  intros H. inversion H as [|x l Hnin Hnd]; subst.
  destruct (cleanup r) as [r'' ks] eqn:E; cbn [fst] in IH.
  assert (Hn : ~ In (t_id a) (map t_id r'')).
  { intro Hin. apply Hnin. apply in_map_iff in Hin. destruct Hin as [t [Et Ht]].
    apply in_map_iff. exists t. split; [exact Et|].
    assert (Hs : In t (fst (cleanup r))) by (rewrite E; exact Ht). apply cleanup_sub in Hs. exact Hs. }
  destruct (negb (is_locked a)); [destruct (kill_refused a)|]; cbn [fst map].
  - constructor; [exact Hn|apply IH, Hnd].
  - apply IH, Hnd.
  - constructor; [exact Hn|apply IH, Hnd].
Qed.

(* ---------------- command ---------------- *)
Lemma command_ids e tg rf dst r : map t_id (command e tg rf dst r) = map t_id r.
Proof.
  unfold command. rewrite map_map. apply map_ext. intro t.
  destruct (owner_is e t && mem_tid (t_id t) tg && negb (mem_tid (t_id t) rf)); reflexivity.
Qed.

Lemma command_keeps e tg rf dst r t :
  In t r -> owner_is e t = false -> In t (command e tg rf dst r).
Proof.
  intros Hin Ho. unfold command. apply in_map_iff. exists t. split; [|exact Hin].
  rewrite Ho. reflexivity.
Qed.

Lemma command_spec e tg rf dst r t' :
  In t' (command e tg rf dst r) ->
  exists t, In t r /\ (t' = t \/ (t_owner t = Some e /\ t' = set_state dst t)).
Proof.
  unfold command. intro H. apply in_map_iff in H. destruct H as [t [Et Ht]].
  exists t. split; [exact Ht|].
  destruct (owner_is e t) eqn:Eo; cbn [andb] in Et.
  - destruct (mem_tid (t_id t) tg && negb (mem_tid (t_id t) rf)).
    + right. split; [apply owner_is_true, Eo|symmetry; exact Et].
    + left. symmetry. exact Et.
  - left. symmetry. exact Et.
Qed.

(* ---------------- task_dies ---------------- *)
Lemma dies_ids id r : map t_id (task_dies id r) = map t_id r.
Proof.
  unfold task_dies. rewrite map_map. apply map_ext. intro t.
  destruct (tid_eqb (t_id t) id); reflexivity.
Qed.

Lemma dies_keeps id r t : In t r -> t_id t <> id -> In t (task_dies id r).
Proof.
  intros Hin Hne. unfold task_dies. apply in_map_iff. exists t. split; [|exact Hin].
  destruct (tid_eqb (t_id t) id) eqn:E; [|reflexivity]. apply tid_eqb_eq in E. contradiction.
Qed.

Lemma dies_spec id r t' :
  In t' (task_dies id r) -> exists t, In t r /\ (t' = t \/ (t_id t = id /\ t' = set_dead t)).
Proof.
  unfold task_dies. intro H. apply in_map_iff in H. destruct H as [t [Et Ht]].
  exists t. split; [exact Ht|]. destruct (tid_eqb (t_id t) id) eqn:E.
  - right. split; [apply tid_eqb_eq, E|symmetry; exact Et].
  - left. symmetry. exact Et.
Qed.

(* ---------------- fail_tasks ---------------- *)
Lemma fail_ids ids r : map t_id (fail_tasks ids r) = map t_id r.
Proof.
  unfold fail_tasks. rewrite map_map. apply map_ext. intro t.
  destruct (mem_tid (t_id t) ids); reflexivity.
Qed.

Lemma fail_spec ids r t' :
  In t' (fail_tasks ids r) -> exists t, In t r /\ (t' = t \/ t' = set_failed t).
Proof.
  unfold fail_tasks. intro H. apply in_map_iff in H. destruct H as [t [Et Ht]].
  exists t. split; [exact Ht|]. destruct (mem_tid (t_id t) ids); [right|left]; symmetry; exact Et.
Qed.

(* ---------------- recon_tasks ---------------- *)
(* the fact read off the source (gen/Gen_UtsWrites.v): updateTaskStatus writes executorId only when
   the update carries one *)
Lemma uts_executor_write_guarded : recon_blanks = false.
Proof. vm_compute. reflexivity. Qed.

Lemma recon_task_id t : recon_task t = t.
Proof.
  unfold recon_task. rewrite uts_executor_write_guarded. cbn [negb].
  destruct (t_active t) eqn:Ea, (t_idok t) eqn:Ek; cbn [andb]; try reflexivity.
  destruct t; cbn in *; subst; reflexivity.
Qed.

Lemma recon_tasks_id r : recon_tasks r = r.
Proof.
  unfold recon_tasks. induction r as [|a r IH]; cbn [map]; [reflexivity|].
  rewrite recon_task_id, IH. reflexivity.
Qed.

(* ---------------- refuse_tasks ---------------- *)
Lemma refuse_ids ids r : map t_id (refuse_tasks ids r) = map t_id r.
Proof.
  unfold refuse_tasks. rewrite map_map. apply map_ext. intro t.
  destruct (mem_tid (t_id t) ids && N.eqb (t_kill t) 0); reflexivity.
Qed.

Lemma refuse_spec ids r t' :
  In t' (refuse_tasks ids r) -> exists t, In t r /\ (t' = t \/ t' = set_kill 1 t).
Proof.
  unfold refuse_tasks. intro H. apply in_map_iff in H. destruct H as [t [Et Ht]].
  exists t. split; [exact Ht|]. destruct (mem_tid (t_id t) ids && N.eqb (t_kill t) 0); [right|left]; symmetry; exact Et.
Qed.

(* ---------------- stale_cleanup / relock_task ---------------- *)
(* the source fact (gen/Gen_CleanupAtomic.v): Cleanup does not wait between listing and killing *)
Lemma cleanup_is_atomic : cleanup_no_block = true.
Proof. vm_compute. reflexivity. Qed.

Lemma stale_cleanup_is_kill ids r : stale_cleanup ids r = kill_tasks ids r.
Proof. unfold stale_cleanup. rewrite cleanup_is_atomic. reflexivity. Qed.

Lemma relock_ids id r : map t_id (relock_task id r) = map t_id r.
Proof.
  unfold relock_task. rewrite map_map. apply map_ext. intro t.
  destruct (tid_eqb (t_id t) id && negb (t_idok t)); reflexivity.
Qed.

Lemma relock_spec id r t' :
  In t' (relock_task id r) ->
  exists t, In t r /\ t_id t' = t_id t /\ t_owner t' = t_owner t.
Proof.
  unfold relock_task. intro H. apply in_map_iff in H. destruct H as [t [Et Ht]].
  exists t. split; [exact Ht|]. destruct (tid_eqb (t_id t) id && negb (t_idok t)); subst t'; split; reflexivity.
Qed.
