(* Lemmas about the model of coq/model/EnvHooks.v (hooks, failures, run variables). *)
From Verif Require Import Common EnvHooks.
From Coq Require Import ZArith List Bool Lia Sorting.Sorted Permutation.
Import ListNotations.
Open Scope N_scope.

(* ------------------------------------------------------------------ equality tests *)

Lemma st_code_inj a b : st_code a = st_code b -> a = b.
Proof. destruct a, b; cbn; intro H; try reflexivity; discriminate. Qed.
Lemma evt_code_inj a b : evt_code a = evt_code b -> a = b.
Proof. destruct a, b; cbn; intro H; try reflexivity; discriminate. Qed.

Lemma st_eqb_spec a b : st_eqb a b = true <-> a = b.
Proof.
  unfold st_eqb. rewrite N.eqb_eq. split; [apply st_code_inj|intros ->; reflexivity].
Qed.
Lemma evt_eqb_spec a b : evt_eqb a b = true <-> a = b.
Proof.
  unfold evt_eqb. rewrite N.eqb_eq. split; [apply evt_code_inj|intros ->; reflexivity].
Qed.

Lemma mname_code_inj a b : mname_code a = mname_code b -> a = b.
Proof.
  destruct a, b; cbn; intro H; inversion H; try reflexivity;
    try (f_equal; (apply evt_code_inj || apply st_code_inj); assumption).
Qed.

Lemma mname_eqb_spec a b : mname_eqb a b = true <-> a = b.
Proof.
  unfold mname_eqb. destruct (mname_code a) as [a1 a2] eqn:Ea, (mname_code b) as [b1 b2] eqn:Eb.
  rewrite andb_true_iff, !N.eqb_eq. split.
  - intros [-> ->]. apply mname_code_inj. congruence.
  - intros ->. rewrite Ea in Eb. inversion Eb. auto.
Qed.
Lemma mname_eqb_refl a : mname_eqb a a = true.
Proof. apply mname_eqb_spec. reflexivity. Qed.
Lemma mname_eqb_neq a b : a <> b -> mname_eqb a b = false.
Proof.
  intro H. destruct (mname_eqb a b) eqn:E; [|reflexivity]. apply mname_eqb_spec in E. contradiction.
Qed.

Lemma point_eqb_spec a b : point_eqb a b = true <-> a = b.
Proof.
  unfold point_eqb. destruct a as [am aw], b as [bm bw]. cbn [fst snd].
  rewrite andb_true_iff, mname_eqb_spec, Z.eqb_eq. split.
  - intros [-> ->]. reflexivity.
  - intro H. inversion H. auto.
Qed.
Lemma point_eqb_refl a : point_eqb a a = true.
Proof. apply point_eqb_spec. reflexivity. Qed.

(* ------------------------------------------------------------------ sorted distinct weights *)

Lemma zinsert_in x l y : In y (zinsert x l) <-> y = x \/ In y l.
Proof.
  induction l as [|z l IH]; cbn.
  - intuition.
  - destruct (x <? z)%Z eqn:E1; cbn.
    + intuition.
    + destruct (x =? z)%Z eqn:E2; cbn.
      * apply Z.eqb_eq in E2. subst. intuition.
      * rewrite IH. intuition.
Qed.

Lemma zinsert_sorted x l : StronglySorted Z.lt l -> StronglySorted Z.lt (zinsert x l).
Proof.
  induction l as [|z l IH]; cbn; intro H.
  - constructor; constructor.
  - inversion H as [|? ? Hs Hf]; subst.
    destruct (x <? z)%Z eqn:E1.
    + apply Z.ltb_lt in E1. constructor; [exact H|].
      constructor; [exact E1|]. rewrite Forall_forall in *. intros y Hy.
      specialize (Hf y Hy). lia.
    + destruct (x =? z)%Z eqn:E2; [exact H|].
      apply Z.ltb_ge in E1. apply Z.eqb_neq in E2.
      constructor; [apply IH; exact Hs|].
      rewrite Forall_forall in *. intros y Hy. apply zinsert_in in Hy.
      destruct Hy as [->|Hy]; [lia|apply Hf; exact Hy].
Qed.

Lemma zsort_uniq_in l y : In y (zsort_uniq l) <-> In y l.
Proof.
  induction l as [|x l IH]; cbn; [tauto|]. rewrite zinsert_in, IH. intuition.
Qed.

Lemma zsort_uniq_sorted l : StronglySorted Z.lt (zsort_uniq l).
Proof.
  induction l as [|x l IH]; cbn; [constructor|]. apply zinsert_sorted. exact IH.
Qed.

Lemma filter_ssorted {A} (R : A -> A -> Prop) f l :
  StronglySorted R l -> StronglySorted R (filter f l).
Proof.
  induction l as [|x l IH]; cbn; intro H; [constructor|].
  inversion H as [|? ? Hs Hf]; subst. destruct (f x).
  - constructor; [apply IH; exact Hs|].
    rewrite Forall_forall in *. intros y Hy. apply filter_In in Hy. apply Hf. tauto.
  - apply IH. exact Hs.
Qed.

Lemma pass_weights_sorted hooks m pred s : StronglySorted Z.lt (pass_weights hooks m pred s).
Proof. unfold pass_weights. apply filter_ssorted. apply zsort_uniq_sorted. Qed.

Lemma pass_weights_in hooks m pred s w :
  In w (pass_weights hooks m pred s) <->
  pred w = true /\ (In w (trig_weights hooks m) \/ In w (await_weights hooks m) \/
                    In w (pend_weights m (e_pend s))).
Proof.
  unfold pass_weights. rewrite filter_In, zsort_uniq_in, !in_app_iff. tauto.
Qed.

Lemma await_weights_in hooks m w :
  In w (await_weights hooks m) <->
  exists h, In h hooks /\ is_call h = true /\ fst (h_trig h) = m /\ h_await h = (m, w).
Proof.
  unfold await_weights. rewrite in_map_iff. split.
  - intros [h [Hw Hh]]. apply filter_In in Hh. destruct Hh as [Hh Hc].
    apply andb_true_iff in Hc. destruct Hc as [Hc Ha]. apply andb_true_iff in Hc. destruct Hc as [Hc Ht].
    apply mname_eqb_spec in Ha, Ht. exists h. repeat split; auto.
    destruct (h_await h) as [a b]. cbn in *. subst. reflexivity.
  - intros [h (Hh & Hc & Ht & Ha)]. exists h. rewrite Ha. cbn. split; [reflexivity|].
    apply filter_In. split; [exact Hh|]. rewrite Hc, Ht, Ha. cbn. rewrite !mname_eqb_refl. reflexivity.
Qed.

Lemma trig_weights_in hooks m w :
  In w (trig_weights hooks m) <-> exists h, In h hooks /\ h_trig h = (m, w).
Proof.
  unfold trig_weights. rewrite in_map_iff. split.
  - intros [h [Hw Hh]]. apply filter_In in Hh. destruct Hh as [Hh Hm].
    apply mname_eqb_spec in Hm. exists h. split; [exact Hh|].
    destruct (h_trig h) as [a b]. cbn in *. subst. reflexivity.
  - intros [h [Hh Ht]]. exists h. rewrite Ht. cbn. split; [reflexivity|].
    apply filter_In. split; [exact Hh|]. rewrite Ht. cbn. apply mname_eqb_refl.
Qed.

Lemma pend_weights_in m p w :
  In w (pend_weights m p) <-> exists i, In ((m, w), i) p.
Proof.
  unfold pend_weights. rewrite in_map_iff. split.
  - intros [[[a b] i] [Hw Hh]]. apply filter_In in Hh. destruct Hh as [Hh Hm].
    cbn in *. apply mname_eqb_spec in Hm. subst. exists i. exact Hh.
  - intros [i Hi]. exists ((m, w), i). cbn. split; [reflexivity|].
    apply filter_In. split; [exact Hi|]. cbn. apply mname_eqb_refl.
Qed.

(* ------------------------------------------------------------------ projections of a trace *)

Definition starts (t : list tev) : list inst :=
  flat_map (fun e => match e with TStart i _ _ => [i] | _ => [] end) t.
Definition collects (t : list tev) : list inst :=
  flat_map (fun e => match e with TCollect i _ => [i] | _ => [] end) t.
Definition cancels (t : list tev) : list inst :=
  flat_map (fun e => match e with TCancel i => [i] | _ => [] end) t.

Lemma starts_app a b : starts (a ++ b) = starts a ++ starts b.
Proof. unfold starts. apply flat_map_app. Qed.
Lemma collects_app a b : collects (a ++ b) = collects a ++ collects b.
Proof. unfold collects. apply flat_map_app. Qed.
Lemma cancels_app a b : cancels (a ++ b) = cancels a ++ cancels b.
Proof. unfold cancels. apply flat_map_app. Qed.

(* number of elements of a list that satisfy a test *)
Definition nf {A} (f : A -> bool) (l : list A) : nat := length (filter f l).

Lemma nf_app {A} (f : A -> bool) a b : nf f (a ++ b) = (nf f a + nf f b)%nat.
Proof. unfold nf. rewrite filter_app, app_length. reflexivity. Qed.
Lemma nf_nil {A} (f : A -> bool) : nf f [] = 0%nat.
Proof. reflexivity. Qed.
Lemma nf_cons {A} (f : A -> bool) x l : nf f (x :: l) = ((if f x then 1 else 0) + nf f l)%nat.
Proof. unfold nf. cbn. destruct (f x); reflexivity. Qed.

Lemma nf_partition {A B} (f : B -> bool) (g : A -> B) (P : A -> bool) (l : list A) :
  nf f (map g l) =
  (nf f (map g (filter P l)) + nf f (map g (filter (fun x => negb (P x)) l)))%nat.
Proof.
  induction l as [|x l IH]; [reflexivity|].
  cbn [filter map]. destruct (P x); cbn [negb map]; rewrite !nf_cons, IH; lia.
Qed.

Definition pn (f : inst -> bool) (s : est) : nat := nf f (map snd (e_pend s)).

(* ------------------------------------------------------------------ one weight *)

Definition dw_calls (hooks : list hook) (m : mname) (w : Z) : list hook :=
  filter is_call (hooks_at hooks (m, w)).
Definition dw_pend1 (hooks : list hook) (orc : oracle) (m : mname) (w : Z) (s : est) :=
  e_pend s ++ map (fun h => (h_await h, new_inst orc h)) (dw_calls hooks m w).
Definition dw_coll hooks orc m w s : list inst :=
  map snd (filter (at_point (m, w)) (dw_pend1 hooks orc m w s)).
Definition dw_pend2 hooks orc m w s : list (point * inst) :=
  filter (fun e => negb (at_point (m, w) e)) (dw_pend1 hooks orc m w s).
Definition dw_t1 hooks orc m w s : list tev :=
  map (fun h => TStart (new_inst orc h) h (e_rv s)) (dw_calls hooks m w).
Definition dw_t2 hooks orc m w s : list tev :=
  map (fun i => TCollect i (m, w)) (dw_coll hooks orc m w s).
Definition dw_tasks (hooks : list hook) (m : mname) (w : Z) : list N :=
  map h_id (filter is_task (hooks_at hooks (m, w))).

(* what phase 3 may add to the trace *)
Definition phase3_ev (p : point) (e : tev) : Prop :=
  match e with TUnsure q | TCrash q | TTasks _ q => q = p | _ => False end.

Lemma do_weight_shape hooks orc m w s s' t f c :
  do_weight hooks orc m w s = (s', t, f, c) ->
  e_pend s' = dw_pend2 hooks orc m w s /\
  e_st s' = e_st s /\ e_rv s' = e_rv s /\ e_clock s' = e_clock s /\ e_ctr s' = e_ctr s /\
  exists t3, t = dw_t1 hooks orc m w s ++ dw_t2 hooks orc m w s ++ t3 /\ Forall (phase3_ev (m, w)) t3.
Proof.
  unfold do_weight. fold (dw_calls hooks m w). fold (dw_pend1 hooks orc m w s).
  fold (dw_coll hooks orc m w s). fold (dw_pend2 hooks orc m w s).
  fold (dw_t1 hooks orc m w s). fold (dw_t2 hooks orc m w s). fold (dw_tasks hooks m w).
  set (t3 := match dw_tasks hooks m w with
             | [] => []
             | _ :: _ => [TTasks (dw_tasks hooks m w) (m, w)]
             end).
  assert (H3 : Forall (phase3_ev (m, w)) t3).
  { unfold t3. destruct (dw_tasks hooks m w); [constructor|]. cbn; repeat constructor. }
  set (s2 := set_pend (dw_pend2 hooks orc m w s) s).
  assert (Hs2 : e_pend s2 = dw_pend2 hooks orc m w s /\ e_st s2 = e_st s /\ e_rv s2 = e_rv s /\
                e_clock s2 = e_clock s /\ e_ctr s2 = e_ctr s).
  { unfold s2. cbn; auto. }
  destruct (run_tasks (dw_tasks hooks m w) (or_touts orc)) as [errs|].
  - destruct (filter (fun i => i_fail i && i_crit i) (dw_coll hooks orc m w s)) eqn:Ec;
      [destruct (filter (crit_of hooks) (filter (fun h => memN h errs) (dw_tasks hooks m w))) eqn:Et|];
      intro H; inversion H; subst; clear H;
      (destruct Hs2 as (A & B & C & D & E); repeat (split; [assumption|]); exists t3; split; [reflexivity|exact H3]).
  - intro H; inversion H; subst; clear H.
    destruct Hs2 as (A & B & C & D & E); repeat (split; [assumption|]).
    exists (t3 ++ [TCrash (m, w)]). split; [reflexivity|].
    apply Forall_app. split; [exact H3|repeat constructor].
Qed.

(* critical failures reported by one weight *)
Lemma do_weight_fail hooks orc m w s s' t f c :
  do_weight hooks orc m w s = (s', t, f, c) -> c = false ->
  match f with
  | None => filter (fun i => i_fail i && i_crit i) (dw_coll hooks orc m w s) = []
  | Some wf => wf_calls wf = filter (fun i => i_fail i && i_crit i) (dw_coll hooks orc m w s) /\
               (wf_calls wf <> [] \/ wf_tasks wf <> [])
  end.
Proof.
  unfold do_weight. fold (dw_calls hooks m w). fold (dw_pend1 hooks orc m w s).
  fold (dw_coll hooks orc m w s). fold (dw_tasks hooks m w).
  destruct (run_tasks (dw_tasks hooks m w) (or_touts orc)) as [errs|].
  - destruct (filter (fun i => i_fail i && i_crit i) (dw_coll hooks orc m w s)) eqn:Ec;
      [destruct (filter (crit_of hooks) (filter (fun h => memN h errs) (dw_tasks hooks m w))) eqn:Et|];
      intros H _; inversion H; subst; clear H; cbn.
    + reflexivity.
    + split; [reflexivity|]. right. discriminate.
    + split; [reflexivity|]. left. discriminate.
  - intros H Hc. inversion H; subst. discriminate.
Qed.

Lemma starts_map_start {A} (F : A -> inst) (G : A -> hook) (r : rvars) (l : list A) :
  starts (map (fun h => TStart (F h) (G h) r) l) = map F l.
Proof. induction l as [|x l IH]; cbn; [reflexivity|]. f_equal. exact IH. Qed.
Lemma collects_map_start {A} (F : A -> inst) (G : A -> hook) (r : rvars) (l : list A) :
  collects (map (fun h => TStart (F h) (G h) r) l) = [].
Proof. induction l as [|x l IH]; cbn; [reflexivity|]. exact IH. Qed.
Lemma cancels_map_start {A} (F : A -> inst) (G : A -> hook) (r : rvars) (l : list A) :
  cancels (map (fun h => TStart (F h) (G h) r) l) = [].
Proof. induction l as [|x l IH]; cbn; [reflexivity|]. exact IH. Qed.
Lemma starts_map_collect p (l : list inst) : starts (map (fun i => TCollect i p) l) = [].
Proof. induction l as [|x l IH]; cbn; [reflexivity|]. exact IH. Qed.
Lemma collects_map_collect p (l : list inst) : collects (map (fun i => TCollect i p) l) = l.
Proof. induction l as [|x l IH]; cbn; [reflexivity|]. f_equal. exact IH. Qed.
Lemma cancels_map_collect p (l : list inst) : cancels (map (fun i => TCollect i p) l) = [].
Proof. induction l as [|x l IH]; cbn; [reflexivity|]. exact IH. Qed.

Lemma phase3_no_calls p t :
  Forall (phase3_ev p) t -> starts t = [] /\ collects t = [] /\ cancels t = [].
Proof.
  induction 1 as [|e t He _ IH]; [auto|]. destruct IH as (A & B & C).
  destruct e; cbn in He; try contradiction; cbn; auto.
Qed.

(* calls started + calls pending before = calls collected + calls pending after, for every
   set [g] of instances *)
Lemma do_weight_count hooks orc m w s s' t f c (g : inst -> bool) :
  do_weight hooks orc m w s = (s', t, f, c) ->
  (nf g (starts t) + pn g s = nf g (collects t) + pn g s')%nat /\ cancels t = [].
Proof.
  intro H. apply do_weight_shape in H.
  destruct H as (Hp & _ & _ & _ & _ & t3 & -> & H3).
  apply phase3_no_calls in H3. destruct H3 as (A & B & C).
  unfold pn. rewrite Hp.
  rewrite !starts_app, !collects_app, !cancels_app, A, B, C.
  unfold dw_t1, dw_t2.
  rewrite (starts_map_start (new_inst orc) (fun h => h)), starts_map_collect.
  rewrite (collects_map_start (new_inst orc) (fun h => h)), collects_map_collect.
  rewrite (cancels_map_start (new_inst orc) (fun h => h)), cancels_map_collect.
  rewrite !app_nil_r. cbn [app]. split; [|reflexivity].
  unfold dw_coll, dw_pend2.
  pose proof (nf_partition g snd (at_point (m, w)) (dw_pend1 hooks orc m w s)) as HP.
  assert (E : nf g (map snd (dw_pend1 hooks orc m w s)) =
              (nf g (map snd (e_pend s)) + nf g (map (new_inst orc) (dw_calls hooks m w)))%nat).
  { unfold dw_pend1. rewrite map_app, nf_app, map_map. reflexivity. }
  lia.
Qed.

(* ------------------------------------------------------------------ one pass (handleHooks) *)

Definition critfail (i : inst) : bool := i_fail i && i_crit i.

Lemma do_weight_collects hooks orc m w s s' t f c :
  do_weight hooks orc m w s = (s', t, f, c) -> collects t = dw_coll hooks orc m w s.
Proof.
  intro H. apply do_weight_shape in H.
  destruct H as (_ & _ & _ & _ & _ & t3 & -> & H3).
  apply phase3_no_calls in H3. destruct H3 as (A & B & C).
  rewrite !collects_app, B. unfold dw_t1, dw_t2.
  rewrite (collects_map_start (new_inst orc) (fun h => h)), collects_map_collect.
  rewrite app_nil_r. reflexivity.
Qed.

Lemma pass_loop_frame hooks orc m ws : forall s s' t p,
  pass_loop hooks orc m ws s = (s', t, p) ->
  e_st s' = e_st s /\ e_rv s' = e_rv s /\ e_clock s' = e_clock s /\ e_ctr s' = e_ctr s.
Proof.
  induction ws as [|w ws IH]; intros s s' t p; cbn.
  - intro H. inversion H. auto.
  - destruct (do_weight hooks orc m w s) as [[[s1 t1] f] c] eqn:E.
    apply do_weight_shape in E. destruct E as (_ & A & B & C & D & _).
    destruct c.
    + intro H. inversion H; subst. auto.
    + destruct f as [wf|].
      * intro H. inversion H; subst. auto.
      * destruct (pass_loop hooks orc m ws s1) as [[s2 t2] p2] eqn:E2.
        apply IH in E2. intro H. inversion H; subst.
        destruct E2 as (A2 & B2 & C2 & D2). repeat split; congruence.
Qed.

Lemma pass_loop_count hooks orc m ws (g : inst -> bool) : forall s s' t p,
  pass_loop hooks orc m ws s = (s', t, p) ->
  (nf g (starts t) + pn g s = nf g (collects t) + pn g s')%nat /\ cancels t = [].
Proof.
  induction ws as [|w ws IH]; intros s s' t p; cbn.
  - intro H. inversion H. cbn. split; [lia|reflexivity].
  - destruct (do_weight hooks orc m w s) as [[[s1 t1] f] c] eqn:E.
    apply (do_weight_count _ _ _ _ _ _ _ _ _ g) in E. destruct E as [E Ec].
    destruct c.
    + intro H. inversion H; subst. split; [lia|exact Ec].
    + destruct f as [wf|].
      * intro H. inversion H; subst. split; [lia|exact Ec].
      * destruct (pass_loop hooks orc m ws s1) as [[s2 t2] p2] eqn:E2.
        apply IH in E2. destruct E2 as [E2 Ec2]. intro H. inversion H; subst.
        rewrite starts_app, collects_app, cancels_app, !nf_app, Ec, Ec2. split; [lia|reflexivity].
Qed.

(* the critical failing calls collected in a pass are exactly those of the returned error *)
Lemma filter_critfail_app a b : filter critfail (a ++ b) = filter critfail a ++ filter critfail b.
Proof. apply filter_app. Qed.

Lemma pass_loop_crit hooks orc m ws : forall s s' t p,
  pass_loop hooks orc m ws s = (s', t, p) ->
  match p with
  | POk => filter critfail (collects t) = []
  | PFail m' f => m' = m /\ filter critfail (collects t) = wf_calls f /\
                  (wf_calls f <> [] \/ wf_tasks f <> [])
  | PCrash => True
  end.
Proof.
  induction ws as [|w ws IH]; intros s s' t p; cbn.
  - intro H. inversion H. reflexivity.
  - destruct (do_weight hooks orc m w s) as [[[s1 t1] f] c] eqn:E.
    pose proof (do_weight_collects _ _ _ _ _ _ _ _ _ E) as Hc.
    destruct c.
    + intro H. inversion H; subst. exact I.
    + pose proof (do_weight_fail _ _ _ _ _ _ _ _ _ E eq_refl) as Hf.
      destruct f as [wf|].
      * intro H. inversion H; subst. destruct Hf as [Hf1 Hf2].
        split; [reflexivity|]. split; [|exact Hf2]. rewrite Hc. symmetry. exact Hf1.
      * destruct (pass_loop hooks orc m ws s1) as [[s2 t2] p2] eqn:E2.
        apply IH in E2. intro H. inversion H; subst.
        rewrite collects_app, filter_critfail_app, Hc.
        fold critfail in Hf. rewrite Hf. cbn [app].
        destruct p; exact E2.
Qed.

(* events of a pass *)
Definition pass_ev (hooks : list hook) (orc : oracle) (m : mname) (ws : list Z) (r : rvars) (e : tev) : Prop :=
  match e with
  | TStart i h snap => In h hooks /\ is_call h = true /\ fst (h_trig h) = m /\ In (snd (h_trig h)) ws /\
                       i = new_inst orc h /\ snap = r
  | TCollect _ p | TTasks _ p | TUnsure p | TCrash p => fst p = m /\ In (snd p) ws
  | _ => False
  end.

Lemma hooks_at_in hooks p h : In h (hooks_at hooks p) <-> In h hooks /\ h_trig h = p.
Proof. unfold hooks_at. rewrite filter_In, point_eqb_spec. tauto. Qed.

Lemma do_weight_events hooks orc m w s s' t f c :
  do_weight hooks orc m w s = (s', t, f, c) -> Forall (pass_ev hooks orc m [w] (e_rv s)) t.
Proof.
  intro H. apply do_weight_shape in H.
  destruct H as (_ & _ & _ & _ & _ & t3 & -> & H3).
  rewrite !Forall_app. repeat split.
  - unfold dw_t1, dw_calls. rewrite Forall_forall. intros e He. apply in_map_iff in He.
    destruct He as [h [<- Hh]]. apply filter_In in Hh. destruct Hh as [Hh Hc].
    apply hooks_at_in in Hh. destruct Hh as [Hh Ht]. cbn. rewrite Ht. cbn. intuition.
  - unfold dw_t2. rewrite Forall_forall. intros e He. apply in_map_iff in He.
    destruct He as [i [<- _]]. cbn. auto.
  - rewrite Forall_forall in *. intros e He. specialize (H3 e He).
    destruct e; cbn in *; try contradiction; subst; cbn; auto.
Qed.

Lemma pass_ev_weaken hooks orc m ws ws' r e :
  (forall w, In w ws -> In w ws') -> pass_ev hooks orc m ws r e -> pass_ev hooks orc m ws' r e.
Proof.
  intros Hs. destruct e; cbn; try tauto.
  - intros (A & B & C & D & E & F). auto 10.
  - intros [A B]. auto.
  - intros [A B]. auto.
  - intros [A B]. auto.
  - intros [A B]. auto.
Qed.

Lemma pass_loop_events hooks orc m ws : forall s s' t p,
  pass_loop hooks orc m ws s = (s', t, p) -> Forall (pass_ev hooks orc m ws (e_rv s)) t.
Proof.
  induction ws as [|w ws IH]; intros s s' t p; cbn.
  - intro H. inversion H. constructor.
  - destruct (do_weight hooks orc m w s) as [[[s1 t1] f] c] eqn:E.
    pose proof (do_weight_events _ _ _ _ _ _ _ _ _ E) as He.
    assert (He' : Forall (pass_ev hooks orc m (w :: ws) (e_rv s)) t1).
    { eapply Forall_impl; [|exact He]. intros e. apply pass_ev_weaken.
      intros x [->|[]]. left. reflexivity. }
    apply do_weight_shape in E. destruct E as (_ & _ & Hrv & _).
    destruct c.
    + intro H. inversion H; subst. exact He'.
    + destruct f as [wf|].
      * intro H. inversion H; subst. exact He'.
      * destruct (pass_loop hooks orc m ws s1) as [[s2 t2] p2] eqn:E2.
        apply IH in E2. intro H. inversion H; subst.
        apply Forall_app. split; [exact He'|].
        rewrite Hrv in E2. eapply Forall_impl; [|exact E2]. intros e. apply pass_ev_weaken.
        intros x Hx. right. exact Hx.
Qed.

(* key inside a pass: 3 * weight + (0 start, 1 collect, 2 hook tasks) *)
Definition wkey (e : tev) : Z :=
  match e with
  | TStart _ h _ => 3 * snd (h_trig h)
  | TCollect _ p => 3 * snd p + 1
  | TTasks _ p | TUnsure p | TCrash p => 3 * snd p + 2
  | _ => 0
  end%Z.

Lemma do_weight_sorted hooks orc m w s s' t f c :
  do_weight hooks orc m w s = (s', t, f, c) ->
  StronglySorted Z.le (map wkey t) /\ Forall (fun e => 3 * w <= wkey e <= 3 * w + 2)%Z t.
Proof.
  intro H. apply do_weight_shape in H.
  destruct H as (_ & _ & _ & _ & _ & t3 & -> & H3).
  assert (K1 : Forall (fun e => wkey e = 3 * w)%Z (dw_t1 hooks orc m w s)).
  { unfold dw_t1, dw_calls. rewrite Forall_forall. intros e He. apply in_map_iff in He.
    destruct He as [h [<- Hh]]. apply filter_In in Hh. destruct Hh as [Hh _].
    apply hooks_at_in in Hh. destruct Hh as [_ Ht]. cbn. rewrite Ht. reflexivity. }
  assert (K2 : Forall (fun e => wkey e = 3 * w + 1)%Z (dw_t2 hooks orc m w s)).
  { unfold dw_t2. rewrite Forall_forall. intros e He. apply in_map_iff in He.
    destruct He as [i [<- _]]. reflexivity. }
  assert (K3 : Forall (fun e => wkey e = 3 * w + 2)%Z t3).
  { rewrite Forall_forall in *. intros e He. specialize (H3 e He).
    destruct e; cbn in *; try contradiction; subst; reflexivity. }
  split.
  - rewrite !map_app.
    assert (G : forall (k : Z) l, Forall (fun e => wkey e = k) l -> StronglySorted Z.le (map wkey l) /\
                                   Forall (fun x => x = k) (map wkey l)).
    { intros k l. induction 1 as [|e l He _ [IH1 IH2]]; cbn; [split; constructor|].
      split.
      - constructor; [exact IH1|]. rewrite Forall_forall in *. intros x Hx. rewrite (IH2 x Hx). lia.
      - constructor; [exact He|exact IH2]. }
    destruct (G _ _ K1) as [S1 F1], (G _ _ K2) as [S2 F2], (G _ _ K3) as [S3 F3].
    assert (App : forall l1 l2, StronglySorted Z.le l1 -> StronglySorted Z.le l2 ->
                   (forall a b, In a l1 -> In b l2 -> (a <= b)%Z) -> StronglySorted Z.le (l1 ++ l2)).
    { intros l1 l2 A. induction A as [|x l1 A IH Hx]; intros B Hab; cbn; [exact B|].
      constructor.
      - apply IH; [exact B|]. intros a b Ha Hb. apply Hab; [right; exact Ha|exact Hb].
      - apply Forall_app. split; [exact Hx|]. rewrite Forall_forall. intros b Hb.
        apply Hab; [left; reflexivity|exact Hb]. }
    rewrite Forall_forall in F1, F2, F3.
    apply App; [exact S1| |].
    + apply App; [exact S2|exact S3|]. intros a b Ha Hb. rewrite (F2 a Ha), (F3 b Hb). lia.
    + intros a b Ha Hb. rewrite (F1 a Ha). apply in_app_iff in Hb.
      destruct Hb as [Hb|Hb]; [rewrite (F2 b Hb)|rewrite (F3 b Hb)]; lia.
  - rewrite !Forall_app. repeat split.
    + eapply Forall_impl; [|exact K1]. cbn. intros e ->. lia.
    + eapply Forall_impl; [|exact K2]. cbn. intros e ->. lia.
    + eapply Forall_impl; [|exact K3]. cbn. intros e ->. lia.
Qed.

Lemma ssorted_le_app (l1 l2 : list Z) :
  StronglySorted Z.le l1 -> StronglySorted Z.le l2 ->
  (forall a b, In a l1 -> In b l2 -> (a <= b)%Z) -> StronglySorted Z.le (l1 ++ l2).
Proof.
  intros A. induction A as [|x l1 A IH Hx]; intros B Hab; cbn; [exact B|].
  constructor.
  - apply IH; [exact B|]. intros a b Ha Hb. apply Hab; [right; exact Ha|exact Hb].
  - apply Forall_app. split; [exact Hx|]. rewrite Forall_forall. intros b Hb.
    apply Hab; [left; reflexivity|exact Hb].
Qed.

(* within a pass: ascending weight; at one weight all starts, then all collects, then the hook
   tasks *)
Lemma pass_loop_sorted hooks orc m ws : StronglySorted Z.lt ws -> forall s s' t p,
  pass_loop hooks orc m ws s = (s', t, p) ->
  StronglySorted Z.le (map wkey t) /\
  Forall (fun e => exists w, In w ws /\ 3 * w <= wkey e <= 3 * w + 2)%Z t.
Proof.
  induction 1 as [|w ws Hs IH Hw]; intros s s' t p; cbn.
  - intro H. inversion H. split; constructor.
  - destruct (do_weight hooks orc m w s) as [[[s1 t1] f] c] eqn:E.
    apply do_weight_sorted in E. destruct E as [S1 B1].
    assert (B1' : Forall (fun e => exists w0, In w0 (w :: ws) /\ 3 * w0 <= wkey e <= 3 * w0 + 2)%Z t1).
    { eapply Forall_impl; [|exact B1]. intros e He. exists w. split; [left; reflexivity|exact He]. }
    destruct c.
    + intro H. inversion H; subst. split; assumption.
    + destruct f as [wf|].
      * intro H. inversion H; subst. split; assumption.
      * destruct (pass_loop hooks orc m ws s1) as [[s2 t2] p2] eqn:E2.
        apply IH in E2. destruct E2 as [S2 B2]. intro H. inversion H; subst.
        split.
        -- rewrite map_app. apply ssorted_le_app; [exact S1|exact S2|].
           intros a b Ha Hb. apply in_map_iff in Ha. destruct Ha as [ea [<- Ha]].
           apply in_map_iff in Hb. destruct Hb as [eb [<- Hb]].
           rewrite Forall_forall in B1, B2, Hw.
           specialize (B1 ea Ha). destruct (B2 eb Hb) as [w' [Hw' Hk]].
           specialize (Hw w' Hw'). lia.
        -- apply Forall_app. split; [exact B1'|].
           eapply Forall_impl; [|exact B2]. intros e [w' [Hw' Hk]]. exists w'. split; [right; exact Hw'|exact Hk].
Qed.

(* ------------------------------------------------------------------ run_pass wrappers *)

Lemma run_pass_frame hooks orc m pred s s' t p :
  run_pass hooks orc m pred s = (s', t, p) ->
  e_st s' = e_st s /\ e_rv s' = e_rv s /\ e_clock s' = e_clock s /\ e_ctr s' = e_ctr s.
Proof. apply pass_loop_frame. Qed.

Lemma run_pass_count hooks orc m pred (g : inst -> bool) s s' t p :
  run_pass hooks orc m pred s = (s', t, p) ->
  (nf g (starts t) + pn g s = nf g (collects t) + pn g s')%nat /\ cancels t = [].
Proof. apply pass_loop_count. Qed.

Lemma run_pass_crit hooks orc m pred s s' t p :
  run_pass hooks orc m pred s = (s', t, p) ->
  match p with
  | POk => filter critfail (collects t) = []
  | PFail m' f => m' = m /\ filter critfail (collects t) = wf_calls f /\
                  (wf_calls f <> [] \/ wf_tasks f <> [])
  | PCrash => True
  end.
Proof. apply pass_loop_crit. Qed.

Lemma run_pass_events hooks orc m pred s s' t p :
  run_pass hooks orc m pred s = (s', t, p) ->
  Forall (pass_ev hooks orc m (pass_weights hooks m pred s) (e_rv s)) t.
Proof. apply pass_loop_events. Qed.

Lemma run_pass_sorted hooks orc m pred s s' t p :
  run_pass hooks orc m pred s = (s', t, p) -> StronglySorted Z.le (map wkey t).
Proof.
  intro H. eapply pass_loop_sorted in H; [apply H|apply pass_weights_sorted].
Qed.

(* ------------------------------------------------------------------ keys inside a transition *)
(* segment = 5 * phase + (0 step begins, 1 negative weights, 2 built-in work, 3 non-negative
   weights, 4 step ends); phases: 0 before_<event>, 1 leave_<state>, 2 task transition,
   3 enter_<state>, 4 after_<event> *)

Definition seg_of_point (e : evt) (src d : st) (p : point) : Z :=
  match phase_of e src d (fst p) with
  | Some ph => 5 * Z.of_N ph + (if wneg (snd p) then 1 else 3)
  | None => 100
  end.

Definition tkey (e : evt) (src d : st) (x : tev) : Z * Z :=
  match x with
  | TStart _ h _ => (seg_of_point e src d (h_trig h), wkey x)
  | TCollect _ p | TTasks _ p | TUnsure p | TCrash p => (seg_of_point e src d p, wkey x)
  | TStep (SMoment m) b _ =>
    (match phase_of e src d m with Some ph => 5 * Z.of_N ph + (if b then 0 else 4) | None => 100 end, 0)
  | TStep (STasks _) b _ => (if b then 10 else 14, 0)
  | TBody _ => (12, 0)
  | TRun _ status _ => (if (status =? 0)%N then 2 else 22, 0)
  | TCancel _ => (100, 0)
  end%Z.

Definition kle (a b : Z * Z) : Prop := (fst a < fst b \/ (fst a = fst b /\ snd a <= snd b))%Z.

Definition sseg (lo hi : Z) (l : list (Z * Z)) : Prop :=
  StronglySorted kle l /\ Forall (fun k => lo <= fst k <= hi)%Z l.

Lemma sseg_nil lo hi : sseg lo hi [].
Proof. split; constructor. Qed.

Lemma sseg_single k x : sseg k k [(k, x)].
Proof. split; repeat constructor; cbn; lia. Qed.

Lemma sseg_app a b c d l1 l2 :
  sseg a b l1 -> sseg c d l2 -> (b < c)%Z -> (a <= c)%Z -> (b <= d)%Z -> sseg a d (l1 ++ l2).
Proof.
  intros [S1 F1] [S2 F2] Hbc Hac Hbd. split.
  - revert F1. induction S1 as [|x l1 S1 IH Hx]; intro F1; cbn; [exact S2|].
    inversion F1 as [|? ? Fx F1']; subst.
    constructor; [apply IH; exact F1'|].
    apply Forall_app. split; [exact Hx|].
    rewrite Forall_forall in *. intros y Hy. specialize (F2 y Hy). left. lia.
  - apply Forall_app. split.
    + eapply Forall_impl; [|exact F1]. cbn. intros k Hk. lia.
    + eapply Forall_impl; [|exact F2]. cbn. intros k Hk. lia.
Qed.

Lemma sseg_weaken a b a' b' l : sseg a b l -> (a' <= a)%Z -> (b <= b')%Z -> sseg a' b' l.
Proof.
  intros [S F] Ha Hb. split; [exact S|]. eapply Forall_impl; [|exact F]. cbn. intros k Hk. lia.
Qed.

Lemma sseg_const c (l : list Z) :
  StronglySorted Z.le l -> sseg c c (map (fun x => (c, x)) l).
Proof.
  induction 1 as [|x l S [IH1 IH2] Hx]; [apply sseg_nil|]. split.
  - cbn. constructor; [exact IH1|]. rewrite Forall_forall in *. intros y Hy.
    apply in_map_iff in Hy. destruct Hy as [z [<- Hz]]. right. cbn. split; [reflexivity|apply Hx; exact Hz].
  - cbn. constructor; [cbn; lia|exact IH2].
Qed.

Lemma phase_before e src d : phase_of e src d (MBefore e) = Some 0.
Proof. unfold phase_of. rewrite mname_eqb_refl. reflexivity. Qed.
Lemma phase_leave e src d : phase_of e src d (MLeave src) = Some 1.
Proof.
  unfold phase_of. rewrite (mname_eqb_neq (MLeave src) (MBefore e)) by discriminate.
  rewrite mname_eqb_refl. reflexivity.
Qed.
Lemma phase_enter e src d : phase_of e src d (MEnter d) = Some 3.
Proof.
  unfold phase_of. rewrite (mname_eqb_neq (MEnter d) (MBefore e)) by discriminate.
  rewrite (mname_eqb_neq (MEnter d) (MLeave src)) by discriminate.
  rewrite mname_eqb_refl. reflexivity.
Qed.
Lemma phase_after e src d : phase_of e src d (MAfter e) = Some 4.
Proof.
  unfold phase_of. rewrite (mname_eqb_neq (MAfter e) (MBefore e)) by discriminate.
  rewrite (mname_eqb_neq (MAfter e) (MLeave src)) by discriminate.
  rewrite (mname_eqb_neq (MAfter e) (MEnter d)) by discriminate.
  rewrite mname_eqb_refl. reflexivity.
Qed.

(* the keys of a pass of moment [m] (phase ph) restricted to one sign class *)
Lemma run_pass_keys hooks orc e src d m ph pred cls s s' t p :
  run_pass hooks orc m pred s = (s', t, p) ->
  phase_of e src d m = Some ph ->
  (forall w, pred w = true -> (if wneg w then 1 else 3)%Z = cls) ->
  sseg (5 * Z.of_N ph + cls) (5 * Z.of_N ph + cls) (map (tkey e src d) t).
Proof.
  intros H Hph Hcls.
  pose proof (run_pass_sorted _ _ _ _ _ _ _ _ H) as Hs.
  pose proof (run_pass_events _ _ _ _ _ _ _ _ H) as He.
  assert (E : map (tkey e src d) t = map (fun x => ((5 * Z.of_N ph + cls)%Z, x)) (map wkey t)).
  { rewrite map_map. apply map_ext_in. intros x Hx. rewrite Forall_forall in He.
    specialize (He x Hx).
    assert (P : forall q : point, fst q = m -> In (snd q) (pass_weights hooks m pred s) ->
                seg_of_point e src d q = (5 * Z.of_N ph + cls)%Z).
    { intros q Hq Hw. unfold seg_of_point. rewrite Hq, Hph. apply pass_weights_in in Hw.
      destruct Hw as [Hw _]. rewrite (Hcls _ Hw). reflexivity. }
    destruct x; cbn in He; try contradiction.
    - destruct He as (_ & _ & A & B & _). cbn [tkey]. rewrite (P _ A B). reflexivity.
    - destruct He as [A B]. cbn [tkey]. rewrite (P _ A B). reflexivity.
    - destruct He as [A B]. cbn [tkey]. rewrite (P _ A B). reflexivity.
    - destruct He as [A B]. cbn [tkey]. rewrite (P _ A B). reflexivity.
    - destruct He as [A B]. cbn [tkey]. rewrite (P _ A B). reflexivity. }
  rewrite E. apply sseg_const. exact Hs.
Qed.

Lemma wneg_cls w : wneg w = true -> (if wneg w then 1 else 3)%Z = 1%Z.
Proof. intros ->. reflexivity. Qed.
Lemma wnonneg_cls w : wnonneg w = true -> (if wneg w then 1 else 3)%Z = 3%Z.
Proof.
  unfold wnonneg, wneg. intro H. apply Z.leb_le in H.
  destruct (w <? 0)%Z eqn:E; [apply Z.ltb_lt in E; lia|reflexivity].
Qed.

(* shapes of a callback's trace *)
Section Shapes.
  Variable p : Z.
  Variables (x0 x4 : Z) (K1 K2 K3 : list (Z * Z)).
  Hypothesis H1 : sseg (5 * p + 1) (5 * p + 1) K1.
  Hypothesis H2 : sseg (5 * p + 2) (5 * p + 2) K2.
  Hypothesis H3 : sseg (5 * p + 3) (5 * p + 3) K3.

  Let P0 := (5 * p)%Z. Let P1 := (5 * p + 1)%Z. Let P2 := (5 * p + 2)%Z.
  Let P3 := (5 * p + 3)%Z. Let P4 := (5 * p + 4)%Z.

  Lemma shape_a : sseg (5 * p) (5 * p + 4) ((5 * p, x0)%Z :: K1).
  Proof.
    change (sseg P0 P4 ([(P0, x0)] ++ K1)).
    apply (sseg_app P0 P0 P1 P4); [apply sseg_single|apply (sseg_weaken P1 P1); [exact H1| |]| | |];
      unfold P0, P1, P4; lia.
  Qed.
  Lemma shape_b : sseg (5 * p) (5 * p + 4) ((5 * p, x0)%Z :: K1 ++ [(5 * p + 4, x4)%Z]).
  Proof.
    change (sseg P0 P4 ([(P0, x0)] ++ K1 ++ [(P4, x4)])).
    apply (sseg_app P0 P0 P1 P4); [apply sseg_single| | | |]; try (unfold P0, P1, P4; lia).
    apply (sseg_app P1 P1 P4 P4); [exact H1|apply sseg_single| | |]; unfold P1, P4; lia.
  Qed.
  Lemma shape_c : sseg (5 * p) (5 * p + 4) ((5 * p, x0)%Z :: K1 ++ K2 ++ K3).
  Proof.
    change (sseg P0 P4 ([(P0, x0)] ++ K1 ++ K2 ++ K3)).
    apply (sseg_app P0 P0 P1 P4); [apply sseg_single| | | |]; try (unfold P0, P1, P4; lia).
    apply (sseg_app P1 P1 P2 P4); [exact H1| | | |]; try (unfold P1, P2, P4; lia).
    apply (sseg_app P2 P2 P3 P4); [exact H2|apply (sseg_weaken P3 P3); [exact H3| |]| | |];
      unfold P2, P3, P4; lia.
  Qed.
  Lemma shape_d : sseg (5 * p) (5 * p + 4) ((5 * p, x0)%Z :: K1 ++ K2 ++ K3 ++ [(5 * p + 4, x4)%Z]).
  Proof.
    change (sseg P0 P4 ([(P0, x0)] ++ K1 ++ K2 ++ K3 ++ [(P4, x4)])).
    apply (sseg_app P0 P0 P1 P4); [apply sseg_single| | | |]; try (unfold P0, P1, P4; lia).
    apply (sseg_app P1 P1 P2 P4); [exact H1| | | |]; try (unfold P1, P2, P4; lia).
    apply (sseg_app P2 P2 P3 P4); [exact H2| | | |]; try (unfold P2, P3, P4; lia).
    apply (sseg_app P3 P3 P4 P4); [exact H3|apply sseg_single| | |]; unfold P3, P4; lia.
  Qed.
End Shapes.

Lemma builtin_before_keys e src d e' s s' tb :
  builtin_before e' s = (s', tb) -> sseg 2 2 (map (tkey e src d) tb).
Proof.
  unfold builtin_before. destruct e'; try (intro H; inversion H; apply sseg_nil).
  - intro H; inversion H. cbn. apply (sseg_single 2).
  - destruct (set_soeor_if_empty s) as [s1 [|]]; intro H; inversion H; cbn;
      [apply (sseg_single 2)|apply sseg_nil].
  - destruct (set_soeor_if_empty s) as [s1 [|]]; intro H; inversion H; cbn;
      [apply (sseg_single 2)|apply sseg_nil].
Qed.

Lemma builtin_after_keys e src d e' err s s' ta :
  builtin_after e' err s = (s', ta) -> sseg 22 22 (map (tkey e src d) ta).
Proof.
  unfold builtin_after. destruct e'; try (intro H; inversion H; apply sseg_nil).
  - intro H; inversion H. destruct err; cbn; apply (sseg_single 22).
  - intro H; inversion H. destruct err; cbn; apply (sseg_single 22).
  - destruct (set_eoeor_if_empty s) as [s1 [|]]; intro H; inversion H; cbn;
      [apply (sseg_single 22)|apply sseg_nil].
Qed.

Lemma before_stage_keys hooks orc e src d s s' t errs c :
  before_stage hooks orc e s = (s', t, errs, c) -> sseg 0 4 (map (tkey e src d) t).
Proof.
  unfold before_stage.
  destruct (run_pass hooks orc (MBefore e) wneg s) as [[s1 t1] p1] eqn:E1.
  pose proof (run_pass_keys hooks orc e src d _ 0 _ 1%Z _ _ _ _ E1 (phase_before e src d) wneg_cls) as K1.
  assert (B : forall b er, tkey e src d (TStep (SMoment (MBefore e)) b er) = ((if b then 0 else 4)%Z, 0%Z)).
  { intros b er. cbn [tkey]. rewrite phase_before. destruct b; reflexivity. }
  destruct p1.
  - destruct (builtin_before e s1) as [s2 tb] eqn:Eb.
    pose proof (builtin_before_keys e src d _ _ _ _ Eb) as K2.
    destruct (run_pass hooks orc (MBefore e) wnonneg s2) as [[s3 t3] p3] eqn:E3.
    pose proof (run_pass_keys hooks orc e src d _ 0 _ 3%Z _ _ _ _ E3 (phase_before e src d) wnonneg_cls) as K3.
    destruct p3; intro H; inversion H; subst; clear H; unfold bstep, estep;
      rewrite ?map_cons, ?map_app, ?map_cons, ?B; cbn [map].
    + apply (shape_d 0 0 0 _ _ _ K1 K2 K3).
    + apply (shape_d 0 0 0 _ _ _ K1 K2 K3).
    + apply (shape_c 0 0 _ _ _ K1 K2 K3).
  - intro H; inversion H; subst; clear H; unfold bstep, estep.
    rewrite ?map_cons, ?map_app, ?map_cons, ?B; cbn [map].
    apply (shape_b 0 0 0 _ K1).
  - intro H; inversion H; subst; clear H; unfold bstep.
    rewrite ?map_cons, ?B. apply (shape_a 0 0 _ K1).
Qed.

Lemma leave_stage_keys hooks orc e src d s s' t errs c :
  leave_stage hooks orc src s = (s', t, errs, c) -> sseg 5 9 (map (tkey e src d) t).
Proof.
  unfold leave_stage.
  destruct (run_pass hooks orc (MLeave src) wneg s) as [[s1 t1] p1] eqn:E1.
  pose proof (run_pass_keys hooks orc e src d _ 1 _ 1%Z _ _ _ _ E1 (phase_leave e src d) wneg_cls) as K1.
  assert (B : forall b er, tkey e src d (TStep (SMoment (MLeave src)) b er) = ((if b then 5 else 9)%Z, 0%Z)).
  { intros b er. cbn [tkey]. rewrite phase_leave. destruct b; reflexivity. }
  destruct p1.
  - destruct (run_pass hooks orc (MLeave src) wnonneg (builtin_leave src s1)) as [[s3 t3] p3] eqn:E3.
    pose proof (run_pass_keys hooks orc e src d _ 1 _ 3%Z _ _ _ _ E3 (phase_leave e src d) wnonneg_cls) as K3.
    destruct p3; intro H; inversion H; subst; clear H; unfold bstep, estep;
      rewrite ?map_cons, ?map_app, ?map_cons, ?B; cbn [map].
    + apply (shape_d 1 0 0 _ [] _ K1 (sseg_nil _ _) K3).
    + apply (shape_d 1 0 0 _ [] _ K1 (sseg_nil _ _) K3).
    + apply (shape_c 1 0 _ [] _ K1 (sseg_nil _ _) K3).
  - intro H; inversion H; subst; clear H; unfold bstep, estep.
    rewrite ?map_cons, ?map_app, ?map_cons, ?B; cbn [map].
    apply (shape_b 1 0 0 _ K1).
  - intro H; inversion H; subst; clear H; unfold bstep.
    rewrite ?map_cons, ?B. apply (shape_a 1 0 _ K1).
Qed.

Lemma enter_stage_keys hooks orc e src d s s' t errs c :
  enter_stage hooks orc d s = (s', t, errs, c) -> sseg 15 19 (map (tkey e src d) t).
Proof.
  unfold enter_stage.
  destruct (run_pass hooks orc (MEnter d) wneg s) as [[s1 t1] p1] eqn:E1.
  pose proof (run_pass_keys hooks orc e src d _ 3 _ 1%Z _ _ _ _ E1 (phase_enter e src d) wneg_cls) as K1.
  assert (B : forall b er, tkey e src d (TStep (SMoment (MEnter d)) b er) = ((if b then 15 else 19)%Z, 0%Z)).
  { intros b er. cbn [tkey]. rewrite phase_enter. destruct b; reflexivity. }
  destruct (is_crash p1).
  - intro H; inversion H; subst; clear H; unfold bstep.
    rewrite ?map_cons, ?B. apply (shape_a 3 0 _ K1).
  - destruct (run_pass hooks orc (MEnter d) wnonneg s1) as [[s2 t2] p2] eqn:E2.
    pose proof (run_pass_keys hooks orc e src d _ 3 _ 3%Z _ _ _ _ E2 (phase_enter e src d) wnonneg_cls) as K3.
    destruct (is_crash p2); intro H; inversion H; subst; clear H; unfold bstep, estep;
      rewrite ?map_cons, ?map_app, ?map_cons, ?B; cbn [map].
    + apply (shape_c 3 0 _ [] _ K1 (sseg_nil _ _) K3).
    + apply (shape_d 3 0 0 _ [] _ K1 (sseg_nil _ _) K3).
Qed.

Lemma after_stage_keys hooks orc e src d err0 s s' t errs c :
  after_stage hooks orc e err0 s = (s', t, errs, c) -> sseg 20 24 (map (tkey e src d) t).
Proof.
  unfold after_stage.
  destruct (run_pass hooks orc (MAfter e) wneg s) as [[s1 t1] p1] eqn:E1.
  pose proof (run_pass_keys hooks orc e src d _ 4 _ 1%Z _ _ _ _ E1 (phase_after e src d) wneg_cls) as K1.
  assert (B : forall b er, tkey e src d (TStep (SMoment (MAfter e)) b er) = ((if b then 20 else 24)%Z, 0%Z)).
  { intros b er. cbn [tkey]. rewrite phase_after. destruct b; reflexivity. }
  destruct (is_crash p1).
  - intro H; inversion H; subst; clear H; unfold bstep.
    rewrite ?map_cons, ?B. apply (shape_a 4 0 _ K1).
  - destruct (builtin_after e (err0 || nonnil (perrs (MAfter e) p1)) s1) as [s2 ta] eqn:Ea.
    pose proof (builtin_after_keys e src d _ _ _ _ _ Ea) as K2.
    destruct (run_pass hooks orc (MAfter e) wnonneg s2) as [[s3 t3] p3] eqn:E3.
    pose proof (run_pass_keys hooks orc e src d _ 4 _ 3%Z _ _ _ _ E3 (phase_after e src d) wnonneg_cls) as K3.
    destruct (is_crash p3); intro H; inversion H; subst; clear H; unfold bstep, estep;
      rewrite ?map_cons, ?map_app, ?map_cons, ?B; cbn [map].
    + apply (shape_c 4 0 _ _ _ K1 K2 K3).
    + apply (shape_d 4 0 0 _ _ _ K1 K2 K3).
Qed.

Lemma body_trace_keys e src d ok : sseg 10 14 (map (tkey e src d) (body_trace e ok)).
Proof.
  unfold body_trace, bstep, estep. cbn.
  change (sseg 10 14 ([(10, 0)%Z] ++ [(12, 0)%Z] ++ [(14, 0)%Z])).
  apply (sseg_app 10 10 12 14); [apply sseg_single| |lia|lia|lia].
  apply (sseg_app 12 12 14 14); [apply sseg_single|apply sseg_single|lia|lia|lia].
Qed.

(* C08: the whole trace of a transition is ordered by (moment, sign class, weight, start <
   collect < hook tasks), built-in work between the negative and the non-negative weights *)
Lemma transition_sorted hooks orc e b s s' t r d :
  transition hooks orc e b s = (s', t, r) -> dst_of e (e_st s) = Some d ->
  StronglySorted kle (map (tkey e (e_st s) d) t).
Proof.
  unfold transition. intros H Hd. rewrite Hd in H.
  set (src := e_st s) in *.
  destruct (before_stage hooks orc e s) as [[[s1 tB] eB] cB] eqn:EB.
  pose proof (before_stage_keys _ _ _ src d _ _ _ _ _ EB) as KB.
  destruct cB; [inversion H; subst; apply KB|].
  destruct eB as [|pe eB]; [|inversion H; subst; apply KB].
  destruct (leave_stage hooks orc src s1) as [[[s2 tL] eL] cL] eqn:EL.
  pose proof (leave_stage_keys _ _ e src d _ _ _ _ _ EL) as KL.
  assert (KBL : sseg 0 9 (map (tkey e src d) (tB ++ tL))).
  { rewrite map_app. apply (sseg_app 0 4 5 9); [exact KB|exact KL|lia|lia|lia]. }
  destruct cL; [inversion H; subst; apply KBL|].
  destruct eL as [|pe eL]; [|inversion H; subst; apply KBL].
  assert (KBLT : forall ok, sseg 0 14 (map (tkey e src d) (tB ++ tL ++ body_trace e ok))).
  { intro ok. rewrite app_assoc, map_app.
    apply (sseg_app 0 9 10 14); [exact KBL|apply body_trace_keys|lia|lia|lia]. }
  destruct b; [|inversion H; subst; apply KBLT|inversion H; subst; apply KBLT].
  destruct (enter_stage hooks orc d (set_st d s2)) as [[[s4 tE] eE] cE] eqn:EE.
  pose proof (enter_stage_keys _ _ e src d _ _ _ _ _ EE) as KE.
  assert (K4 : sseg 0 19 (map (tkey e src d) (tB ++ tL ++ body_trace e true ++ tE))).
  { replace (tB ++ tL ++ body_trace e true ++ tE) with ((tB ++ tL ++ body_trace e true) ++ tE)
      by (rewrite <- !app_assoc; reflexivity).
    rewrite map_app. apply (sseg_app 0 14 15 19); [apply KBLT|exact KE|lia|lia|lia]. }
  destruct cE; [inversion H; subst; apply K4|].
  destruct (after_stage hooks orc e (nonnil eE) s4) as [[[s5 tA] eA] cA] eqn:EA.
  pose proof (after_stage_keys _ _ e src d _ _ _ _ _ _ EA) as KA.
  assert (K5 : sseg 0 24 (map (tkey e src d) (tB ++ tL ++ body_trace e true ++ tE ++ tA))).
  { replace (tB ++ tL ++ body_trace e true ++ tE ++ tA) with ((tB ++ tL ++ body_trace e true ++ tE) ++ tA)
      by (rewrite <- !app_assoc; reflexivity).
    rewrite map_app. apply (sseg_app 0 19 20 24); [exact K4|exact KA|lia|lia|lia]. }
  destruct cA; inversion H; subst; apply K5.
Qed.

(* ------------------------------------------------------------------ started = collected + pending *)

Definition balanced (g : inst -> bool) (s : est) (t : list tev) (s' : est) : Prop :=
  (nf g (starts t) + pn g s = nf g (collects t) + pn g s')%nat /\ cancels t = [].

Lemma balanced_nil g s s' : e_pend s = e_pend s' -> balanced g s [] s'.
Proof. intro H. unfold balanced, pn. rewrite H. cbn. split; [lia|reflexivity]. Qed.

Lemma balanced_app g s t1 s1 t2 s2 :
  balanced g s t1 s1 -> balanced g s1 t2 s2 -> balanced g s (t1 ++ t2) s2.
Proof.
  unfold balanced. intros [A1 C1] [A2 C2].
  rewrite starts_app, collects_app, cancels_app, !nf_app, C1, C2. split; [lia|reflexivity].
Qed.

Definition quiet (e : tev) : Prop :=
  match e with TStart _ _ _ | TCollect _ _ | TCancel _ => False | _ => True end.

Lemma balanced_cons g s e t s' : quiet e -> balanced g s t s' -> balanced g s (e :: t) s'.
Proof.
  unfold balanced. intros Hq [A C]. destruct e; cbn in Hq; try contradiction; cbn; auto.
Qed.

Lemma balanced_quiet g s t s' : Forall quiet t -> e_pend s = e_pend s' -> balanced g s t s'.
Proof.
  induction 1 as [|e t He _ IH]; intro Hp; [apply balanced_nil; exact Hp|].
  apply balanced_cons; [exact He|apply IH; exact Hp].
Qed.

Lemma set_soeor_pend s : e_pend (fst (set_soeor_if_empty s)) = e_pend s.
Proof. unfold set_soeor_if_empty. destruct (is_empty _); reflexivity. Qed.
Lemma set_eoeor_pend s : e_pend (fst (set_eoeor_if_empty s)) = e_pend s.
Proof. unfold set_eoeor_if_empty. destruct (is_empty _); reflexivity. Qed.
Lemma builtin_leave_pend src s : e_pend (builtin_leave src s) = e_pend s.
Proof. unfold builtin_leave. destruct src; try reflexivity. apply set_soeor_pend. Qed.
Lemma drop_run_number_pend e s : e_pend (drop_run_number e s) = e_pend s.
Proof. destruct e; reflexivity. Qed.

Lemma soeor_balanced g s s1 dn (x : tev) :
  set_soeor_if_empty s = (s1, dn) -> quiet x -> balanced g s (if dn then [x] else []) s1.
Proof.
  intros H Hq. pose proof (set_soeor_pend s) as P. rewrite H in P. cbn in P.
  destruct dn; apply balanced_quiet; auto.
Qed.
Lemma eoeor_balanced g s s1 dn (x : tev) :
  set_eoeor_if_empty s = (s1, dn) -> quiet x -> balanced g s (if dn then [x] else []) s1.
Proof.
  intros H Hq. pose proof (set_eoeor_pend s) as P. rewrite H in P. cbn in P.
  destruct dn; apply balanced_quiet; auto.
Qed.

Lemma builtin_before_balanced g e s s' tb : builtin_before e s = (s', tb) -> balanced g s tb s'.
Proof.
  unfold builtin_before. destruct e.
  - intro H; inversion H; subst. apply balanced_nil; reflexivity.
  - intro H; inversion H; subst. apply balanced_nil; reflexivity.
  - intro H; inversion H; subst. apply balanced_nil; reflexivity.
  - intro H; inversion H; subst. apply balanced_quiet; [repeat constructor|reflexivity].
  - destruct (set_soeor_if_empty s) as [s1 dn] eqn:E. intro H; inversion H; subst.
    eapply soeor_balanced; [exact E|exact I].
  - intro H; inversion H; subst. apply balanced_nil; reflexivity.
  - destruct (set_soeor_if_empty s) as [s1 dn] eqn:E. intro H; inversion H; subst.
    eapply soeor_balanced; [exact E|exact I].
  - intro H; inversion H; subst. apply balanced_nil; reflexivity.
Qed.

Lemma builtin_after_balanced g e err s s' ta : builtin_after e err s = (s', ta) -> balanced g s ta s'.
Proof.
  unfold builtin_after. destruct e.
  - intro H; inversion H; subst. apply balanced_nil; reflexivity.
  - intro H; inversion H; subst. apply balanced_nil; reflexivity.
  - intro H; inversion H; subst. apply balanced_nil; reflexivity.
  - intro H; inversion H; subst. apply balanced_quiet; [repeat constructor|reflexivity].
  - intro H; inversion H; subst. apply balanced_quiet; [repeat constructor|reflexivity].
  - intro H; inversion H; subst. apply balanced_nil; reflexivity.
  - destruct (set_eoeor_if_empty s) as [s1 dn] eqn:E. intro H; inversion H; subst.
    eapply eoeor_balanced; [exact E|exact I].
  - intro H; inversion H; subst. apply balanced_nil; reflexivity.
Qed.

Lemma run_pass_balanced g hooks orc m pred s s' t p :
  run_pass hooks orc m pred s = (s', t, p) -> balanced g s t s'.
Proof. apply run_pass_count. Qed.

Ltac bal_end :=
  first [ apply balanced_nil; first [reflexivity | symmetry; apply builtin_leave_pend
                                     | symmetry; apply drop_run_number_pend ]
        | apply balanced_cons; [exact I|bal_end] ].
Ltac bal :=
  first [ eassumption
        | bal_end
        | apply balanced_cons; [exact I|bal]
        | eapply balanced_app; [eassumption|bal] ].

Lemma before_stage_balanced g hooks orc e s s' t errs c :
  before_stage hooks orc e s = (s', t, errs, c) -> balanced g s t s'.
Proof.
  unfold before_stage, bstep, estep.
  destruct (run_pass hooks orc (MBefore e) wneg s) as [[s1 t1] p1] eqn:E1.
  apply (run_pass_balanced g) in E1.
  destruct p1.
  - destruct (builtin_before e s1) as [s2 tb] eqn:Eb. apply (builtin_before_balanced g) in Eb.
    destruct (run_pass hooks orc (MBefore e) wnonneg s2) as [[s3 t3] p3] eqn:E3.
    apply (run_pass_balanced g) in E3.
    destruct p3; intro H; inversion H; subst; clear H; bal.
  - intro H; inversion H; subst; clear H; bal.
  - intro H; inversion H; subst; clear H; bal.
Qed.

Lemma leave_stage_balanced g hooks orc src s s' t errs c :
  leave_stage hooks orc src s = (s', t, errs, c) -> balanced g s t s'.
Proof.
  unfold leave_stage, bstep, estep.
  destruct (run_pass hooks orc (MLeave src) wneg s) as [[s1 t1] p1] eqn:E1.
  apply (run_pass_balanced g) in E1.
  destruct p1.
  - destruct (run_pass hooks orc (MLeave src) wnonneg (builtin_leave src s1)) as [[s3 t3] p3] eqn:E3.
    apply (run_pass_balanced g) in E3.
    assert (E3' : balanced g s1 t3 s3).
    { unfold balanced, pn in *. rewrite builtin_leave_pend in E3. exact E3. }
    destruct p3; intro H; inversion H; subst; clear H; bal.
  - intro H; inversion H; subst; clear H; bal.
  - intro H; inversion H; subst; clear H; bal.
Qed.

Lemma enter_stage_balanced g hooks orc d s s' t errs c :
  enter_stage hooks orc d s = (s', t, errs, c) -> balanced g s t s'.
Proof.
  unfold enter_stage, bstep, estep.
  destruct (run_pass hooks orc (MEnter d) wneg s) as [[s1 t1] p1] eqn:E1.
  apply (run_pass_balanced g) in E1.
  destruct (is_crash p1); [intro H; inversion H; subst; clear H; bal|].
  destruct (run_pass hooks orc (MEnter d) wnonneg s1) as [[s2 t2] p2] eqn:E2.
  apply (run_pass_balanced g) in E2.
  destruct (is_crash p2); intro H; inversion H; subst; clear H; bal.
Qed.

Lemma after_stage_balanced g hooks orc e err0 s s' t errs c :
  after_stage hooks orc e err0 s = (s', t, errs, c) -> balanced g s t s'.
Proof.
  unfold after_stage, bstep, estep.
  destruct (run_pass hooks orc (MAfter e) wneg s) as [[s1 t1] p1] eqn:E1.
  apply (run_pass_balanced g) in E1.
  destruct (is_crash p1); [intro H; inversion H; subst; clear H; bal|].
  destruct (builtin_after e (err0 || nonnil (perrs (MAfter e) p1)) s1) as [s2 ta] eqn:Ea.
  apply (builtin_after_balanced g) in Ea.
  destruct (run_pass hooks orc (MAfter e) wnonneg s2) as [[s3 t3] p3] eqn:E3.
  apply (run_pass_balanced g) in E3.
  destruct (is_crash p3); intro H; inversion H; subst; clear H; bal.
Qed.

Lemma body_trace_balanced g e ok s s' : e_pend s = e_pend s' -> balanced g s (body_trace e ok) s'.
Proof. intro H. apply balanced_quiet; [repeat constructor|exact H]. Qed.

Opaque body_trace.
Lemma transition_balanced g hooks orc e b s s' t r :
  transition hooks orc e b s = (s', t, r) -> balanced g s t s'.
Proof.
  unfold transition. destruct (dst_of e (e_st s)) as [d|];
    [|intro H; inversion H; apply balanced_nil; reflexivity].
  destruct (before_stage hooks orc e s) as [[[s1 tB] eB] cB] eqn:EB.
  apply (before_stage_balanced g) in EB.
  destruct cB; [intro H; inversion H; subst; exact EB|].
  destruct eB as [|pe eB]; [|intro H; inversion H; subst; exact EB].
  destruct (leave_stage hooks orc (e_st s) s1) as [[[s2 tL] eL] cL] eqn:EL.
  apply (leave_stage_balanced g) in EL.
  destruct cL; [intro H; inversion H; subst; eapply balanced_app; eassumption|].
  destruct eL as [|pe eL]; [|intro H; inversion H; subst; eapply balanced_app; eassumption].
  destruct b.
  - destruct (enter_stage hooks orc d (set_st d s2)) as [[[s4 tE] eE] cE] eqn:EE.
    apply (enter_stage_balanced g) in EE.
    assert (EE' : balanced g s2 tE s4) by exact EE.
    destruct cE.
    + intro H; inversion H; subst.
      eapply balanced_app; [eassumption|]. eapply balanced_app; [eassumption|].
      eapply balanced_app; [apply body_trace_balanced; reflexivity|exact EE'].
    + destruct (after_stage hooks orc e (nonnil eE) s4) as [[[s5 tA] eA] cA] eqn:EA.
      apply (after_stage_balanced g) in EA.
      destruct cA; intro H; inversion H; subst;
        (eapply balanced_app; [eassumption|]; eapply balanced_app; [eassumption|];
         eapply balanced_app; [apply body_trace_balanced; reflexivity|];
         eapply balanced_app; [exact EE'|exact EA]).
  - intro H; inversion H; subst.
    eapply balanced_app; [eassumption|]. eapply balanced_app; [eassumption|].
    apply body_trace_balanced. reflexivity.
  - intro H; inversion H; subst.
    eapply balanced_app; [eassumption|]. eapply balanced_app; [eassumption|].
    apply body_trace_balanced. destruct e; reflexivity.
Qed.
Transparent body_trace.

(* ------------------------------------------------------------------ operations and histories *)

Definition wbal (g : inst -> bool) (s : est) (t : list tev) (s' : est) : Prop :=
  (nf g (starts t) + pn g s = nf g (collects t) + pn g s')%nat.

Lemma balanced_wbal g s t s' : balanced g s t s' -> wbal g s t s'.
Proof. intros [A _]. exact A. Qed.

Lemma wbal_app g s t1 s1 t2 s2 : wbal g s t1 s1 -> wbal g s1 t2 s2 -> wbal g s (t1 ++ t2) s2.
Proof. unfold wbal. intros A B. rewrite starts_app, collects_app, !nf_app. lia. Qed.

Lemma cancel_all_proj s :
  starts (cancel_all s) = [] /\ collects (cancel_all s) = [] /\ cancels (cancel_all s) = map snd (e_pend s).
Proof.
  unfold cancel_all. induction (e_pend s) as [|x l (A & B & C)]; cbn; [auto|].
  repeat split; auto. f_equal. exact C.
Qed.

Lemma wbal_same g s t s' :
  starts t = [] -> collects t = [] -> e_pend s = e_pend s' -> wbal g s t s'.
Proof. intros A B C. unfold wbal, pn. rewrite A, B, C. reflexivity. Qed.

Lemma teardown_stamps_balanced g s s' ts : teardown_stamps s = (s', ts) -> balanced g s ts s'.
Proof.
  unfold teardown_stamps. destruct (e_st s); try (intro H; inversion H; subst; apply balanced_nil; reflexivity).
  destruct (set_soeor_if_empty s) as [s1 d1] eqn:E1.
  destruct (set_eoeor_if_empty s1) as [s2 d2] eqn:E2.
  intro H; inversion H; subst.
  eapply balanced_app; [eapply soeor_balanced; [exact E1|exact I]|eapply eoeor_balanced; [exact E2|exact I]].
Qed.

Lemma destroy_trace_proj g hooks orc s :
  nf g (starts (destroy_trace hooks orc s)) = nf g (collects (destroy_trace hooks orc s)) /\
  cancels (destroy_trace hooks orc s) = [].
Proof.
  unfold destroy_trace. induction (destroy_weights hooks) as [|w ws [IH1 IH2]]; cbn [flat_map]; [split; reflexivity|].
  rewrite starts_app, collects_app, cancels_app, !nf_app, IH1, IH2.
  set (hs := filter is_call (destroy_hooks_at hooks w)).
  assert (A : forall l : list hook,
    nf g (starts (flat_map (fun h => [TStart (new_inst orc h) h (e_rv s); TCollect (new_inst orc h) (h_trig h)]) l)) =
    nf g (collects (flat_map (fun h => [TStart (new_inst orc h) h (e_rv s); TCollect (new_inst orc h) (h_trig h)]) l)) /\
    cancels (flat_map (fun h => [TStart (new_inst orc h) h (e_rv s); TCollect (new_inst orc h) (h_trig h)]) l) = []).
  { induction l as [|h l [I1 I2]]; [split; reflexivity|].
    cbn [flat_map]. rewrite starts_app, collects_app, cancels_app, !nf_app, I1, I2.
    split; reflexivity. }
  destruct (A hs) as [A1 A2].
  rewrite starts_app, collects_app, cancels_app, !nf_app, A1, A2.
  destruct (map h_id (filter is_task (destroy_hooks_at hooks w))); cbn; split; try reflexivity; lia.
Qed.

Lemma force_error_frame s s2 tf : force_error s = (s2, tf) ->
  e_pend s2 = e_pend s /\ starts tf = [] /\ collects tf = [] /\ cancels tf = [].
Proof.
  unfold force_error. destruct (e_st s);
    try (intro H; inversion H; subst; cbn; repeat split; reflexivity).
  pose proof (set_soeor_pend s) as A. destruct (set_soeor_if_empty s) as [s1 d1]. cbn [fst] in A.
  pose proof (set_eoeor_pend s1) as B. destruct (set_eoeor_if_empty s1) as [s3 d2]. cbn [fst] in B.
  intro H; inversion H; subst. cbn [set_st e_pend]. split; [congruence|].
  destruct d1, d2; cbn; auto.
Qed.

Lemma run_op_wbal g hooks i o s s' t r : run_op hooks i o s = (s', t, r) -> wbal g s t s'.
Proof.
  unfold run_op. destruct (o_kind o).
  - intro H. apply balanced_wbal. eapply transition_balanced. exact H.
  - intro H; inversion H; subst. apply wbal_same; reflexivity.
  - destruct (transition hooks (oracle_of i o) GO_ERROR (o_body o) s) as [[s1 t1] r1] eqn:E.
    apply (transition_balanced g) in E. apply balanced_wbal in E.
    destruct (force_error s1) as [s2 tf] eqn:Ef.
    destruct (force_error_frame _ _ _ Ef) as (P & A & B & _).
    destruct r1; intro H; inversion H; subst; try exact E;
      (eapply wbal_app; [exact E|apply wbal_same; auto]).
  - unfold leave_all. destruct (run_pass hooks (oracle_of i o) (MLeave (e_st s)) wall s) as [[s1 t1] p] eqn:E.
    apply (run_pass_balanced g) in E. apply balanced_wbal in E.
    destruct (cancel_all_proj s1) as (A & B & C).
    destruct p; intro H; inversion H; subst; try exact E;
      (eapply wbal_app; [exact E|apply wbal_same; auto]).
  - unfold leave_all. destruct (run_pass hooks (oracle_of i o) (MLeave (e_st s)) wall s) as [[s1 t1] p] eqn:E.
    apply (run_pass_balanced g) in E. apply balanced_wbal in E.
    destruct (is_crash p); [intro H; inversion H; subst; exact E|].
    destruct (teardown_stamps s1) as [s2 ts] eqn:Et.
    apply (teardown_stamps_balanced g) in Et. apply balanced_wbal in Et.
    intro H; inversion H; subst.
    eapply wbal_app; [exact E|]. eapply wbal_app; [exact Et|].
    destruct (destroy_trace_proj g hooks (oracle_of i o) s2) as [D1 D2].
    destruct (cancel_all_proj s2) as (A & B & C).
    unfold wbal. rewrite starts_app, collects_app, !nf_app, A, B, D1. cbn. reflexivity.
Qed.

Lemma run_ops_wbal g hooks : forall ops i s s' l,
  run_ops hooks i ops s = (s', l) -> wbal g s (full_trace l) s'.
Proof.
  induction ops as [|o ops IH]; intros i s s' l; cbn.
  - intro H; inversion H; subst. apply wbal_same; reflexivity.
  - destruct (run_op hooks i o s) as [[s1 t] res] eqn:E.
    apply (run_op_wbal g) in E.
    assert (One : wbal g s (full_trace [(t, res, s1)]) s1).
    { unfold full_trace. cbn. rewrite app_nil_r. exact E. }
    destruct res; try (intro H; inversion H; subst; exact One);
      (destruct (run_ops hooks (N.succ i) ops s1) as [s2 l2] eqn:E2; apply IH in E2;
       intro H; inversion H; subst; unfold full_trace in *; cbn [flat_map fst];
       eapply wbal_app; [exact E|exact E2]).
Qed.

(* what a cancelling operation cancels: exactly what is pending after its leave hooks *)
Lemma run_op_cancels hooks i o s s' t r :
  run_op hooks i o s = (s', t, r) -> is_cancel_op o = true -> r <> RCrash ->
  cancels t = map snd (e_pend s').
Proof.
  unfold run_op, is_cancel_op. destruct (o_kind o); try discriminate.
  - unfold leave_all. destruct (run_pass hooks (oracle_of i o) (MLeave (e_st s)) wall s) as [[s1 t1] p] eqn:E.
    apply (run_pass_balanced (fun _ => true)) in E. destruct E as [_ Ec].
    destruct (cancel_all_proj s1) as (A & B & C).
    destruct p; intros H _ Hr; inversion H; subst; try (exfalso; apply Hr; reflexivity);
      rewrite cancels_app, Ec, C; reflexivity.
  - unfold leave_all. destruct (run_pass hooks (oracle_of i o) (MLeave (e_st s)) wall s) as [[s1 t1] p] eqn:E.
    apply (run_pass_balanced (fun _ => true)) in E. destruct E as [_ Ec].
    destruct (is_crash p); [intros H _ Hr; inversion H; subst; exfalso; apply Hr; reflexivity|].
    destruct (teardown_stamps s1) as [s2 ts] eqn:Et.
    pose proof (teardown_stamps_balanced (fun _ => true) _ _ _ Et) as [_ Etc].
    intros H _ _; inversion H; subst.
    destruct (destroy_trace_proj (fun _ => true) hooks (oracle_of i o) s2) as [_ D2].
    destruct (cancel_all_proj s2) as (A & B & C).
    rewrite !cancels_app, Ec, Etc, D2, C. reflexivity.
Qed.

Lemma pn_est0 g init : pn g (est0 init) = 0%nat.
Proof. reflexivity. Qed.

(* C08: at any time the pending calls are exactly the started and not yet collected ones *)
Lemma pending_exact hooks ops init s l (g : inst -> bool) :
  run_ops hooks 0 ops (est0 init) = (s, l) ->
  nf g (starts (full_trace l)) = (nf g (collects (full_trace l)) + pn g s)%nat.
Proof.
  intro H. apply (run_ops_wbal g) in H. unfold wbal in H. rewrite pn_est0 in H. lia.
Qed.

(* C08: after a teardown every started call has been collected or cancelled, counted with
   multiplicity, for every set [g] of instances *)
Lemma collect_once hooks ops init s l i fin s' t r (g : inst -> bool) :
  run_ops hooks 0 ops (est0 init) = (s, l) ->
  is_cancel_op fin = true -> run_op hooks i fin s = (s', t, r) -> r <> RCrash ->
  nf g (starts (full_trace l ++ t)) =
  (nf g (collects (full_trace l ++ t)) + nf g (cancels t))%nat.
Proof.
  intros H Hc Hop Hr.
  apply (run_ops_wbal g) in H. pose proof (run_op_wbal g _ _ _ _ _ _ _ Hop) as H2.
  rewrite (run_op_cancels _ _ _ _ _ _ _ Hop Hc Hr).
  pose proof (wbal_app _ _ _ _ _ _ H H2) as H3. unfold wbal in H3. rewrite pn_est0 in H3.
  unfold pn in H3. lia.
Qed.

(* ------------------------------------------------------------------ not before the trigger moment *)
(* walk over a trace with the currently open transition step: a call may only be started while
   the step of its own trigger moment is open *)
Fixpoint ne_walk (o : option mname) (t : list tev) : option (option mname) :=
  match t with
  | [] => Some o
  | TStep (SMoment m) true _ :: r => ne_walk (Some m) r
  | TStep (SMoment m) false _ :: r => ne_walk None r
  | TStart _ h _ :: r =>
    match o with
    | Some m => if mname_eqb (fst (h_trig h)) m then ne_walk o r else None
    | None => None
    end
  | _ :: r => ne_walk o r
  end.

Lemma ne_walk_app a : forall o b,
  ne_walk o (a ++ b) = match ne_walk o a with Some o' => ne_walk o' b | None => None end.
Proof.
  induction a as [|x a IH]; intros o b; [reflexivity|].
  destruct x as [i h sn| | |n bg er| | | | |]; cbn [app ne_walk]; try apply IH.
  - destruct o as [m|]; [|reflexivity]. destruct (mname_eqb (fst (h_trig h)) m); [apply IH|reflexivity].
  - destruct n as [m|e]; [destruct bg|]; apply IH.
Qed.

Lemma ne_walk_pass hooks orc m ws r t o :
  Forall (pass_ev hooks orc m ws r) t -> o = Some m -> ne_walk o t = Some o.
Proof.
  intros H ->. induction H as [|x t Hx _ IH]; [reflexivity|].
  destruct x; cbn in Hx; try contradiction; cbn [ne_walk]; try exact IH.
  destruct Hx as (_ & _ & Hm & _). rewrite Hm, mname_eqb_refl. exact IH.
Qed.

Definition is_run_ev (x : tev) : Prop := match x with TRun _ _ _ => True | _ => False end.

Lemma ne_walk_runs o t : Forall is_run_ev t -> ne_walk o t = Some o.
Proof.
  induction 1 as [|x t Hx _ IH]; [reflexivity|]. destruct x; cbn in Hx; try contradiction. exact IH.
Qed.

Lemma builtin_before_runs e s s' tb : builtin_before e s = (s', tb) -> Forall is_run_ev tb.
Proof.
  unfold builtin_before. destruct e; try (intro H; inversion H; subst; solve [repeat constructor]).
  - destruct (set_soeor_if_empty s) as [s1 [|]]; intro H; inversion H; repeat constructor.
  - destruct (set_soeor_if_empty s) as [s1 [|]]; intro H; inversion H; repeat constructor.
Qed.

Lemma builtin_after_runs e err s s' ta : builtin_after e err s = (s', ta) -> Forall is_run_ev ta.
Proof.
  unfold builtin_after. destruct e; try (intro H; inversion H; subst; solve [repeat constructor]).
  destruct (set_eoeor_if_empty s) as [s1 [|]]; intro H; inversion H; repeat constructor.
Qed.

(* a callback's trace, walked from "no step open": never rejected; closed again unless the core
   died inside *)
Definition stage_ne (t : list tev) (c : bool) : Prop :=
  exists o', ne_walk None t = Some o' /\ (c = false -> o' = None).

Ltac ne_steps :=
  repeat first
    [ rewrite ne_walk_app
    | erewrite ne_walk_pass by (first [eassumption | reflexivity])
    | erewrite ne_walk_runs by eassumption ].

Lemma before_stage_ne hooks orc e s s' t errs c :
  before_stage hooks orc e s = (s', t, errs, c) -> stage_ne t c.
Proof.
  unfold before_stage, stage_ne, bstep, estep.
  destruct (run_pass hooks orc (MBefore e) wneg s) as [[s1 t1] p1] eqn:E1.
  apply run_pass_events in E1.
  destruct p1.
  - destruct (builtin_before e s1) as [s2 tb] eqn:Eb. apply builtin_before_runs in Eb.
    destruct (run_pass hooks orc (MBefore e) wnonneg s2) as [[s3 t3] p3] eqn:E3.
    apply run_pass_events in E3.
    destruct p3; intro H; inversion H; subst; clear H; cbn [ne_walk]; ne_steps; cbn [ne_walk];
      eexists; (split; [reflexivity|]); try reflexivity; discriminate.
  - intro H; inversion H; subst; clear H; cbn [ne_walk]; ne_steps; cbn [ne_walk].
    eexists; split; reflexivity.
  - intro H; inversion H; subst; clear H; cbn [ne_walk]; ne_steps.
    eexists; split; [reflexivity|discriminate].
Qed.

Lemma leave_stage_ne hooks orc src s s' t errs c :
  leave_stage hooks orc src s = (s', t, errs, c) -> stage_ne t c.
Proof.
  unfold leave_stage, stage_ne, bstep, estep.
  destruct (run_pass hooks orc (MLeave src) wneg s) as [[s1 t1] p1] eqn:E1.
  apply run_pass_events in E1.
  destruct p1.
  - destruct (run_pass hooks orc (MLeave src) wnonneg (builtin_leave src s1)) as [[s3 t3] p3] eqn:E3.
    apply run_pass_events in E3.
    destruct p3; intro H; inversion H; subst; clear H; cbn [ne_walk]; ne_steps; cbn [ne_walk];
      eexists; (split; [reflexivity|]); try reflexivity; discriminate.
  - intro H; inversion H; subst; clear H; cbn [ne_walk]; ne_steps; cbn [ne_walk].
    eexists; split; reflexivity.
  - intro H; inversion H; subst; clear H; cbn [ne_walk]; ne_steps.
    eexists; split; [reflexivity|discriminate].
Qed.

Lemma enter_stage_ne hooks orc d s s' t errs c :
  enter_stage hooks orc d s = (s', t, errs, c) -> stage_ne t c.
Proof.
  unfold enter_stage, stage_ne, bstep, estep.
  destruct (run_pass hooks orc (MEnter d) wneg s) as [[s1 t1] p1] eqn:E1.
  apply run_pass_events in E1.
  destruct (is_crash p1).
  - intro H; inversion H; subst; clear H; cbn [ne_walk]; ne_steps.
    eexists; split; [reflexivity|discriminate].
  - destruct (run_pass hooks orc (MEnter d) wnonneg s1) as [[s2 t2] p2] eqn:E2.
    apply run_pass_events in E2.
    destruct (is_crash p2); intro H; inversion H; subst; clear H; cbn [ne_walk]; ne_steps; cbn [ne_walk];
      eexists; (split; [reflexivity|]); try reflexivity; discriminate.
Qed.

Lemma after_stage_ne hooks orc e err0 s s' t errs c :
  after_stage hooks orc e err0 s = (s', t, errs, c) -> stage_ne t c.
Proof.
  unfold after_stage, stage_ne, bstep, estep.
  destruct (run_pass hooks orc (MAfter e) wneg s) as [[s1 t1] p1] eqn:E1.
  apply run_pass_events in E1.
  destruct (is_crash p1).
  - intro H; inversion H; subst; clear H; cbn [ne_walk]; ne_steps.
    eexists; split; [reflexivity|discriminate].
  - destruct (builtin_after e (err0 || nonnil (perrs (MAfter e) p1)) s1) as [s2 ta] eqn:Ea.
    apply builtin_after_runs in Ea.
    destruct (run_pass hooks orc (MAfter e) wnonneg s2) as [[s3 t3] p3] eqn:E3.
    apply run_pass_events in E3.
    destruct (is_crash p3); intro H; inversion H; subst; clear H; cbn [ne_walk]; ne_steps; cbn [ne_walk];
      eexists; (split; [reflexivity|]); try reflexivity; discriminate.
Qed.

Lemma body_trace_ne e ok : ne_walk None (body_trace e ok) = Some None.
Proof. reflexivity. Qed.

(* C08: in every transition each call is started while the step of its trigger moment is open *)
Opaque body_trace.
Lemma transition_not_early hooks orc e b s s' t r :
  transition hooks orc e b s = (s', t, r) -> exists o, ne_walk None t = Some o.
Proof.
  unfold transition. destruct (dst_of e (e_st s)) as [d|]; [|intro H; inversion H; eexists; reflexivity].
  destruct (before_stage hooks orc e s) as [[[s1 tB] eB] cB] eqn:EB.
  apply before_stage_ne in EB. destruct EB as (oB & HB & CB).
  destruct cB; [intro H; inversion H; subst; eexists; exact HB|]. rewrite (CB eq_refl) in HB.
  destruct eB as [|pe eB]; [|intro H; inversion H; subst; eexists; exact HB].
  destruct (leave_stage hooks orc (e_st s) s1) as [[[s2 tL] eL] cL] eqn:EL.
  apply leave_stage_ne in EL. destruct EL as (oL & HL & CL).
  destruct cL; [intro H; inversion H; subst; rewrite ne_walk_app, HB; eexists; exact HL|].
  rewrite (CL eq_refl) in HL.
  destruct eL as [|pe eL]; [|intro H; inversion H; subst; rewrite ne_walk_app, HB; eexists; exact HL].
  assert (BL : forall x, ne_walk None (tB ++ tL ++ x) = ne_walk None x).
  { intro x. rewrite ne_walk_app, HB. cbv beta iota. rewrite ne_walk_app, HL. reflexivity. }
  destruct b.
  - destruct (enter_stage hooks orc d (set_st d s2)) as [[[s4 tE] eE] cE] eqn:EE.
    apply enter_stage_ne in EE. destruct EE as (oE & HE & CE).
    destruct cE.
    + intro H; inversion H; subst. rewrite BL, ne_walk_app, body_trace_ne. eexists; exact HE.
    + rewrite (CE eq_refl) in HE.
      destruct (after_stage hooks orc e (nonnil eE) s4) as [[[s5 tA] eA] cA] eqn:EA.
      apply after_stage_ne in EA. destruct EA as (oA & HA & CA).
      destruct cA; intro H; inversion H; subst;
        rewrite BL, ne_walk_app, body_trace_ne; cbv beta iota; rewrite ne_walk_app, HE; eexists; exact HA.
  - intro H; inversion H; subst. rewrite BL. eexists; apply body_trace_ne.
  - intro H; inversion H; subst. rewrite BL. eexists; apply body_trace_ne.
Qed.
Transparent body_trace.

(* ------------------------------------------------------------------ built-in work placement *)

Lemma ssorted_split {A} (R : A -> A -> Prop) (a : list A) x b :
  StronglySorted R (a ++ x :: b) -> Forall (fun y => R y x) a /\ Forall (R x) b.
Proof.
  induction a as [|y a IH]; cbn; intro H; inversion H as [|? ? Hs Hf]; subst.
  - split; [constructor|exact Hf].
  - destruct (IH Hs) as [A1 A2]. split; [|exact A2]. constructor; [|exact A1].
    rewrite Forall_forall in Hf. apply Hf. apply in_or_app. right. left. reflexivity.
Qed.

Lemma phase_of_0 e src d m : phase_of e src d m = Some 0 -> m = MBefore e.
Proof.
  unfold phase_of. destruct (mname_eqb m (MBefore e)) eqn:E; [intros _; apply mname_eqb_spec; exact E|].
  destruct (mname_eqb m (MLeave src)); [discriminate|]. destruct (mname_eqb m (MEnter d)); [discriminate|].
  destruct (mname_eqb m (MAfter e)); discriminate.
Qed.
Lemma phase_of_4 e src d m : phase_of e src d m = Some 4 -> m = MAfter e.
Proof.
  unfold phase_of. destruct (mname_eqb m (MBefore e)) eqn:E; [discriminate|].
  destruct (mname_eqb m (MLeave src)); [discriminate|]. destruct (mname_eqb m (MEnter d)); [discriminate|].
  destruct (mname_eqb m (MAfter e)) eqn:E4; [intros _; apply mname_eqb_spec; exact E4|discriminate].
Qed.
Lemma phase_of_range e src d m ph : phase_of e src d m = Some ph -> ph = 0 \/ ph = 1 \/ ph = 3 \/ ph = 4.
Proof.
  unfold phase_of. destruct (mname_eqb m (MBefore e)); [intro H; inversion H; auto|].
  destruct (mname_eqb m (MLeave src)); [intro H; inversion H; auto|].
  destruct (mname_eqb m (MEnter d)); [intro H; inversion H; auto|].
  destruct (mname_eqb m (MAfter e)); [intro H; inversion H; auto|discriminate].
Qed.

Lemma wneg_wnonneg w : wnonneg w = negb (wneg w).
Proof. unfold wnonneg, wneg. destruct (w <? 0)%Z eqn:E; [apply Z.ltb_lt in E|apply Z.ltb_ge in E]; cbn; [apply Z.leb_gt|apply Z.leb_le]; lia. Qed.

(* C08: the built-in work of before_<event> (marked by its STARTED run event) lies after every
   call of negative weight and before every call of non-negative weight of that moment *)
Lemma builtin_split_before hooks orc e b s s' t r d t1 tr rn t2 :
  transition hooks orc e b s = (s', t, r) -> dst_of e (e_st s) = Some d ->
  t = t1 ++ TRun tr 0 rn :: t2 ->
  (forall i h snap, In (TStart i h snap) t1 ->
     fst (h_trig h) = MBefore e /\ wneg (snd (h_trig h)) = true) /\
  (forall i h snap, In (TStart i h snap) t2 -> fst (h_trig h) = MBefore e ->
     wnonneg (snd (h_trig h)) = true).
Proof.
  intros H Hd ->. pose proof (transition_sorted _ _ _ _ _ _ _ _ _ H Hd) as S.
  rewrite map_app in S. cbn [map] in S. apply ssorted_split in S. destruct S as [S1 S2].
  rewrite Forall_forall in S1, S2. split.
  - intros i h snap Hin. specialize (S1 _ (in_map (tkey e (e_st s) d) _ _ Hin)).
    cbn [tkey] in S1. unfold kle, seg_of_point in S1. cbn [fst snd] in S1.
    destruct (phase_of e (e_st s) d (fst (h_trig h))) as [ph|] eqn:P; [|cbn in S1; lia].
    pose proof (phase_of_range _ _ _ _ _ P) as R.
    destruct (wneg (snd (h_trig h))) eqn:W; cbn in S1.
    + split; [|reflexivity]. apply (phase_of_0 e (e_st s) d).
      destruct R as [-> | [-> | [-> | ->]]]; [exact P|(cbn in S1; lia) ..].
    + exfalso. destruct R as [-> | [-> | [-> | ->]]]; cbn in S1; lia.
  - intros i h snap Hin Hm. specialize (S2 _ (in_map (tkey e (e_st s) d) _ _ Hin)).
    cbn [tkey] in S2. unfold kle, seg_of_point in S2. cbn [fst snd] in S2.
    rewrite Hm, phase_before in S2. rewrite wneg_wnonneg.
    destruct (wneg (snd (h_trig h))); [cbn in S2; lia|reflexivity].
Qed.

(* ... and the built-in work of after_<event> (its DONE run event) likewise *)
Lemma builtin_split_after hooks orc e b s s' t r d t1 tr st rn t2 :
  transition hooks orc e b s = (s', t, r) -> dst_of e (e_st s) = Some d ->
  t = t1 ++ TRun tr st rn :: t2 -> st <> 0 ->
  (forall i h snap, In (TStart i h snap) t1 -> fst (h_trig h) = MAfter e ->
     wneg (snd (h_trig h)) = true) /\
  (forall i h snap, In (TStart i h snap) t2 -> fst (h_trig h) = MAfter e ->
     wnonneg (snd (h_trig h)) = true).
Proof.
  intros H Hd -> Hst. pose proof (transition_sorted _ _ _ _ _ _ _ _ _ H Hd) as S.
  rewrite map_app in S. cbn [map] in S. apply ssorted_split in S. destruct S as [S1 S2].
  assert (K : tkey e (e_st s) d (TRun tr st rn) = (22, 0)%Z).
  { cbn [tkey]. destruct (st =? 0) eqn:E; [apply N.eqb_eq in E; contradiction|reflexivity]. }
  rewrite K in S1, S2. rewrite Forall_forall in S1, S2. split.
  - intros i h snap Hin Hm. specialize (S1 _ (in_map (tkey e (e_st s) d) _ _ Hin)).
    cbn [tkey] in S1. unfold kle, seg_of_point in S1. cbn [fst snd] in S1.
    rewrite Hm, phase_after in S1.
    destruct (wneg (snd (h_trig h))); [reflexivity|cbn in S1; lia].
  - intros i h snap Hin Hm. specialize (S2 _ (in_map (tkey e (e_st s) d) _ _ Hin)).
    cbn [tkey] in S2. unfold kle, seg_of_point in S2. cbn [fst snd] in S2.
    rewrite Hm, phase_after in S2. rewrite wneg_wnonneg.
    destruct (wneg (snd (h_trig h))); [cbn in S2; lia|reflexivity].
Qed.

(* ------------------------------------------------------------------ await points of a pass *)
(* [await_closed]: every await point of a call of this pass that lies at a later weight of the
   same pass is itself on the list of weights the pass visits *)
Definition await_closed (hooks : list hook) (m : mname) (pred : Z -> bool) (ws : list Z) : Prop :=
  forall h, In h hooks -> is_call h = true -> fst (h_trig h) = m -> In (snd (h_trig h)) ws ->
    fst (h_await h) = m -> pred (snd (h_await h)) = true ->
    (snd (h_trig h) < snd (h_await h))%Z -> In (snd (h_await h)) ws.

Lemma await_closed_tail hooks m pred w0 ws :
  StronglySorted Z.lt (w0 :: ws) -> await_closed hooks m pred (w0 :: ws) -> await_closed hooks m pred ws.
Proof.
  unfold await_closed. intros S H h Hh Hc Hm Hw Ha Hp Hlt. apply StronglySorted_inv in S. destruct S as [_ Hf].
  rewrite Forall_forall in Hf. pose proof (Hf _ Hw) as Hw0.
  destruct (H h Hh Hc Hm (or_intror Hw) Ha Hp Hlt) as [E|I]; [lia|exact I].
Qed.

Lemma pass_loop_await hooks orc m pred ws :
  StronglySorted Z.lt ws -> await_closed hooks m pred ws ->
  forall s s' t, pass_loop hooks orc m ws s = (s', t, POk) ->
  forall w i, In ((m, w), i) (e_pend s') -> pred w = true ->
    (In ((m, w), i) (e_pend s) /\ ~ In w ws) \/
    (exists h snap, In (TStart i h snap) t /\ h_await h = (m, w) /\ (w < snd (h_trig h))%Z).
Proof.
  intros S. induction S as [|w0 ws S IH Hw0]; intros Hcl s s' t; cbn [pass_loop].
  - intro H; inversion H; subst. intros w i Hin _. left. split; [exact Hin|intros []].
  - destruct (do_weight hooks orc m w0 s) as [[[s1 t1] f] c] eqn:E.
    destruct c; [discriminate|]. destruct f as [wf|]; [discriminate|].
    destruct (pass_loop hooks orc m ws s1) as [[s2 t2] p2] eqn:E2.
    intro H; inversion H; subst. clear H.
    pose proof (await_closed_tail _ _ _ _ _ (SSorted_cons _ S Hw0) Hcl) as Hcl'.
    intros w i Hin Hp.
    destruct (IH Hcl' _ _ _ E2 w i Hin Hp) as [[Hin1 Hnw]|(h & snap & Hs & Ha & Hlt)].
    + apply do_weight_shape in E. destruct E as (Hpend & _ & _ & _ & _ & t3 & -> & _).
      rewrite Hpend in Hin1. unfold dw_pend2 in Hin1. apply filter_In in Hin1.
      destruct Hin1 as [Hin1 Hne]. unfold at_point in Hne. cbn [fst] in Hne.
      assert (Hww : w <> w0).
      { intros ->. rewrite point_eqb_refl in Hne. discriminate. }
      unfold dw_pend1 in Hin1. apply in_app_or in Hin1. destruct Hin1 as [Hold|Hnew].
      * left. split; [exact Hold|]. intros [Heq|Hr]; [congruence|contradiction].
      * apply in_map_iff in Hnew. destruct Hnew as (h & Heq & Hh).
        assert (Ha : h_await h = (m, w)) by congruence.
        assert (Hi : new_inst orc h = i) by congruence. clear Heq. subst i.
        unfold dw_calls in Hh. apply filter_In in Hh. destruct Hh as [Hh Hc].
        apply hooks_at_in in Hh. destruct Hh as [Hh Ht].
        assert (Hst : In (TStart (new_inst orc h) h (e_rv s)) (dw_t1 hooks orc m w0 s)).
        { unfold dw_t1, dw_calls. apply in_map_iff. exists h. split; [reflexivity|].
          apply filter_In. split; [apply hooks_at_in; auto|exact Hc]. }
        destruct (Z.lt_ge_cases w w0) as [Hlt|Hge].
        -- right. exists h, (e_rv s). split; [|split; [exact Ha|rewrite Ht; exact Hlt]].
           apply in_or_app. left. apply in_or_app. left. exact Hst.
        -- exfalso. apply Hnw.
           assert (Hin' : In (snd (h_await h)) (w0 :: ws)).
           { apply (Hcl h Hh Hc); rewrite ?Ht, ?Ha; cbn [fst snd]; auto; [left; reflexivity|lia]. }
           rewrite Ha in Hin'. cbn [snd] in Hin'. destruct Hin' as [Heq'|Hr]; [congruence|exact Hr].
    + right. exists h, snap. split; [apply in_or_app; right; exact Hs|auto].
Qed.

(* C08, await clause: when handleHooks has gone through the weights of moment [m] selected by
   [pred] without a critical failure, the only calls still pending at a point of that pass are
   calls that were started after that point had been passed *)
Lemma run_pass_await hooks orc m pred s s' t :
  run_pass hooks orc m pred s = (s', t, POk) ->
  forall w i, In ((m, w), i) (e_pend s') -> pred w = true ->
    exists h snap, In (TStart i h snap) t /\ h_await h = (m, w) /\ (w < snd (h_trig h))%Z.
Proof.
  unfold run_pass. intros H w i Hin Hp.
  assert (Hcl : await_closed hooks m pred (pass_weights hooks m pred s)).
  { intros h Hh Hc Hm Hw Ha Hpa Hlt.
    apply pass_weights_in. split; [exact Hpa|]. right. left. apply await_weights_in.
    exists h. repeat split; auto. destruct (h_await h) as [am aw]. cbn in *. subst. reflexivity. }
  destruct (pass_loop_await _ _ _ _ _ (pass_weights_sorted hooks m pred s) Hcl _ _ _ H w i Hin Hp)
    as [[Hold Hnw]|R]; [|exact R].
  exfalso. apply Hnw. apply pass_weights_in. split; [exact Hp|]. right. right.
  apply pend_weights_in. exists i. exact Hold.
Qed.

(* ------------------------------------------------------------------ ParseTriggerExpression *)

Definition no_sign (l : str) : Prop := forallb (fun c => negb (is_sign c)) l = true.

Lemma last_sign_none l : forall i acc, no_sign l -> last_sign l i acc = acc.
Proof.
  induction l as [|c l IH]; intros i acc H; [reflexivity|].
  unfold no_sign in H. cbn in H. apply andb_true_iff in H. destruct H as [Hc Hl].
  cbn. apply negb_true_iff in Hc. rewrite Hc. apply IH. exact Hl.
Qed.

Lemma last_sign_app a c ds : forall i acc, is_sign c = true -> no_sign ds ->
  last_sign (a ++ c :: ds) i acc = Some (i + length a)%nat.
Proof.
  induction a as [|x a IH]; intros i acc Hc Hd.
  - cbn. rewrite Hc. rewrite last_sign_none by exact Hd. f_equal. lia.
  - cbn. rewrite IH by assumption. f_equal. lia.
Qed.

(* no '+' / '-' at all: the whole string is the name, weight +0 *)
Lemma parse_trigger_plain s : no_sign s -> parse_trigger s = (s, 0%Z).
Proof. intro H. unfold parse_trigger. rewrite last_sign_none by exact H. reflexivity. Qed.

(* otherwise the split is at the LAST sign character; an unparsable weight counts as 0 *)
Lemma parse_trigger_signed name c ds : is_sign c = true -> no_sign ds ->
  parse_trigger (name ++ c :: ds) =
  (name, match atoi_signed (c :: ds) with Some v => v | None => 0%Z end).
Proof.
  intros Hc Hd. unfold parse_trigger. rewrite last_sign_app by assumption. cbn [Nat.add].
  rewrite firstn_app, Nat.sub_diag, firstn_all, skipn_app, Nat.sub_diag, skipn_all. cbn.
  rewrite app_nil_r. reflexivity.
Qed.

Lemma digits_val_app a b : forall acc,
  digits_val (a ++ b) acc = match digits_val a acc with Some v => digits_val b v | None => None end.
Proof.
  induction a as [|c a IH]; intro acc; [reflexivity|]. cbn. destruct (is_dig c); [apply IH|reflexivity].
Qed.

(* ------------------------------------------------------------------ the await step waits for all *)
(* C08: one weight step of handleHooks collects EVERY call awaited at that point - those already
   pending there and those it has just started with their await at this very point - whatever the
   oracle says about which of them fail and whatever the hook tasks of the weight do; none of them
   is left in (or silently dropped from) the pending set *)
Lemma do_weight_await_all hooks orc m w s s' t f c i :
  do_weight hooks orc m w s = (s', t, f, c) ->
  (In ((m, w), i) (e_pend s) \/
   exists h, In h hooks /\ is_call h = true /\ h_trig h = (m, w) /\ h_await h = (m, w) /\ i = new_inst orc h) ->
  In (TCollect i (m, w)) t /\ ~ In ((m, w), i) (e_pend s') /\
  (forall q j, In (q, j) (e_pend s') -> q <> (m, w)).
Proof.
  intros H Hin. apply do_weight_shape in H. destruct H as (Hp & _ & _ & _ & _ & t3 & -> & _).
  assert (Hin1 : In ((m, w), i) (dw_pend1 hooks orc m w s)).
  { unfold dw_pend1. apply in_or_app. destruct Hin as [Hin|(h & Hh & Hc & Ht & Ha & ->)]; [left; exact Hin|].
    right. apply in_map_iff. exists h. split; [rewrite Ha; reflexivity|].
    unfold dw_calls. apply filter_In. split; [apply hooks_at_in; auto|exact Hc]. }
  split; [|split].
  - apply in_or_app. right. apply in_or_app. left. unfold dw_t2, dw_coll.
    apply in_map_iff. exists i. split; [reflexivity|]. apply in_map_iff. exists ((m, w), i). split; [reflexivity|].
    apply filter_In. split; [exact Hin1|]. unfold at_point. cbn. apply point_eqb_refl.
  - rewrite Hp. unfold dw_pend2. intro Hx. apply filter_In in Hx. destruct Hx as [_ Hx].
    unfold at_point in Hx. cbn in Hx. rewrite point_eqb_refl in Hx. discriminate.
  - intros q j Hx. rewrite Hp in Hx. unfold dw_pend2 in Hx. apply filter_In in Hx. destruct Hx as [_ Hx].
    unfold at_point in Hx. cbn in Hx. intros ->. rewrite point_eqb_refl in Hx. discriminate.
Qed.

(* ------------------------------------------------------------------ DESTROY hooks all run *)
Lemma destroy_weights_in hooks w :
  In w (destroy_weights hooks) <-> In w (trig_weights hooks MDestroy) \/ In w (trig_weights hooks MAfterDestroy).
Proof. unfold destroy_weights. rewrite zsort_uniq_in, in_app_iff. tauto. Qed.

(* C08: a teardown calls every call hook declared at DESTROY or after_DESTROY, whatever other
   hooks share its weight, and collects it on the spot *)
Lemma destroy_all_run hooks orc s h :
  In h hooks -> is_call h = true -> fst (h_trig h) = MDestroy \/ fst (h_trig h) = MAfterDestroy ->
  In (TStart (new_inst orc h) h (e_rv s)) (destroy_trace hooks orc s) /\
  In (TCollect (new_inst orc h) (h_trig h)) (destroy_trace hooks orc s).
Proof.
  intros Hh Hc Hm. unfold destroy_trace.
  set (w := snd (h_trig h)).
  assert (Hw : In w (destroy_weights hooks)).
  { apply destroy_weights_in. destruct Hm as [Hm|Hm]; [left|right]; apply trig_weights_in; exists h;
      (split; [exact Hh|]); destruct (h_trig h) as [a b]; cbn in *; subst; reflexivity. }
  assert (Hat : In h (filter is_call (destroy_hooks_at hooks w))).
  { apply filter_In. split; [|exact Hc]. unfold destroy_hooks_at. apply in_or_app.
    destruct Hm as [Hm|Hm]; [left|right]; apply hooks_at_in; (split; [exact Hh|]);
      destruct (h_trig h) as [a b]; cbn in *; subst; reflexivity. }
  assert (K : forall x, In x [TStart (new_inst orc h) h (e_rv s); TCollect (new_inst orc h) (h_trig h)] ->
              In x (flat_map (fun w0 =>
                flat_map (fun h0 => [TStart (new_inst orc h0) h0 (e_rv s); TCollect (new_inst orc h0) (h_trig h0)])
                         (filter is_call (destroy_hooks_at hooks w0)) ++
                match map h_id (filter is_task (destroy_hooks_at hooks w0)) with [] => [] | ts => [TTasks ts (MDestroy, w0)] end)
                (destroy_weights hooks))).
  { intros x Hx. apply in_flat_map. exists w. split; [exact Hw|]. apply in_or_app. left.
    apply in_flat_map. exists h. split; [exact Hat|exact Hx]. }
  split; apply K; cbn; auto.
Qed.

(* C08: corollary of pending_exact - over any history, and for every set [g] of call instances,
   no more results are taken than calls were started (no result taken twice, none taken of a
   call that was never started), and what is pending never exceeds what was started *)
Lemma collected_within_started hooks ops init s l (g : inst -> bool) :
  run_ops hooks 0 ops (est0 init) = (s, l) ->
  (nf g (collects (full_trace l)) <= nf g (starts (full_trace l)))%nat /\
  (pn g s <= nf g (starts (full_trace l)))%nat.
Proof. intro H. pose proof (pending_exact _ _ _ _ _ g H) as E. lia. Qed.
