(* Lemmas about the model of coq/model/EnvHooks.v (hooks, failures, run variables). *)
From Verif Require Import Common EnvHooks.
From Coq Require Import ZArith List Bool Lia Sorting.Sorted Permutation.
Import ListNotations.
Open Scope N_scope.

(* ------------------------------------------------------------------ equality tests *)

Lemma st_code_inj a b : st_code a = st_code b -> a = b.
Proof. destruct a, b; cbn; intro H; try reflexivity; discriminate. Qed.
Lemma evt_code_inj a b : evt_code a = evt_code b -> a = b.
Proof. destruct a, b; cbn; intro H; try reflexivity; discriminate. Qed.

Lemma st_eqb_spec a b : st_eqb a b = true <-> a = b.
Proof.
  unfold st_eqb. rewrite N.eqb_eq. split; [apply st_code_inj|intros ->; reflexivity].
Qed.
Lemma evt_eqb_spec a b : evt_eqb a b = true <-> a = b.
Proof.
  unfold evt_eqb. rewrite N.eqb_eq. split; [apply evt_code_inj|intros ->; reflexivity].
Qed.

Lemma mname_code_inj a b : mname_code a = mname_code b -> a = b.
Proof.
  destruct a, b; cbn; intro H; inversion H; try reflexivity;
    try (f_equal; (apply evt_code_inj || apply st_code_inj); assumption).
Qed.

Lemma mname_eqb_spec a b : mname_eqb a b = true <-> a = b.
Proof.
  unfold mname_eqb. destruct (mname_code a) as [a1 a2] eqn:Ea, (mname_code b) as [b1 b2] eqn:Eb.
  rewrite andb_true_iff, !N.eqb_eq. split.
  - intros [-> ->]. apply mname_code_inj. congruence.
  - intros ->. rewrite Ea in Eb. inversion Eb. auto.
Qed.
Lemma mname_eqb_refl a : mname_eqb a a = true.
Proof. apply mname_eqb_spec. reflexivity. Qed.
Lemma mname_eqb_neq a b : a <> b -> mname_eqb a b = false.
Proof.
  intro H. destruct (mname_eqb a b) eqn:E; [|reflexivity]. apply mname_eqb_spec in E. contradiction.
Qed.

Lemma point_eqb_spec a b : point_eqb a b = true <-> a = b.
Proof.
  unfold point_eqb. destruct a as [am aw], b as [bm bw]. cbn [fst snd].
  rewrite andb_true_iff, mname_eqb_spec, Z.eqb_eq. split.
  - intros [-> ->]. reflexivity.
  - intro H. inversion H. auto.
Qed.
Lemma point_eqb_refl a : point_eqb a a = true.
Proof. apply point_eqb_spec. reflexivity. Qed.

(* ------------------------------------------------------------------ sorted distinct weights *)

Lemma zinsert_in x l y : In y (zinsert x l) <-> y = x \/ In y l.
Proof.
  induction l as [|z l IH]; cbn.
  - intuition.
  - destruct (x <? z)%Z eqn:E1; cbn.
    + intuition.
    + destruct (x =? z)%Z eqn:E2; cbn.
      * apply Z.eqb_eq in E2. subst. intuition.
      * rewrite IH. intuition.
Qed.

Lemma zinsert_sorted x l : StronglySorted Z.lt l -> StronglySorted Z.lt (zinsert x l).
Proof.
  induction l as [|z l IH]; cbn; intro H.
  - constructor; constructor.
  - inversion H as [|? ? Hs Hf]; subst.
    destruct (x <? z)%Z eqn:E1.
    + apply Z.ltb_lt in E1. constructor; [exact H|].
      constructor; [exact E1|]. rewrite Forall_forall in *. intros y Hy.
      specialize (Hf y Hy). lia.
    + destruct (x =? z)%Z eqn:E2; [exact H|].
      apply Z.ltb_ge in E1. apply Z.eqb_neq in E2.
      constructor; [apply IH; exact Hs|].
      rewrite Forall_forall in *. intros y Hy. apply zinsert_in in Hy.
      destruct Hy as [->|Hy]; [lia|apply Hf; exact Hy].
Qed.

Lemma zsort_uniq_in l y : In y (zsort_uniq l) <-> In y l.
Proof.
  induction l as [|x l IH]; cbn; [tauto|]. rewrite zinsert_in, IH. intuition.
Qed.

Lemma zsort_uniq_sorted l : StronglySorted Z.lt (zsort_uniq l).
Proof.
  induction l as [|x l IH]; cbn; [constructor|]. apply zinsert_sorted. exact IH.
Qed.

Lemma filter_ssorted {A} (R : A -> A -> Prop) f l :
  StronglySorted R l -> StronglySorted R (filter f l).
Proof.
  induction l as [|x l IH]; cbn; intro H; [constructor|].
  inversion H as [|? ? Hs Hf]; subst. destruct (f x).
  - constructor; [apply IH; exact Hs|].
    rewrite Forall_forall in *. intros y Hy. apply filter_In in Hy. apply Hf. tauto.
  - apply IH. exact Hs.
Qed.

Lemma pass_weights_sorted hooks m pred s : StronglySorted Z.lt (pass_weights hooks m pred s).
Proof. unfold pass_weights. apply filter_ssorted. apply zsort_uniq_sorted. Qed.

Lemma pass_weights_in hooks m pred s w :
  In w (pass_weights hooks m pred s) <->
  pred w = true /\ (In w (trig_weights hooks m) \/ In w (pend_weights m (e_pend s))).
Proof.
  unfold pass_weights. rewrite filter_In, zsort_uniq_in, in_app_iff. tauto.
Qed.

Lemma trig_weights_in hooks m w :
  In w (trig_weights hooks m) <-> exists h, In h hooks /\ h_trig h = (m, w).
Proof.
  unfold trig_weights. rewrite in_map_iff. split.
  - intros [h [Hw Hh]]. apply filter_In in Hh. destruct Hh as [Hh Hm].
    apply mname_eqb_spec in Hm. exists h. split; [exact Hh|].
    destruct (h_trig h) as [a b]. cbn in *. subst. reflexivity.
  - intros [h [Hh Ht]]. exists h. rewrite Ht. cbn. split; [reflexivity|].
    apply filter_In. split; [exact Hh|]. rewrite Ht. cbn. apply mname_eqb_refl.
Qed.

Lemma pend_weights_in m p w :
  In w (pend_weights m p) <-> exists i, In ((m, w), i) p.
Proof.
  unfold pend_weights. rewrite in_map_iff. split.
  - intros [[[a b] i] [Hw Hh]]. apply filter_In in Hh. destruct Hh as [Hh Hm].
    cbn in *. apply mname_eqb_spec in Hm. subst. exists i. exact Hh.
  - intros [i Hi]. exists ((m, w), i). cbn. split; [reflexivity|].
    apply filter_In. split; [exact Hi|]. cbn. apply mname_eqb_refl.
Qed.

(* ------------------------------------------------------------------ projections of a trace *)

Definition starts (t : list tev) : list inst :=
  flat_map (fun e => match e with TStart i _ _ => [i] | _ => [] end) t.
Definition collects (t : list tev) : list inst :=
  flat_map (fun e => match e with TCollect i _ => [i] | _ => [] end) t.
Definition cancels (t : list tev) : list inst :=
  flat_map (fun e => match e with TCancel i => [i] | _ => [] end) t.

Lemma starts_app a b : starts (a ++ b) = starts a ++ starts b.
Proof. unfold starts. apply flat_map_app. Qed.
Lemma collects_app a b : collects (a ++ b) = collects a ++ collects b.
Proof. unfold collects. apply flat_map_app. Qed.
Lemma cancels_app a b : cancels (a ++ b) = cancels a ++ cancels b.
Proof. unfold cancels. apply flat_map_app. Qed.

(* number of elements of a list that satisfy a test *)
Definition nf {A} (f : A -> bool) (l : list A) : nat := length (filter f l).

Lemma nf_app {A} (f : A -> bool) a b : nf f (a ++ b) = (nf f a + nf f b)%nat.
Proof. unfold nf. rewrite filter_app, app_length. reflexivity. Qed.
Lemma nf_nil {A} (f : A -> bool) : nf f [] = 0%nat.
Proof. reflexivity. Qed.
Lemma nf_cons {A} (f : A -> bool) x l : nf f (x :: l) = ((if f x then 1 else 0) + nf f l)%nat.
Proof. unfold nf. cbn. destruct (f x); reflexivity. Qed.

Lemma nf_partition {A B} (f : B -> bool) (g : A -> B) (P : A -> bool) (l : list A) :
  nf f (map g l) =
  (nf f (map g (filter P l)) + nf f (map g (filter (fun x => negb (P x)) l)))%nat.
Proof.
  induction l as [|x l IH]; [reflexivity|].
  cbn [filter map]. destruct (P x); cbn [negb map]; rewrite !nf_cons, IH; lia.
Qed.

Definition pn (f : inst -> bool) (s : est) : nat := nf f (map snd (e_pend s)).
