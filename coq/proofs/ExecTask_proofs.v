(* Proofs about the ExecTask model (property C17). *)
From Verif Require Import Common Gen_ExecTask ExecTask.
From Coq Require Import Lia.
Open Scope N_scope.

(* ---------- regenerated constants, as the model needs them ---------- *)
Lemma pending_cap_one : et_pending_cap = 1.
Proof. reflexivity. Qed.

Lemma stop_guards_nil : et_stop_guards_nil = true.
Proof. reflexivity. Qed.

(* ---------- generic ---------- *)
Ltac inv H := inversion H; subst; clear H.

Ltac destr_in H :=
  match type of H with
  | context [match ?x with _ => _ end] => destruct x eqn:?
  | context [if ?x then _ else _] => destruct x eqn:?
  end.

Lemma statuses_app a b : statuses (a ++ b) = statuses a ++ statuses b.
Proof.
  induction a as [|x a IH]; cbn; [reflexivity|].
  destruct x; cbn; rewrite ?IH; reflexivity.
Qed.

Lemma sigs_app a b : sigs (a ++ b) = sigs a ++ sigs b.
Proof.
  induction a as [|x a IH]; cbn; [reflexivity|].
  destruct x; cbn; rewrite ?IH; reflexivity.
Qed.

Lemma waited_app a b : waited (a ++ b) = waited a + waited b.
Proof.
  induction a as [|x a IH]; cbn [app waited]; [reflexivity|].
  destruct x; rewrite ?IH; lia.
Qed.

Lemma has_crash_app a b : has_crash (a ++ b) = has_crash a || has_crash b.
Proof.
  induction a as [|x a IH]; cbn; [reflexivity|].
  destruct x; cbn; rewrite ?IH; reflexivity.
Qed.

Lemma count_disc_app a b : count_disc (a ++ b) = count_disc a + count_disc b.
Proof.
  induction a as [|x a IH]; cbn [app count_disc]; [reflexivity|].
  destruct x; rewrite ?IH; lia.
Qed.

(* ====================================================================================== *)
(* controllable tasks                                                                      *)
(* ====================================================================================== *)

(* an invariant relating state and trace so far is preserved along every schedule *)
Lemma crun_inv (P : cst -> list out -> Prop) b :
  (forall s t a s' o, P s t -> cstep b s a = (s', o) -> P s' (t ++ o)) ->
  forall l s t s' o, P s t -> crun b s l = (s', o) -> P s' (t ++ o).
Proof.
  intros HS l. induction l as [|a l IH]; intros s t s' o HP HR; cbn in HR.
  - inv HR. rewrite app_nil_r. exact HP.
  - destruct (cstep b s a) as [s1 o1] eqn:E1.
    destruct (crun b s1 l) as [s2 o2] eqn:E2. inv HR.
    rewrite app_assoc. eapply IH; [|exact E2]. eapply HS; eassumption.
Qed.

Lemma crun_app b l1 l2 s :
  crun b s (l1 ++ l2) =
  let '(s1, o1) := crun b s l1 in let '(s2, o2) := crun b s1 l2 in (s2, o1 ++ o2).
Proof.
  revert s. induction l1 as [|a l1 IH]; intro s; cbn.
  - destruct (crun b s l2). reflexivity.
  - destruct (cstep b s a) as [s1 o1]. rewrite IH.
    destruct (crun b s1 l1) as [s2 o2]. destruct (crun b s2 l2) as [s3 o3].
    rewrite app_assoc. reflexivity.
Qed.

(* unfolds one step completely: every branch the code can take becomes a goal *)
Ltac cstep_cases H :=
  unfold cstep, poll_guard, ckill, kill_step, send_sig, set_kpc, deliver, ccrash, pid_exists, is_run in H;
  cbn in H; repeat (destr_in H; cbn in H; try discriminate H); inv H; cbn in *.

(* ---------- the main invariant ---------- *)
Definition pend_ok (p : option status) : Prop := p = None \/ p = Some FINISHED \/ p = Some KILLED.

(* what has been reported so far, per phase; a posted final state is FINISHED or KILLED and
   implies that Kill has closed the client *)
Definition cinv (s : cst) (t : list out) : Prop :=
  pend_ok (c_pending s) /\
  (c_pending s <> None -> c_rpc s = false) /\
  match c_phase s with
  | CNone => statuses t = [] /\ c_pending s = None /\ c_rpc s = false /\ c_active s = false
  | CDial => statuses t = [] /\ c_pending s = None /\ c_rpc s = false
  | CPoll => statuses t = []
  | CWait => statuses t = [RUNNING]
  | CEnd => exists x, terminal x = true /\ (statuses t = [x] \/ statuses t = [RUNNING; x])
  end.

Lemma cinv_init : cinv cinit [].
Proof. unfold cinv, pend_ok; cbn. intuition congruence. Qed.

Lemma cinv_step b s t a s' o :
  cinv s t -> cstep b s a = (s', o) -> cinv s' (t ++ o).
Proof.
  intros (HP & HR & HI0) HS. unfold cinv in *. rewrite statuses_app.
  destruct s as [ph rpc act pend kpc tg proc gc dn cr]. cbn in HP, HR, HI0.
  destruct a; try (destruct ph; cbn in HI0);
  cstep_cases HS; rewrite ?app_nil_r.
  all: repeat match goal with H : _ /\ _ |- _ => destruct H end; subst; try discriminate.
  all: (split; [unfold pend_ok in *; intuition congruence
              | split; [intro Hn; first [reflexivity | congruence | specialize (HR Hn); congruence] | ]]).
  all: try exact HI0.
  all: try (repeat split; first [assumption|reflexivity]).
  all: try (match goal with HI : statuses _ = _ |- _ => rewrite HI end; cbn; reflexivity).
  all: try (match goal with HI : statuses _ = _ |- _ => rewrite HI end; cbn; split; reflexivity).
  all: try (match goal with HI : statuses _ = _ |- _ => rewrite HI end; cbn; eexists; (split; [|left; reflexivity]); reflexivity).
  all: try (match goal with HI : statuses _ = _ |- _ => rewrite HI end; cbn; eexists; (split; [|right; reflexivity]); reflexivity).
  - (* reaper, a final state was posted *)
    rewrite HI0; cbn. exists s. split; [|right; reflexivity].
    destruct HP as [HP|[HP|HP]]; inv HP; reflexivity.
  - (* reaper, nothing posted *)
    rewrite HI0; cbn. exists (default_final d). split; [|right; reflexivity].
    destruct d as [[|p]|]; reflexivity.
Qed.

Lemma cinv_reach b l s t : crun b cinit l = (s, t) -> cinv s t.
Proof.
  intro HR. change t with ([] ++ t).
  eapply (crun_inv cinv b (cinv_step b)); [exact cinv_init|exact HR].
Qed.

(* ---------- at most one terminal status and nothing after it ---------- *)
Lemma status_ok_of_cinv s t : cinv s t -> status_ok (statuses t) = true.
Proof.
  intros (_ & _ & H). destruct (c_phase s).
  - destruct H as [H _]; rewrite H; reflexivity.
  - destruct H as [H _]; rewrite H; reflexivity.
  - rewrite H; reflexivity.
  - rewrite H; reflexivity.
  - destruct H as [x [Hx [E|E]]]; rewrite E; cbn; rewrite Hx; reflexivity.
Qed.

Lemma ctl_one_terminal b l s t :
  crun b cinit l = (s, t) -> status_ok (statuses t) = true.
Proof. intro HR. apply (status_ok_of_cinv s). eapply cinv_reach; exact HR. Qed.

Lemma status_ok_count l : status_ok l = true -> (count_terminal l <= 1)%nat.
Proof.
  unfold count_terminal. induction l as [|x l IH]; cbn; [lia|].
  destruct (terminal x) eqn:E; cbn.
  - destruct l; [cbn; lia|discriminate].
  - exact IH.
Qed.

(* ---------- a task killed on request reports FINISHED or KILLED ---------- *)
Definition is_fk (x : status) : bool := match x with FINISHED | KILLED => true | _ => false end.

(* "a Kill request has posted its final state (or the task is over)" *)
Definition cposted (s : cst) : Prop :=
  c_phase s = CEnd \/
  (c_pending s <> None /\ pend_ok (c_pending s) /\ c_rpc s = false /\
   c_phase s <> CNone /\ c_phase s <> CDial).

Lemma cposted_step b s a s' o :
  cposted s -> cstep b s a = (s', o) -> cposted s' /\ forallb is_fk (statuses o) = true.
Proof.
  intros HQ HS. unfold cposted, pend_ok in *.
  destruct s as [ph rpc act pend kpc tg proc gc dn cr]. cbn in HQ.
  destruct HQ as [HQ|(Hp & Hk & Hr & Hn1 & Hn2)]; subst.
  - cstep_cases HS; (split; [left; reflexivity|reflexivity]).
  - destruct pend as [p|]; [|congruence].
    assert (Hfk : is_fk p = true) by (destruct Hk as [Hk|[Hk|Hk]]; inv Hk; reflexivity).
    destruct ph; try congruence;
    cstep_cases HS;
    try (split; [left; reflexivity|]; cbn; rewrite ?Hfk; reflexivity);
    (split; [right; repeat split; try congruence; try assumption|reflexivity]).
Qed.

Lemma cposted_run b l s s' t :
  cposted s -> crun b s l = (s', t) -> forallb is_fk (statuses t) = true.
Proof.
  revert s s' t. induction l as [|a l IH]; intros s s' t HQ HR; cbn in HR.
  - inv HR. reflexivity.
  - destruct (cstep b s a) as [s1 o1] eqn:E1. destruct (crun b s1 l) as [s2 o2] eqn:E2. inv HR.
    destruct (cposted_step _ _ _ _ _ HQ E1) as [HQ1 H1].
    rewrite statuses_app, forallb_app, H1. cbn. eapply IH; eassumption.
Qed.

(* an accepted Kill (the task was active, the executor did not crash) posts a final state *)
Lemma ckill_posts b s t s' o :
  cinv s t -> c_crashed s = false ->
  cstep b s AKill = (s', o) -> has_crash o = false -> count_disc o = 0 ->
  cposted s' /\ statuses o = [].
Proof.
  intros (HP & HR & HI) Hcr HS HC HD. unfold cposted, pend_ok in *.
  destruct s as [ph rpc act pend kpc tg proc gc dn cr]. cbn in HP, HR, HI, Hcr. subst cr.
  destruct ph; cbn in HI;
  repeat match goal with H : _ /\ _ |- _ => destruct H end; subst;
  cstep_cases HS; try discriminate;
  try (exfalso; assert (true = false) by (apply HR; congruence); discriminate).
  all: try (split; [left; reflexivity|reflexivity]).
  all: split; [right; repeat split; try congruence; intuition congruence|reflexivity].
Qed.

Lemma ctl_killed_not_failed b l1 l2 s1 t1 s2 o s3 t3 :
  crun b cinit l1 = (s1, t1) -> c_crashed s1 = false ->
  cstep b s1 AKill = (s2, o) -> has_crash o = false -> count_disc o = 0 ->
  crun b s2 l2 = (s3, t3) ->
  forallb is_fk (statuses (o ++ t3)) = true.
Proof.
  intros H1 Hcr HK HC HD H2.
  destruct (ckill_posts b s1 t1 s2 o (cinv_reach _ _ _ _ H1) Hcr HK HC HD) as [HQ Ho].
  rewrite statuses_app, Ho. cbn. eapply cposted_run; eassumption.
Qed.

(* ---------- crashes ---------- *)
Definition ck_ok (s : cst) : Prop :=
  c_crashed s = false /\ (c_phase s = CPoll -> c_rpc s = true).
(* Kill arrives when the task is not (any more) active, or is up and has not been killed yet *)
Definition kill_safe (s : cst) : Prop :=
  c_active s = false \/ (c_rpc s = true /\ c_phase s = CWait).

Lemma ck_ok_step b s a s' o :
  ck_ok s -> (a = AKill -> kill_safe s) -> cstep b s a = (s', o) ->
  ck_ok s' /\ has_crash o = false.
Proof.
  intros [Hc Hp] Hk HS. unfold ck_ok, kill_safe in *.
  destruct s as [ph rpc act pend kpc tg proc gc dn cr]. cbn in Hc, Hp, Hk. subst cr.
  destruct a.
  2: { (* AKill *)
    destruct (Hk eq_refl) as [Ha|[Ha Hb]]; subst;
    cstep_cases HS; (split; [split; [reflexivity|intro; first [congruence|auto]]|reflexivity]). }
  all: destruct ph; try (rewrite (Hp eq_refl) in * );
    cstep_cases HS;
    (split; [split; [reflexivity|intro; first [congruence|reflexivity|auto]]|reflexivity]).
Qed.

Lemma ctl_no_crash_gen b l : forall s,
  ck_ok s ->
  (forall l1 l2, l = l1 ++ AKill :: l2 -> kill_safe (fst (crun b s l1))) ->
  has_crash (snd (crun b s l)) = false /\ c_crashed (fst (crun b s l)) = false.
Proof.
  induction l as [|a l IH]; intros s HK HS; cbn.
  - split; [reflexivity|exact (proj1 HK)].
  - destruct (cstep b s a) as [s1 o1] eqn:E1.
    assert (Ha : a = AKill -> kill_safe s).
    { intro; subst. exact (HS [] l eq_refl). }
    destruct (ck_ok_step _ _ _ _ _ HK Ha E1) as [HK1 Hc1].
    specialize (IH s1 HK1).
    destruct (crun b s1 l) as [s2 o2] eqn:E2. cbn in *.
    rewrite has_crash_app, Hc1. cbn. apply IH.
    intros l1 l2 El. specialize (HS (a :: l1) l2). cbn in HS. rewrite E1 in HS.
    subst l. specialize (HS eq_refl). destruct (crun b s1 l1); exact HS.
Qed.

Lemma ctl_no_crash_partial b l :
  (forall l1 l2, l = l1 ++ AKill :: l2 -> kill_safe (fst (crun b cinit l1))) ->
  has_crash (snd (crun b cinit l)) = false /\ c_crashed (fst (crun b cinit l)) = false.
Proof.
  apply ctl_no_crash_gen. split; [reflexivity|intro H; discriminate H].
Qed.

Definition nbeh : beh := mkBeh (DExit 0) false false true None false.

Lemma ctl_crash_kill_before_dial :
  has_crash (snd (crun nbeh cinit [ALaunch; AKill])) = true.
Proof. vm_compute. reflexivity. Qed.
Lemma ctl_crash_kill_during_poll :
  has_crash (snd (crun nbeh cinit [ALaunch; ADialOk; APollTick; AKill; APollTick])) = true.
Proof. vm_compute. reflexivity. Qed.
Lemma ctl_crash_second_kill :
  has_crash (snd (crun nbeh cinit [ALaunch; ADialOk; APollReady; AKill; AKill])) = true.
Proof. vm_compute. reflexivity. Qed.

(* ---------- the TERM / INT / KILL escalation is bounded ---------- *)
Definition rank (k : kpc) : nat :=
  match k with KDone => 3 | KInt => 2 | KKill => 1 | _ => 0 end.
Definition budget (k : kpc) : N :=
  match k with
  | KDone => et_done_ms + et_sigterm_ms + et_sigint_ms
  | KInt => et_sigterm_ms + et_sigint_ms
  | KKill => et_sigint_ms
  | _ => 0
  end.
Definition sigs_from (k : kpc) : list sig :=
  match k with KDone => [TERM; INT; KILL9] | KInt => [INT; KILL9] | KKill => [KILL9] | _ => [] end.

Fixpoint count_killsteps (l : list action) : nat :=
  match l with [] => O | AKillStep :: r => S (count_killsteps r) | _ :: r => count_killsteps r end.
Fixpoint no_kill (l : list action) : bool :=
  match l with [] => true | AKill :: _ => false | _ :: r => no_kill r end.

(* the escalation is under way (or over, with the device process dead) in a task that was up *)
Definition esc_ok (s : cst) : Prop :=
  c_crashed s = false /\ (c_phase s = CWait \/ c_phase s = CEnd) /\
  (rank (c_kpc s) <> O \/ (c_kpc s = KFin /\ is_run (c_proc s) = false)).

(* signals go out in the order TERM, INT, KILL, each at most once *)
Definition sig_pre (o : list out) (k k' : kpc) : Prop :=
  sigs o ++ sigs_from k' = sigs_from k \/
  (sigs_from k' = [] /\ exists n, sigs o = firstn n (sigs_from k)).

Lemma esc_step b s a s' o :
  esc_ok s -> a <> AKill -> cstep b s a = (s', o) ->
  esc_ok s' /\
  waited o + budget (c_kpc s') <= budget (c_kpc s) /\
  (rank (c_kpc s') <= rank (c_kpc s))%nat /\
  (a = AKillStep -> (rank (c_kpc s') <= pred (rank (c_kpc s)))%nat) /\
  sig_pre o (c_kpc s) (c_kpc s').
Proof.
  intros (Hc & Hp & Hk) Ha HS. unfold esc_ok, sig_pre in *.
  destruct s as [ph rpc act pend kpc tg proc gc dn cr]. cbn in Hc, Hp, Hk. subst cr.
  destruct a; try congruence;
  (destruct Hp; subst ph);
  (destruct kpc; cbn in Hk; try (exfalso; destruct Hk as [Hk|[Hk _]]; congruence));
  cstep_cases HS;
  try (destruct Hk as [Hk|[_ Hk]]; [congruence|]); try discriminate;
  try ((split; [split; [reflexivity|split; [auto|first [left; discriminate|right; split; [reflexivity|first [reflexivity|assumption|destruct proc; try discriminate; reflexivity]]]]]|]);
  (split; [unfold et_done_ms, et_sigterm_ms, et_sigint_ms; lia|]);
  (split; [lia|]); (split; [intro; try discriminate; lia|]);
  first [left; reflexivity | right; split; [reflexivity|exists 0%nat; reflexivity]]).
Qed.

Lemma sig_pre_trans o1 o2 k0 k1 k2 :
  sig_pre o1 k0 k1 -> sig_pre o2 k1 k2 -> sig_pre (o1 ++ o2) k0 k2.
Proof.
  unfold sig_pre. rewrite sigs_app.
  intros [A1|[B1 [n1 C1]]] [A2|[B2 [n2 C2]]].
  - left. rewrite <- app_assoc, A2. exact A1.
  - right. split; [exact B2|]. exists (length (sigs o1) + n2)%nat.
    rewrite <- A1, firstn_app_2, C2. reflexivity.
  - rewrite B1 in A2. apply app_eq_nil in A2. destruct A2 as [A2 A3].
    right. split; [exact A3|]. exists n1. rewrite A2, app_nil_r. exact C1.
  - right. split; [exact B2|]. exists n1. rewrite B1 in C2.
    rewrite firstn_nil in C2. rewrite C2, app_nil_r. exact C1.
Qed.

Lemma esc_run b l : forall s s' t,
  esc_ok s -> no_kill l = true -> crun b s l = (s', t) ->
  esc_ok s' /\
  waited t + budget (c_kpc s') <= budget (c_kpc s) /\
  (rank (c_kpc s') <= rank (c_kpc s) - count_killsteps l)%nat /\
  sig_pre t (c_kpc s) (c_kpc s').
Proof.
  induction l as [|a l IH]; intros s s' t HE HN HR; cbn in HR.
  - inv HR. cbn. repeat split; try exact (proj1 HE); try apply HE; try lia.
    left. reflexivity.
  - destruct (cstep b s a) as [s1 o1] eqn:E1. destruct (crun b s1 l) as [s2 o2] eqn:E2. inv HR.
    assert (Ha : a <> AKill) by (intro; subst; discriminate).
    assert (HN' : no_kill l = true) by (destruct a; try exact HN; discriminate).
    destruct (esc_step _ _ _ _ _ HE Ha E1) as (HE1 & HW1 & HR1 & HS1 & HP1).
    destruct (IH _ _ _ HE1 HN' E2) as (HE2 & HW2 & HR2 & HP2).
    split; [exact HE2|]. split; [rewrite waited_app; lia|].
    split.
    { destruct a; cbn [count_killsteps]; try lia. specialize (HS1 eq_refl). lia. }
    eapply sig_pre_trans; eassumption.
Qed.

(* While the escalation of a task that was up is under way, three wake-ups of the Kill goroutine
   (at most DONE_TIMEOUT + SIGTERM_TIMEOUT + SIGINT_TIMEOUT of sleeping) end it: the device process
   is dead (it left, or SIGKILL was sent); the signals sent are, in this order and at most once
   each, the ones still due (TERM, INT, KILL from the start). *)
Lemma ctl_escalation_bounded b l s s' t :
  esc_ok s -> no_kill l = true -> (3 <= count_killsteps l)%nat ->
  crun b s l = (s', t) ->
  c_crashed s' = false /\ c_kpc s' = KFin /\ is_run (c_proc s') = false /\
  waited t <= et_done_ms + et_sigterm_ms + et_sigint_ms /\
  exists n, sigs t = firstn n (sigs_from (c_kpc s)).
Proof.
  intros HE HN H3 HR.
  destruct (esc_run b l s s' t HE HN HR) as ((Hc & Hp & Hk) & HW & HRk & HP).
  assert (Hr3 : (rank (c_kpc s) <= 3)%nat) by (destruct (c_kpc s); cbn; lia).
  assert (Hr0 : rank (c_kpc s') = O) by lia.
  destruct Hk as [Hk|[Hk Hrun]]; [congruence|].
  split; [exact Hc|]. split; [exact Hk|]. split; [exact Hrun|].
  split.
  { assert (budget (c_kpc s) <= et_done_ms + et_sigterm_ms + et_sigint_ms)
      by (destruct (c_kpc s); cbn; unfold et_done_ms, et_sigterm_ms, et_sigint_ms; lia).
    lia. }
  destruct HP as [A|[_ B]]; [|exact B].
  rewrite Hk in A. cbn in A. rewrite app_nil_r in A. exists (length (sigs t)).
  rewrite <- A. symmetry. apply firstn_all.
Qed.

(* an accepted Kill of a task that is up starts the escalation (or finds the process gone) *)
Lemma ckill_starts_escalation b s t s' o :
  cinv s t -> c_crashed s = false -> c_phase s = CWait ->
  cstep b s AKill = (s', o) -> has_crash o = false -> count_disc o = 0 ->
  esc_ok s' /\ waited o = 0 /\
  (sigs o = [] /\ c_kpc s' = KDone \/ sigs o = [TERM] /\ c_kpc s' = KInt \/
   sigs o = [] /\ c_kpc s' = KFin).
Proof.
  intros (HP & HR & HI) Hcr Hph HS HC HD. unfold esc_ok, pend_ok in *.
  destruct s as [ph rpc act pend kpc tg proc gc dn cr]. cbn in HP, HR, HI, Hcr, Hph. subst cr ph.
  cstep_cases HS; try discriminate;
  try (exfalso; assert (rpc = false) by (apply HR; congruence); subst; discriminate).
  all: try ((split; [split; [reflexivity|split; [left; reflexivity|first [left; discriminate|right; split; [reflexivity|destruct proc; try discriminate; reflexivity]]]]|]);
  (split; [reflexivity|]); auto).
Qed.

(* the forked child of the device: the escalation signals the reported pid, not the group *)
Lemma ctl_gc_false_step b s a s' o :
  bh_fork b = false -> c_gc s = false -> cstep b s a = (s', o) -> c_gc s' = false.
Proof.
  intros Hf Hg HS. destruct s as [ph rpc act pend kpc tg proc gc dn cr]. cbn in Hg. subst gc.
  cstep_cases HS; try reflexivity; try assumption.
Qed.

Lemma ctl_gc_false b l : forall s,
  bh_fork b = false -> c_gc s = false -> c_gc (fst (crun b s l)) = false.
Proof.
  induction l as [|a l IH]; intros s Hf Hg; cbn; [exact Hg|].
  destruct (cstep b s a) as [s1 o1] eqn:E1.
  specialize (IH s1 Hf (ctl_gc_false_step _ _ _ _ _ Hf Hg E1)).
  destruct (crun b s1 l). exact IH.
Qed.

Definition fbeh : beh := mkBeh (DExit 0) true true true None false.
Lemma ctl_kill_leaves_forked_child :
  let '(s, t) := crun fbeh cinit [ALaunch; ADialOk; APollReady; AKill; AKillStep; AKillStep; AKillStep] in
  c_crashed s = false /\ c_kpc s = KFin /\ sigs t = [TERM; INT; KILL9] /\
  is_run (c_proc s) = false /\ c_gc s = true.
Proof. vm_compute. repeat split; reflexivity. Qed.

(* ====================================================================================== *)
(* basic and hook tasks                                                                    *)
(* ====================================================================================== *)
Lemma brun_inv (P : bst -> list out -> Prop) b hook :
  (forall s t a s' o, P s t -> bstep b hook s a = (s', o) -> P s' (t ++ o)) ->
  forall l s t s' o, P s t -> brun b hook s l = (s', o) -> P s' (t ++ o).
Proof.
  intros HS l. induction l as [|a l IH]; intros s t s' o HP HR; cbn in HR.
  - inv HR. rewrite app_nil_r. exact HP.
  - destruct (bstep b hook s a) as [s1 o1] eqn:E1.
    destruct (brun b hook s1 l) as [s2 o2] eqn:E2. inv HR.
    rewrite app_assoc. eapply IH; [|exact E2]. eapply HS; eassumption.
Qed.

(* the part of the state the status updates depend on *)
Definition core3 (s : bst) : bool * bool * bool := (b_launched s, b_active s, b_timer s).

Ltac bfun_cases :=
  repeat match goal with
         | |- context [match ?x with _ => _ end] => destruct x eqn:?
         | |- context [if ?x then _ else _] => destruct x eqn:?
         end.

Lemma stop_kill_part_core s :
  core3 (fst (stop_kill_part s)) = core3 s /\ statuses (snd (stop_kill_part s)) = [].
Proof. unfold stop_kill_part. bfun_cases; cbn; split; reflexivity. Qed.

Lemma stop_push_core s :
  core3 (fst (stop_push s)) = core3 s /\ statuses (snd (stop_push s)) = [].
Proof.
  unfold stop_push. destruct (b_pending s).
  - split; reflexivity.
  - destruct (stop_kill_part_core (set_pending s (Some KILLED))) as [A B]. split; assumption.
Qed.

Lemma stop_basic_core s :
  core3 (fst (stop_basic s)) = core3 s /\ statuses (snd (stop_basic s)) = [].
Proof.
  unfold stop_basic. bfun_cases; try (split; reflexivity); apply stop_push_core.
Qed.

Lemma breq_core b hook s r :
  core3 (fst (breq b hook s r)) = core3 s /\ statuses (snd (breq b hook s r)) = [].
Proof.
  unfold breq. bfun_cases; try (split; reflexivity); apply stop_basic_core.
Qed.

Lemma breap_core s i :
  core3 (fst (breap s i)) = core3 s /\ statuses (snd (breap s i)) = [].
Proof.
  unfold breap. bfun_cases; try (split; reflexivity).
  match goal with H : stop_kill_part ?x = _ |- _ =>
    destruct (stop_kill_part_core x) as [A B]; rewrite H in A, B end.
  cbn in *. split; assumption.
Qed.

(* what has been reported so far, as a function of (launched, active, timer armed) *)
Definition binv (s : bst) (t : list out) : Prop :=
  match core3 s with
  | (false, a, tm) => a = false /\ tm = false /\ statuses t = []
  | (true, true, true) => statuses t = []
  | (true, false, true) => statuses t = [FINISHED]
  | (true, true, false) => statuses t = [RUNNING]
  | (true, false, false) => statuses t = [RUNNING; FINISHED] \/ statuses t = [FINISHED; RUNNING]
  end.

Lemma binv_step b hook s t a s' o :
  binv s t -> bstep b hook s a = (s', o) -> binv s' (t ++ o).
Proof.
  intros HI HS. unfold binv in *. rewrite statuses_app.
  destruct a;
  try (destruct (breq_core b hook s r) as [A B]);
  try (destruct (breap_core s i) as [A B]);
  destruct s as [la ac tm cmd ch pe bl cr]; unfold bstep in HS; cbn in HS, HI;
  (destruct cr; [inv HS; cbn; rewrite app_nil_r; exact HI|]);
  try (inv HS; cbn; rewrite app_nil_r; exact HI).
  - (* ALaunch *)
    destruct la; inv HS; cbn; rewrite ?app_nil_r; [exact HI|].
    destruct HI as (_ & _ & HI). exact HI.
  - (* AKill *)
    destruct ac; inv HS; cbn; rewrite ?app_nil_r; [|exact HI].
    destruct la; [|destruct HI; discriminate].
    destruct tm; rewrite HI; cbn; auto.
  - (* AReq *)
    rewrite HS in A, B. cbn in A, B. rewrite A, B, app_nil_r. exact HI.
  - (* ATimer *)
    destruct tm; inv HS; cbn; rewrite ?app_nil_r; [|exact HI].
    destruct la; [|destruct HI as (_ & HI & _); discriminate].
    destruct ac; rewrite HI; cbn; auto.
  - (* AExit *)
    destruct (nth_error ch i) as [[[] gc]|]; inv HS; cbn; rewrite app_nil_r; exact HI.
  - (* AReap *)
    rewrite HS in A, B. cbn in A, B. rewrite A, B, app_nil_r. exact HI.
Qed.

Lemma binv_reach b hook l s t : brun b hook binit l = (s, t) -> binv s t.
Proof.
  intro HR. change t with ([] ++ t).
  eapply (brun_inv binv b hook (binv_step b hook)); [|exact HR].
  unfold binv; cbn. auto.
Qed.

Definition is_rf (x : status) : bool := match x with RUNNING | FINISHED => true | _ => false end.

(* at most one terminal status, whatever the schedule; and it is never FAILED *)
Lemma basic_at_most_one_terminal b hook l s t :
  brun b hook binit l = (s, t) ->
  (count_terminal (statuses t) <= 1)%nat /\ forallb is_rf (statuses t) = true.
Proof.
  intro HR. pose proof (binv_reach _ _ _ _ _ HR) as HI. unfold binv in HI.
  destruct (core3 s) as [[[] []] []];
    repeat match goal with H : _ /\ _ |- _ => destruct H | H : _ \/ _ |- _ => destruct H end;
    match goal with H : statuses t = _ |- _ => rewrite H end; cbn; split; (lia || reflexivity).
Qed.

(* a terminal status is reported only in answer to KILL: the reaper of a basic or hook task
   sends the device event only *)
Fixpoint has_akill (l : list action) : bool :=
  match l with [] => false | AKill :: _ => true | _ :: r => has_akill r end.

Lemma bstep_status_only_kill b hook s a s' o :
  bstep b hook s a = (s', o) -> a <> AKill -> existsb terminal (statuses o) = false.
Proof.
  intros HS Ha. unfold bstep in HS. destruct (b_crashed s); [inv HS; reflexivity|].
  destruct a; try congruence; try (inv HS; reflexivity).
  - destruct (b_launched s); inv HS; reflexivity.
  - destruct (breq_core b hook s r) as [_ B]. rewrite HS in B. cbn in B. rewrite B. reflexivity.
  - destruct (b_timer s); inv HS; reflexivity.
  - destruct (nth_error (b_children s) i) as [[[] gc]|]; inv HS; reflexivity.
  - destruct (breap_core s i) as [_ B]. rewrite HS in B. cbn in B. rewrite B. reflexivity.
Qed.

Lemma basic_terminal_only_on_kill b hook l : forall s,
  has_akill l = false -> existsb terminal (statuses (snd (brun b hook s l))) = false.
Proof.
  induction l as [|a l IH]; intros s HK; cbn; [reflexivity|].
  destruct (bstep b hook s a) as [s1 o1] eqn:E1.
  assert (Ha : a <> AKill) by (intro; subst; discriminate).
  assert (HK' : has_akill l = false) by (destruct a; try exact HK; discriminate).
  specialize (IH s1 HK'). destruct (brun b hook s1 l) as [s2 o2]. cbn in *.
  rewrite statuses_app, existsb_app, IH, (bstep_status_only_kill _ _ _ _ _ _ E1 Ha). reflexivity.
Qed.

(* "nothing after the terminal status" fails: KILL within the 200 ms before the RUNNING timer *)
Lemma basic_status_after_terminal :
  statuses (snd (brun nbeh false binit [ALaunch; AKill; ATimer])) = [FINISHED; RUNNING].
Proof. vm_compute. reflexivity. Qed.

(* ... and holds when no KILL is handled while the timer is still armed *)
Definition binv_strict (s : bst) (t : list out) : Prop :=
  match core3 s with
  | (false, a, tm) => a = false /\ tm = false /\ statuses t = []
  | (true, true, true) => statuses t = []
  | (true, false, true) => False
  | (true, true, false) => statuses t = [RUNNING]
  | (true, false, false) => statuses t = [RUNNING; FINISHED]
  end.

Lemma binv_strict_step b hook s t a s' o :
  binv_strict s t -> (a = AKill -> b_timer s = false) ->
  bstep b hook s a = (s', o) -> binv_strict s' (t ++ o).
Proof.
  intros HI HT HS. unfold binv_strict in *. rewrite statuses_app.
  destruct a;
  try (destruct (breq_core b hook s r) as [A B]);
  try (destruct (breap_core s i) as [A B]);
  destruct s as [la ac tm cmd ch pe bl cr]; unfold bstep in HS; cbn in HS, HI, HT;
  (destruct cr; [inv HS; cbn; rewrite app_nil_r; exact HI|]);
  try (inv HS; cbn; rewrite app_nil_r; exact HI).
  - destruct la; inv HS; cbn; rewrite ?app_nil_r; [exact HI|].
    destruct HI as (_ & _ & HI). exact HI.
  - rewrite (HT eq_refl) in *.
    destruct ac; inv HS; cbn; rewrite ?app_nil_r; [|exact HI].
    destruct la; [|destruct HI; discriminate].
    rewrite HI; reflexivity.
  - rewrite HS in A, B. cbn in A, B. rewrite A, B, app_nil_r. exact HI.
  - destruct tm; inv HS; cbn; rewrite ?app_nil_r; [|exact HI].
    destruct la; [|destruct HI as (_ & HI & _); discriminate].
    destruct ac; [|contradiction]. rewrite HI; reflexivity.
  - destruct (nth_error ch i) as [[[] gc]|]; inv HS; cbn; rewrite app_nil_r; exact HI.
  - rewrite HS in A, B. cbn in A, B. rewrite A, B, app_nil_r. exact HI.
Qed.

Lemma basic_one_terminal_gen b hook l : forall s t,
  binv_strict s t ->
  (forall l1 l2, l = l1 ++ AKill :: l2 -> b_timer (fst (brun b hook s l1)) = false) ->
  binv_strict (fst (brun b hook s l)) (t ++ snd (brun b hook s l)).
Proof.
  induction l as [|a l IH]; intros s t HI HT; cbn.
  - rewrite app_nil_r. exact HI.
  - destruct (bstep b hook s a) as [s1 o1] eqn:E1.
    assert (Ha : a = AKill -> b_timer s = false).
    { intro; subst. exact (HT [] l eq_refl). }
    pose proof (binv_strict_step _ _ _ _ _ _ _ HI Ha E1) as HI1.
    specialize (IH s1 (t ++ o1) HI1).
    destruct (brun b hook s1 l) as [s2 o2] eqn:E2. cbn in *. rewrite app_assoc. apply IH.
    intros l1 l2 El. specialize (HT (a :: l1) l2). cbn in HT. rewrite E1 in HT.
    subst l. specialize (HT eq_refl). destruct (brun b hook s1 l1); exact HT.
Qed.

Lemma basic_one_terminal_partial b hook l :
  (forall l1 l2, l = l1 ++ AKill :: l2 -> b_timer (fst (brun b hook binit l1)) = false) ->
  status_ok (statuses (snd (brun b hook binit l))) = true.
Proof.
  intro HT.
  pose proof (basic_one_terminal_gen b hook l binit [] (ltac:(unfold binv_strict; cbn; auto)) HT) as HG.
  rewrite app_nil_l in HG. unfold binv_strict in HG.
  destruct (core3 (fst (brun b hook binit l))) as [[[] []] []];
    try contradiction;
    try (destruct HG as (_ & _ & HG));
    rewrite HG; reflexivity.
Qed.

(* ---------- crashes and blocked handlers (basic / hook) ---------- *)
(* with the nil test in ensureBasicTaskKilled, the only way to crash is a STOP handler that was
   blocked on the full pending channel and is let through after KILL dropped the command handle *)
Lemma stop_kill_part_cmd s i :
  b_cmd s = Some i ->
  has_crash (snd (stop_kill_part s)) = false /\ b_crashed (fst (stop_kill_part s)) = b_crashed s /\
  b_blocked (fst (stop_kill_part s)) = b_blocked s.
Proof.
  intro Hc. unfold stop_kill_part. rewrite Hc.
  destruct (nth_error (b_children s) i); [destruct (group_has_proc c)|]; cbn; auto.
Qed.

Lemma bstep_no_crash b hook s a s' o :
  b_crashed s = false -> b_blocked s = O -> bstep b hook s a = (s', o) ->
  has_crash o = false /\ b_crashed s' = false.
Proof.
  intros Hc Hb HS.
  destruct s as [la ac tm cmd ch pe bl cr]. cbn in Hc, Hb. subst cr bl.
  unfold bstep in HS; cbn in HS.
  destruct a; try (inv HS; split; reflexivity).
  - destruct la; inv HS; split; reflexivity.
  - destruct ac; inv HS; split; reflexivity.
  - unfold breq in HS; cbn in HS.
    destruct ac; cbn in HS; [|inv HS; split; reflexivity].
    destruct r; try (inv HS; split; reflexivity);
      try (destruct hook; inv HS; split; reflexivity).
    destruct hook; [inv HS; split; reflexivity|].
    unfold stop_basic in HS; cbn in HS. try rewrite stop_guards_nil in HS.
    destruct cmd as [i|]; [|inv HS; split; reflexivity].
    destruct (nth_error ch i) as [[st gc]|] eqn:En; [|inv HS; split; reflexivity].
    assert (HP : forall s0, b_cmd s0 = Some i -> b_crashed s0 = false ->
                 has_crash (snd (stop_push s0)) = false /\ b_crashed (fst (stop_push s0)) = false).
    { intros s0 H0 H1. unfold stop_push. destruct (b_pending s0) eqn:Ep.
      - cbn. split; [reflexivity|exact H1].
      - destruct (stop_kill_part_cmd (set_pending s0 (Some KILLED)) i H0) as (A & B & _).
        rewrite B. split; [exact A|exact H1]. }
    cbn in HS.
    destruct st as [|d|[c|]]; try (inv HS; split; reflexivity);
      match type of HS with stop_push ?x = _ =>
        destruct (HP x eq_refl eq_refl) as [A B]; rewrite HS in A, B; split; assumption end.
  - destruct tm; inv HS; split; reflexivity.
  - destruct (nth_error ch i) as [[[] gc]|]; inv HS; split; reflexivity.
  - unfold breap in HS; cbn in HS.
    destruct (nth_error ch i) as [[[|d|d] gc]|]; try (inv HS; split; reflexivity).
    cbn in HS. destruct pe; inv HS; split; reflexivity.
Qed.

Lemma basic_no_crash_gen b hook l : forall s,
  b_crashed s = false ->
  (forall l1 l2, l = l1 ++ l2 -> b_blocked (fst (brun b hook s l1)) = O) ->
  has_crash (snd (brun b hook s l)) = false /\ b_crashed (fst (brun b hook s l)) = false.
Proof.
  induction l as [|a l IH]; intros s Hc HB; cbn.
  - split; [reflexivity|exact Hc].
  - destruct (bstep b hook s a) as [s1 o1] eqn:E1.
    pose proof (HB [] (a :: l) eq_refl) as Hb0. cbn in Hb0.
    destruct (bstep_no_crash _ _ _ _ _ _ Hc Hb0 E1) as [Ho1 Hc1].
    specialize (IH s1 Hc1).
    destruct (brun b hook s1 l) as [s2 o2] eqn:E2. cbn in *.
    rewrite has_crash_app, Ho1. cbn. apply IH.
    intros l1 l2 El. specialize (HB (a :: l1) l2). cbn in HB. rewrite E1 in HB.
    subst l. specialize (HB eq_refl). destruct (brun b hook s1 l1); exact HB.
Qed.

(* as long as no STOP handler blocks on the pending channel the executor does not crash *)
Lemma basic_no_crash_partial b hook l :
  (forall l1 l2, l = l1 ++ l2 -> b_blocked (fst (brun b hook binit l1)) = O) ->
  has_crash (snd (brun b hook binit l)) = false /\ b_crashed (fst (brun b hook binit l)) = false.
Proof. apply basic_no_crash_gen. reflexivity. Qed.

(* hook tasks never block and never crash: STOP is a no-op for them *)
Lemma hook_step_safe b s a s' o :
  b_crashed s = false -> b_blocked s = O -> bstep b true s a = (s', o) -> b_blocked s' = O.
Proof.
  intros Hc Hb HS.
  destruct s as [la ac tm cmd ch pe bl cr]. cbn in Hc, Hb. subst cr bl.
  unfold bstep in HS; cbn in HS.
  destruct a; try (inv HS; reflexivity).
  - destruct la; inv HS; reflexivity.
  - destruct ac; inv HS; reflexivity.
  - unfold breq in HS; cbn in HS.
    destruct ac; cbn in HS; [|inv HS; reflexivity].
    destruct r; inv HS; reflexivity.
  - destruct tm; inv HS; reflexivity.
  - destruct (nth_error ch i) as [[[] gc]|]; inv HS; reflexivity.
  - unfold breap in HS; cbn in HS.
    destruct (nth_error ch i) as [[[|d|d] gc]|]; try (inv HS; reflexivity).
    cbn in HS. destruct pe; inv HS; reflexivity.
Qed.

Lemma hook_never_blocks b l : forall s,
  b_crashed s = false -> b_blocked s = O ->
  b_blocked (fst (brun b true s l)) = O /\ has_crash (snd (brun b true s l)) = false.
Proof.
  induction l as [|a l IH]; intros s Hc Hb; cbn; [auto|].
  destruct (bstep b true s a) as [s1 o1] eqn:E1.
  destruct (bstep_no_crash _ _ _ _ _ _ Hc Hb E1) as [Ho1 Hc1].
  pose proof (hook_step_safe _ _ _ _ _ Hc Hb E1) as Hb1.
  specialize (IH s1 Hc1 Hb1). destruct (brun b true s1 l) as [s2 o2]. cbn in *.
  rewrite has_crash_app, Ho1. exact IH.
Qed.

Lemma hook_no_crash b l :
  has_crash (snd (brun b true binit l)) = false.
Proof. apply (hook_never_blocks b l binit); reflexivity. Qed.

(* the witnesses: a child that died by a signal leaves a stale final state behind at the next
   STOP; the STOP of the next run then blocks for as long as that child lives (hang), and a KILL
   in between makes the released handler dereference the dropped command handle (crash) *)
Definition sbeh : beh := mkBeh DSig false false true None false.
Definition stuck_sched : list action :=
  [ALaunch; ATimer; AReq RStart; AExit 0; AReap 0; AReq RStop; AReq RStart; AReq RStop].

Lemma basic_stop_hangs :
  let '(s, t) := brun sbeh false binit stuck_sched in
  b_blocked s = 1%nat /\ b_crashed s = false /\
  nth_error (b_children s) 1 = Some (mkChild PRun false) /\
  late_resps t = [true; false; true].     (* START, STOP, START answered; the second STOP is not *)
Proof. vm_compute. repeat split; reflexivity. Qed.

Lemma basic_crash_after_blocked_stop :
  has_crash (snd (brun sbeh false binit (stuck_sched ++ [AKill; AExit 1; AReap 1]))) = true.
Proof. vm_compute. reflexivity. Qed.

(* ---------- STOP of a basic task kills the whole process group ---------- *)
Lemma nth_error_upd {A} (l : list A) i x y :
  nth_error l i = Some y -> nth_error (upd i x l) i = Some x.
Proof.
  revert i. induction l as [|z l IH]; intros [|i] H; cbn in *; try discriminate; auto.
Qed.

(* the repaired C17-a: the child is still running (or not yet reaped: ProcessState is nil) *)
Lemma basic_stop_kills_group b s i c s' o :
  b_crashed s = false -> b_active s = true -> b_pending s = None ->
  b_cmd s = Some i -> nth_error (b_children s) i = Some c ->
  (ch_st c = PRun \/ exists d, ch_st c = PZombie d) ->
  bstep b false s (AReq RStop) = (s', o) ->
  o = [OSig ToGroup KILL9; OResp RStop true] /\ b_crashed s' = false /\
  b_pending s' = Some KILLED /\ b_blocked s' = b_blocked s /\
  exists c', nth_error (b_children s') i = Some c' /\ child_live c' = false.
Proof.
  intros Hc Ha Hp Hcmd Hn Hst HS.
  destruct s as [la ac tm cmd ch pe bl cr]. cbn in Hc, Ha, Hp, Hcmd, Hn. subst cr ac pe cmd.
  destruct c as [st gc]. cbn in Hst.
  unfold bstep, breq, stop_basic, stop_push, stop_kill_part in HS; cbn in HS.
  rewrite Hn in HS. cbn in HS.
  destruct Hst as [->|[d ->]]; cbn in HS; rewrite ?Hn in HS; cbn in HS; inv HS; cbn;
    repeat split; eexists; (split; [eapply nth_error_upd; exact Hn | reflexivity]).
Qed.

(* ... and its reaper then reports the posted state: a single event, not voluntary, KILLED *)
Lemma basic_reap_after_stop s i d gc s' o :
  b_crashed s = false -> b_blocked s = O -> b_pending s = Some KILLED ->
  nth_error (b_children s) i = Some (mkChild (PZombie d) gc) ->
  breap s i = (s', o) ->
  o = [OEvent false (exit_code d) KILLED] /\ b_pending s' = None.
Proof.
  intros Hc Hb Hp Hn HS. unfold breap in HS. rewrite Hn in HS. cbn in HS.
  rewrite Hp, Hb in HS. inv HS. split; reflexivity.
Qed.

(* KILL of a basic or hook task never signals anything: the children are what they were *)
Lemma basic_kill_leaves_children b hook s s' o :
  bstep b hook s AKill = (s', o) -> b_children s' = b_children s /\ sigs o = [].
Proof.
  unfold bstep. destruct (b_crashed s); [intro H; inv H; auto|].
  destruct (b_active s); intro H; inv H; auto.
Qed.

Lemma basic_kill_leaves_child_running :
  let '(s, t) := brun nbeh false binit [ALaunch; ATimer; AReq RStart; AKill] in
  statuses t = [RUNNING; FINISHED] /\ existsb child_live (b_children s) = true.
Proof. vm_compute. split; reflexivity. Qed.

Lemma hook_kill_leaves_child_running :
  let '(s, t) := brun nbeh true binit [ALaunch; ATimer; AReq RTrigger; AKill] in
  statuses t = [RUNNING; FINISHED] /\ existsb child_live (b_children s) = true.
Proof. vm_compute. split; reflexivity. Qed.

(* STOP after the main process has left (and was reaped): "already exited", nothing is signalled,
   what the child had forked lives on *)
Definition fkbeh : beh := mkBeh (DExit 0) false true true None false.
Lemma basic_stop_leaves_forked_child :
  let '(s, t) := brun fkbeh false binit [ALaunch; ATimer; AReq RStart; AExit 0; AReap 0; AReq RStop] in
  sigs t = [] /\ late_resps t = [true; true] /\ existsb child_live (b_children s) = true.
Proof. vm_compute. repeat split; reflexivity. Qed.
