(* Proofs about the ExecTask model (property C17). *)
From Verif Require Import Common Gen_ExecTask ExecTask.
From Coq Require Import Lia.
Open Scope N_scope.

(* ---------- regenerated constants, as the model needs them ---------- *)
Lemma pending_cap_one : et_pending_cap = 1.
Proof. reflexivity. Qed.

Lemma stop_guards_nil : et_stop_guards_nil = true.
Proof. reflexivity. Qed.

(* ---------- generic ---------- *)
Ltac break_match :=
  match goal with
  | H : context [match ?x with _ => _ end] |- _ => destruct x eqn:?
  | H : context [if ?x then _ else _] |- _ => destruct x eqn:?
  end.

Ltac inv H := inversion H; subst; clear H.

Lemma statuses_app a b : statuses (a ++ b) = statuses a ++ statuses b.
Proof.
  induction a as [|x a IH]; cbn; [reflexivity|].
  destruct x; cbn; rewrite ?IH; reflexivity.
Qed.

Lemma sigs_app a b : sigs (a ++ b) = sigs a ++ sigs b.
Proof.
  induction a as [|x a IH]; cbn; [reflexivity|].
  destruct x; cbn; rewrite ?IH; reflexivity.
Qed.

Lemma waited_app a b : waited (a ++ b) = waited a + waited b.
Proof.
  induction a as [|x a IH]; cbn [app waited]; [reflexivity|].
  destruct x; rewrite ?IH; lia.
Qed.

Lemma has_crash_app a b : has_crash (a ++ b) = has_crash a || has_crash b.
Proof.
  induction a as [|x a IH]; cbn; [reflexivity|].
  destruct x; cbn; rewrite ?IH; reflexivity.
Qed.

(* ====================================================================================== *)
(* controllable tasks                                                                      *)
(* ====================================================================================== *)

(* an invariant relating state and trace so far is preserved along every schedule *)
Lemma crun_inv (P : cst -> list out -> Prop) b :
  (forall s t a s' o, P s t -> cstep b s a = (s', o) -> P s' (t ++ o)) ->
  forall l s t s' o, P s t -> crun b s l = (s', o) -> P s' (t ++ o).
Proof.
  intros HS l. induction l as [|a l IH]; intros s t s' o HP HR; cbn in HR.
  - inv HR. rewrite app_nil_r. exact HP.
  - destruct (cstep b s a) as [s1 o1] eqn:E1.
    destruct (crun b s1 l) as [s2 o2] eqn:E2. inv HR.
    rewrite app_assoc. eapply IH; [|exact E2]. eapply HS; eassumption.
Qed.

Lemma crun_app b l1 l2 s :
  crun b s (l1 ++ l2) =
  let '(s1, o1) := crun b s l1 in let '(s2, o2) := crun b s1 l2 in (s2, o1 ++ o2).
Proof.
  revert s. induction l1 as [|a l1 IH]; intro s; cbn.
  - destruct (crun b s l2). reflexivity.
  - destruct (cstep b s a) as [s1 o1]. rewrite IH.
    destruct (crun b s1 l1) as [s2 o2]. destruct (crun b s2 l2) as [s3 o3].
    rewrite app_assoc. reflexivity.
Qed.

(* unfolds one step completely: every branch the code can take becomes a goal *)
Ltac cstep_cases H :=
  unfold cstep, poll_guard, ckill, kill_step, send_sig, set_kpc, deliver, ccrash, pid_exists, is_run in H;
  cbn in H; repeat (break_match; cbn in H; try discriminate); inv H; cbn in *.

(* ---------- at most one terminal status and nothing after it ---------- *)
Definition cinv_status (s : cst) (t : list out) : Prop :=
  match c_phase s with
  | CNone | CDial | CPoll => statuses t = []
  | CWait => statuses t = [RUNNING]
  | CEnd => exists x, terminal x = true /\ (statuses t = [x] \/ statuses t = [RUNNING; x])
  end.

Lemma cinv_status_step b s t a s' o :
  cinv_status s t -> cstep b s a = (s', o) -> cinv_status s' (t ++ o).
Proof.
  intros HI HS. unfold cinv_status in *. rewrite statuses_app.
  destruct s as [ph rpc act pend kpc tg proc gc dn cr].
  cstep_cases HS; rewrite ?app_nil_r; try assumption;
    try (rewrite HI; cbn; try reflexivity);
    try (eexists; split; [|left; reflexivity]; reflexivity);
    try (eexists; split; [|right; reflexivity]; reflexivity).
  all: try (destruct HI as [x [Hx [E|E]]]; exists x; split; [exact Hx|];
            rewrite E; cbn; auto).
  all: try (destruct pend as [p|]; [destruct p|destruct d as [[|?]|]]; cbn;
            eexists; split; [|right; reflexivity]; reflexivity).
Qed.

Lemma status_ok_of_cinv s t : cinv_status s t -> status_ok (statuses t) = true.
Proof.
  unfold cinv_status. destruct (c_phase s); intro H; try (rewrite H; reflexivity).
  destruct H as [x [Hx [E|E]]]; rewrite E; cbn; rewrite Hx; reflexivity.
Qed.

Lemma ctl_one_terminal b l s t :
  crun b cinit l = (s, t) -> status_ok (statuses t) = true.
Proof.
  intro HR. apply (status_ok_of_cinv s).
  change t with ([] ++ t).
  eapply (crun_inv cinv_status b (cinv_status_step b)); [|exact HR]. reflexivity.
Qed.
