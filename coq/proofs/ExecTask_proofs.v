(* Proofs about the ExecTask model (property C17). *)
From Verif Require Import Common Gen_ExecTask ExecTask.
From Coq Require Import Lia.
Open Scope N_scope.

(* ---------- regenerated constants, as the model needs them ---------- *)
Lemma pending_cap_one : et_pending_cap = 1.
Proof. reflexivity. Qed.

Lemma stop_guards_nil : et_stop_guards_nil = true.
Proof. reflexivity. Qed.

(* ---------- generic ---------- *)
Ltac inv H := inversion H; subst; clear H.

Ltac destr_in H :=
  match type of H with
  | context [match ?x with _ => _ end] => destruct x eqn:?
  | context [if ?x then _ else _] => destruct x eqn:?
  end.

Lemma statuses_app a b : statuses (a ++ b) = statuses a ++ statuses b.
Proof.
  induction a as [|x a IH]; cbn; [reflexivity|].
  destruct x; cbn; rewrite ?IH; reflexivity.
Qed.

Lemma sigs_app a b : sigs (a ++ b) = sigs a ++ sigs b.
Proof.
  induction a as [|x a IH]; cbn; [reflexivity|].
  destruct x; cbn; rewrite ?IH; reflexivity.
Qed.

Lemma waited_app a b : waited (a ++ b) = waited a + waited b.
Proof.
  induction a as [|x a IH]; cbn [app waited]; [reflexivity|].
  destruct x; rewrite ?IH; lia.
Qed.

Lemma has_crash_app a b : has_crash (a ++ b) = has_crash a || has_crash b.
Proof.
  induction a as [|x a IH]; cbn; [reflexivity|].
  destruct x; cbn; rewrite ?IH; reflexivity.
Qed.

Lemma count_disc_app a b : count_disc (a ++ b) = count_disc a + count_disc b.
Proof.
  induction a as [|x a IH]; cbn [app count_disc]; [reflexivity|].
  destruct x; rewrite ?IH; lia.
Qed.

(* ====================================================================================== *)
(* controllable tasks                                                                      *)
(* ====================================================================================== *)

(* an invariant relating state and trace so far is preserved along every schedule *)
Lemma crun_inv (P : cst -> list out -> Prop) b :
  (forall s t a s' o, P s t -> cstep b s a = (s', o) -> P s' (t ++ o)) ->
  forall l s t s' o, P s t -> crun b s l = (s', o) -> P s' (t ++ o).
Proof.
  intros HS l. induction l as [|a l IH]; intros s t s' o HP HR; cbn in HR.
  - inv HR. rewrite app_nil_r. exact HP.
  - destruct (cstep b s a) as [s1 o1] eqn:E1.
    destruct (crun b s1 l) as [s2 o2] eqn:E2. inv HR.
    rewrite app_assoc. eapply IH; [|exact E2]. eapply HS; eassumption.
Qed.

Lemma crun_app b l1 l2 s :
  crun b s (l1 ++ l2) =
  let '(s1, o1) := crun b s l1 in let '(s2, o2) := crun b s1 l2 in (s2, o1 ++ o2).
Proof.
  revert s. induction l1 as [|a l1 IH]; intro s; cbn.
  - destruct (crun b s l2). reflexivity.
  - destruct (cstep b s a) as [s1 o1]. rewrite IH.
    destruct (crun b s1 l1) as [s2 o2]. destruct (crun b s2 l2) as [s3 o3].
    rewrite app_assoc. reflexivity.
Qed.

(* unfolds one step completely: every branch the code can take becomes a goal *)
Ltac cstep_cases H :=
  unfold cstep, poll_guard, ckill, kill_step, send_sig, set_kpc, deliver, ccrash, pid_exists, is_run in H;
  cbn in H; repeat (destr_in H; cbn in H; try discriminate H); inv H; cbn in *.

(* ---------- the main invariant ---------- *)
Definition pend_ok (p : option status) : Prop := p = None \/ p = Some FINISHED \/ p = Some KILLED.

(* what has been reported so far, per phase; a posted final state is FINISHED or KILLED and
   implies that Kill has closed the client *)
Definition cinv (s : cst) (t : list out) : Prop :=
  pend_ok (c_pending s) /\
  (c_pending s <> None -> c_rpc s = false) /\
  match c_phase s with
  | CNone => statuses t = [] /\ c_pending s = None /\ c_rpc s = false /\ c_active s = false
  | CDial => statuses t = [] /\ c_pending s = None /\ c_rpc s = false
  | CPoll => statuses t = []
  | CWait => statuses t = [RUNNING]
  | CEnd => exists x, terminal x = true /\ (statuses t = [x] \/ statuses t = [RUNNING; x])
  end.

Lemma cinv_init : cinv cinit [].
Proof. unfold cinv, pend_ok; cbn. intuition congruence. Qed.

Lemma cinv_step b s t a s' o :
  cinv s t -> cstep b s a = (s', o) -> cinv s' (t ++ o).
Proof.
  intros (HP & HR & HI0) HS. unfold cinv in *. rewrite statuses_app.
  destruct s as [ph rpc act pend kpc tg proc gc dn cr]. cbn in HP, HR, HI0.
  destruct a; try (destruct ph; cbn in HI0);
  cstep_cases HS; rewrite ?app_nil_r.
  all: repeat match goal with H : _ /\ _ |- _ => destruct H end; subst; try discriminate.
  all: (split; [unfold pend_ok in *; intuition congruence
              | split; [intro Hn; first [reflexivity | congruence | specialize (HR Hn); congruence] | ]]).
  all: try exact HI0.
  all: try (repeat split; first [assumption|reflexivity]).
  all: try (match goal with HI : statuses _ = _ |- _ => rewrite HI end; cbn; reflexivity).
  all: try (match goal with HI : statuses _ = _ |- _ => rewrite HI end; cbn; split; reflexivity).
  all: try (match goal with HI : statuses _ = _ |- _ => rewrite HI end; cbn; eexists; (split; [|left; reflexivity]); reflexivity).
  all: try (match goal with HI : statuses _ = _ |- _ => rewrite HI end; cbn; eexists; (split; [|right; reflexivity]); reflexivity).
  - (* reaper, a final state was posted *)
    rewrite HI0; cbn. exists s. split; [|right; reflexivity].
    destruct HP as [HP|[HP|HP]]; inv HP; reflexivity.
  - (* reaper, nothing posted *)
    rewrite HI0; cbn. exists (default_final d). split; [|right; reflexivity].
    destruct d as [[|p]|]; reflexivity.
Qed.

Lemma cinv_reach b l s t : crun b cinit l = (s, t) -> cinv s t.
Proof.
  intro HR. change t with ([] ++ t).
  eapply (crun_inv cinv b (cinv_step b)); [exact cinv_init|exact HR].
Qed.

(* ---------- at most one terminal status and nothing after it ---------- *)
Lemma status_ok_of_cinv s t : cinv s t -> status_ok (statuses t) = true.
Proof.
  intros (_ & _ & H). destruct (c_phase s).
  - destruct H as [H _]; rewrite H; reflexivity.
  - destruct H as [H _]; rewrite H; reflexivity.
  - rewrite H; reflexivity.
  - rewrite H; reflexivity.
  - destruct H as [x [Hx [E|E]]]; rewrite E; cbn; rewrite Hx; reflexivity.
Qed.

Lemma ctl_one_terminal b l s t :
  crun b cinit l = (s, t) -> status_ok (statuses t) = true.
Proof. intro HR. apply (status_ok_of_cinv s). eapply cinv_reach; exact HR. Qed.

Lemma status_ok_count l : status_ok l = true -> (count_terminal l <= 1)%nat.
Proof.
  unfold count_terminal. induction l as [|x l IH]; cbn; [lia|].
  destruct (terminal x) eqn:E; cbn.
  - destruct l; [cbn; lia|discriminate].
  - exact IH.
Qed.

(* ---------- a task killed on request reports FINISHED or KILLED ---------- *)
Definition is_fk (x : status) : bool := match x with FINISHED | KILLED => true | _ => false end.

(* "a Kill request has posted its final state (or the task is over)" *)
Definition cposted (s : cst) : Prop :=
  c_phase s = CEnd \/
  (c_pending s <> None /\ pend_ok (c_pending s) /\ c_rpc s = false /\
   c_phase s <> CNone /\ c_phase s <> CDial).

Lemma cposted_step b s a s' o :
  cposted s -> cstep b s a = (s', o) -> cposted s' /\ forallb is_fk (statuses o) = true.
Proof.
  intros HQ HS. unfold cposted, pend_ok in *.
  destruct s as [ph rpc act pend kpc tg proc gc dn cr]. cbn in HQ.
  destruct HQ as [HQ|(Hp & Hk & Hr & Hn1 & Hn2)]; subst.
  - cstep_cases HS; (split; [left; reflexivity|reflexivity]).
  - destruct pend as [p|]; [|congruence].
    assert (Hfk : is_fk p = true) by (destruct Hk as [Hk|[Hk|Hk]]; inv Hk; reflexivity).
    destruct ph; try congruence;
    cstep_cases HS;
    try (split; [left; reflexivity|]; cbn; rewrite ?Hfk; reflexivity);
    (split; [right; repeat split; try congruence; try assumption|reflexivity]).
Qed.

Lemma cposted_run b l s s' t :
  cposted s -> crun b s l = (s', t) -> forallb is_fk (statuses t) = true.
Proof.
  revert s s' t. induction l as [|a l IH]; intros s s' t HQ HR; cbn in HR.
  - inv HR. reflexivity.
  - destruct (cstep b s a) as [s1 o1] eqn:E1. destruct (crun b s1 l) as [s2 o2] eqn:E2. inv HR.
    destruct (cposted_step _ _ _ _ _ HQ E1) as [HQ1 H1].
    rewrite statuses_app, forallb_app, H1. cbn. eapply IH; eassumption.
Qed.

(* an accepted Kill (the task was active, the executor did not crash) posts a final state *)
Lemma ckill_posts b s t s' o :
  cinv s t -> c_crashed s = false ->
  cstep b s AKill = (s', o) -> has_crash o = false -> count_disc o = 0 ->
  cposted s' /\ statuses o = [].
Proof.
  intros (HP & HR & HI) Hcr HS HC HD. unfold cposted, pend_ok in *.
  destruct s as [ph rpc act pend kpc tg proc gc dn cr]. cbn in HP, HR, HI, Hcr. subst cr.
  destruct ph; cbn in HI;
  repeat match goal with H : _ /\ _ |- _ => destruct H end; subst;
  cstep_cases HS; try discriminate;
  try (exfalso; assert (true = false) by (apply HR; congruence); discriminate).
  all: try (split; [left; reflexivity|reflexivity]).
  all: split; [right; repeat split; try congruence; intuition congruence|reflexivity].
Qed.

Lemma ctl_killed_not_failed b l1 l2 s1 t1 s2 o s3 t3 :
  crun b cinit l1 = (s1, t1) -> c_crashed s1 = false ->
  cstep b s1 AKill = (s2, o) -> has_crash o = false -> count_disc o = 0 ->
  crun b s2 l2 = (s3, t3) ->
  forallb is_fk (statuses (o ++ t3)) = true.
Proof.
  intros H1 Hcr HK HC HD H2.
  destruct (ckill_posts b s1 t1 s2 o (cinv_reach _ _ _ _ H1) Hcr HK HC HD) as [HQ Ho].
  rewrite statuses_app, Ho. cbn. eapply cposted_run; eassumption.
Qed.

(* ---------- crashes ---------- *)
Definition ck_ok (s : cst) : Prop :=
  c_crashed s = false /\ (c_phase s = CPoll -> c_rpc s = true).
(* Kill arrives when the task is not (any more) active, or is up and has not been killed yet *)
Definition kill_safe (s : cst) : Prop :=
  c_active s = false \/ (c_rpc s = true /\ c_phase s = CWait).

Lemma ck_ok_step b s a s' o :
  ck_ok s -> (a = AKill -> kill_safe s) -> cstep b s a = (s', o) ->
  ck_ok s' /\ has_crash o = false.
Proof.
  intros [Hc Hp] Hk HS. unfold ck_ok, kill_safe in *.
  destruct s as [ph rpc act pend kpc tg proc gc dn cr]. cbn in Hc, Hp, Hk. subst cr.
  destruct a.
  2: { (* AKill *)
    destruct (Hk eq_refl) as [Ha|[Ha Hb]]; subst;
    cstep_cases HS; (split; [split; [reflexivity|intro; first [congruence|auto]]|reflexivity]). }
  all: destruct ph; try (rewrite (Hp eq_refl) in * );
    cstep_cases HS;
    (split; [split; [reflexivity|intro; first [congruence|reflexivity|auto]]|reflexivity]).
Qed.

Lemma ctl_no_crash_gen b l : forall s,
  ck_ok s ->
  (forall l1 l2, l = l1 ++ AKill :: l2 -> kill_safe (fst (crun b s l1))) ->
  has_crash (snd (crun b s l)) = false /\ c_crashed (fst (crun b s l)) = false.
Proof.
  induction l as [|a l IH]; intros s HK HS; cbn.
  - split; [reflexivity|exact (proj1 HK)].
  - destruct (cstep b s a) as [s1 o1] eqn:E1.
    assert (Ha : a = AKill -> kill_safe s).
    { intro; subst. exact (HS [] l eq_refl). }
    destruct (ck_ok_step _ _ _ _ _ HK Ha E1) as [HK1 Hc1].
    specialize (IH s1 HK1).
    destruct (crun b s1 l) as [s2 o2] eqn:E2. cbn in *.
    rewrite has_crash_app, Hc1. cbn. apply IH.
    intros l1 l2 El. specialize (HS (a :: l1) l2). cbn in HS. rewrite E1 in HS.
    subst l. specialize (HS eq_refl). destruct (crun b s1 l1); exact HS.
Qed.

Lemma ctl_no_crash_partial b l :
  (forall l1 l2, l = l1 ++ AKill :: l2 -> kill_safe (fst (crun b cinit l1))) ->
  has_crash (snd (crun b cinit l)) = false /\ c_crashed (fst (crun b cinit l)) = false.
Proof.
  apply ctl_no_crash_gen. split; [reflexivity|intro H; discriminate H].
Qed.

Definition nbeh : beh := mkBeh (DExit 0) false false true None false.

Lemma ctl_crash_kill_before_dial :
  has_crash (snd (crun nbeh cinit [ALaunch; AKill])) = true.
Proof. vm_compute. reflexivity. Qed.
Lemma ctl_crash_kill_during_poll :
  has_crash (snd (crun nbeh cinit [ALaunch; ADialOk; APollTick; AKill; APollTick])) = true.
Proof. vm_compute. reflexivity. Qed.
Lemma ctl_crash_second_kill :
  has_crash (snd (crun nbeh cinit [ALaunch; ADialOk; APollReady; AKill; AKill])) = true.
Proof. vm_compute. reflexivity. Qed.

(* ---------- the TERM / INT / KILL escalation is bounded ---------- *)
Definition rank (k : kpc) : nat :=
  match k with KDone => 3 | KInt => 2 | KKill => 1 | _ => 0 end.
Definition budget (k : kpc) : N :=
  match k with
  | KDone => et_done_ms + et_sigterm_ms + et_sigint_ms
  | KInt => et_sigterm_ms + et_sigint_ms
  | KKill => et_sigint_ms
  | _ => 0
  end.
Definition sigs_from (k : kpc) : list sig :=
  match k with KDone => [TERM; INT; KILL9] | KInt => [INT; KILL9] | KKill => [KILL9] | _ => [] end.

Fixpoint count_killsteps (l : list action) : nat :=
  match l with [] => O | AKillStep :: r => S (count_killsteps r) | _ :: r => count_killsteps r end.
Fixpoint no_kill (l : list action) : bool :=
  match l with [] => true | AKill :: _ => false | _ :: r => no_kill r end.

(* the escalation is under way (or over, with the device process dead) in a task that was up *)
Definition esc_ok (s : cst) : Prop :=
  c_crashed s = false /\ (c_phase s = CWait \/ c_phase s = CEnd) /\
  (rank (c_kpc s) <> O \/ (c_kpc s = KFin /\ is_run (c_proc s) = false)).

Lemma esc_step b s a s' o :
  esc_ok s -> a <> AKill -> cstep b s a = (s', o) ->
  esc_ok s' /\
  waited o + budget (c_kpc s') <= budget (c_kpc s) /\
  (rank (c_kpc s') <= rank (c_kpc s))%nat /\
  (a = AKillStep -> (rank (c_kpc s') <= pred (rank (c_kpc s)))%nat) /\
  (exists n, sigs o ++ firstn n (sigs_from (c_kpc s')) = firstn (length (sigs o) + n) (sigs_from (c_kpc s))) /\
  (length (sigs o) + length (sigs_from (c_kpc s')) <= length (sigs_from (c_kpc s)))%nat.
Proof.
  intros (Hc & Hp & Hk) Ha HS. unfold esc_ok in *.
  destruct s as [ph rpc act pend kpc tg proc gc dn cr]. cbn in Hc, Hp, Hk. subst cr.
  destruct a; try congruence;
  (destruct Hp; subst ph);
  (destruct kpc; cbn in Hk; try (exfalso; destruct Hk as [Hk|[Hk _]]; congruence));
  cstep_cases HS;
  try (destruct Hk as [Hk|[_ Hk]]; [congruence|]); try discriminate;
  (split; [split; [reflexivity|split; [auto|first [left; discriminate|right; split; reflexivity]]]|]);
  (split; [unfold et_done_ms, et_sigterm_ms, et_sigint_ms; lia|]);
  (split; [lia|]); (split; [intro; try discriminate; lia|]);
  (split; [|lia]);
  first [exists 0%nat; reflexivity | exists 1%nat; reflexivity | exists 2%nat; reflexivity | exists 3%nat; reflexivity ].
Qed.

Lemma esc_run b l : forall s s' t,
  esc_ok s -> no_kill l = true -> crun b s l = (s', t) ->
  esc_ok s' /\
  waited t + budget (c_kpc s') <= budget (c_kpc s) /\
  (rank (c_kpc s') <= rank (c_kpc s) - count_killsteps l)%nat /\
  (length (sigs t) + length (sigs_from (c_kpc s')) <= length (sigs_from (c_kpc s)))%nat /\
  exists n, sigs t ++ firstn n (sigs_from (c_kpc s')) = firstn (length (sigs t) + n) (sigs_from (c_kpc s)).
Proof.
  induction l as [|a l IH]; intros s s' t HE HN HR; cbn in HR.
  - inv HR. cbn. repeat split; try exact (proj1 HE); try apply HE; try lia.
    exists 0%nat. reflexivity.
  - destruct (cstep b s a) as [s1 o1] eqn:E1. destruct (crun b s1 l) as [s2 o2] eqn:E2. inv HR.
    assert (Ha : a <> AKill) by (intro; subst; discriminate).
    assert (HN' : no_kill l = true) by (destruct a; try exact HN; discriminate).
    destruct (esc_step _ _ _ _ _ HE Ha E1) as (HE1 & HW1 & HR1 & HS1 & [n1 Hn1] & HL1).
    destruct (IH _ _ _ HE1 HN' E2) as (HE2 & HW2 & HR2 & HL2 & [n2 Hn2]).
    split; [exact HE2|]. split; [rewrite waited_app; lia|].
    split.
    { destruct a; cbn [count_killsteps]; try lia. specialize (HS1 eq_refl). lia. }
    rewrite sigs_app, app_length. split; [lia|].
    exists n2. rewrite <- app_assoc, Hn2.
    (* sigs o1 ++ firstn k (sigs_from k1) is a prefix of sigs_from k0 for every k *)
    clear - Hn1 HL1 HL2.
    set (k := (length (sigs o2) + n2)%nat).
    destruct (Nat.le_gt_cases k n1) as [Hle|Hgt].
    + replace (firstn k (sigs_from (c_kpc s1))) with (firstn k (firstn n1 (sigs_from (c_kpc s1)))).
      2: { rewrite firstn_firstn. f_equal. lia. }
      assert (E : firstn (length (sigs o1) + k) (sigs o1 ++ firstn n1 (sigs_from (c_kpc s1))) =
                  sigs o1 ++ firstn k (firstn n1 (sigs_from (c_kpc s1)))).
      { rewrite firstn_app_2. reflexivity. }
      rewrite <- E, Hn1, firstn_firstn. f_equal. lia.
    + (* k beyond n1: n1 must already cover everything that is left *)
      assert (Hfull : forall m, (n1 <= m)%nat ->
                sigs o1 ++ firstn m (sigs_from (c_kpc s1)) = firstn (length (sigs o1) + m) (sigs_from (c_kpc s))).
      { intros m Hm.
        destruct (Nat.le_gt_cases (length (sigs_from (c_kpc s1))) n1) as [Hl|Hl].
        - rewrite (firstn_all2 (n:=m)) by lia. rewrite (firstn_all2 (n:=n1)) in Hn1 by lia.
          rewrite Hn1.
          assert (Hlen : length (sigs o1 ++ sigs_from (c_kpc s1)) =
                         length (firstn (length (sigs o1) + n1) (sigs_from (c_kpc s)))) by (rewrite Hn1; reflexivity).
          rewrite app_length, firstn_length in Hlen.
          rewrite !firstn_all2 by lia. reflexivity.
        - exfalso.
          assert (Hlen : length (sigs o1 ++ firstn n1 (sigs_from (c_kpc s1))) =
                         length (firstn (length (sigs o1) + n1) (sigs_from (c_kpc s)))) by (rewrite Hn1; reflexivity).
          rewrite app_length, !firstn_length in Hlen.
          (* both sides are cut at n1 resp. length+n1: fine, so look at the next element *)
          clear Hfull. revert Hn1 Hlen Hl. 
          destruct (c_kpc s), (c_kpc s1); cbn in *; intros; try lia;
            destruct (sigs o1) as [|x1 [|x2 [|x3 ?]]]; cbn in *; try lia;
            destruct n1 as [|[|[|?]]]; cbn in *; try lia; try discriminate. }
      rewrite Hfull by lia. f_equal. lia.
Qed.
