(* Proofs about the ExecTask model (property C17). *)
From Verif Require Import Common Gen_ExecTask ExecTask.
From Coq Require Import Lia.
Open Scope N_scope.

(* ---------- regenerated constants, as the model needs them ---------- *)
Lemma pending_cap_one : et_pending_cap = 1.
Proof. reflexivity. Qed.

Lemma stop_guards_nil : et_stop_guards_nil = true.
Proof. reflexivity. Qed.

(* ---------- generic ---------- *)
Ltac inv H := inversion H; subst; clear H.

Ltac destr_in H :=
  match type of H with
  | context [match ?x with _ => _ end] => destruct x eqn:?
  | context [if ?x then _ else _] => destruct x eqn:?
  end.

Lemma statuses_app a b : statuses (a ++ b) = statuses a ++ statuses b.
Proof.
  induction a as [|x a IH]; cbn; [reflexivity|].
  destruct x; cbn; rewrite ?IH; reflexivity.
Qed.

Lemma sigs_app a b : sigs (a ++ b) = sigs a ++ sigs b.
Proof.
  induction a as [|x a IH]; cbn; [reflexivity|].
  destruct x; cbn; rewrite ?IH; reflexivity.
Qed.

Lemma waited_app a b : waited (a ++ b) = waited a + waited b.
Proof.
  induction a as [|x a IH]; cbn [app waited]; [reflexivity|].
  destruct x; rewrite ?IH; lia.
Qed.

Lemma has_crash_app a b : has_crash (a ++ b) = has_crash a || has_crash b.
Proof.
  induction a as [|x a IH]; cbn; [reflexivity|].
  destruct x; cbn; rewrite ?IH; reflexivity.
Qed.

Lemma count_disc_app a b : count_disc (a ++ b) = count_disc a + count_disc b.
Proof.
  induction a as [|x a IH]; cbn [app count_disc]; [reflexivity|].
  destruct x; rewrite ?IH; lia.
Qed.

(* ====================================================================================== *)
(* controllable tasks                                                                      *)
(* ====================================================================================== *)

(* an invariant relating state and trace so far is preserved along every schedule *)
Lemma crun_inv (P : cst -> list out -> Prop) b :
  (forall s t a s' o, P s t -> cstep b s a = (s', o) -> P s' (t ++ o)) ->
  forall l s t s' o, P s t -> crun b s l = (s', o) -> P s' (t ++ o).
Proof.
  intros HS l. induction l as [|a l IH]; intros s t s' o HP HR; cbn in HR.
  - inv HR. rewrite app_nil_r. exact HP.
  - destruct (cstep b s a) as [s1 o1] eqn:E1.
    destruct (crun b s1 l) as [s2 o2] eqn:E2. inv HR.
    rewrite app_assoc. eapply IH; [|exact E2]. eapply HS; eassumption.
Qed.

Lemma crun_app b l1 l2 s :
  crun b s (l1 ++ l2) =
  let '(s1, o1) := crun b s l1 in let '(s2, o2) := crun b s1 l2 in (s2, o1 ++ o2).
Proof.
  revert s. induction l1 as [|a l1 IH]; intro s; cbn.
  - destruct (crun b s l2). reflexivity.
  - destruct (cstep b s a) as [s1 o1]. rewrite IH.
    destruct (crun b s1 l1) as [s2 o2]. destruct (crun b s2 l2) as [s3 o3].
    rewrite app_assoc. reflexivity.
Qed.

(* unfolds one step completely: every branch the code can take becomes a goal *)
Ltac cstep_cases H :=
  unfold cstep, poll_guard, ckill, kill_step, send_sig, set_kpc, deliver, ccrash, pid_exists, is_run in H;
  cbn in H; repeat (destr_in H; cbn in H; try discriminate H); inv H; cbn in *.

(* ---------- the main invariant ---------- *)
Definition pend_ok (p : option status) : Prop := p = None \/ p = Some FINISHED \/ p = Some KILLED.

(* what has been reported so far, per phase; a posted final state is FINISHED or KILLED and
   implies that Kill has closed the client *)
Definition cinv (s : cst) (t : list out) : Prop :=
  pend_ok (c_pending s) /\
  (c_pending s <> None -> c_rpc s = false) /\
  match c_phase s with
  | CNone => statuses t = [] /\ c_pending s = None /\ c_rpc s = false /\ c_active s = false
  | CDial => statuses t = [] /\ c_pending s = None /\ c_rpc s = false
  | CPoll => statuses t = []
  | CWait => statuses t = [RUNNING] \/ (statuses t = [] /\ c_rpc s = false)
  | CEnd => exists x, terminal x = true /\ (statuses t = [x] \/ statuses t = [RUNNING; x])
  end.

Lemma cinv_init : cinv cinit [].
Proof. unfold cinv, pend_ok; cbn. intuition congruence. Qed.

Lemma cinv_step b s t a s' o :
  cinv s t -> cstep b s a = (s', o) -> cinv s' (t ++ o).
Proof.
  intros (HP & HR & HI0) HS. unfold cinv in *. rewrite statuses_app.
  destruct s as [ph rpc act pend kpc tg proc gc dn cr]. cbn in HP, HR, HI0.
  destruct a; try (destruct ph; cbn in HI0);
  cstep_cases HS; rewrite ?app_nil_r.
  all: repeat match goal with H : _ /\ _ |- _ => destruct H end; subst; try discriminate.
  all: (split; [unfold pend_ok in *; intuition congruence
              | split; [intro Hn; first [reflexivity | congruence | specialize (HR Hn); congruence] | ]]).
  all: try exact HI0.
  all: try (repeat split; first [assumption|reflexivity]).
  all: try (right; split; [assumption|reflexivity]).
  all: try (destruct HI0 as [HI0|[HI0 HI1]]; [left; exact HI0|right; split; [exact HI0|first [reflexivity|exact HI1]]]).
  all: try (match goal with HI : statuses _ = _ |- _ => rewrite HI end; cbn; reflexivity).
  all: try (match goal with HI : statuses _ = _ |- _ => rewrite HI end; cbn; left; reflexivity).
  all: try (match goal with HI : statuses _ = _ |- _ => rewrite HI end; cbn; split; reflexivity).
  all: try (match goal with HI : statuses _ = _ |- _ => rewrite HI end; cbn; eexists; (split; [|left; reflexivity]); reflexivity).
  all: try (match goal with HI : statuses _ = _ |- _ => rewrite HI end; cbn; eexists; (split; [|right; reflexivity]); reflexivity).
  - (* reaper, a final state was posted *)
    exists s. split; [destruct HP as [HP|[HP|HP]]; inv HP; reflexivity|].
    destruct HI0 as [HI0|[HI0 _]]; rewrite HI0; cbn; auto.
  - (* reaper, nothing posted *)
    exists (default_final d). split; [destruct d as [[|p]|]; reflexivity|].
    destruct HI0 as [HI0|[HI0 _]]; rewrite HI0; cbn; auto.
Qed.

Lemma cinv_reach b l s t : crun b cinit l = (s, t) -> cinv s t.
Proof.
  intro HR. change t with ([] ++ t).
  eapply (crun_inv cinv b (cinv_step b)); [exact cinv_init|exact HR].
Qed.

(* ---------- at most one terminal status and nothing after it ---------- *)
Lemma status_ok_of_cinv s t : cinv s t -> status_ok (statuses t) = true.
Proof.
  intros (_ & _ & H). destruct (c_phase s).
  - destruct H as [H _]; rewrite H; reflexivity.
  - destruct H as [H _]; rewrite H; reflexivity.
  - rewrite H; reflexivity.
  - destruct H as [H|[H _]]; rewrite H; reflexivity.
  - destruct H as [x [Hx [E|E]]]; rewrite E; cbn; rewrite Hx; reflexivity.
Qed.

Lemma ctl_one_terminal b l s t :
  crun b cinit l = (s, t) -> status_ok (statuses t) = true.
Proof. intro HR. apply (status_ok_of_cinv s). eapply cinv_reach; exact HR. Qed.

Lemma status_ok_count l : status_ok l = true -> (count_terminal l <= 1)%nat.
Proof.
  unfold count_terminal. induction l as [|x l IH]; cbn; [lia|].
  destruct (terminal x) eqn:E; cbn.
  - destruct l; [cbn; lia|discriminate].
  - exact IH.
Qed.

(* ---------- a task killed on request reports FINISHED or KILLED ---------- *)
Definition is_fk (x : status) : bool := match x with FINISHED | KILLED => true | _ => false end.

(* "a Kill request has posted its final state (or the task is over)" *)
Definition cposted (s : cst) : Prop :=
  c_phase s = CEnd \/
  (c_pending s <> None /\ pend_ok (c_pending s) /\ c_rpc s = false /\
   c_phase s <> CNone /\ c_phase s <> CDial).

Lemma cposted_step b s a s' o :
  cposted s -> cstep b s a = (s', o) -> cposted s' /\ forallb is_fk (statuses o) = true.
Proof.
  intros HQ HS. unfold cposted, pend_ok in *.
  destruct s as [ph rpc act pend kpc tg proc gc dn cr]. cbn in HQ.
  destruct HQ as [HQ|(Hp & Hk & Hr & Hn1 & Hn2)]; subst.
  - cstep_cases HS; (split; [left; reflexivity|reflexivity]).
  - destruct pend as [p|]; [|congruence].
    assert (Hfk : is_fk p = true) by (destruct Hk as [Hk|[Hk|Hk]]; inv Hk; reflexivity).
    destruct ph; try congruence;
    cstep_cases HS;
    try (split; [left; reflexivity|]; cbn; rewrite ?Hfk; reflexivity);
    (split; [right; repeat split; try congruence; try assumption|reflexivity]).
Qed.

Lemma cposted_run b l s s' t :
  cposted s -> crun b s l = (s', t) -> forallb is_fk (statuses t) = true.
Proof.
  revert s s' t. induction l as [|a l IH]; intros s s' t HQ HR; cbn in HR.
  - inv HR. reflexivity.
  - destruct (cstep b s a) as [s1 o1] eqn:E1. destruct (crun b s1 l) as [s2 o2] eqn:E2. inv HR.
    destruct (cposted_step _ _ _ _ _ HQ E1) as [HQ1 H1].
    rewrite statuses_app, forallb_app, H1. cbn. eapply IH; eassumption.
Qed.

(* an accepted Kill (the task was active and has its client, the executor is alive) posts a final state *)
Lemma ckill_posts b s t s' o :
  cinv s t -> c_crashed s = false -> c_rpc s = true ->
  cstep b s AKill = (s', o) -> has_crash o = false -> count_disc o = 0 ->
  cposted s' /\ statuses o = [].
Proof.
  intros (HP & HR & HI) Hcr Hrpc HS HC HD. unfold cposted, pend_ok in *.
  destruct s as [ph rpc act pend kpc tg proc gc dn cr]. cbn in HP, HR, HI, Hcr, Hrpc. subst cr rpc.
  destruct ph; cbn in HI;
  repeat match goal with H : _ /\ _ |- _ => destruct H end; subst;
  cstep_cases HS; try discriminate;
  try (exfalso; assert (true = false) by (apply HR; congruence); discriminate).
  all: try (split; [left; reflexivity|reflexivity]).
  all: split; [right; repeat split; try congruence; intuition congruence|reflexivity].
Qed.

Lemma ctl_killed_not_failed b l1 l2 s1 t1 s2 o s3 t3 :
  crun b cinit l1 = (s1, t1) -> c_crashed s1 = false -> c_rpc s1 = true ->
  cstep b s1 AKill = (s2, o) -> has_crash o = false -> count_disc o = 0 ->
  crun b s2 l2 = (s3, t3) ->
  forallb is_fk (statuses (o ++ t3)) = true.
Proof.
  intros H1 Hcr Hrpc HK HC HD H2.
  destruct (ckill_posts b s1 t1 s2 o (cinv_reach _ _ _ _ H1) Hcr Hrpc HK HC HD) as [HQ Ho].
  rewrite statuses_app, Ho. cbn. eapply cposted_run; eassumption.
Qed.

(* ---------- crashes ---------- *)
(* no step of a controllable task's life crashes the executor (repairs of C17-e/f) *)
Lemma cstep_no_crash b s a s' o :
  c_crashed s = false -> cstep b s a = (s', o) -> has_crash o = false /\ c_crashed s' = false.
Proof.
  intros Hc HS. destruct s as [ph rpc act pend kpc tg proc gc dn cr]. cbn in Hc. subst cr.
  cstep_cases HS; split; reflexivity.
Qed.

Lemma ctl_no_crash b l : forall s,
  c_crashed s = false ->
  has_crash (snd (crun b s l)) = false /\ c_crashed (fst (crun b s l)) = false.
Proof.
  induction l as [|a l IH]; intros s Hc; cbn; [auto|].
  destruct (cstep b s a) as [s1 o1] eqn:E1.
  destruct (cstep_no_crash _ _ _ _ _ Hc E1) as [Ho1 Hc1].
  specialize (IH s1 Hc1). destruct (crun b s1 l) as [s2 o2]. cbn in *.
  rewrite has_crash_app, Ho1. exact IH.
Qed.

Definition nbeh : beh := mkBeh (DExit 0) false false true None false true.

(* the old witness of C17-e: KILL during the start-up poll; the poll loop notices, waits, reports *)
Lemma ctl_kill_during_poll :
  let '(s, t) := crun nbeh cinit [ALaunch; ADialOk; APollTick; AKill; APollTick; AReap 0; AKillStep] in
  has_crash t = false /\ statuses t = [KILLED] /\ sigs t = [TERM] /\
  c_kpc s = KFin /\ is_run (c_proc s) = false /\ c_gc s = false.
Proof. vm_compute. repeat split; reflexivity. Qed.

(* KILL before the dial returned: refused (no crash any more), the task goes on starting *)
Lemma ctl_kill_before_dial_refused :
  let '(s, t) := crun nbeh cinit [ALaunch; AKill] in
  t = [] /\ c_crashed s = false /\ c_active s = false /\ is_run (c_proc s) = true.
Proof. vm_compute. repeat split; reflexivity. Qed.
(* a KILL that finds no client (a Kill is under way): no crash, nothing sent, only the task dropped *)
Lemma ctl_second_kill_harmless b s s' o :
  c_crashed s = false -> c_rpc s = false -> cstep b s AKill = (s', o) ->
  has_crash o = false /\ sigs o = [] /\ statuses o = [] /\ c_crashed s' = false /\
  c_kpc s' = c_kpc s /\ c_pending s' = c_pending s /\ c_proc s' = c_proc s /\ c_gc s' = c_gc s /\
  c_phase s' = c_phase s /\ c_active s' = false.
Proof.
  intros Hc Hr HS. destruct s as [ph rpc act pend kpc tg proc gc dn cr]. cbn in Hc, Hr. subst cr rpc.
  cstep_cases HS; repeat split; try reflexivity; destruct act; (reflexivity || discriminate).
Qed.

(* ---------- the TERM / INT / KILL escalation is bounded ---------- *)
Definition rank (k : kpc) : nat :=
  match k with KDone => 3 | KInt => 2 | KKill => 1 | _ => 0 end.
Definition budget (k : kpc) : N :=
  match k with
  | KDone => et_done_ms + et_sigterm_ms + et_sigint_ms
  | KInt => et_sigterm_ms + et_sigint_ms
  | KKill => et_sigint_ms
  | _ => 0
  end.
Definition sigs_from (k : kpc) : list sig :=
  match k with KDone => [TERM; INT; KILL9] | KInt => [INT; KILL9] | KKill => [KILL9] | _ => [] end.

Fixpoint count_killsteps (l : list action) : nat :=
  match l with [] => O | AKillStep :: r => S (count_killsteps r) | _ :: r => count_killsteps r end.
Fixpoint no_kill (l : list action) : bool :=
  match l with [] => true | AKill :: _ => false | _ :: r => no_kill r end.

(* the escalation is under way (or over, with the device process dead) in a task that was up *)
Definition esc_ok (s : cst) : Prop :=
  c_crashed s = false /\ (c_phase s = CWait \/ c_phase s = CEnd) /\
  (rank (c_kpc s) <> O \/ (c_kpc s = KFin /\ is_run (c_proc s) = false)).

(* signals go out in the order TERM, INT, KILL, each at most once *)
Definition sig_pre (o : list out) (k k' : kpc) : Prop :=
  sigs o ++ sigs_from k' = sigs_from k \/
  (sigs_from k' = [] /\ exists n, sigs o = firstn n (sigs_from k)).

Lemma esc_step b s a s' o :
  esc_ok s -> a <> AKill -> cstep b s a = (s', o) ->
  esc_ok s' /\
  waited o + budget (c_kpc s') <= budget (c_kpc s) /\
  (rank (c_kpc s') <= rank (c_kpc s))%nat /\
  (a = AKillStep -> (rank (c_kpc s') <= pred (rank (c_kpc s)))%nat) /\
  sig_pre o (c_kpc s) (c_kpc s').
Proof.
  intros (Hc & Hp & Hk) Ha HS. unfold esc_ok, sig_pre in *.
  destruct s as [ph rpc act pend kpc tg proc gc dn cr]. cbn in Hc, Hp, Hk. subst cr.
  destruct a; try congruence;
  (destruct Hp; subst ph);
  (destruct kpc; cbn in Hk; try (exfalso; destruct Hk as [Hk|[Hk _]]; congruence));
  cstep_cases HS;
  try (destruct Hk as [Hk|[_ Hk]]; [congruence|]); try discriminate;
  try ((split; [split; [reflexivity|split; [auto|first [left; discriminate|right; split; [reflexivity|first [reflexivity|assumption|destruct proc; try discriminate; reflexivity]]]]]|]);
  (split; [unfold et_done_ms, et_sigterm_ms, et_sigint_ms; lia|]);
  (split; [lia|]); (split; [intro; try discriminate; lia|]);
  first [left; reflexivity | right; split; [reflexivity|exists 0%nat; reflexivity]]).
Qed.

Lemma sig_pre_trans o1 o2 k0 k1 k2 :
  sig_pre o1 k0 k1 -> sig_pre o2 k1 k2 -> sig_pre (o1 ++ o2) k0 k2.
Proof.
  unfold sig_pre. rewrite sigs_app.
  intros [A1|[B1 [n1 C1]]] [A2|[B2 [n2 C2]]].
  - left. rewrite <- app_assoc, A2. exact A1.
  - right. split; [exact B2|]. exists (length (sigs o1) + n2)%nat.
    rewrite <- A1, firstn_app_2, C2. reflexivity.
  - rewrite B1 in A2. apply app_eq_nil in A2. destruct A2 as [A2 A3].
    right. split; [exact A3|]. exists n1. rewrite A2, app_nil_r. exact C1.
  - right. split; [exact B2|]. exists n1. rewrite B1 in C2.
    rewrite firstn_nil in C2. rewrite C2, app_nil_r. exact C1.
Qed.

Lemma esc_run b l : forall s s' t,
  esc_ok s -> no_kill l = true -> crun b s l = (s', t) ->
  esc_ok s' /\
  waited t + budget (c_kpc s') <= budget (c_kpc s) /\
  (rank (c_kpc s') <= rank (c_kpc s) - count_killsteps l)%nat /\
  sig_pre t (c_kpc s) (c_kpc s').
Proof.
  induction l as [|a l IH]; intros s s' t HE HN HR; cbn in HR.
  - inv HR. cbn. repeat split; try exact (proj1 HE); try apply HE; try lia.
    left. reflexivity.
  - destruct (cstep b s a) as [s1 o1] eqn:E1. destruct (crun b s1 l) as [s2 o2] eqn:E2. inv HR.
    assert (Ha : a <> AKill) by (intro; subst; discriminate).
    assert (HN' : no_kill l = true) by (destruct a; try exact HN; discriminate).
    destruct (esc_step _ _ _ _ _ HE Ha E1) as (HE1 & HW1 & HR1 & HS1 & HP1).
    destruct (IH _ _ _ HE1 HN' E2) as (HE2 & HW2 & HR2 & HP2).
    split; [exact HE2|]. split; [rewrite waited_app; lia|].
    split.
    { destruct a; cbn [count_killsteps]; try lia. specialize (HS1 eq_refl). lia. }
    eapply sig_pre_trans; eassumption.
Qed.

(* While the escalation of a task that was up is under way, three wake-ups of the Kill goroutine
   (at most DONE_TIMEOUT + SIGTERM_TIMEOUT + SIGINT_TIMEOUT of sleeping) end it: the device process
   is dead (it left, or SIGKILL was sent); the signals sent are, in this order and at most once
   each, the ones still due (TERM, INT, KILL from the start). *)
Lemma ctl_escalation_bounded b l s s' t :
  esc_ok s -> no_kill l = true -> (3 <= count_killsteps l)%nat ->
  crun b s l = (s', t) ->
  c_crashed s' = false /\ c_kpc s' = KFin /\ is_run (c_proc s') = false /\
  waited t <= et_done_ms + et_sigterm_ms + et_sigint_ms /\
  exists n, sigs t = firstn n (sigs_from (c_kpc s)).
Proof.
  intros HE HN H3 HR.
  destruct (esc_run b l s s' t HE HN HR) as ((Hc & Hp & Hk) & HW & HRk & HP).
  assert (Hr3 : (rank (c_kpc s) <= 3)%nat) by (destruct (c_kpc s); cbn; lia).
  assert (Hr0 : rank (c_kpc s') = O) by lia.
  destruct Hk as [Hk|[Hk Hrun]]; [congruence|].
  split; [exact Hc|]. split; [exact Hk|]. split; [exact Hrun|].
  split.
  { assert (budget (c_kpc s) <= et_done_ms + et_sigterm_ms + et_sigint_ms)
      by (destruct (c_kpc s); cbn; unfold et_done_ms, et_sigterm_ms, et_sigint_ms; lia).
    lia. }
  destruct HP as [A|[_ B]]; [|exact B].
  rewrite Hk in A. cbn in A. rewrite app_nil_r in A. exists (length (sigs t)).
  rewrite <- A. symmetry. apply firstn_all.
Qed.

(* an accepted Kill of a task that is up starts the escalation (or finds the process gone) *)
Lemma ckill_starts_escalation b s t s' o :
  cinv s t -> c_crashed s = false -> c_phase s = CWait -> c_rpc s = true ->
  cstep b s AKill = (s', o) -> has_crash o = false -> count_disc o = 0 ->
  esc_ok s' /\ waited o = 0 /\
  (sigs o = [] /\ c_kpc s' = KDone \/ sigs o = [TERM] /\ c_kpc s' = KInt \/
   sigs o = [] /\ c_kpc s' = KFin).
Proof.
  intros (HP & HR & HI) Hcr Hph Hrpc HS HC HD. unfold esc_ok, pend_ok in *.
  destruct s as [ph rpc act pend kpc tg proc gc dn cr]. cbn in HP, HR, HI, Hcr, Hph, Hrpc. subst cr ph rpc.
  cstep_cases HS; try discriminate;
  try (exfalso; assert (true = false) by (apply HR; congruence); discriminate).
  all: try ((split; [split; [reflexivity|split; [left; reflexivity|first [left; discriminate|right; split; [reflexivity|destruct proc; try discriminate; reflexivity]]]]|]);
  (split; [reflexivity|]); auto).
Qed.

(* the forked child of the device: when Kill returns it has swept the process group (C17-g) *)
Definition not_reaped (p : pstate) : Prop := match p with PReaped _ => False | _ => True end.
Definition gc_inv (s : cst) : Prop :=
  (c_kpc s = KFin -> c_gc s = false) /\
  (c_tgt s = ToGroup -> c_phase s = CEnd /\ not_reaped (c_proc s)) /\
  match c_phase s with CWait | CEnd => True | _ => not_reaped (c_proc s) end.

Lemma gc_inv_step b s a s' o : gc_inv s -> cstep b s a = (s', o) -> gc_inv s'.
Proof.
  intros (H1 & H2 & H3) HS. unfold gc_inv, not_reaped in *.
  destruct s as [ph rpc act pend kpc tg proc gc dn cr]. cbn in H1, H2, H3.
  destruct tg.
  - cstep_cases HS; try contradiction;
    (split; [first [exact H1|reflexivity|discriminate|intro; discriminate|auto]
            |split; [first [exact H2|intro; discriminate|intro; split; [reflexivity|exact I]|auto]
                    |first [exact H3|exact I|auto]]]).
  - destruct (H2 eq_refl) as [Hp Hn]. subst ph.
    cstep_cases HS; try contradiction;
    try (exfalso; destruct proc; (discriminate || contradiction));
    (split; [first [exact H1|reflexivity|discriminate|intro; discriminate|auto]
            |split; [first [exact H2|intro; discriminate|intro; split; [reflexivity|exact I]|auto]
                    |first [exact H3|exact I|auto]]]).
Qed.

Lemma ctl_no_survivor b l : forall s,
  gc_inv s -> gc_inv (fst (crun b s l)).
Proof.
  induction l as [|a l IH]; intros s HG; cbn; [exact HG|].
  destruct (cstep b s a) as [s1 o1] eqn:E1.
  specialize (IH s1 (gc_inv_step _ _ _ _ _ HG E1)).
  destruct (crun b s1 l). exact IH.
Qed.

Lemma gc_inv_init : gc_inv cinit.
Proof. split; [|split]; [intro H; discriminate H|intro H; discriminate H|exact I]. Qed.

Definition fbeh : beh := mkBeh (DExit 0) true true true None false true.
Lemma ctl_kill_sweeps_forked_child :
  let '(s, t) := crun fbeh cinit [ALaunch; ADialOk; APollReady; AKill; AKillStep; AKillStep; AKillStep] in
  c_crashed s = false /\ c_kpc s = KFin /\ sigs t = [TERM; INT; KILL9] /\
  is_run (c_proc s) = false /\ c_gc s = false.
Proof. vm_compute. repeat split; reflexivity. Qed.

(* a device that shows ERROR / DONE during the start-up poll: TASK_FAILED, and neither the device
   nor anything it forked is left (repair C17-k) *)
Lemma ctl_wrong_start_leaves_nothing b s s' o :
  cstep b s APollBad = (s', o) -> statuses o = [FAILED] ->
  c_gc s' = false /\ is_run (c_proc s') = false /\ c_phase s' = CEnd /\ sigs o = [KILL9; KILL9].
Proof.
  intros HS HF. destruct s as [ph rpc act pend kpc tg proc gc dn cr].
  cstep_cases HS; try discriminate; repeat split; reflexivity.
Qed.

(* TASK_FAILED at start-up: after a wrong state or the start-up timeout nothing of the group is
   left at once (repairs C17-k, C17-m); after a failed dial the TERM/INT/KILL escalation to the
   group is under way (and ends as ctl_escalation_bounded / ctl_no_survivor say) *)
Lemma ctl_failed_startup_leaves_nothing b s a s' o :
  a = APollBad \/ a = APollTimeout ->
  cstep b s a = (s', o) -> statuses o = [FAILED] ->
  c_gc s' = false /\ is_run (c_proc s') = false /\ c_phase s' = CEnd /\ c_active s' = false.
Proof.
  intros Ha HS HF. destruct s as [ph rpc act pend kpc tg proc gc dn cr].
  destruct Ha; subst a; cstep_cases HS; try discriminate; repeat split; reflexivity.
Qed.

Lemma ctl_failed_dial_escalates b s s' o :
  cstep b s ADialTimeout = (s', o) -> statuses o = [FAILED] ->
  esc_ok s' /\ c_tgt s' = ToGroup /\ sigs o = [TERM] /\ c_active s' = false.
Proof.
  intros HS HF. destruct s as [ph rpc act pend kpc tg proc gc dn cr]. unfold esc_ok.
  cstep_cases HS; try discriminate;
    (split; [split; [reflexivity|split; [right; reflexivity|left; discriminate]]|repeat split; reflexivity]).
Qed.

(* ====================================================================================== *)
(* basic and hook tasks                                                                    *)
(* ====================================================================================== *)
Lemma brun_inv (P : bst -> list out -> Prop) b hook :
  (forall s t a s' o, P s t -> bstep b hook s a = (s', o) -> P s' (t ++ o)) ->
  forall l s t s' o, P s t -> brun b hook s l = (s', o) -> P s' (t ++ o).
Proof.
  intros HS l. induction l as [|a l IH]; intros s t s' o HP HR; cbn in HR.
  - inv HR. rewrite app_nil_r. exact HP.
  - destruct (bstep b hook s a) as [s1 o1] eqn:E1.
    destruct (brun b hook s1 l) as [s2 o2] eqn:E2. inv HR.
    rewrite app_assoc. eapply IH; [|exact E2]. eapply HS; eassumption.
Qed.

(* the part of the state the status updates depend on *)
Definition core3 (s : bst) : bool * bool * bool := (b_launched s, b_active s, b_timer s).

Ltac bfun_cases :=
  repeat match goal with
         | |- context [match ?x with _ => _ end] => destruct x eqn:?
         | |- context [if ?x then _ else _] => destruct x eqn:?
         end.

(* ensureBasicTaskKilled: never blocks, crashes only without the nil test, reports nothing *)
Lemma ensure_killed_facts s :
  let '(s1, o) := ensure_killed s in
  core3 s1 = core3 s /\ statuses o = [] /\ b_blocked s1 = b_blocked s /\ b_cmd s1 = b_cmd s /\
  (b_crashed s = false -> b_crashed s1 = false /\ has_crash o = false).
Proof.
  unfold ensure_killed. rewrite stop_guards_nil.
  destruct s as [la ac tm cmd ch pe bl cr]; cbn.
  destruct cmd as [i|]; [|auto 10].
  destruct (nth_error ch i) as [[st gc]|]; [|auto 10].
  destruct st, pe; cbn; auto 10.
Qed.

Lemma stop_basic_facts s :
  let '(s1, o) := stop_basic s in
  core3 s1 = core3 s /\ statuses o = [] /\ b_blocked s1 = b_blocked s /\
  (b_crashed s = false -> b_crashed s1 = false /\ has_crash o = false).
Proof.
  unfold stop_basic. pose proof (ensure_killed_facts s) as H.
  destruct (ensure_killed s) as [s1 o]. destruct H as (A & B & C & _ & D).
  destruct (b_crashed s1) eqn:E.
  - split; [exact A|]. split; [exact B|]. split; [exact C|]. intro Hc. destruct (D Hc); congruence.
  - split; [exact A|]. split; [rewrite statuses_app, B; reflexivity|]. split; [exact C|].
    intro Hc. destruct (D Hc) as [_ Hx]. split; [first [reflexivity|exact E]|]. rewrite has_crash_app, Hx. reflexivity.
Qed.

Lemma breq_facts b hook s r :
  let '(s1, o) := breq b hook s r in
  core3 s1 = core3 s /\ statuses o = [] /\ b_blocked s1 = b_blocked s /\
  (b_crashed s = false -> b_crashed s1 = false /\ has_crash o = false).
Proof.
  unfold breq. destruct (negb (b_active s)); [cbn; auto|].
  destruct r; try (destruct hook); try (destruct (cmd_unreaped s)); cbn; auto; apply stop_basic_facts.
Qed.

Lemma breap_facts s i :
  let '(s1, o) := breap s i in
  core3 s1 = core3 s /\ statuses o = [] /\ b_blocked s1 = b_blocked s /\
  (b_crashed s = false -> b_crashed s1 = false /\ has_crash o = false).
Proof.
  unfold breap. destruct (nth_error (b_children s) i) as [[[|d|d] gc]|]; cbn; auto.
  destruct (b_pending s); cbn; auto.
Qed.

(* what has been reported so far, as a function of (launched, active, timer armed):
   KILL stops the timer, so "killed with the timer armed" does not exist *)
Definition binv (s : bst) (t : list out) : Prop :=
  match core3 s with
  | (false, a, tm) => a = false /\ tm = false /\ statuses t = []
  | (true, true, true) => statuses t = []
  | (true, false, true) => False
  | (true, true, false) => statuses t = [RUNNING]
  | (true, false, false) => statuses t = [FINISHED] \/ statuses t = [RUNNING; FINISHED]
  end.

Lemma binv_step b hook s t a s' o :
  binv s t -> bstep b hook s a = (s', o) -> binv s' (t ++ o).
Proof.
  intros HI HS. unfold binv in *. rewrite statuses_app.
  destruct a;
  try (pose proof (breq_facts b hook s r) as HF);
  try (pose proof (breap_facts s i) as HF);
  try (pose proof (ensure_killed_facts s) as HF);
  unfold bstep in HS;
  (destruct (b_crashed s) eqn:Ecr; [inv HS; cbn; rewrite app_nil_r; exact HI|]);
  try (inv HS; cbn; rewrite app_nil_r; exact HI).
  - (* ALaunch *)
    unfold core3 in *. destruct (b_launched s) eqn:EL; inv HS; cbn; rewrite ?app_nil_r.
    + rewrite EL. exact HI.
    + destruct HI as (_ & _ & HI). exact HI.
  - (* AKill *)
    destruct (b_active s) eqn:EA; [|inv HS; cbn; rewrite app_nil_r; exact HI].
    assert (HX : exists s1 o1, (if hook then (s, []) else ensure_killed s) = (s1, o1) /\
                 core3 s1 = core3 s /\ statuses o1 = [] /\ b_crashed s1 = false).
    { destruct hook.
      - exists s, []. auto.
      - destruct (ensure_killed s) as [s1 o1]. exists s1, o1.
        destruct HF as (A & B & _ & _ & D). destruct (D eq_refl). auto. }
    destruct HX as (s1 & o1 & E & A & B & C). rewrite E, C in HS. inv HS.
    unfold core3 in *. inversion A as [[A1 A2 A3]]. cbn. rewrite statuses_app, B, A1. cbn.
    rewrite EA in HI. destruct (b_launched s); [|destruct HI; discriminate].
    destruct (b_timer s); rewrite HI; cbn; auto.
  - (* AReq *)
    rewrite HS in HF. destruct HF as (A & B & _). rewrite A, B, app_nil_r. exact HI.
  - (* ATimer *)
    unfold core3 in *. destruct (b_timer s) eqn:ET; inv HS; cbn; rewrite ?app_nil_r; [|rewrite ET; exact HI].
    destruct (b_launched s); [|destruct HI as (_ & HI & _); discriminate].
    destruct (b_active s); [|contradiction]. rewrite HI; reflexivity.
  - (* AExit *)
    destruct (nth_error (b_children s) i) as [[[] gc]|]; inv HS; cbn; rewrite app_nil_r; exact HI.
  - (* AReap *)
    rewrite HS in HF. destruct HF as (A & B & _). rewrite A, B, app_nil_r. exact HI.
Qed.

Lemma binv_reach b hook l s t : brun b hook binit l = (s, t) -> binv s t.
Proof.
  intro HR. change t with ([] ++ t).
  eapply (brun_inv binv b hook (binv_step b hook)); [|exact HR].
  unfold binv; cbn. auto.
Qed.

Definition is_rf (x : status) : bool := match x with RUNNING | FINISHED => true | _ => false end.

(* at most one terminal status and nothing after it, whatever the schedule; never FAILED *)
Lemma basic_one_terminal b hook l s t :
  brun b hook binit l = (s, t) ->
  status_ok (statuses t) = true /\ forallb is_rf (statuses t) = true.
Proof.
  intro HR. pose proof (binv_reach _ _ _ _ _ HR) as HI. unfold binv in HI.
  destruct (core3 s) as [[[] []] []]; try contradiction;
    repeat match goal with H : _ /\ _ |- _ => destruct H | H : _ \/ _ |- _ => destruct H end;
    match goal with H : statuses t = _ |- _ => rewrite H end; cbn; split; reflexivity.
Qed.

(* a terminal status is reported only in answer to KILL: the reaper of a basic or hook task
   sends the device event only *)
Fixpoint has_akill (l : list action) : bool :=
  match l with [] => false | AKill :: _ => true | _ :: r => has_akill r end.

Lemma bstep_status_only_kill b hook s a s' o :
  bstep b hook s a = (s', o) -> a <> AKill -> existsb terminal (statuses o) = false.
Proof.
  intros HS Ha. unfold bstep in HS. destruct (b_crashed s); [inv HS; reflexivity|].
  destruct a; try congruence; try (inv HS; reflexivity).
  - destruct (b_launched s); inv HS; reflexivity.
  - pose proof (breq_facts b hook s r) as HF. rewrite HS in HF. destruct HF as (_ & B & _).
    rewrite B. reflexivity.
  - destruct (b_timer s); inv HS; reflexivity.
  - destruct (nth_error (b_children s) i) as [[[] gc]|]; inv HS; reflexivity.
  - pose proof (breap_facts s i) as HF. rewrite HS in HF. destruct HF as (_ & B & _).
    rewrite B. reflexivity.
Qed.

Lemma basic_terminal_only_on_kill b hook l : forall s,
  has_akill l = false -> existsb terminal (statuses (snd (brun b hook s l))) = false.
Proof.
  induction l as [|a l IH]; intros s HK; cbn; [reflexivity|].
  destruct (bstep b hook s a) as [s1 o1] eqn:E1.
  assert (Ha : a <> AKill) by (intro; subst; discriminate).
  assert (HK' : has_akill l = false) by (destruct a; try exact HK; discriminate).
  specialize (IH s1 HK'). destruct (brun b hook s1 l) as [s2 o2]. cbn in *.
  rewrite statuses_app, existsb_app, IH, (bstep_status_only_kill _ _ _ _ _ _ E1 Ha). reflexivity.
Qed.

(* the old witness of "a status after the terminal one" (C17-c): KILL stops the timer *)
Lemma basic_kill_before_timer :
  statuses (snd (brun nbeh false binit [ALaunch; AKill; ATimer])) = [FINISHED].
Proof. vm_compute. reflexivity. Qed.

(* ---------- no crash, no blocked handler (basic / hook) ---------- *)
Lemma bstep_safe b hook s a s' o :
  b_crashed s = false -> b_blocked s = O -> bstep b hook s a = (s', o) ->
  has_crash o = false /\ b_crashed s' = false /\ b_blocked s' = O.
Proof.
  intros Hc Hb HS. unfold bstep in HS. rewrite Hc in HS.
  destruct a; try solve [inv HS; auto].
  - destruct (b_launched s); inv HS; auto.
  - destruct (b_active s); [|inv HS; auto].
    assert (HX : exists s1 o1, (if hook then (s, []) else ensure_killed s) = (s1, o1) /\
                 b_blocked s1 = O /\ b_crashed s1 = false /\ has_crash o1 = false).
    { destruct hook.
      - exists s, []. auto.
      - pose proof (ensure_killed_facts s) as HF. destruct (ensure_killed s) as [s1 o1]. exists s1, o1.
        destruct HF as (_ & _ & C & _ & D). destruct (D Hc). rewrite C. auto. }
    destruct HX as (s1 & o1 & E & A & B & C). rewrite E, B in HS. inv HS.
    rewrite has_crash_app, C. cbn. auto.
  - pose proof (breq_facts b hook s r) as HF. rewrite HS in HF.
    destruct HF as (_ & _ & C & D). destruct (D Hc). rewrite C. auto.
  - destruct (b_timer s); inv HS; auto.
  - destruct (nth_error (b_children s) i) as [[[] gc]|]; inv HS; auto.
  - pose proof (breap_facts s i) as HF. rewrite HS in HF.
    destruct HF as (_ & _ & C & D). destruct (D Hc). rewrite C. auto.
Qed.

Lemma basic_no_crash_no_hang b hook l : forall s,
  b_crashed s = false -> b_blocked s = O ->
  has_crash (snd (brun b hook s l)) = false /\ b_crashed (fst (brun b hook s l)) = false /\
  b_blocked (fst (brun b hook s l)) = O.
Proof.
  induction l as [|a l IH]; intros s Hc Hb; cbn; [auto|].
  destruct (bstep b hook s a) as [s1 o1] eqn:E1.
  destruct (bstep_safe _ _ _ _ _ _ Hc Hb E1) as (Ho1 & Hc1 & Hb1).
  specialize (IH s1 Hc1 Hb1). destruct (brun b hook s1 l) as [s2 o2]. cbn in *.
  rewrite has_crash_app, Ho1. exact IH.
Qed.

(* the old witnesses of the hang (C17-d) and of the crash after it (C17-i): a child that died by a
   signal, STOP, next run, STOP, KILL, the second child ends — every request is answered *)
Definition sbeh : beh := mkBeh DSig false false true None false true.
Definition stuck_sched : list action :=
  [ALaunch; ATimer; AReq RStart; AExit 0; AReap 0; AReq RStop; AReq RStart; AReq RStop].

Lemma basic_stop_after_signal_death :
  let '(s, t) := brun sbeh false binit (stuck_sched ++ [AKill; AExit 1; AReap 1]) in
  has_crash t = false /\ b_blocked s = O /\ b_pending s = None /\
  late_resps t = [true; true; true; true] /\ existsb child_live (b_children s) = false.
Proof. vm_compute. repeat split; reflexivity. Qed.

(* ---------- STOP / KILL of a basic task kill the whole process group ---------- *)
Lemma nth_error_upd {A} (l : list A) i x y :
  nth_error l i = Some y -> nth_error (upd i x l) i = Some x.
Proof.
  revert i. induction l as [|z l IH]; intros [|i] H; cbn in *; try discriminate; auto.
Qed.

Lemma child_live_kill_group c : child_live (kill_group c) = false.
Proof. destruct c as [[] gc]; reflexivity. Qed.

Lemma ensure_killed_kills s i c :
  b_crashed s = false -> b_cmd s = Some i -> nth_error (b_children s) i = Some c ->
  let '(s1, o) := ensure_killed s in
  o = [OSig ToGroup KILL9] /\ nth_error (b_children s1) i = Some (kill_group c) /\
  (b_pending s1 = b_pending s \/ (b_pending s = None /\ b_pending s1 = Some KILLED /\
                                  match ch_st c with PReaped _ => False | _ => True end)).
Proof.
  intros Hc Hcmd Hn. unfold ensure_killed. rewrite Hcmd, Hn, stop_guards_nil.
  pose proof (nth_error_upd (b_children s) i (kill_group c) c Hn) as HU.
  destruct s as [la ac tm cmd ch pe bl cr]; cbn in *.
  destruct (ch_st c), pe; cbn; auto 10.
Qed.

(* STOP: whatever the child's state (running, exited but not reaped, reaped after exit or after a
   signal), the group of the current command gets SIGKILL and the request is answered *)
Lemma basic_stop_kills_group b s i c s' o :
  b_crashed s = false -> b_active s = true ->
  b_cmd s = Some i -> nth_error (b_children s) i = Some c ->
  bstep b false s (AReq RStop) = (s', o) ->
  o = [OSig ToGroup KILL9; OResp RStop true] /\ b_crashed s' = false /\ b_blocked s' = b_blocked s /\
  exists c', nth_error (b_children s') i = Some c' /\ child_live c' = false.
Proof.
  intros Hc Ha Hcmd Hn HS.
  unfold bstep, breq, stop_basic in HS. rewrite Hc, Ha in HS. cbn in HS.
  pose proof (ensure_killed_kills s i c Hc Hcmd Hn) as HK.
  pose proof (ensure_killed_facts s) as HF.
  destruct (ensure_killed s) as [s1 o1]. destruct HK as (-> & HN & _).
  destruct HF as (_ & _ & C & _ & D). destruct (D Hc) as [D1 _]. rewrite D1 in HS. inv HS.
  repeat split; try assumption.
  exists (kill_group c). split; [exact HN|apply child_live_kill_group].
Qed.

(* KILL of a basic task: the same, then the handle is dropped and TASK_FINISHED reported *)
Lemma basic_kill_kills_group b s i c s' o :
  b_crashed s = false -> b_active s = true ->
  b_cmd s = Some i -> nth_error (b_children s) i = Some c ->
  bstep b false s AKill = (s', o) ->
  o = [OSig ToGroup KILL9; OStatus FINISHED] /\ b_crashed s' = false /\
  b_active s' = false /\ b_timer s' = false /\
  exists c', nth_error (b_children s') i = Some c' /\ child_live c' = false.
Proof.
  intros Hc Ha Hcmd Hn HS.
  unfold bstep in HS. rewrite Hc, Ha in HS.
  pose proof (ensure_killed_kills s i c Hc Hcmd Hn) as HK.
  pose proof (ensure_killed_facts s) as HF.
  destruct (ensure_killed s) as [s1 o1]. destruct HK as (-> & HN & _).
  destruct HF as (_ & _ & C & _ & D). destruct (D Hc) as [D1 _]. rewrite D1 in HS. inv HS.
  cbn. repeat split.
  exists (kill_group c). split; [exact HN|apply child_live_kill_group].
Qed.

(* ... and the reaper of the killed child reports the posted state: one event, not voluntary, KILLED *)
Lemma basic_reap_after_stop s i d gc s' o :
  b_pending s = Some KILLED ->
  nth_error (b_children s) i = Some (mkChild (PZombie d) gc) ->
  breap s i = (s', o) ->
  o = [OEvent false (exit_code d) KILLED] /\ b_pending s' = None.
Proof.
  intros Hp Hn HS. unfold breap in HS. rewrite Hn in HS. cbn in HS.
  rewrite Hp in HS. inv HS. split; reflexivity.
Qed.

(* KILL of a hook task still signals nothing (hooks may be triggered and run after KILL; they are
   bounded by their own timeout): the children are what they were *)
Lemma hook_kill_leaves_children b s s' o :
  bstep b true s AKill = (s', o) -> b_children s' = b_children s /\ sigs o = [].
Proof.
  unfold bstep. destruct (b_crashed s); [intro H; inv H; auto|].
  destruct (b_active s); intro H; inv H; auto.
Qed.

Lemma hook_kill_leaves_child_running :
  let '(s, t) := brun nbeh true binit [ALaunch; ATimer; AReq RTrigger; AKill] in
  statuses t = [RUNNING; FINISHED] /\ existsb child_live (b_children s) = true.
Proof. vm_compute. split; reflexivity. Qed.

(* the old witnesses of C17-b (basic) and C17-h: nothing survives *)
Definition fkbeh : beh := mkBeh (DExit 0) false true true None false true.
Lemma basic_kill_and_late_stop_leave_nothing :
  existsb child_live (b_children (fst (brun fkbeh false binit [ALaunch; ATimer; AReq RStart; AKill]))) = false /\
  existsb child_live (b_children (fst (brun fkbeh false binit
     [ALaunch; ATimer; AReq RStart; AExit 0; AReap 0; AReq RStop]))) = false.
Proof. vm_compute. split; reflexivity. Qed.

(* ---------- a basic task never has two commands at once (repair of C17-l) ---------- *)
Definition not_run (c : child) : bool := negb (is_run (ch_st c)).

(* every child but the last one has been waited for *)
Fixpoint abl (l : list child) : bool :=
  match l with
  | [] => true
  | x :: r => match r with [] => true | _ => reaped x && abl r end
  end.

Lemma reaped_not_run c : reaped c = true -> not_run c = true.
Proof. destruct c as [[] gc]; cbn; congruence. Qed.

Lemma length_upd {A} i (x : A) l : length (upd i x l) = length l.
Proof. revert i. induction l as [|y l IH]; intros [|i]; cbn; auto. Qed.

Lemma upd_nil_iff {A} i (x : A) l : upd i x l = [] <-> l = [].
Proof. destruct l, i; cbn; split; congruence. Qed.

Lemma abl_upd l : forall i x,
  abl l = true ->
  (forall y, nth_error l i = Some y -> reaped y = true -> reaped x = true) ->
  abl (upd i x l) = true.
Proof.
  induction l as [|y l IH]; intros i x HA HX; [destruct i; reflexivity|].
  destruct i as [|i]; cbn [upd].
  - cbn [abl] in *. destruct l; [reflexivity|].
    apply andb_true_iff in HA. destruct HA as [HA1 HA2].
    rewrite (HX y eq_refl HA1). exact HA2.
  - cbn [abl] in *. destruct l as [|z l]; [destruct i; reflexivity|].
    apply andb_true_iff in HA. destruct HA as [HA1 HA2].
    specialize (IH i x HA2 HX).
    destruct (upd i x (z :: l)) eqn:E.
    + apply upd_nil_iff in E. discriminate.
    + rewrite HA1. exact IH.
Qed.

Lemma forallb_upd {A} (f : A -> bool) l : forall i x,
  forallb f l = true -> f x = true -> forallb f (upd i x l) = true.
Proof.
  induction l as [|y l IH]; intros [|i] x HF HX; cbn in *; auto;
    apply andb_true_iff in HF; destruct HF as [H1 H2]; apply andb_true_iff; split; auto.
Qed.

Lemma abl_all l : forall c,
  abl l = true -> nth_error l (pred (length l)) = Some c -> reaped c = true ->
  forallb reaped l = true.
Proof.
  induction l as [|y l IH]; intros c HA HN HR; [reflexivity|].
  destruct l as [|z l].
  - cbn in HN. inversion HN; subst. cbn. rewrite HR. reflexivity.
  - cbn [abl] in HA. apply andb_true_iff in HA. destruct HA as [HA1 HA2].
    cbn [forallb]. rewrite HA1. cbn [andb]. apply (IH c HA2); [|exact HR]. exact HN.
Qed.

Lemma abl_cons y r : r <> [] -> abl (y :: r) = reaped y && abl r.
Proof. destruct r; [congruence|reflexivity]. Qed.

Lemma abl_app l x : forallb reaped l = true -> abl (l ++ [x]) = true.
Proof.
  induction l as [|y l IH]; intro HF; [reflexivity|].
  cbn in HF. apply andb_true_iff in HF. destruct HF as [H1 H2].
  cbn [app]. rewrite abl_cons by (destruct l; discriminate).
  rewrite H1, (IH H2). reflexivity.
Qed.

Lemma abl_last_upd l : forall i x,
  abl l = true -> i = pred (length l) -> l <> [] -> not_run x = true ->
  forallb not_run (upd i x l) = true.
Proof.
  induction l as [|y l IH]; intros i x HA Hi Hne HX; [congruence|].
  destruct l as [|z l].
  - cbn in Hi. subst i. cbn. rewrite HX. reflexivity.
  - cbn [abl] in HA. apply andb_true_iff in HA. destruct HA as [HA1 HA2].
    cbn [length pred] in Hi. subst i. cbn [upd forallb].
    rewrite (reaped_not_run _ HA1). cbn [andb].
    apply IH; try assumption; [reflexivity|discriminate].
Qed.

Lemma ensure_killed_shape s :
  let '(s1, o) := ensure_killed s in
  b_cmd s1 = b_cmd s /\ b_launched s1 = b_launched s /\ b_active s1 = b_active s /\
  ((b_cmd s = None /\ b_children s1 = b_children s) \/
   (exists i, b_cmd s = Some i /\ nth_error (b_children s) i = None /\ b_children s1 = b_children s) \/
   exists i c, b_cmd s = Some i /\ nth_error (b_children s) i = Some c /\
               b_children s1 = upd i (kill_group c) (b_children s)).
Proof.
  unfold ensure_killed. rewrite stop_guards_nil.
  destruct s as [la ac tm cmd ch pe bl cr]; cbn.
  destruct cmd as [i|]; [|auto 10].
  destruct (nth_error ch i) as [c|] eqn:En; [|repeat split; right; left; exists i; auto].
  destruct (ch_st c), pe; cbn; repeat split; right; right; exists i, c; auto.
Qed.

Lemma nth_error_last_some {A} (l : list A) : l <> [] -> exists c, nth_error l (pred (length l)) = Some c.
Proof.
  induction l as [|y l IH]; intro H; [congruence|].
  destruct l as [|z l]; [exists y; reflexivity|]. apply IH. discriminate.
Qed.

Lemma reaped_kill_group c : reaped c = true -> reaped (kill_group c) = true.
Proof. destruct c as [[] gc]; cbn; congruence. Qed.
Lemma not_run_kill_group c : not_run (kill_group c) = true.
Proof. destruct c as [[] gc]; reflexivity. Qed.

Definition binv2 (s : bst) : Prop :=
  abl (b_children s) = true /\
  (b_cmd s = None \/ (b_children s <> [] /\ b_cmd s = Some (pred (length (b_children s))))) /\
  (b_active s = true -> b_cmd s = None -> b_children s = []) /\
  (b_active s = false -> b_launched s = true -> forallb not_run (b_children s) = true) /\
  (b_launched s = false -> b_active s = false /\ b_children s = [] /\ b_cmd s = None).

(* what ensureBasicTaskKilled leaves behind, given the invariant *)
Lemma ensure_killed_inv s s1 o1 :
  binv2 s -> b_active s = true -> ensure_killed s = (s1, o1) ->
  abl (b_children s1) = true /\ forallb not_run (b_children s1) = true /\
  length (b_children s1) = length (b_children s) /\ b_cmd s1 = b_cmd s /\
  b_launched s1 = b_launched s /\ b_active s1 = b_active s.
Proof.
  intros (HA & HC & HE & HK & HL) EA E.
  pose proof (ensure_killed_shape s) as HF. rewrite E in HF.
  destruct HF as (F1 & F2 & F3 & F4).
  repeat split; try assumption.
  - destruct F4 as [[_ F]|[(i & _ & _ & F)|(i & c & Fc & Fn & F)]]; rewrite F; try exact HA.
    apply abl_upd; [exact HA|]. intros y Hy Hr. rewrite Fn in Hy. inv Hy. apply reaped_kill_group, Hr.
  - destruct F4 as [[Fc F]|[(i & Fc & Fn & F)|(i & c & Fc & Fn & F)]]; rewrite F.
    + rewrite (HE EA Fc). reflexivity.
    + exfalso. destruct HC as [HC|[Hne HC]]; [congruence|].
      rewrite HC in Fc. inv Fc. destruct (nth_error_last_some _ Hne) as [c Hc]. congruence.
    + destruct HC as [HC|[Hne HC]]; [congruence|]. rewrite HC in Fc. inv Fc.
      apply abl_last_upd; try assumption; [reflexivity|apply not_run_kill_group].
  - destruct F4 as [[_ F]|[(i & _ & _ & F)|(i & c & _ & _ & F)]]; rewrite F; try reflexivity. apply length_upd.
Qed.

Lemma length_nil_iff {A B} (l : list A) (l1 : list B) : length l1 = length l -> (l1 = [] <-> l = []).
Proof. destruct l, l1; cbn; intro H; split; intro; congruence. Qed.

Lemma binv2_same_shape s s1 :
  binv2 s -> abl (b_children s1) = true -> length (b_children s1) = length (b_children s) ->
  b_cmd s1 = b_cmd s -> b_launched s1 = b_launched s -> b_active s1 = b_active s ->
  (b_active s = false -> b_launched s = true -> forallb not_run (b_children s1) = true) ->
  binv2 s1.
Proof.
  intros (HA & HC & HE & HK & HL) N1 N3 N4 N5 N6 N2. unfold binv2. rewrite N4, N5, N6, N3.
  split; [exact N1|]. split.
  { destruct HC as [HC|[Hne HC]]; [left; exact HC|right; split; [|exact HC]].
    intro X. apply Hne. apply (length_nil_iff _ _ N3). exact X. }
  split.
  { intros Ea Hc. apply (length_nil_iff _ _ N3). apply HE; assumption. }
  split; [exact N2|].
  intro El. destruct (HL El) as (X1 & X2 & X3). repeat split; try assumption.
  apply (length_nil_iff _ _ N3). exact X2.
Qed.

Lemma binv2_step b s a s' o : binv2 s -> bstep b false s a = (s', o) -> binv2 s'.
Proof.
  intros HI HS. unfold bstep in HS.
  destruct (b_crashed s) eqn:Ecr; [inv HS; exact HI|].
  pose proof HI as (HA & HC & HE & HK & HL).
  assert (Hl : b_active s = true -> b_launched s = true).
  { intro EA. destruct (b_launched s) eqn:EL; [reflexivity|]. destruct (HL eq_refl) as [X _]. congruence. }
  destruct a; try (inv HS; exact HI).
  - (* ALaunch *)
    destruct (b_launched s) eqn:EL; inv HS; [exact HI|].
    destruct (HL eq_refl) as (Ha & Hc & Hm). unfold binv2; cbn. rewrite Hc.
    repeat split; auto; try discriminate.
  - (* AKill *)
    destruct (b_active s) eqn:EA; [|inv HS; exact HI].
    change (if false then (s, @nil out) else ensure_killed s) with (ensure_killed s) in HS.
    destruct (ensure_killed s) as [s1 o1] eqn:E.
    destruct (ensure_killed_inv s s1 o1 HI EA E) as (N1 & N2 & N3 & N4 & N5 & N6).
    destruct (b_crashed s1); [assert (s' = s1) by (inversion HS; reflexivity); subst s'; clear HS|inv HS].
    + apply (binv2_same_shape s s1 HI N1 N3 N4 N5 N6). intro X. congruence.
    + unfold binv2; cbn. rewrite N5, (Hl eq_refl).
      split; [exact N1|]. split; [left; reflexivity|]. split; [intro; discriminate|].
      split; [intros _ _; exact N2|]. intro; discriminate.
  - (* AReq *)
    unfold breq in HS. destruct (b_active s) eqn:EA; cbn in HS; [|inv HS; exact HI].
    destruct r; try (inv HS; exact HI).
    + (* START *)
      destruct (cmd_unreaped s) eqn:EU; inv HS; [exact HI|].
      unfold binv2, start_child; cbn. rewrite EA.
      assert (Hall : forallb reaped (b_children s) = true).
      { destruct HC as [HC|[Hne HC]].
        - rewrite (HE eq_refl HC). reflexivity.
        - destruct (nth_error_last_some _ Hne) as [c Hc].
          unfold cmd_unreaped in EU. rewrite HC, Hc in EU.
          apply (abl_all _ c HA Hc). destruct (reaped c); [reflexivity|discriminate]. }
      split; [apply abl_app, Hall|]. split.
      { right. split; [destruct (b_children s); discriminate|]. rewrite app_length. cbn. f_equal. lia. }
      split; [intros _ X; discriminate X|]. split; [intro X; discriminate X|].
      intro X. rewrite (Hl eq_refl) in X. discriminate X.
    + (* STOP *)
      unfold stop_basic in HS. destruct (ensure_killed s) as [s1 o1] eqn:E.
      destruct (ensure_killed_inv s s1 o1 HI EA E) as (N1 & N2 & N3 & N4 & N5 & N6).
      assert (s' = s1) by (destruct (b_crashed s1); inv HS; reflexivity). subst s'.
      apply (binv2_same_shape s s1 HI N1 N3 N4 N5 N6). intro X. congruence.
  - (* ATimer *)
    destruct (b_timer s); inv HS; exact HI.
  - (* AExit *)
    destruct (nth_error (b_children s) i) as [[st gc]|] eqn:En; [|inv HS; exact HI].
    destruct st; inv HS; try exact HI.
    apply (binv2_same_shape s); try assumption; try reflexivity; unfold set_children; cbn.
    + apply abl_upd; [exact HA|]. intros y Hy Hr. rewrite En in Hy. inv Hy. discriminate Hr.
    + apply length_upd.
    + intros Ea El. apply forallb_upd; [apply HK; assumption|reflexivity].
  - (* AReap *)
    unfold breap in HS.
    destruct (nth_error (b_children s) i) as [[st gc]|] eqn:En; [|inv HS; exact HI].
    destruct st; try (inv HS; exact HI).
    assert (HX : binv2 (set_children s (upd i (mkChild (PReaped d) gc) (b_children s)))).
    { apply (binv2_same_shape s); try assumption; try reflexivity; unfold set_children; cbn.
      + apply abl_upd; [exact HA|]. intros; reflexivity.
      + apply length_upd.
      + intros Ea El. apply forallb_upd; [apply HK; assumption|reflexivity]. }
    cbn in HS. destruct (b_pending s); inv HS; exact HX.
Qed.

Lemma binv2_init : binv2 binit.
Proof. unfold binv2; cbn. repeat split; auto; discriminate. Qed.

Lemma binv2_run b l : forall s, binv2 s -> binv2 (fst (brun b false s l)).
Proof.
  induction l as [|a l IH]; intros s HI; cbn; [exact HI|].
  destruct (bstep b false s a) as [s1 o1] eqn:E1.
  specialize (IH s1 (binv2_step _ _ _ _ _ HI E1)).
  destruct (brun b false s1 l). exact IH.
Qed.

(* whatever the history (repeated STARTs included): a basic task has at most one command that has
   not been waited for, and once the task has been killed none of its processes is running *)
Lemma basic_killed_leaves_nothing_running b l :
  let s := fst (brun b false binit l) in
  abl (b_children s) = true /\
  (b_launched s = true -> b_active s = false -> forallb not_run (b_children s) = true).
Proof.
  cbn. destruct (binv2_run b l binit binv2_init) as (HA & _ & _ & HK & _).
  split; [exact HA|]. intros; apply HK; assumption.
Qed.

(* START while the previous command has not been waited for: refused, nothing started *)
Lemma basic_start_refused b s s' o :
  b_crashed s = false -> b_active s = true -> cmd_unreaped s = true ->
  bstep b false s (AReq RStart) = (s', o) -> s' = s /\ o = [OResp RStart false].
Proof.
  intros Hc Ha Hu HS. unfold bstep, breq in HS. rewrite Hc, Ha, Hu in HS. cbn in HS. inv HS. auto.
Qed.

(* ---------- the soft-teardown loop of ControllableTask.Kill ends, whatever the device answers ---------- *)
Lemma transition_checks_dst : et_transition_checks_dst = true.
Proof. reflexivity. Qed.

Definition drank (s : dstate) : nat :=
  match s with DRunning => 3 | DConfigured => 2 | DDone => 0 | _ => 1 end.

Lemma teardown_walk_fin fuel : forall st replies k,
  (drank st <= fuel)%nat -> snd (teardown_walk fuel st replies k) = true.
Proof.
  induction fuel as [|f IH]; intros st replies k Hr.
  - destruct st; cbn in Hr; try lia. reflexivity.
  - destruct st; cbn [teardown_walk next_dst]; try reflexivity;
      unfold accept_reply; rewrite transition_checks_dst;
      destruct (replies k) as [[[] st']|]; try reflexivity;
      destruct st'; cbn [dstate_eqb]; try reflexivity;
      apply IH; cbn in *; lia.
Qed.

(* an accepted step is a step towards DONE: the state the loop goes on with is the destination *)
Lemma accept_reply_dst dst r st' : accept_reply dst r = Some st' -> st' = dst.
Proof.
  unfold accept_reply. rewrite transition_checks_dst.
  destruct r as [[[] st]|]; try discriminate.
  destruct st, dst; cbn; intro H; inv H; reflexivity.
Qed.
