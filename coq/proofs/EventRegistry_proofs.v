(* Proofs about the EventRegistry model (property C19, the per-topic writer registry). *)
From Verif Require Import Common Gen_EventRegistry EventRegistry.
From Coq Require Import Lia.
Open Scope N_scope.

(* the lock discipline read from core/the/eventwriter.go on this run *)
Lemma reg_sync_true : reg_sync = true.
Proof. reflexivity. Qed.
Lemma reg_clear_all_true : reg_clear_all = true.
Proof. reflexivity. Qed.

Lemma upd_same f g v : upd f g v g = v.
Proof. unfold upd. rewrite Nat.eqb_refl. reflexivity. Qed.
Lemma upd_other f g v x : x <> g -> upd f g v x = f x.
Proof. unfold upd. intro H. destruct (Nat.eqb_spec x g); congruence. Qed.

Lemma assocN_some t (l : list (N * N)) w : assocN t l = Some w -> In (t, w) l.
Proof.
  induction l as [|[k v] l IH]; cbn; [discriminate|].
  destruct (N.eqb_spec t k) as [->|Hne]; [intros [= ->]; auto|auto].
Qed.
Lemma assocN_none t (l : list (N * N)) : assocN t l = None -> ~ In t (map fst l).
Proof.
  induction l as [|[k v] l IH]; cbn; [tauto|].
  destruct (N.eqb_spec t k) as [->|Hne]; [discriminate|].
  intros H [E|E]; [congruence|exact (IH H E)].
Qed.
Lemma in_fst t (w : N) (l : list (N * N)) : In (t, w) l -> In t (map fst l).
Proof. intro H. apply (in_map fst) in H. exact H. Qed.

Lemma fun_of_nodup (l : list (N * N)) t w1 w2 :
  NoDup (map fst l) -> In (t, w1) l -> In (t, w2) l -> w1 = w2.
Proof.
  induction l as [|[k v] l IH]; cbn; [tauto|].
  intros ND [E1|E1] [E2|E2].
  - congruence.
  - inversion E1; subst. inversion ND; subst. exfalso. apply H1. eapply in_fst; eauto.
  - inversion E2; subst. inversion ND; subst. exfalso. apply H1. eapply in_fst; eauto.
  - inversion ND; subst. auto.
Qed.

Definition other (t : N) (e : N * N) : bool := negb (fst e =? t).
Lemma in_filter_other t t' w l : In (t', w) (filter (other t) l) <-> In (t', w) l /\ t' <> t.
Proof.
  rewrite filter_In. unfold other. cbn. destruct (N.eqb_spec t' t); cbn; intuition congruence.
Qed.
Lemma nodup_store t w l : NoDup (map fst l) -> NoDup (map fst ((t, w) :: filter (other t) l)).
Proof.
  intro ND. cbn. constructor.
  - intro H. apply in_map_iff in H. destruct H as ([k v] & E & H). cbn in E. subst k.
    apply in_filter_other in H. tauto.
  - induction l as [|[k v] l IH]; cbn; [constructor|].
    inversion ND; subst. unfold other at 1. cbn. destruct (N.eqb_spec k t); cbn; [auto|].
    constructor; [|auto]. intro H. apply H1. apply in_map_iff in H.
    destruct H as ([k' v'] & E & H). cbn in E. subst k'. apply in_filter_other in H.
    eapply in_fst. exact (proj1 H).
Qed.

Record RInv (ops : nat -> rop) (s : rst) : Prop := mkRInv {
  ri_lock1 : forall g, holds (r_pc s g) = true -> r_lock s = Some g;
  ri_lock2 : forall g, r_lock s = Some g -> holds (r_pc s g) = true;
  ri_live : forall t w, In (t, w) (r_created s) -> In w (r_closed s) \/ In (t, w) (r_reg s);
  ri_fun : NoDup (map fst (r_reg s));
  ri_regc : forall t w, In (t, w) (r_reg s) -> In (t, w) (r_created s) /\ ~ In w (r_closed s);
  ri_ids : forall t w, In (t, w) (r_created s) -> w < r_next s;
  ri_clid : forall w, In w (r_closed s) -> w < r_next s;
  ri_create : forall g t, ops g = RGet t -> r_pc s g = RCreate -> ~ In t (map fst (r_reg s));
  ri_have : forall g t w, ops g = RGet t -> r_pc s g = RHave w -> In (t, w) (r_reg s);
  ri_done : forall g t w, ops g = RGet t -> r_pc s g = RDone (Some w) -> In (t, w) (r_created s);
  ri_clr : forall g, ops g = RClear -> r_pc s g = RCleared -> r_reg s = []
}.

Lemma rinv_init ops : RInv ops rinit.
Proof.
  constructor; cbn; try discriminate; try tauto; try constructor; intros; discriminate.
Qed.

Ltac gcase g0 g :=
  destruct (Nat.eq_dec g0 g) as [->|?Hne];
  [rewrite ?upd_same in *|rewrite ?(upd_other _ _ _ _ Hne) in *].

(* a step that only moves goroutine g to p', keeping its hold on the lock as it was *)
Lemma rinv_pc_only ops reg nx lk cr cl pc g p' :
  RInv ops (mkR reg nx lk cr cl pc) ->
  holds p' = holds (pc g) ->
  (forall t, ops g = RGet t -> p' = RCreate -> ~ In t (map fst reg)) ->
  (forall t w, ops g = RGet t -> p' = RHave w -> In (t, w) reg) ->
  (forall t w, ops g = RGet t -> p' = RDone (Some w) -> In (t, w) cr) ->
  (ops g = RClear -> p' = RCleared -> reg = []) ->
  RInv ops (mkR reg nx lk cr cl (upd pc g p')).
Proof.
  intros [L1 L2 Lv Fn Rc Id Ci Cr Hv Dn Cl] Hh A B C D. cbn in *.
  constructor; cbn; try assumption.
  - intros g0 H. gcase g0 g; [apply L1; congruence|apply L1, H].
  - intros g0 H. gcase g0 g; [rewrite Hh; apply L2, H|apply L2, H].
  - intros g0 t Ho H. gcase g0 g; [eauto|eapply Cr; eauto].
  - intros g0 t w Ho H. gcase g0 g; [eauto|eapply Hv; eauto].
  - intros g0 t w Ho H. gcase g0 g; [eauto|eapply Dn; eauto].
  - intros g0 Ho H. gcase g0 g; [eauto|eapply Cl; eauto].
Qed.

Lemma rstep_inv ops g s : RInv ops s -> RInv ops (rstep ops g s).
Proof.
  intros I. destruct s as [reg nx lk cr cl pc]. unfold rstep.
  pose proof I as [L1 L2 Lv Fn Rc Id Ci Cr Hv Dn Cl]. cbn in L1, L2, Lv, Fn, Rc, Id, Ci, Cr, Hv, Dn, Cl.
  assert (Excl : forall g0, holds (pc g) = true -> holds (pc g0) = true -> g0 = g).
  { intros g0 H1 H2. pose proof (L1 _ H1). pose proof (L1 _ H2). congruence. }
  unfold lock_free. cbn [r_lock].
  destruct (ops g) as [t|] eqn:Eo; destruct (pc g) eqn:Ep; try exact I.
  - (* Get, RStart *)
    destruct er_fast_lookup.
    + destruct lk; [exact I|]. destruct (assocN t reg) as [w|] eqn:Ea.
      * apply rinv_pc_only; auto; rewrite ?Ep; try reflexivity; try discriminate.
        intros t0 w0 E [= <-]. assert (t0 = t) by congruence. subst t0.
        exact (proj1 (Rc _ _ (assocN_some _ _ _ Ea))).
      * apply rinv_pc_only; auto; rewrite ?Ep; try reflexivity; discriminate.
    + apply rinv_pc_only; auto; rewrite ?Ep; try reflexivity; discriminate.
  - (* Get, RWantLock *)
    destruct lk as [h|]; [exact I|].
    constructor; cbn; try assumption.
    + intros g0 H. gcase g0 g; [reflexivity|]. specialize (L1 _ H). discriminate.
    + intros g0 [= <-]. rewrite upd_same. reflexivity.
    + intros g0 t0 Ho H. gcase g0 g; [discriminate|eapply Cr; eauto].
    + intros g0 t0 w Ho H. gcase g0 g; [discriminate|eapply Hv; eauto].
    + intros g0 t0 w Ho H. gcase g0 g; [discriminate|eapply Dn; eauto].
    + intros g0 Ho H. gcase g0 g; [discriminate|eapply Cl; eauto].
  - (* Get, RLocked *)
    rewrite reg_sync_true. destruct (assocN t reg) as [w|] eqn:Ea.
    + apply rinv_pc_only; auto; rewrite ?Ep; try reflexivity; try discriminate.
      intros t0 w0 E [= <-]. assert (t0 = t) by congruence. subst t0. apply assocN_some, Ea.
    + apply rinv_pc_only; auto; rewrite ?Ep; try reflexivity; try discriminate.
      intros t0 E _. assert (t0 = t) by congruence. subst t0. apply assocN_none, Ea.
  - (* Get, RCreate *)
    assert (Hg : holds (pc g) = true) by (rewrite Ep; reflexivity).
    assert (Hfresh : ~ In t (map fst reg)) by (eapply Cr; eauto).
    fold (other t).
    constructor; cbn.
    + intros g0 H. gcase g0 g; [apply L1, Hg|apply L1, H].
    + intros g0 H. gcase g0 g; [reflexivity|apply L2, H].
    + intros t0 w0 [E|E].
      * inversion E; subst. right. left. reflexivity.
      * destruct (Lv _ _ E) as [C|R]; [left; exact C|]. right. right.
        apply in_filter_other. split; [exact R|]. intros ->. apply Hfresh. eapply in_fst, R.
    + exact (nodup_store t nx reg Fn).
    + intros t0 w0 [E|E].
      * inversion E; subst. split; [left; reflexivity|]. intro C. specialize (Ci _ C). lia.
      * apply in_filter_other in E. destruct E as [E _]. destruct (Rc _ _ E) as [A B].
        split; [right; exact A|exact B].
    + intros t0 w0 [E|E]; [inversion E; subst; lia|]. specialize (Id _ _ E). lia.
    + intros w0 C. specialize (Ci _ C). lia.
    + intros g0 t0 Ho H. gcase g0 g; [discriminate|].
      exfalso. apply Hne. apply Excl; [reflexivity|rewrite H; reflexivity].
    + intros g0 t0 w0 Ho H. gcase g0 g.
      * injection H as <-. assert (t0 = t) by congruence. subst t0. left. reflexivity.
      * exfalso. apply Hne. apply Excl; [reflexivity|rewrite H; reflexivity].
    + intros g0 t0 w0 Ho H. gcase g0 g; [discriminate|]. right. eapply Dn; eauto.
    + intros g0 Ho H. gcase g0 g; [discriminate|].
      exfalso. apply Hne. apply Excl; [reflexivity|rewrite H; reflexivity].
  - (* Get, RHave: unlock and return *)
    assert (Hg : holds (pc g) = true) by (rewrite Ep; reflexivity).
    constructor; cbn; try assumption.
    + intros g0 H. gcase g0 g; [discriminate|]. exfalso. apply Hne. apply Excl; [reflexivity|assumption].
    + intros g0 H. discriminate.
    + intros g0 t0 Ho H. gcase g0 g; [discriminate|eapply Cr; eauto].
    + intros g0 t0 w0 Ho H. gcase g0 g; [discriminate|eapply Hv; eauto].
    + intros g0 t0 w0 Ho H. gcase g0 g; [|eapply Dn; eauto].
      injection H as <-. assert (t0 = t) by congruence. subst t0.
      exact (proj1 (Rc _ _ (Hv _ _ _ Eo Ep))).
    + intros g0 Ho H. gcase g0 g; [discriminate|eapply Cl; eauto].
  - (* Clear, RStart *)
    apply rinv_pc_only; auto; rewrite ?Ep; try reflexivity; try discriminate.
  - (* Clear, RWantLock *)
    destruct lk as [h|]; [exact I|].
    constructor; cbn; try assumption.
    + intros g0 H. gcase g0 g; [reflexivity|]. specialize (L1 _ H). discriminate.
    + intros g0 [= <-]. rewrite upd_same. reflexivity.
    + intros g0 t0 Ho H. gcase g0 g; [discriminate|eapply Cr; eauto].
    + intros g0 t0 w Ho H. gcase g0 g; [discriminate|eapply Hv; eauto].
    + intros g0 t0 w Ho H. gcase g0 g; [discriminate|eapply Dn; eauto].
    + intros g0 Ho H. gcase g0 g; [discriminate|eapply Cl; eauto].
  - (* Clear, RLocked: close every registered writer, empty the map *)
    assert (Hg : holds (pc g) = true) by (rewrite Ep; reflexivity).
    rewrite reg_clear_all_true.
    constructor; cbn.
    + intros g0 H. gcase g0 g; [apply L1, Hg|apply L1, H].
    + intros g0 H. gcase g0 g; [reflexivity|apply L2, H].
    + intros t0 w0 E. left. apply in_or_app. destruct (Lv _ _ E) as [C|R]; [right; exact C|].
      left. apply in_map_iff. exists (t0, w0). auto.
    + constructor.
    + intros t0 w0 [].
    + exact Id.
    + intros w0 C. apply in_app_or in C. destruct C as [C|C]; [|apply Ci, C].
      apply in_map_iff in C. destruct C as ([t0 w1] & E & C). cbn in E. subst w1.
      exact (Id _ _ (proj1 (Rc _ _ C))).
    + intros g0 t0 Ho H. gcase g0 g; [discriminate|].
      exfalso. apply Hne. apply Excl; [reflexivity|rewrite H; reflexivity].
    + intros g0 t0 w0 Ho H. gcase g0 g; [discriminate|].
      exfalso. apply Hne. apply Excl; [reflexivity|rewrite H; reflexivity].
    + intros g0 t0 w0 Ho H. gcase g0 g; [discriminate|eapply Dn; eauto].
    + reflexivity.
  - (* Clear, RCleared: unlock *)
    assert (Hg : holds (pc g) = true) by (rewrite Ep; reflexivity).
    constructor; cbn; try assumption.
    + intros g0 H. gcase g0 g; [discriminate|]. exfalso. apply Hne. apply Excl; [reflexivity|assumption].
    + intros g0 H. discriminate.
    + intros g0 t0 Ho H. gcase g0 g; [discriminate|eapply Cr; eauto].
    + intros g0 t0 w0 Ho H. gcase g0 g; [discriminate|eapply Hv; eauto].
    + intros g0 t0 w0 Ho H. gcase g0 g; [discriminate|eapply Dn; eauto].
    + intros g0 Ho H. gcase g0 g; [discriminate|eapply Cl; eauto].
Qed.

Lemma rrun_inv_from ops sched : forall s, RInv ops s -> RInv ops (rrun ops sched s).
Proof.
  induction sched as [|g r IH]; intros s I; [exact I|]. cbn [rrun fold_left]. apply IH, rstep_inv, I.
Qed.

Lemma rrun_inv ops sched : RInv ops (rrun ops sched rinit).
Proof. apply rrun_inv_from, rinv_init. Qed.

(* ---------- consequences, for every assignment of calls to goroutines and every schedule ---------- *)

(* mutual exclusion of the sections between Lock and Unlock *)
Lemma registry_mutex ops sched g1 g2 :
  let s := rrun ops sched rinit in
  holds (r_pc s g1) = true -> holds (r_pc s g2) = true -> g1 = g2.
Proof.
  cbn zeta. intros H1 H2. pose proof (rrun_inv ops sched) as I.
  pose proof (ri_lock1 _ _ I _ H1). pose proof (ri_lock1 _ _ I _ H2). congruence.
Qed.

(* at most one writer of a topic is alive (built and not closed), and it is the registered one *)
Lemma one_live_writer ops sched t w1 w2 :
  let s := rrun ops sched rinit in
  live s t w1 -> live s t w2 -> w1 = w2 /\ In (t, w1) (r_reg s).
Proof.
  cbn zeta. intros [C1 N1] [C2 N2]. pose proof (rrun_inv ops sched) as I.
  destruct (ri_live _ _ I _ _ C1) as [F|R1]; [contradiction|].
  destruct (ri_live _ _ I _ _ C2) as [F|R2]; [contradiction|].
  split; [|exact R1]. eapply fun_of_nodup; [exact (ri_fun _ _ I)|exact R1|exact R2].
Qed.

(* as long as nothing was closed, at most one writer per topic was ever built *)
Lemma one_writer_per_topic_ever ops sched t w1 w2 :
  let s := rrun ops sched rinit in
  r_closed s = [] -> In (t, w1) (r_created s) -> In (t, w2) (r_created s) -> w1 = w2.
Proof.
  cbn zeta. intros E C1 C2.
  apply (one_live_writer ops sched t w1 w2); split; try assumption; rewrite E; intros [].
Qed.

(* every producer of a topic is handed the same writer, the registered one *)
Lemma same_writer_for_all ops sched g1 g2 t w1 w2 :
  let s := rrun ops sched rinit in
  ops g1 = RGet t -> ops g2 = RGet t ->
  r_pc s g1 = RDone (Some w1) -> r_pc s g2 = RDone (Some w2) ->
  ~ In w1 (r_closed s) -> ~ In w2 (r_closed s) ->
  w1 = w2 /\ In (t, w1) (r_reg s).
Proof.
  cbn zeta. intros O1 O2 P1 P2 N1 N2. pose proof (rrun_inv ops sched) as I.
  apply (one_live_writer ops sched t w1 w2).
  - split; [exact (ri_done _ _ I _ _ _ O1 P1)|exact N1].
  - split; [exact (ri_done _ _ I _ _ _ O2 P2)|exact N2].
Qed.

(* at the moment a call is about to return a writer (it still holds the lock), that writer is
   the registered writer of its topic, alive *)
Lemma handed_out_is_registered ops sched g t w :
  let s := rrun ops sched rinit in
  ops g = RGet t -> r_pc s g = RHave w ->
  In (t, w) (r_reg s) /\ live s t w /\ r_lock s = Some g.
Proof.
  cbn zeta. intros O P. pose proof (rrun_inv ops sched) as I.
  pose proof (ri_have _ _ I _ _ _ O P) as R. split; [exact R|]. split.
  - exact (ri_regc _ _ I _ _ R).
  - apply (ri_lock1 _ _ I). rewrite P. reflexivity.
Qed.

(* ClearEventWriters: when it has done its work (before it unlocks) every writer ever built has
   been closed and the registry is empty *)
Lemma clear_closes_all ops sched g :
  let s := rrun ops sched rinit in
  ops g = RClear -> r_pc s g = RCleared ->
  r_reg s = [] /\ forall t w, In (t, w) (r_created s) -> In w (r_closed s).
Proof.
  cbn zeta. intros O P. pose proof (rrun_inv ops sched) as I.
  pose proof (ri_clr _ _ I _ O P) as E. split; [exact E|].
  intros t w C. destruct (ri_live _ _ I _ _ C) as [F|R]; [exact F|]. rewrite E in R. destruct R.
Qed.

Lemma registry_discipline :
  er_lock_exclusive = true /\ er_check_under_lock = true /\ er_write_under_lock = true /\
  er_returns_stored = true /\ er_entry_sync = true /\
  er_clear_locked = true /\ er_clear_closes_each = true /\ er_clear_empties = true.
Proof. repeat split; reflexivity. Qed.

(* non-vacuity: three producers of topic 7 and one of topic 8 interleaved (two of them wait for
   the lock), then a Clear; one writer per topic, everybody got it, all closed at the end *)
Definition ex_ops : nat -> rop :=
  fun g => match g with 0 | 1 | 2 => RGet 7 | 3 => RGet 8 | _ => RClear end%nat.
Definition ex_sched : list nat :=
  [0; 1; 2; 3; 0; 1; 2; 3; 0; 1; 0; 0; 1; 2; 1; 1; 1; 2; 2; 2; 3; 3; 3; 3; 4; 4; 4]%nat.
Lemma registry_example :
  let s := rrun ex_ops ex_sched rinit in
  r_pc s 0%nat = RDone (Some 0) /\ r_pc s 1%nat = RDone (Some 0) /\ r_pc s 2%nat = RDone (Some 0) /\
  r_pc s 3%nat = RDone (Some 1) /\ r_pc s 4%nat = RCleared /\
  r_created s = [(8, 1); (7, 0)] /\ r_closed s = [1; 0].
Proof. vm_compute. repeat split; reflexivity. Qed.
