(* C12, identity of per-command objects: a completion signal (a responder blocked on the Done
   channel of a call) that was left over by a command can never complete, fail or alter a later
   command, because every registration allocates a call that no responder has ever seen.
   Also: harness scripts with held steps are runs. *)
From Coq Require Import Permutation.
From Verif Require Import Common CmdQueue CmdQueue_proofs.
Open Scope N_scope.

(* no worker of the commit in progress owns call c *)
Definition unowned (st : state) (c : N) : Prop :=
  forall k w ws, s_cur st = Some k -> nth_error (k_workers k) w = Some ws ->
                 holds_call ws c = false.

Lemma holds_false_of_neq ws c d : holds_call ws d = true -> c <> d -> holds_call ws c = false.
Proof.
  destruct ws; cbn; try reflexivity; intros A B; apply N.eqb_eq in A; subst;
    apply N.eqb_neq; exact B.
Qed.

(* updating a worker to a state that holds the same call as before (or none) keeps c unowned *)
Lemma unowned_set st k w ws ws' c (rest : state -> state) :
  s_cur st = Some k -> nth_error (k_workers k) w = Some ws ->
  unowned st c -> (holds_call ws c = false -> holds_call ws' c = false) ->
  forall w0 ws0, nth_error (set_nth w ws' (k_workers k)) w0 = Some ws0 -> holds_call ws0 c = false.
Proof.
  intros C W U HH w0 ws0 W0. apply nth_error_set_nth in W0. destruct W0 as [[-> ->]|[NE W0]].
  - apply HH. eapply U; eassumption.
  - eapply U; eassumption.
Qed.

Lemma stale_step_rel h st l st' c p :
  InvA h st -> In (c, p) (s_offers st) -> unowned st c -> step_rel st l st' ->
  In (c, p) (s_offers st') /\ unowned st' c.
Proof.
  intros IA IN U R. pose proof (a_fresh_o _ _ IA _ _ IN) as FR.
  destruct R; simp.
  - (* enqueue *) split; [exact IN|]. intros k0 w0 ws0 C0. simp. apply U, C0.
  - (* start *) split; [exact IN|]. intros k0 w0 ws0 C0 W0. simp. som. simp.
    apply nth_error_repeat in W0. subst. reflexivity.
  - (* register: the new call is s_next, and c < s_next *)
    split; [exact IN|]. intros k0 w0 ws0 C0 W0. simp. som. simp.
    eapply (unowned_set st k w WInit (WReg (s_next st)) c (fun x => x)); try eassumption.
    intros _. cbn. apply N.eqb_neq. lia.
  - split; [exact IN|]. intros k0 w0 ws0 C0 W0. simp. som. simp.
    eapply (unowned_set st k w (WReg c0) (WWait c0) c (fun x => x)); try eassumption.
    cbn. trivial.
  - split; [exact IN|]. intros k0 w0 ws0 C0 W0. simp. som. simp.
    eapply (unowned_set st k w (WReg c0) (WFail c0) c (fun x => x)); try eassumption.
    cbn. trivial.
  - split; [exact IN|]. intros k0 w0 ws0 C0 W0. simp. som. simp.
    eapply (unowned_set st k w (WFail c0) WFin c (fun x => x)); try eassumption.
    cbn. trivial.
  - (* receive: the offer taken is the one of the worker's own call, which is not c *)
    assert (NE : c <> c0).
    { intro E. subst c0. pose proof (U _ _ _ H H0) as X. cbn in X. rewrite N.eqb_refl in X.
      discriminate. }
    split; [apply In_offer_del_other; assumption|].
    intros k0 w0 ws0 C0 W0. simp. som. simp.
    eapply (unowned_set st k w (WWait c0) WFin c (fun x => x)); try eassumption.
    cbn. trivial.
  - split; [exact IN|]. intros k0 w0 ws0 C0 W0. simp. som. simp.
    eapply (unowned_set st k w (WWait c0) (WTimedOut c0) c (fun x => x)); try eassumption.
    cbn. trivial.
  - split; [exact IN|]. intros k0 w0 ws0 C0 W0. simp. som. simp.
    eapply (unowned_set st k w (WTimedOut c0) WFin c (fun x => x)); try eassumption.
    cbn. trivial.
  - (* deliver, matched: one more offer *)
    split; [right; exact IN|]. intros k0 w0 ws0 C0. simp. apply U, C0.
  - split; [exact IN|exact U].
  - split; [exact IN|]. intros k0 w0 ws0 C0. simp. discriminate.
Qed.

Lemma stale_step sched l c p :
  In (c, p) (s_offers (run sched)) -> unowned (run sched) c ->
  In (c, p) (s_offers (run (sched ++ [l]))) /\ unowned (run (sched ++ [l])) c.
Proof.
  intros IN U. rewrite run_snoc. destruct (step_cases (run sched) l) as [R|[_ E]].
  - eapply stale_step_rel; [apply invA_run|exact IN|exact U|exact R].
  - rewrite E. split; assumption.
Qed.

(* A responder left blocked on a call that no worker owns any more stays blocked for ever, and
   no worker ever owns that call again: whatever is enqueued, sent, answered or timed out
   afterwards, its completion signal is never received by anybody. *)
Lemma stale_offer_forever sched c p :
  In (c, p) (s_offers (run sched)) -> unowned (run sched) c ->
  forall ext, In (c, p) (s_offers (run (sched ++ ext))) /\ unowned (run (sched ++ ext)) c.
Proof.
  intros IN U ext. induction ext as [|l ext IH] using rev_ind.
  - rewrite app_nil_r. split; assumption.
  - rewrite app_assoc. destruct IH as [IN' U']. apply stale_step; assumption.
Qed.

(* once no command is in progress every blocked responder is stale *)
Lemma idle_unowned st c : s_cur st = None -> unowned st c.
Proof. intros C k w ws C0. rewrite C in C0. discriminate. Qed.

(* the call a worker receives its completion from is a call allocated by that very worker's
   registration: two workers (of any commands) never share one *)
Lemma calls_never_shared sched k w1 w2 ws1 ws2 c :
  s_cur (run sched) = Some k ->
  nth_error (k_workers k) w1 = Some ws1 -> nth_error (k_workers k) w2 = Some ws2 ->
  holds_call ws1 c = true -> holds_call ws2 c = true -> w1 = w2.
Proof. intros. eapply (a_uniq _ _ (invA_run sched)); eassumption. Qed.

(* ---------- held harness scripts are runs ---------- *)
Lemma hrunh_is_run_from holds : forall script i st,
  exists s, hrunh_from holds i st script = run_from st s /\
            forall l, In l s -> In l script \/ internal_label l = true.
Proof.
  induction script as [|l script IH]; intros i st; cbn [hrunh_from].
  - exists []. split; [reflexivity|intros l []].
  - destruct (memN i holds).
    + destruct (IH (N.succ i) (step st l)) as (s2 & E2 & A2).
      exists (l :: s2). split; [rewrite E2; reflexivity|].
      intros x [<-|X]; [left; left; reflexivity|].
      destruct (A2 x X) as [Y|Y]; [left; right; exact Y|right; exact Y].
    + unfold settle.
      destruct (settle_fuel_run (measure (step st l)) (step st l)) as (s1 & E1 & A1).
      rewrite E1. destruct (IH (N.succ i) (run_from (step st l) s1)) as (s2 & E2 & A2).
      exists (l :: s1 ++ s2). split.
      * rewrite E2. cbn [run_from fold_left].
        change (fold_left step (s1 ++ s2) (step st l)) with (run_from (step st l) (s1 ++ s2)).
        rewrite run_from_app. reflexivity.
      * intros x [<-|X]; [left; left; reflexivity|]. apply in_app_or in X. destruct X as [X|X].
        -- right. apply A1, X.
        -- destruct (A2 x X) as [Y|Y]; [left; right; exact Y|right; exact Y].
Qed.

Lemma hrunh_is_run holds script :
  exists sched, hrunh holds script = run sched /\
                forall l, In l sched -> In l script \/ internal_label l = true.
Proof.
  unfold hrunh, settle.
  destruct (settle_fuel_run (measure init) init) as (s0 & E0 & A0). rewrite E0.
  destruct (hrunh_is_run_from holds script 0 (run_from init s0)) as (s & E & A).
  exists (s0 ++ s). split.
  - rewrite E. unfold run. rewrite run_from_app. reflexivity.
  - intros l X. apply in_app_or in X. destruct X as [X|X]; [right; apply A0, X|apply A, X].
Qed.

Lemma hrunh_nil script : hrunh [] script = hrun script.
Proof.
  unfold hrunh, hrun. generalize (settle init) as st. generalize 0 as i.
  induction script as [|l r IH]; intros i st; [reflexivity|].
  cbn [hrunh_from fold_left memN existsb]. rewrite IH. reflexivity.
Qed.

(* ---------- the forced schedule: a late reply races the time-out of its own command ------- *)
(* command 1 to target 7: the timer wins the select, THEN the reply of 7 takes the call out of
   pending (held step), the clean-up follows; command 2 to target 8 runs afterwards and is
   answered by 8. *)
Definition alias_script : list label :=
  [LEnqueue (mkCmd 1 [7]); LSendOk 1 0; LTimeout 1 0; LDeliver 1 7 51;
   LEnqueue (mkCmd 2 [8]); LSendOk 2 0; LDeliver 2 8 60].
Definition alias_holds : list N := [2].

Lemma alias_witness :
  let st := hrunh alias_holds alias_script in
  s_out st = [(mkCmd 1 [7], RSingle ETimeout); (mkCmd 2 [8], RSingle (EReply 60))] /\
  s_offers st = [(0, 51)] /\ s_pending st = [] /\ s_cur st = None /\
  model_when alias_holds alias_script = [4; 7] /\
  (* after the fifth step command 2 is waiting for target 8 and the responder of command 1 is
     blocked on a call nobody owns *)
  (let mid := hrunh alias_holds (firstn 6 alias_script) in
   In (0, 51) (s_offers mid) /\ unowned mid 0 /\
   exists k, s_cur mid = Some k /\ k_cmd k = mkCmd 2 [8] /\ k_workers k = [WWait 1]).
Proof.
  vm_compute. repeat split; try reflexivity.
  - left. reflexivity.
  - intros k w ws C W. inversion C. subst k. cbn in W.
    destruct w as [|w]; cbn in W; [inversion W; reflexivity|destruct w; discriminate].
  - eexists. repeat split; reflexivity.
Qed.

(* ---------- no worker waits for another worker ---------- *)
(* The move a worker is waiting to make is enabled by its own state alone, whatever the other
   workers of the command are doing: registering and sending (WInit), the return of SendFunc
   (WReg), its own timer (WWait), its clean-ups. *)
Lemma worker_moves_independent st k w ws t :
  s_cur st = Some k -> nth_error (k_workers k) w = Some ws ->
  nth_error (c_targets (k_cmd k)) w = Some t ->
  match ws with
  | WInit => enabled st (LRegister w) = true
  | WReg _ => enabled st (LSendOk (c_id (k_cmd k)) w) = true /\
              enabled st (LSendErr (c_id (k_cmd k)) w) = true
  | WWait _ => enabled st (LTimeout (c_id (k_cmd k)) w) = true
  | WFail _ => enabled st (LFailCleanup w) = true
  | WTimedOut _ => enabled st (LTimeoutCleanup w) = true
  | WFin => True
  end.
Proof.
  intros C W T. unfold enabled. destruct ws; cbn [step_opt];
    rewrite ?(worker_at_intro _ _ _ _ _ C W T), ?N.eqb_refl; try split; try reflexivity; exact I.
Qed.
